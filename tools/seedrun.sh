#!/bin/bash
# usage: tools/seedrun.sh <seeded id> [props...]   -- apply seeded/<id>/patch.diff to a scratch worktree of /repo's
# HEAD, run the named checks (default: the seed's own property) against it, record the outcome in meta.json.
id=$1; shift
cd /verif
prop=${id%%-*}
props=${@:-$prop}
wt=/tmp/seedwt-$id
git -C /repo worktree remove --force $wt 2>/dev/null
git -C /repo worktree add --detach $wt HEAD -q || exit 2
pf=/verif/seeded/$id/patch.diff; ported=$(ls /verif/seeded/$id/patch.ported*.diff 2>/dev/null | head -1); git -C $wt apply --check $pf 2>/dev/null || { [ -n "$ported" ] && pf=$ported; }
git -C $wt apply $pf || { echo "$id: patch does not apply"; git -C /repo worktree remove --force $wt; exit 2; }
res=""
for p in $props; do
  cp /verif/evidence/$p.json /tmp/seedrun.$id.ev.$p 2>/dev/null
  VERIF_REPO=$wt timeout 1500 ./check $p > /tmp/seedrun.$id.log 2>&1; rc=$?
  # the evidence file must describe /repo itself, not the seeded tree: put back what was there before this run
  [ -f /tmp/seedrun.$id.ev.$p ] && mv /tmp/seedrun.$id.ev.$p /verif/evidence/$p.json
  line=$(grep -E "^VIOLATION" /tmp/seedrun.$id.log | head -1 | cut -c1-200)
  echo "$id $p exit=$rc $line"
  res="$res$p exit=$rc $line; "
done
python3 - "$id" "$res" <<'PY'
import json,sys,re
p='/verif/seeded/%s/meta.json'%sys.argv[1]; m=json.load(open(p))
r=m.get('results') or {}
for part in [x.strip() for x in sys.argv[2].split(';') if x.strip()]:
    r[part.split()[0]]=part
m['results']=r; m['check_result']='; '.join(r[k] for k in sorted(r)); json.dump(m,open(p,'w'),indent=1)
PY
# restore the generated Coq tables: they must describe /repo itself, not the seeded tree
git -C /verif checkout -- coq/gen 2>/dev/null
git -C /repo worktree remove --force $wt; rm -f /tmp/seedrun.$id.log
tag=$(python3 -c "import hashlib,sys;print(hashlib.sha1(sys.argv[1].encode()).hexdigest()[:8])" $wt); rm -rf /verif/build/bin-$tag /verif/build/gomod-$tag
