#!/bin/bash
# Re-check every props module (and everything it depends on) with the independent checker coqchk and
# record the context summary (axioms, type-in-type, unsafe fixpoints, assumed positivity) per property.
cd "$(dirname "$0")/../coq"
Q=$(grep '^-Q' _CoqProject | tr '\n' ' ')
mkdir -p ../build/coqchk
ls props/C*.v | sed 's|props/||; s|\.v||' | xargs -P ${COQCHK_JOBS:-6} -I{} bash -c "timeout 7200 coqchk -silent -o $Q VProps.{} > ../build/coqchk/{}.log 2>&1; echo {} rc=\$?"
python3 - <<'PY'
import glob, json, os, re
out = {}
for p in sorted(glob.glob('../build/coqchk/C*.log')):
    t = open(p).read()
    def sec(name):
        m = re.search(r'\* ' + re.escape(name) + r':\s*(.*?)(?=\n\s*\n\* |\Z)', t, re.S)
        return ' '.join(m.group(1).split()) if m else 'MISSING'
    out[os.path.basename(p)[:-4]] = {'axioms': sec('Axioms'), 'type_in_type': sec('Constants/Inductives relying on type-in-type'),
        'unsafe_fixpoints': sec('Constants/Inductives relying on unsafe (co)fixpoints'), 'assumed_positivity': sec('Inductives whose positivity is assumed'),
        'ok': 'CONTEXT SUMMARY' in t}
json.dump(out, open('../docs/coqchk_summary.json', 'w'), indent=1)
bad = [k for k, v in out.items() if not v['ok'] or v['axioms'] != '<none>']
print('modules checked:', len(out), 'with axioms or failures:', bad)
PY
