#!/usr/bin/env python3
"""Intake of seeded changes: confirm in the seed agent's worktree, store under seeded/<id>/, run the check(s).
usage: seedbatch.py spec.json   spec = [{id, src, wt, dest, cmd:[...], needs, props:[...]?}]"""
import json, os, shutil, subprocess, sys
P = "./amd/insts/... ./amd/emu/cdna3/... ./amd/kernels/... ./amd/bitops/... ./amd/timing/cp/internal/resource/..."
for it in json.load(open(sys.argv[1])):
    r = subprocess.run(['/verif/tools/seedconfirm2.sh', it['wt'], it['src'], it['dest'], it.get('pkgs', P)] + it['cmd'],
                       capture_output=True, text=True)
    out = r.stdout.strip().split('\n')
    ok = ('build-with-patch: ok' in out and 'pinned-pkg-tests-with-patch: pass' in out and
          'demo-with-patch: fails (good)' in out and 'demo-without-patch: pass (good)' in out)
    print(it['id'], 'CONFIRMED' if ok else 'NOT CONFIRMED: ' + ' | '.join(out))
    if not ok:
        continue
    dst = '/verif/seeded/' + it['id']
    if os.path.exists(dst):
        shutil.rmtree(dst)
    shutil.copytree(it['src'], dst)
    json.dump({'id': it['id'], 'property': it['id'].split('-')[0], 'needs_to_manifest': it['needs'],
               'source': 'independent sub-agent (later round) given only the property text, one-line descriptions of the first round, and a scratch worktree',
               'confirmed': {'how': 'tools/seedconfirm2.sh in a scratch worktree', 'build_with_patch': 'ok',
                             'pinned_package_tests_with_patch': 'pass', 'demo_with_patch': 'fails', 'demo_without_patch': 'passes'},
               'check_result': None}, open(dst + '/meta.json', 'w'), indent=1)
    r = subprocess.run(['/verif/tools/seedrun.sh', it['id']] + it.get('props', []), capture_output=True, text=True)
    print('\n'.join(l for l in r.stdout.split('\n') if l.startswith(it['id'])))
