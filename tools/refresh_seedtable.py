#!/usr/bin/env python3
"""Replace the generated seed table in DESIGN.md (between the SEEDTABLE markers) by the current one."""
import os, re, subprocess
root = os.path.dirname(os.path.dirname(os.path.abspath(__file__)))
tab = subprocess.run(['python3', os.path.join(root, 'tools', 'seedtable.py')], capture_output=True, text=True).stdout.strip()
p = os.path.join(root, 'DESIGN.md')
s = open(p).read()
a = s.index('<!-- SEEDTABLE:BEGIN')
a = s.index('\n', a) + 1
b = s.index('<!-- SEEDTABLE:END -->')
open(p, 'w').write(s[:a] + tab + '\n' + s[b:])
rows = tab.split('\n')[2:]
print(len(rows), 'rows;', sum('**missed**' in r for r in rows), 'rows with a miss')
for r in rows:
    if '**missed**' in r:
        print(r.split('|')[1].strip(), '->', r.split('|')[3].strip())
