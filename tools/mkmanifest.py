#!/usr/bin/env python3
"""Assemble MANIFEST.json from tools/checks/*.json fragments and tools/manifest_base.json."""
import glob, json, os
root = os.path.dirname(os.path.dirname(os.path.abspath(__file__)))
base = json.load(open(os.path.join(root, 'tools', 'manifest_base.json')))
checks = []
integrated = set(open(os.path.join(root, 'tools', 'integrated.txt')).read().split())
for p in sorted(glob.glob(os.path.join(root, 'tools', 'checks', 'c[0-9][0-9].json'))):
    c = json.load(open(p))
    if c['property_id'] in integrated:
        checks.append(c)
base['checks'] = checks
claimed = {c['property_id'] for c in checks}
props = [json.loads(l)['id'] for l in open(os.path.join(root, 'properties.jsonl'))]
na = {x['property_id']: x for x in base.get('not_applicable', [])}
base['not_applicable'] = [na.get(p, {'property_id': p, 'reason': 'check not built yet in this round; see DESIGN.md §3 for the planned model, theorems and tie'})
                          for p in props if p not in claimed]
json.dump(base, open(os.path.join(root, 'MANIFEST.json'), 'w'), indent=1)
print('claimed', sorted(claimed))
