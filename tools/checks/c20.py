"""C20 - NVIDIA trace-driven simulation conserves work and terminates; parsing a
serialised trace returns the structure that was serialised.

Theorems: coq/props/C20.v over coq/nv/NvSim.v (simulation) and coq/nv/NvTrace.v
(trace reader).  Tie, simulation: the real platform (driver, GPUs, SMs,
sub-cores from their builders, 1-3 devices x 1-4 SMs x 1-4 sub-cores, ragged
and degenerate traces) runs under the real serial engine; an engine hook
records every handled event and a digest of the ticked component; the model
replays the same event sequence and must find every event enabled, produce the
same digests, the same final state and an empty event queue.  Tie, reader:
kernel structures printed to trace files and parsed by the real tracereader,
compared with the model's parse (module c20_trace)."""
import json, os, sys, collections, importlib.util
from concurrent.futures import ThreadPoolExecutor
sys.path.insert(0, os.path.dirname(os.path.dirname(os.path.abspath(__file__))))
import vlib

_spec = importlib.util.spec_from_file_location('c20_trace', os.path.join(os.path.dirname(os.path.abspath(__file__)), 'c20_trace.py'))
T = importlib.util.module_from_spec(_spec)
_spec.loader.exec_module(T)

PROP = 'C20'
HEADER = ('From Coq Require Import List NArith ZArith.\nImport ListNotations.\n'
          'From VNv Require Import NvSim.\nOpen Scope N_scope.\n')
COQ_TARGETS = ['props/C20.vo']
CODES = {1: 'final states differ', 2: 'the engine stopped but the model still has queued events',
         3: 'number of observations differs', 4: 'the platform shape is not a well-formed tree'}


def code_text(k):
    if k >= 2000:
        return 'state digest after event %d differs' % (k - 2000)
    if k >= 1000:
        return 'event %d was handled by the engine but is not queued in the model' % (k - 1000)
    return CODES.get(k, 'code %d' % k)


# ---------------------------------------------------------------- simulation: monitor

def levels(case):
    kids = case.get('kids', [])
    lv = [[0]]
    while lv[-1]:
        lv.append([c for p in lv[-1] for c in kids[p]])
    return lv


def sim_monitor(case):
    """Property C20 on one observed run of the real platform; sound (flags only
    what the property forbids).  Returns a text or None."""
    if case.get('crash'):
        return 'the simulation panicked: %s' % case['crash']
    if case.get('timeout'):
        return 'the run did not terminate within %d events' % case['nevents']
    fin = case.get('final', [])
    kids = case.get('kids', [])
    if case['unfinished'] != 0:
        return 'engine stopped with %d kernel(s) not reported finished' % case['unfinished']
    for u, st in enumerate(fin):
        if st['unfin'] != 0 or st['fin'] != 0 or st['undisp'] != 0 or any(st['bufs']):
            return 'unit %d is not idle at the end: unfinished %d, unreported %d, undispatched %d, buffers %s' % (
                u, st['unfin'], st['fin'], st['undisp'], st['bufs'])
        if kids[u] and sorted(st['free']) != sorted(kids[u]):
            return 'unit %d: free list %s is not the set of its children %s' % (u, st['free'], kids[u])
    lv = levels(case)
    warps = sum(len(b) for k in case['kernels'] for b in k)
    insts = sum(n for k in case['kernels'] for b in k for n in b)
    got_w = sum(fin[u]['total'] for u in (lv[2] if len(lv) > 2 else []))
    got_i = sum(fin[u]['total'] for u in (lv[3] if len(lv) > 3 else []))
    # what was executed = what the generator wrote (counted here, from the generator's structure, never from the reader)
    if 'kernels_run' in case and case['kernels_run'] != len(case['kernels']):
        return '%d kernels were handed to a device, the trace has %d' % (case['kernels_run'], len(case['kernels']))
    blocks = sum(len(k) for k in case['kernels'])
    if 'blocks_run' in case and case['blocks_run'] != blocks:
        return '%d thread blocks were handed to an SM, the trace has %d' % (case['blocks_run'], blocks)
    if got_w != warps:
        return 'SMs received %d warps, the trace has %d' % (got_w, warps)
    if got_i != insts:
        return 'sub-cores executed %d instructions, the trace has %d' % (got_i, insts)
    return None


def sim_strip(c):
    return {'gpus': c['gpus'], 'freq': c['freq'], 'kernels': c['kernels'], **({'tag': c['tag']} if c.get('tag') else {}),
            **({'via_files': True} if c.get('via_files') else {}),
            **{k: c[k] for k in ('file_style', 'name_len', 'inst_addrs') if c.get(k)}}


def sim_nontrivial(c):
    """at least two thread blocks and at least three warps were run to completion on a platform with >= 2 sub-cores"""
    blocks = sum(len(k) for k in c['kernels'])
    warps = sum(len(b) for k in c['kernels'] for b in k)
    return blocks >= 2 and warps >= 3 and len(c.get('kids', [])) >= 5 and not c.get('timeout')


def run_bin(binary, mode, cases=None, seed=1, n=10):
    tmp = os.path.join(vlib.BUILD, 'c20_%s_%d.json' % (mode, os.getpid()))
    if cases is not None:
        inp = tmp + '.in'
        json.dump(cases, open(inp, 'w'))
        rc, log = vlib.run([binary, mode, '--replay', inp, '--out', tmp], timeout=600)
        os.remove(inp)
    else:
        rc, log = vlib.run([binary, mode, '--seed', str(seed), '--n', str(n), '--out', tmp], timeout=600)
    if rc != 0 or not os.path.exists(tmp):
        return None, log
    out = json.load(open(tmp))
    os.remove(tmp)
    return out, log


def shrink_sim(binary, case):
    """smaller failing input: drop kernels, then blocks, then warps, then units"""
    def fails(c):
        out, _ = run_bin(binary, 'sim', cases=[sim_strip(c)])
        return bool(out) and sim_monitor(out[0]) is not None
    cur = sim_strip(case)
    for key in ('via_files', 'file_style', 'name_len', 'inst_addrs'):   # drop what is not needed to fail
        if cur.get(key):
            c2 = {k: v for k, v in cur.items() if k != key}
            if key == 'via_files':
                c2 = {k: v for k, v in c2.items() if k not in ('file_style', 'name_len', 'inst_addrs')}
            if fails(c2):
                cur = c2
    ks = vlib.ddmin(cur['kernels'], lambda ks: fails(dict(cur, kernels=ks)), budget=30)
    cur = dict(cur, kernels=ks)
    for i in range(len(cur['kernels'])):
        bs = vlib.ddmin(cur['kernels'][i], lambda bs: fails(dict(cur, kernels=cur['kernels'][:i] + [bs] + cur['kernels'][i + 1:])), budget=20)
        cur = dict(cur, kernels=cur['kernels'][:i] + [bs] + cur['kernels'][i + 1:])
    for i in range(len(cur['kernels'])):
        for j in range(len(cur['kernels'][i])):
            def with_warps(ws, i=i, j=j):
                k = cur['kernels'][i][:j] + [ws] + cur['kernels'][i][j + 1:]
                return dict(cur, kernels=cur['kernels'][:i] + [k] + cur['kernels'][i + 1:])
            ws = vlib.ddmin(cur['kernels'][i][j], lambda ws: fails(with_warps(ws)), budget=12)
            cur = with_warps(ws)
    g0 = cur['gpus'][0]
    for cand in ([{'sms': 1, 'subs': 1}], [{'sms': 1, 'subs': 2}], [{'sms': 1, 'subs': g0['subs']}],
                 [{'sms': g0['sms'], 'subs': 1}], cur['gpus'][:1]):
        c2 = dict(cur, gpus=cand)
        if fails(c2):
            cur = c2
            break
    out, _ = run_bin(binary, 'sim', cases=[cur])
    return out[0] if out else case


def load_corpus(prefix):
    d = os.path.join(vlib.ROOT, 'corpus', PROP)
    res = []
    if os.path.isdir(d):
        for p in sorted(os.listdir(d)):
            if p.startswith(prefix) and p.endswith('.json'):
                res += json.load(open(os.path.join(d, p)))
    return res


def main(argv):
    rep = vlib.Report(PROP, 'proof')
    rep.checker_cmd = ('make -C coq props/C20.vo && coqc props/C20.v (Print Assumptions) && '
                       'coqc cases/C20/s*.v (vm_compute NvSim.mismatches) && coqc cases/C20T/s*.v (vm_compute NvTrace.trace_mismatches)')
    rep.trusted = ['Coq 8.16.1 kernel + vm_compute',
                   'hand-written models coq/nv/NvSim.v (driver/gpu/sm/subcore + akita port, direct connection, tick scheduler, serial engine) '
                   'and coq/nv/NvTrace.v (tracereader, fmt.Sscanf/strconv.Atoi on the tokens used)',
                   'Go harness harness/cmd/c20 (engine hook, reflection on private counters and port buffers, trace-file printer)',
                   'int64 counters do not overflow; instruction counts are >= 0 (they are lengths in the real reader)']
    rep.assumptions = ['theorems: any tree-shaped platform, any trace, any order in which the engine handles queued events; '
                       'the sampled runs only decide whether the real components and the real engine still behave like the model',
                       'trace files: tokens without white space, instruction lines do not start with a keyword of the format']
    thorough = vlib.tier() == 'thorough'
    n_sim = 400 if thorough else 64
    n_trace = 2500 if thorough else 700

    replay_file = argv[argv.index('--replay') + 1] if '--replay' in argv else None

    ok, log, binary = vlib.go_build('c20')
    rep.obligation('harness builds against the repo working tree', ok)
    if not ok:
        rep.violation({'broken': 'go build of harness/cmd/c20 failed', 'log': log[-4000:]}, nofail=True, text='harness build failed')
        return rep.finish()

    ok, log = vlib.coq_build(COQ_TARGETS)
    if not ok:
        rep.obligation('coq build', False)
        rep.violation({'broken': 'Coq development for C20 does not compile', 'log': log[-4000:]}, nofail=True)
        return rep.finish()
    # Print Assumptions of props/C20.v is collected while the harness and the model evaluations run
    pool = ThreadPoolExecutor(max_workers=3)
    props_future = pool.submit(vlib.coq_check_props, PROP)

    # ---- inputs
    sim_cases, trace_cases = [], []
    if replay_file:
        obj = json.load(open(replay_file))
        src = obj.get('case') or obj.get('cases') or obj
        src = src if isinstance(src, list) else [src]
        if obj.get('part') == 'trace' or (src and 'kernel' in src[0]):
            trace_cases, log = run_bin(binary, 'trace', cases=[{'kernel': c['kernel']} for c in src])
        else:
            sim_cases, log = run_bin(binary, 'sim', cases=[sim_strip(c) for c in src])
        if sim_cases is None or trace_cases is None:
            rep.violation({'broken': 'harness run failed', 'log': log[-4000:]}, nofail=True)
            return rep.finish()
    else:
        cs = load_corpus('sim')
        if cs:
            out, log = run_bin(binary, 'sim', cases=[sim_strip(c) for c in cs])
            sim_cases += out or []
        gen, log = run_bin(binary, 'sim', seed=vlib.seed(), n=n_sim)
        if gen is None:
            rep.obligation('harness run (sim)', False)
            rep.violation({'broken': 'harness run failed', 'log': log[-4000:]}, nofail=True)
            return rep.finish()
        sim_cases += gen
        ct = load_corpus('trace')
        if ct:
            out, log = run_bin(binary, 'trace', cases=[{'kernel': c['kernel']} for c in ct])
            trace_cases += out or []
        gen, log = run_bin(binary, 'trace', seed=vlib.seed(), n=n_trace)
        if gen is None:
            rep.obligation('harness run (trace)', False)
            rep.violation({'broken': 'harness run failed', 'log': log[-4000:]}, nofail=True)
            return rep.finish()
        trace_cases += gen

    # ---- monitors on what the implementation did
    sim_bad = [(i, m) for i, m in ((i, sim_monitor(c)) for i, c in enumerate(sim_cases)) if m]
    tv = [T.monitor(c) for c in trace_cases]
    trace_bad = [(i, v[1]) for i, v in enumerate(tv) if v and v[0] == 'violation']
    trace_known = [(i, v[1]) for i, v in enumerate(tv) if v and v[0] == 'known']

    # ---- the models on the same inputs
    f1 = pool.submit(vlib.eval_cases, PROP, HEADER, [c['coq'] for c in sim_cases], 5) if sim_cases else None
    f2 = pool.submit(vlib.eval_cases, PROP + 'T', T.HEADER, T.coq_terms(trace_cases), 30, T.CHECKER) if trace_cases else None
    okp, plog, thms = props_future.result()
    if not okp:
        rep.obligation('coq build', False)
        rep.violation({'broken': 'coq/props/C20.v does not compile', 'log': plog[-4000:]}, nofail=True)
        return rep.finish()
    for name, axioms in thms:
        rep.obligation('theorem ' + name + (' [axioms: %s]' % ', '.join(axioms) if axioms else ' [closed under the global context]'), True)
    ok1, mism1, log1 = f1.result() if f1 else (True, [], '')
    rep.obligation('correspondence: %d runs of the real platform replayed event by event in the model' % len(sim_cases), ok1 and not mism1)
    ok2, mism2, log2 = f2.result() if f2 else (True, [], '')
    rep.obligation('correspondence: %d trace files parsed by the real reader and by the model' % len(trace_cases), ok2 and not mism2)

    ev_hist = collections.Counter()
    for c in sim_cases:
        for e in c.get('events', []):
            ev_hist['advance' if e == 0 else ('tick' if e % 2 == 1 else 'connection')] += 1
    shapes = collections.Counter('%dx%s' % (len(c['gpus']), ','.join('%d/%d' % (g['sms'], g['subs']) for g in c['gpus'])) for c in sim_cases)
    rep.coverage.update({
        'evaluations': len(sim_cases) + len(trace_cases),
        'distinct_nontrivial': len({vlib.case_hash(sim_strip(c)) for c in sim_cases if sim_nontrivial(c)})
                               + len({vlib.case_hash(c['kernel']) for c in trace_cases if T.nontrivial(c)}),
        'rule': 'sim: 1-4 devices x 1-8 SMs x 1-8 sub-cores in four profiles (small 1-3x1-4x1-4; wide: 5-8 sub-cores per SM with blocks of 5-12 warps '
                'and more blocks than SMs; many: 5-8 SMs per device with 9-14 blocks per kernel; mixed: anything up to 4x8x8); per-device shapes differ in 2/3 of the cases, 1-3 kernels, ragged blocks/warps, '
                'every fifth case loads its kernels from printed trace files through BenchmarkBuilder with >= 4 launches that all share the launch configuration and one of two kernel names (bodies differ); '
                'these directories vary the line ends (LF / CRLF list / CRLF everywhere / blank lines, no final newline), kernel-name lines of 1000-60000 bytes and instruction lines up to 45 kB; '
                'a stagger profile (completion reports of all devices in the same cycle with an empty kernel queue); monitor: kernels, blocks, warps, instructions executed = written by the generator; '
                'every third case with 0-instruction warps / 0-warp blocks / 0-block kernels, both clock configurations (components 1 Hz with 1 GHz '
                'connections as nvidia.go, and all 1 GHz); non-trivial = at least 2 thread blocks and 3 warps on at least 2 sub-cores. '
                'trace: every ~12th case is a group of 3-5 kernel files of ONE directory (shared name + launch configuration, different bodies, Memcpy lines in between) read one after another and re-read in reverse order in the same process; '
                'streams valid / wide (beyond field widths, unknown registers) / lines (damaged files); non-trivial = has a memory instruction or is a raw-lines case',
        'sim_cases': len(sim_cases), 'trace_cases': len(trace_cases),
        'engine_events_replayed': sum(c.get('nevents', 0) for c in sim_cases),
        'event_histogram': dict(ev_hist),
        'platform_shapes': len(shapes),
        'profiles': dict(collections.Counter(c.get('tag') or 'small' for c in sim_cases)),
        'max_subcores_per_sm': max([g['subs'] for c in sim_cases for g in c['gpus']] or [0]),
        'max_sms_per_device': max([g['sms'] for c in sim_cases for g in c['gpus']] or [0]),
        'max_warps_per_block': max([len(b) for c in sim_cases for k in c['kernels'] for b in k] or [0]),
        'degenerate_sim_cases': sum(1 for c in sim_cases if any(len(k) == 0 or any(len(b) == 0 or 0 in b for b in k) for k in c['kernels'])),
        'full_buffer_cases': sum(1 for c in sim_cases if any(4 in st['bufs'] for st in c.get('final', [])) or c.get('tag') == 'full'),
        'sim_cases_via_trace_files': sum(1 for c in sim_cases if c.get('via_files')),
        'file_styles': dict(collections.Counter(c.get('file_style', 0) for c in sim_cases if c.get('via_files'))),
        'max_line_bytes_about': max([c.get('name_len', 0) for c in sim_cases] + [19 * c.get('inst_addrs', 0) for c in sim_cases] + [0]),
        'trace_directory_groups': len({(c['kernel'].get('group'), c['kernel'].get('gsize')) for c in trace_cases if c['kernel'].get('group')}),
        'trace_streams': dict(collections.Counter(c['kernel'].get('tag', '?') for c in trace_cases)),
        'model_mismatches': len(mism1) + len(mism2), 'monitor_failures': len(sim_bad) + len(trace_bad),
    })
    rep.samples = [{'gpus': c['gpus'], 'freq': c['freq'], 'kernels': c['kernels'], 'events': c['nevents']} for c in sim_cases[:3]]

    if trace_known:  # no open known finding is left for C20: anything reported as known is unexpected
        i, msg = trace_known[0]
        c = dict(trace_cases[i])
        c.pop('coq', None)
        rep.known_finding(msg, replay_obj={'property': PROP, 'part': 'trace', 'what': msg, 'case': c})

    # ---- verdict
    if sim_bad:
        i, msg = sim_bad[0]
        small = shrink_sim(binary, sim_cases[i])
        what = sim_monitor(small) or msg
        small.pop('coq', None)
        rep.violation({'property': PROP, 'part': 'sim', 'what': what, 'case': small,
                       'replay_cmd': './check C20 --replay <this file>'}, text=what)
    elif trace_bad:
        i, msg = trace_bad[0]
        # kernel files of one trace directory are read in one process: keep the files read before the failing one
        lo = i
        while lo > 0 and trace_cases[i]['kernel'].get('group') and \
                trace_cases[lo - 1]['kernel'].get('group') == trace_cases[i]['kernel'].get('group') and \
                trace_cases[lo - 1]['kernel'].get('gpos', 0) == trace_cases[lo]['kernel'].get('gpos', 0) - 1:
            lo -= 1
        hi = i
        while lo < i and hi + 1 < len(trace_cases) and trace_cases[hi + 1]['kernel'].get('group') == trace_cases[i]['kernel'].get('group') \
                and trace_cases[hi + 1]['kernel'].get('gpos', 0) == trace_cases[hi]['kernel'].get('gpos', 0) + 1:
            hi += 1
        grp = []
        for c in trace_cases[lo:hi + 1]:
            c = dict(c)
            c.pop('coq', None)
            grp.append(c)
        rep.violation({'property': PROP, 'part': 'trace', 'what': msg, 'failing_file': i - lo,
                       **({'case': grp[0]} if len(grp) == 1 else {'cases': grp}),
                       'replay_cmd': './check C20 --replay <this file>'}, text=msg)
    elif mism1 or not ok1:
        i, k = mism1[0] if mism1 else (0, 0)
        c = dict(sim_cases[i]) if sim_cases else {}
        c.pop('coq', None)
        rep.violation({'property': PROP, 'part': 'sim', 'broken': 'correspondence between coq/nv/NvSim.v and nvidia/{driver,gpu,sm,subcore}: '
                       'run %d: %s; theorems nv_conservation / nv_terminates_idle no longer speak about this code' % (i, code_text(k)),
                       'case': c, 'detail': k, 'log': log1[-2000:]}, nofail=True,
                      text='model/implementation mismatch in run %d (%s); no property violation found on %d runs' % (i, code_text(k), len(sim_cases)))
    elif mism2 or not ok2:
        i, k = mism2[0] if mism2 else (0, 0)
        c = dict(trace_cases[i]) if trace_cases else {}
        c.pop('coq', None)
        rep.violation({'property': PROP, 'part': 'trace', 'broken': 'correspondence between coq/nv/NvTrace.v and nvidia/tracereader: file %d: %s; '
                       'theorem parse_print_roundtrip no longer speaks about this code' % (i, T.detail_text(k)),
                       'case': c, 'detail': k, 'log': log2[-2000:]}, nofail=True,
                      text='model/reader mismatch in file %d (%s); no property violation found on %d files' % (i, T.detail_text(k), len(trace_cases)))
    return rep.finish()


if __name__ == '__main__':
    sys.exit(main(sys.argv[1:]))
