"""C18 — results independent of GPU count; RDMA engine; work / page split.
Theorems: coq/props/C18.v over coq/mem/Rdma.v and coq/drv/Distribute.v.
Tie: (a) tick-exact correspondence of port-level observations between the real
rdma.Comp (harness/cmd/c18 -mode rdma) and the Gallina model; (b) the real
distributorImpl.Distribute and distributeWGToGPUs/WGFilter (through the
verif-tagged hook amd/driver/verif_export.go) against the pure functions;
(c) VALIDATION ONLY (not proof): a few whole runs of samples with 1 GPU, 2
GPUs and a unified 2-GPU device, emulation and timing, each with -verify."""
import json, os, subprocess, sys, collections, shutil, tempfile, time
from concurrent.futures import ThreadPoolExecutor
sys.path.insert(0, os.path.dirname(os.path.dirname(os.path.abspath(__file__))))
import vlib

PROP = 'C18'
H_RDMA = 'From VLib Require Import Akita.\nFrom VMem Require Import Rdma.\nOpen Scope N_scope.\n'
H_DRV = ('From Coq Require Import List NArith ZArith.\nImport ListNotations.\n'
         'From VDrv Require Import Distribute.\nOpen Scope N_scope.\n')
H_ROUTE = 'From VLib Require Import Akita.\nFrom VSys Require Import Routing.\nOpen Scope N_scope.\n'
COQ_TARGETS = ['props/C18.vo']
P_RI, P_RO, P_DI, P_DO, P_CT = 1, 2, 3, 4, 5
BASE_IN, BASE_OUT = 1000000, 2000000
FL_DRAIN_REQ, FL_RESTART_REQ, FL_DRAIN_RSP, FL_RESTART_RSP = 16, 2, 20, 6


# ------------------------------------------------------------------ RDMA monitor

def table(case, which, addr):
    mods = case[which]
    i = addr // case['bank']
    return mods[i] if i < len(mods) else 0


def clone_ok(orig, fwd):
    if orig['kind'] != fwd['kind'] or orig['addr'] != fwd['addr']:
        return False
    if orig['kind'] == 'KRead':
        return orig['size'] == fwd['size']
    return orig['data'] == fwd['data'] and orig['mask'] == fwd['mask']


def monitor_path(case, ev, qport, fport, which, base, name):
    """one data path: requests delivered on qport, forwarded through fport,
    responses delivered on fport, answers retrieved from qport"""
    hostile = case.get('hostile')
    deliv = [e['msg'] for e in ev if e['e'] == 'd' and e['port'] == qport and e.get('acc')]
    fwd = [e['got'] for e in ev if e['e'] == 'r' and e['port'] == fport and e.get('got')]
    rsp = [e['msg'] for e in ev if e['e'] == 'd' and e['port'] == fport and e.get('acc')]
    ans = [e['got'] for e in ev if e['e'] == 'r' and e['port'] == qport and e.get('got')]
    own_f = {'RO': P_RO, 'DI': P_DI}[fport]
    own_q = {'RI': P_RI, 'DO': P_DO}[qport]
    if len(fwd) > len(deliv):
        return '%s: %d requests forwarded but only %d delivered' % (name, len(fwd), len(deliv))
    for i, f in enumerate(fwd):
        q = deliv[i]
        if not clone_ok(q, f):
            return '%s: forwarded request %d is not a faithful copy of request %s (addr/size/data/mask changed, duplicated or reordered)' % (name, i, q['id'])
        if f['dst'] != table(case, which, q['addr']):
            return '%s: request %s for address %d forwarded to port %d, the address table says %d' % (
                name, q['id'], q['addr'], f['dst'], table(case, which, q['addr']))
        if f['src'] != own_f:
            return '%s: forwarded request %d has source %d' % (name, i, f['src'])
        if f['id'] != base + i:
            return '%s: forwarded request IDs are not distinct' % name
    byid = {}
    for q in deliv:
        byid.setdefault(q['id'], q)
    seen = set()
    for a in ans:
        if a['rspto'] not in byid:
            return '%s: answer for an ID that was never delivered: %s' % (name, a['rspto'])
        if a['rspto'] in seen:
            return '%s: request %s answered twice' % (name, a['rspto'])
        seen.add(a['rspto'])
        q = byid[a['rspto']]
        if a['dst'] != q['src']:
            return '%s: answer for %s routed to %d instead of its source %d' % (name, q['id'], a['dst'], q['src'])
        if a['src'] != own_q:
            return '%s: answer has source %d' % (name, a['src'])
        want = 'KDataReady' if q['kind'] == 'KRead' else 'KWriteDone'
        if not hostile and a['kind'] != want:
            return '%s: %s %s answered with %s' % (name, q['kind'], q['id'], a['kind'])
    if not hostile:
        # answers are produced in the order in which the responses were delivered
        if len(ans) > len(rsp):
            return '%s: %d answers but only %d responses delivered' % (name, len(ans), len(rsp))
        for k, a in enumerate(ans):
            r = rsp[k]
            i = r['rspto'] - base
            if not (0 <= i < len(fwd)):
                return None  # generator bug, not the component
            q = deliv[i]
            if a['rspto'] != q['id']:
                return '%s: response to forwarded request %d returned as answer to %s instead of %s' % (name, i, a['rspto'], q['id'])
            if a['kind'] != r['kind'] or a['data'] != r['data']:
                return '%s: answer to %s does not carry the payload of the response' % (name, q['id'])
    return None


def in_flight(ev, t):
    """forwarded requests the environment has retrieved before event t and not yet
    answered (no accepted response naming them before t): these transactions are
    certainly in the engine's lists at event t, whatever else happened"""
    out = []
    for fport in ('RO', 'DI'):
        fw = [ev[i]['got']['id'] for i in range(t) if ev[i]['e'] == 'r' and ev[i]['port'] == fport and ev[i].get('got')]
        rs = {ev[i]['msg']['rspto'] for i in range(t) if ev[i]['e'] == 'd' and ev[i]['port'] == fport and ev[i].get('acc')}
        out += [(fport, f) for f in fw if f not in rs]
    return out


def monitor_drain(case, ev):
    """Drain soundness from the observed port traffic, for EVERY history (also
    hostile ones).  A control response retrieved at event k was pushed in some tick
    t < k.  The window of possible ticks is narrowed soundly: (a) the m-th DrainRsp
    is pushed after the m-th accepted DrainReq was delivered (each acknowledgement
    needs its own processed DrainReq); (b) the control port's out-buffer holds at
    most `buf` messages and is FIFO, so the j-th control response is pushed only
    after response j-buf was retrieved.  If at every tick of the window some
    forwarded request was certainly unanswered, the acknowledgement was sent with
    a remote transaction in flight."""
    B = case['buf']
    ctl = [i for i, e in enumerate(ev) if e['e'] == 'r' and e['port'] == 'CT' and e.get('got')]
    dreq = [i for i, e in enumerate(ev) if e['e'] == 'd' and e['port'] == 'CT' and e.get('acc')
            and e['msg']['kind'] == 'KCtrl' and e['msg']['flags'] == FL_DRAIN_REQ]
    m = 0
    for j, k in enumerate(ctl):
        if ev[k]['got']['flags'] != FL_DRAIN_RSP:
            continue
        m += 1
        if m > len(dreq) or dreq[m - 1] > k:
            return 'DrainRsp number %d (event %d) without a DrainReq of its own' % (m, k)
        lo = dreq[m - 1]
        if j >= B:
            lo = max(lo, ctl[j - B])
        ticks = [t for t in range(lo + 1, k) if ev[t]['e'] == 'tick']
        if not ticks:
            return 'DrainRsp retrieved at event %d but no tick could have produced it' % k
        fl = None
        for t in ticks:
            fl = in_flight(ev, t)
            if not fl:
                break
        if fl:
            return ('DrainRsp retrieved at event %d was sent with a remote transaction in flight: at each of the %d ticks that can have '
                    'pushed it (events %d..%d) a forwarded request was unanswered, e.g. %s %d' % (k, len(ticks), ticks[0], ticks[-1], fl[0][0], fl[0][1]))
        if case.get('hostile'):
            continue
        # protocol-respecting histories: until the restart request is delivered nothing
        # new may come out of RDMARequestOutside
        nxt = [i for i in range(k, len(ev)) if ev[i]['e'] == 'd' and ev[i]['port'] == 'CT' and ev[i].get('acc')
               and ev[i]['msg']['flags'] == FL_RESTART_REQ]
        end = nxt[0] if nxt else len(ev)
        for i in range(k, end):
            if ev[i]['e'] == 'r' and ev[i]['port'] == 'RO' and ev[i].get('got'):
                return 'a request from inside was forwarded (event %d) after the drain was acknowledged (event %d) and before any restart' % (i, k)
    return None


def monitor_tail(case, ev):
    """Fair tail of a busy history (harness generateBusy): no control traffic ever, so
    intake is never paused.  From tail_start on no new request arrives; every round is
    one tick with the served path's two out-buffers emptied and every forwarded request
    answered.  By rdma_request_progress / rdma_response_progress each such round takes
    at least one queued request and completes at least one delivered response of the
    served path, whatever the OTHER path holds; so after 2*(unforwarded+pending)+4
    complete rounds every accepted request of the served path must have been answered."""
    if case.get('hostile') or not case.get('busy') or 'tail_start' not in case:
        return None
    if any(e.get('crash') for e in ev) or any(e['e'] == 'd' and e['port'] == 'CT' for e in ev):
        return None
    t0 = case['tail_start']
    qport, fport = ('RI', 'RO') if case.get('serve') == 'inside' else ('DO', 'DI')
    if any(e['e'] == 'd' and e['port'] in ('RI', 'DO') for e in ev[t0:]):
        return None
    acc = [e['msg'] for e in ev if e['e'] == 'd' and e['port'] == qport and e.get('acc')]
    fwd0 = [e['got']['id'] for e in ev[:t0] if e['e'] == 'r' and e['port'] == fport and e.get('got')]
    rsp0 = {e['msg']['rspto'] for e in ev[:t0] if e['e'] == 'd' and e['port'] == fport and e.get('acc')}
    pending = sum(1 for f in fwd0 if f not in rsp0)
    need = 2 * ((len(acc) - len(fwd0)) + pending) + 4
    # complete rounds of the tail
    ticks = [i for i in range(t0, len(ev)) if ev[i]['e'] == 'tick'] + [len(ev)]
    rounds = 0
    for a, b in zip(ticks, ticks[1:]):
        seg = ev[a + 1:b]
        empt_f = any(e['e'] == 'r' and e['port'] == fport and e.get('none') for e in seg)
        empt_q = any(e['e'] == 'r' and e['port'] == qport and e.get('none') for e in seg)
        got = [e['got']['id'] for e in ev[:b] if e['e'] == 'r' and e['port'] == fport and e.get('got')]
        tried = {e['msg']['rspto'] for e in ev[:b] if e['e'] == 'd' and e['port'] == fport}
        if empt_f and empt_q and all(g in tried for g in got):
            rounds += 1
    if rounds < need:
        return None
    answered = {e['got']['rspto'] for e in ev if e['e'] == 'r' and e['port'] == qport and e.get('got')}
    lost = [m['id'] for m in acc if m['id'] not in answered]
    if lost:
        fwd = [e['got']['id'] for e in ev if e['e'] == 'r' and e['port'] == fport and e.get('got')]
        other_f = 'DI' if fport == 'RO' else 'RO'
        held = len(in_flight(ev, len(ev))) - sum(1 for p, _ in in_flight(ev, len(ev)) if p == fport)
        return ('%s path: request %s was accepted but never %s although its path was served fairly for %d rounds (needed %d) '
                'while the other path held %d unanswered transactions (buffer size %d): %d accepted, %d forwarded, %d answered'
                % (case.get('serve'), lost[0], 'forwarded' if len(fwd) < len(acc) else 'answered', rounds, need, held, case['buf'],
                   len(acc), len(fwd), len(answered & {m['id'] for m in acc})))
    return None


def monitor_drain_tail(case, ev):
    """Fair drain tail of a protocol-respecting history (harness generate): no new requests,
    every round = one tick, all four data out-buffers emptied, every forwarded request
    answered (oldest first, refused responses retried in the next round), the control port
    looked at.  The number of rounds is judged against the PROVED bound of rdma_liveness
    (coq/mem/RdmaLive.v, props/C18.v):

      * the first tick after the accepted DrainReq takes it out of the control in-buffer
        (protocol-respecting histories hold at most one control request), so from then on
        the hypothesis ct_in = [] holds; widths and buffer size are >= 1;
      * every later complete round is a fair round of the theorem: retrieving until the
        buffer is empty is a quota >= 1, answering every pending request in order is
        max(1, pending) attempts on the oldest unanswered one (the in-buffer does not shrink
        between ticks, so once one is refused the rest is refused too), and looking at the
        control port changes nothing while the drain is unacknowledged (its out-buffer is
        empty then: invariant ctl_ok);
      * the rank of any such state is at most 5 per request accepted and not yet answered
        to its requester, plus 1 for the pending drain (each such request is in exactly one
        of: request queue 5, forwarded 4, retrieved 3, response queued 2, answer queued 1).

    So after 1 + 5*(accepted - answered) + 1 consecutive complete rounds the DrainRsp must
    have been pushed - and the same round's look at the control port retrieves it."""
    t0 = case.get('drain_tail')
    if case.get('hostile') or not t0 or any(e.get('crash') for e in ev):
        return None
    if case.get('buf', 0) < 1 or any(w < 1 for w in case.get('w', [0])):
        return None
    dreqs = [i for i in range(len(ev)) if ev[i]['e'] == 'd' and ev[i]['port'] == 'CT' and ev[i].get('acc')]
    if not dreqs or ev[dreqs[-1]]['msg']['flags'] != FL_DRAIN_REQ:
        return None
    d = dreqs[-1]
    if any(e['e'] == 'd' and e['port'] in ('RI', 'DO') for e in ev[max(d, t0):]):
        return None
    if any(e['e'] == 'r' and e['port'] == 'CT' and e.get('got') and e['got']['flags'] == FL_DRAIN_RSP for e in ev[d:]):
        return None
    start = max(d, t0)
    acc = sum(1 for e in ev[:start] if e['e'] == 'd' and e['port'] in ('RI', 'DO') and e.get('acc'))
    ans = sum(1 for e in ev[:start] if e['e'] == 'r' and e['port'] in ('RI', 'DO') and e.get('got'))
    need = drain_tail_bound(acc - ans)
    ticks = [i for i in range(start, len(ev)) if ev[i]['e'] == 'tick'] + [len(ev)]
    flags = []
    for a, b in zip(ticks, ticks[1:]):
        seg = ev[a + 1:b]
        emptied = all(any(e['e'] == 'r' and e['port'] == p and e.get('none') for e in seg) for p in ('RO', 'DI', 'RI', 'DO'))
        looked = any(e['e'] == 'r' and e['port'] == 'CT' for e in seg)
        served = True
        for fport in ('RO', 'DI'):
            got = [e['got']['id'] for e in ev[:b] if e['e'] == 'r' and e['port'] == fport and e.get('got')]
            done = {e['msg']['rspto'] for e in ev[:b] if e['e'] == 'd' and e['port'] == fport and e.get('acc')}
            tried = {e['msg']['rspto'] for e in seg if e['e'] == 'd' and e['port'] == fport}
            served = served and all(g in done or g in tried for g in got)
        quiet = not any(e['e'] == 'd' and e['port'] in ('RI', 'DO', 'CT') for e in seg)
        flags.append(emptied and looked and served and quiet)
    # the first tick consumes the DrainReq; after it: the longest run of consecutive complete rounds
    rounds = best = 0
    for f in flags[1:]:
        rounds = rounds + 1 if f else 0
        best = max(best, rounds)
    if best + 1 < need or in_flight(ev, len(ev)):
        return None
    return ('the drain requested at event %d is never acknowledged although no remote transaction is in flight: every forwarded request '
            '(%d + %d) was answered, all out-buffers were emptied in each of %d consecutive fair rounds (%d needed by the proved bound '
            'of rdma_liveness: 5 x %d unanswered + 2), the control port stayed silent'
            % (d, sum(1 for e in ev if e['e'] == 'r' and e['port'] == 'RO' and e.get('got')),
               sum(1 for e in ev if e['e'] == 'r' and e['port'] == 'DI' and e.get('got')), best + 1, need, acc - ans))


def drain_tail_bound(unanswered):
    """rounds after which rdma_liveness guarantees the DrainRsp: the tick that takes the DrainReq,
    then bound(s) <= 5*unanswered + 1 fair rounds"""
    return 5 * unanswered + 2


def l2_data(addr, n):
    return [((addr + i) * 37 + 11) & 0xff for i in range(n)]


def monitor_pair(p):
    """two real engines relayed by the harness, drained at the same time with cross traffic,
    then served fairly (engines ticked, wire / L2s / L1 sides / controllers pumped until
    nothing moves) for tail_needed = 4*outstanding+12 rounds: every L1 request must be answered
    exactly once with the owner's data and both drains must be acknowledged"""
    for nm, side in (('A', p['side_a']), ('B', p['side_b'])):
        if side['crashed']:
            return 'engine %s panicked in a two-engine run on protocol-respecting traffic' % nm
        byid = {r['id']: r for r in side['requests']}
        seen = set()
        for a in side['answers']:
            if a['rspto'] not in byid:
                return 'engine %s: answer for an ID its L1 side never sent: %s' % (nm, a['rspto'])
            if a['rspto'] in seen:
                return 'engine %s: request %s answered twice' % (nm, a['rspto'])
            seen.add(a['rspto'])
            q = byid[a['rspto']]
            if q['kind'] == 'KRead' and (a['kind'] != 'KDataReady' or a['data'] != l2_data(q['addr'], q['size'])):
                return 'engine %s: read %s of address %d answered with the wrong data' % (nm, q['id'], q['addr'])
            if q['kind'] == 'KWrite' and a['kind'] != 'KWriteDone':
                return 'engine %s: write %s answered with %s' % (nm, q['id'], a['kind'])
    if p['tail_rounds'] < p['tail_needed']:
        return None
    for nm, side in (('A', p['side_a']), ('B', p['side_b'])):
        lost = [r['id'] for r in side['requests'] if r['id'] not in {a['rspto'] for a in side['answers']}]
        if lost or side['drain_acks'] < side['drain_requests']:
            other = p['side_b'] if nm == 'A' else p['side_a']
            return ('two engines drained at the same time with accesses to each other\'s memory on the wire, then served fairly for %d rounds: '
                    'engine %s has %d of %d requests never answered (first: %s) and %d of %d drains never acknowledged; peer: %d of %d answered, %d of %d drains acknowledged'
                    % (p['tail_rounds'], nm, len(lost), len(side['requests']), lost[0] if lost else '-', side['drain_requests'] - side['drain_acks'], side['drain_requests'],
                       len(other['answers']), len(other['requests']), other['drain_acks'], other['drain_requests']))
    return None


def monitor(case):
    ev = case['events']
    if any(e.get('crash') for e in ev) and not case.get('hostile'):
        return 'the RDMA engine panicked on protocol-respecting traffic'
    return (monitor_path(case, ev, 'RI', 'RO', 'remote', BASE_IN, 'inside->outside')
            or monitor_path(case, ev, 'DO', 'DI', 'local', BASE_OUT, 'outside->inside')
            or monitor_drain(case, ev)
            or monitor_tail(case, ev)
            or monitor_drain_tail(case, ev))


def env_ok(case):
    """the recorded history is protocol-respecting (python mirror of [ok_ev] in
    coq/mem/RdmaProofs.v); used to keep shrunken histories inside the domain"""
    if case.get('hostile'):
        return True
    got = {'RO': set(), 'DI': set()}
    answered = {'RO': set(), 'DI': set()}
    phase = 0
    for e in case['events']:
        if e['e'] == 'd':
            m, p = e['msg'], e['port']
            if p in ('RI', 'DO'):
                own_q, own_f, which = (P_RI, P_RO, 'remote') if p == 'RI' else (P_DO, P_DI, 'local')
                if m['kind'] not in ('KRead', 'KWrite') or m['src'] in (0, own_q):
                    return False
                if table(case, which, m['addr']) in (0, own_f):
                    return False
            elif p in ('RO', 'DI'):
                if m['kind'] not in ('KDataReady', 'KWriteDone'):
                    return False
                if m['rspto'] not in got[p] or m['rspto'] in answered[p]:
                    return False
                if e.get('acc'):
                    answered[p].add(m['rspto'])
            else:
                if m['kind'] != 'KCtrl':
                    return False
                if m['flags'] == FL_DRAIN_REQ and phase == 0 and m['src'] not in (0, P_CT):
                    phase = 1 if e.get('acc') else 0
                elif m['flags'] == FL_RESTART_REQ and phase == 2:
                    phase = 3 if e.get('acc') else 2
                else:
                    return False
        elif e['e'] == 'r' and e.get('got'):
            if e['port'] in got:
                got[e['port']].add(e['got']['id'])
            elif e['port'] == 'CT':
                if phase == 1 and e['got']['flags'] == FL_DRAIN_RSP:
                    phase = 2
                elif phase == 3 and e['got']['flags'] == FL_RESTART_RSP:
                    phase = 0
    return True


def strip(case):
    c = {k: case[k] for k in ('buf', 'w', 'bank', 'remote', 'local')}
    c['hostile'] = case.get('hostile', False)
    if case.get('lazy'):
        c['lazy'] = True
    for k in ('busy', 'serve', 'tail_start', 'drain_tail', 'pair'):
        if k in case:
            c[k] = case[k]
    c['events'] = [{'e': e['e'], **({'port': e['port']} if 'port' in e else {}),
                    **({'msg': e['msg']} if 'msg' in e else {})} for e in case['events']]
    return c


# ------------------------------------------------------------------ driver-side monitors

def monitor_dist(c):
    ps = 1 << c['log2ps']
    n = len(c['gpus'])
    if c['addr'] % ps != 0 or n == 0:
        return None if c['panic'] else 'Distribute did not reject a misaligned address / empty GPU list'
    if c['bytes'] == 0:
        return None  # outside the property's domain (recorded quirk: wraps to 2^52 pages)
    if c['panic']:
        return 'Distribute panicked on a valid request'
    np_ = (c['bytes'] - 1) // ps + 1
    cover = collections.Counter()
    per = [0] * n
    for a, sz, idx in c['remaps']:
        if a < c['addr'] or (a - c['addr']) % ps or sz % ps or sz == 0 or idx >= n:
            return 'Remap call (%d,%d,%d) is not a page-aligned non-empty range on a listed GPU' % (a, sz, idx)
        first = (a - c['addr']) // ps
        if first + sz // ps > np_:
            return 'Remap call reaches beyond the buffer'
        if sz // ps > 200000:
            return None
        for p in range(first, first + sz // ps):
            cover[p] += 1
        per[idx] += sz
    bad = [p for p in range(np_) if cover[p] != 1]
    if bad:
        return 'page %d of %d is remapped %d times' % (bad[0], np_, cover[bad[0]])
    if per != c['bytes_on']:
        return 'returned byte counts %s differ from what was remapped %s' % (c['bytes_on'], per)
    return None


def monitor_split(c):
    if any(g == 0 for g in c['grid']):
        return None
    if any(w == 0 for w in c['wg']) or sum(c['cus']) == 0:
        return None if c['panic'] else 'launch with a zero work-group dimension / no compute unit did not panic'
    if c['panic']:
        return 'work-group split panicked on a valid launch'
    d = c['dist']
    if d[0] != 0 or any(d[i] > d[i + 1] for i in range(len(d) - 1)):
        return 'work-group table %s is not monotone from 0' % d
    if d[-1] < c['total_wg']:
        return 'work-group table %s does not cover %d work-groups' % (d, c['total_wg'])
    if c['exhaustive'] and (c['accept0'] or c['accept_many'] or c['accept1'] != c['total_wg']):
        return '%d work-groups accepted by no GPU, %d by several (of %d)' % (c['accept0'], c['accept_many'], c['total_wg'])
    for p in c['probes']:
        if sum(p[3:]) != 1:
            return 'work-group %s accepted by %d GPUs' % (p[:3], sum(p[3:]))
    return None


def monitor_route(c):
    """every sampled address of device k's driver range (except its last page, C10 finding e)
    must be routed by GPU g's RDMA address table to a port of device k"""
    for dev, addr, code, last in c['probes']:
        if last:
            continue
        if code != 1000 + dev:
            to = 'nowhere (lookup panics)' if code == 0 else ('the CPU' if code == 1000 else 'GPU %d' % (code - 1000))
            return ('%s platform with %d GPUs: the RDMA address table of GPU %d sends address 0x%x, which the driver assigns to GPU %d, to %s; table owners %s'
                    % (c['gputype'], c['num_gpus'], c['gpu'], addr, dev, to, c['mods']))
    return None


# ------------------------------------------------------------------ harness drivers

def run_harness(binary, mode, cases=None, seed=1, n=100, extra=()):
    tmp = os.path.join(vlib.BUILD, 'c18_%s_%d.json' % (mode, os.getpid()))
    if cases is not None:
        inp = tmp + '.in'
        json.dump(cases, open(inp, 'w'))
        rc, log = vlib.run([binary, '--mode', mode, '--replay', inp, '--out', tmp])
        os.remove(inp)
    else:
        rc, log = vlib.run([binary, '--mode', mode, '--seed', str(seed), '--n', str(n), '--out', tmp] + list(extra))
    if rc != 0:
        return None, log
    out = json.load(open(tmp))
    os.remove(tmp)
    return out, log


# ------------------------------------------------------------------ whole runs (validation)

SAMPLES = ['fir', 'matrixtranspose', 'atax', 'relu']
# sizes are chosen so that every GPU of the set owns pages of the distributed buffers (a buffer of
# fewer pages than GPUs lives on the first GPUs only and the others are never addressed remotely)
WORKLOADS = [('fir', ['-length=4096']), ('matrixtranspose', ['-width=128']), ('atax', ['-x=64', '-y=64'])]
# discrete 3- and 4-GPU timing runs, every tier: remote accesses to every GPU through the RDMA address
# table and the PCIe fabric as timingconfig builds them (fir needs length % numGPUs == 0)
MULTI_GPU_TIMING = [('fir', ['-length=3072', '-gpus=1,2,3', '-timing']),
                    ('fir', ['-length=4096', '-gpus=1,2,3,4', '-timing']),
                    ('matrixtranspose', ['-width=256', '-gpus=1,2,3,4', '-timing']),
                    ('atax', ['-x=128', '-y=128', '-gpus=1,2,3', '-timing'])]
GPUSETS_QUICK = [['-gpus=1'], ['-gpus=1,2'], ['-unified-gpus=1,2']]
# the runner sizes the platform by the last ID of the list: GPU lists must be ascending
GPUSETS_THOROUGH = [['-gpus=2'], ['-unified-gpus=1,2,3,4']]


def build_samples():
    out = os.path.join(vlib.BUILD, 'c18bin' + vlib._repo_tag())
    os.makedirs(out, exist_ok=True)
    with vlib.Lock('c18samples' + vlib._repo_tag()):
        rc, log = vlib.run([vlib.go_bin(), 'build', '-o', out + '/'] + ['./amd/samples/' + s for s in SAMPLES],
                           cwd=vlib.REPO, env=vlib.go_env(), timeout=1500)
    return rc == 0, log, out


def overloaded():
    """more runnable processes than 1.5 x cores over the last minute"""
    try:
        return os.getloadavg()[0] > 1.5 * (os.cpu_count() or 1)
    except OSError:
        return False


def one_run(args):
    """One whole run in a scratch directory under a timeout.  A run that printed its
    verification result and then died in the tear-down race of the sample runner
    (C01 finding teardown-race: 'assignment to entry in nil map' on the engine
    goroutine after simulation.Terminate()) is repeated, at most twice."""
    bindir, name, opts, timeout = args
    retries = 0
    slow_retry = False
    while True:
        d = tempfile.mkdtemp(prefix='c18run_', dir=vlib.BUILD)
        t0 = time.time()
        try:
            rc, log = vlib.run([os.path.join(bindir, name)] + opts + ['-verify', '-disable-rtm'], cwd=d, timeout=timeout)
        finally:
            shutil.rmtree(d, ignore_errors=True)
        if rc not in (0, 124) and 'Passed' in log and 'assignment to entry in nil map' in log and retries < 2:
            retries += 1
            continue
        if rc == 124 and not slow_retry and overloaded():
            # a run that exceeds its limit WHILE THE MACHINE IS OVERLOADED is repeated once with four times the
            # limit before it is believed to hang: at load 100 on 16 cores a 20 s run took longer than 45 s
            # (a genuine hang still times out; on a quiet machine nothing is repeated)
            slow_retry = True
            timeout = timeout * 4
            continue
        break
    return {'cmd': [name] + opts + ['-verify'], 'rc': rc, 'passed': rc == 0 and 'Passed' in log,
            'timeout': rc == 124, 'verify_failed': 'mismatch' in log or 'failed to verify' in log,
            'teardown_race_retries': retries,
            'wall_s': round(time.time() - t0, 2), 'tail': log[-600:]}


def build_and_run_samples(thorough):
    ok, log, bindir = build_samples()
    return ok, log, bindir, (whole_runs(bindir, thorough) if ok else [])


def whole_runs(bindir, thorough):
    jobs = []
    sets = GPUSETS_QUICK + (GPUSETS_THOROUGH if thorough else [])
    for name, opts in WORKLOADS:
        for g in sets:
            for mode in ([], ['-timing']):
                jobs.append((bindir, name, opts + g + mode, 120))
    for name, opts in MULTI_GPU_TIMING:
        jobs.append((bindir, name, opts, 45))
    # former findings (fixed on main): a relapse is a VIOLATION
    jobs.append((bindir, 'fir', ['-length=1024', '-gpus=1,2,3,4', '-timing'], 45))
    jobs.append((bindir, 'relu', ['-length=128', '-gpus=1,2', '-timing'], 45))
    jobs.append((bindir, 'matrixtranspose', ['-width=64', '-gpus=1,2'], 120))
    if thorough:
        jobs.append((bindir, 'fir', ['-length=4096', '-gpus=1,2', '-timing'], 300))
        jobs.append((bindir, 'matrixtranspose', ['-width=256', '-gpus=1,2,3,4'], 300))
        jobs.append((bindir, 'atax', ['-x=128', '-y=128', '-unified-gpus=1,2,3,4'], 300))
        jobs.append((bindir, 'fir', ['-length=4096', '-gpus=1,2,3,4'], 300))
        jobs.append((bindir, 'atax', ['-x=64', '-y=64', '-gpus=1,2,3,4'], 300))
    with ThreadPoolExecutor(max_workers=8) as ex:
        return list(ex.map(one_run, jobs))


# ------------------------------------------------------------------ GPU-count independence stream (harness -mode e2e)

E2E_SMALL = [1, 2, 3, 5, 7]


def e2e_matrix(thorough):
    """(bench, size, gpus, unified, timing) of every multi-GPU run; the 1-GPU baselines are derived"""
    runs = []
    for g in (2, 3, 4):
        gl = ','.join(str(i) for i in range(1, g + 1))
        for bench in ('fir', 'relu'):
            for n in E2E_SMALL + [256 * g - 1, 256 * g + 1]:
                runs.append((bench, n, gl, False, False))
                if n <= 7 or thorough:
                    runs.append((bench, n, gl, False, True))
        for cols in sorted(set(E2E_SMALL + [2 * g - 1, 2 * g + 1])):
            runs.append(('matrixtranspose', 64 * cols, gl, False, False))
            if (cols <= 3 and g >= 3) or (thorough and cols <= 7):
                runs.append(('matrixtranspose', 64 * cols, gl, False, True))
        for n in (1, 257, 256 * g + 1):
            runs.append(('fir', n, gl, True, False))
            if thorough:
                runs.append(('fir', n, gl, True, True))
        # unified device + a kernel with an LDS (LocalPtr) argument + enough work-groups that EVERY member
        # GPU gets some (64 CUs per GPU, ceil(WGs/CUs) work-groups per CU): 81 / 144 / 196 work-groups
        w = {2: 576, 3: 768, 4: 896}[g]
        runs.append(('matrixtranspose', w, gl, True, False))
        if g == 2 or thorough:
            runs.append(('matrixtranspose', 1024, gl, True, False))
        if g == 2 and thorough:
            runs.append(('matrixtranspose', w, gl, True, True))  # ~20 s
    return runs


def e2e_one(args):
    binary, (bench, size, gl, unified, timing) = args
    d = tempfile.mkdtemp(prefix='c18e2e_', dir=vlib.BUILD)
    cmd = [binary, '--mode', 'e2e', '--bench', bench, '--size', str(size), '--gpus', gl]
    cmd += ['--unified'] if unified else []
    cmd += ['--timing'] if timing else []
    t0 = time.time()
    try:
        rc, log = vlib.run(cmd, cwd=d, timeout=90)
        if rc == 124 and overloaded():   # repeated once with a long limit before it is believed to hang
            rc, log = vlib.run(cmd, cwd=d, timeout=360)
    finally:
        shutil.rmtree(d, ignore_errors=True)
    res = {'bench': bench, 'size': size, 'gpus': gl, 'unified': unified, 'timing': timing, 'rc': rc,
           'wall_s': round(time.time() - t0, 2), 'timeout': rc == 124, 'data': None, 'verify': None, 'tail': log[-400:]}
    lines = log.split('\n')
    for i, line in enumerate(lines):
        if res.get('panic') is None and line.startswith('panic('):
            res['panic'] = 'panic in ' + (lines[i + 1].strip()[:200] if i + 1 < len(lines) else '?')
        elif res.get('panic') is None and line.startswith('panic:'):
            res['panic'] = line.strip()[:300]
    for line in lines:
        if line.startswith('{"bench"'):
            try:
                res['data'] = json.loads(line)
            except ValueError:
                pass
        elif line.startswith('VERIFY '):
            res['verify'] = line[7:].strip()
    return res


def e2e_name(r):
    return '%s size=%d %s=%s %s' % (r['bench'], r['size'], 'unified-gpus' if r['unified'] else 'gpus', r['gpus'], 'timing' if r['timing'] else 'emulation')


def seen_launches(r):
    ls = sorted((l['gpu'], l['grid'][0]) for l in r['data']['launches'])
    if r['bench'] == 'matrixtranspose':
        return [(g, x // 16) for g, x in ls]
    return ls


def monitor_e2e(r, base):
    """GPU-count independence of one run against the 1-GPU run of the same size and mode"""
    nm = e2e_name(r)
    if r['timeout']:
        return nm + ': does not terminate'
    if r['data'] is None:
        return nm + ': crashed before its buffers could be read: ' + (r.get('panic') or r['tail'][-200:])
    if base is None or base['data'] is None or base['verify'] != 'pass':
        return None if base is None else e2e_name(base) + ': the single-GPU run itself fails (%s)' % (base['verify'] or base['tail'][-150:])
    b0 = {b['name']: b for b in base['data']['buffers']}
    b1 = {b['name']: b for b in r['data']['buffers']}
    for name in sorted(b0):
        if name not in b1:
            return nm + ': device buffer %s is missing' % name
        if (b0[name]['size'], b0[name]['sha256']) != (b1[name]['size'], b1[name]['sha256']):
            return (nm + ': device buffer %s (%d bytes) differs from the single-GPU run (first bytes %s vs %s); the benchmark\'s own verification says: %s'
                    % (name, b1[name]['size'], b1[name]['head'][:32], b0[name]['head'][:32], r['verify'] or 'aborted the process'))
    if r['verify'] != 'pass':
        return nm + ': the benchmark rejects its own result (%s)' % (r['verify'] or 'verification aborted the process')
    if r['unified']:
        # one unified launch: every member GPU must receive the same packet and the same kernel
        # arguments; only the work-group filter differs
        ls = r['data']['launches']
        key = lambda l: (tuple(l['grid']), tuple(l['wg']), l['group_segment_size'], l['private_segment_size'], l['kernarg_sha256'])
        groups = {}
        for l in ls:
            groups.setdefault((tuple(l['grid']), tuple(l['wg'])), []).append(l)
        for same in groups.values():
            if len({key(l) for l in same}) > 1:
                a, b = same[0], [l for l in same if key(l) != key(same[0])][0]
                return (nm + ': the member GPUs of the unified device receive different launches: GPU %d group segment %d kernarg %s..., GPU %d group segment %d kernarg %s...'
                        % (a['gpu'], a['group_segment_size'], a['kernarg_head'][:64], b['gpu'], b['group_segment_size'], b['kernarg_head'][:64]))
    if not r['unified']:
        # whatever split the benchmark uses, its slices must be a partition: one launch per GPU at
        # most, lengths adding up to the number of items (the exact slices are compared with the
        # Coq model separately, as a correspondence)
        seen = seen_launches(r)
        n = r['size'] // 64 if r['bench'] == 'matrixtranspose' else r['size']
        if len({g for g, _ in seen}) != len(seen) or sum(l for _, l in seen) != n or any(l <= 0 for _, l in seen):
            return nm + ': kernel launches (GPU, slice length) %s do not partition %d items' % (seen, n)
    return None


def e2e_stream(binary, thorough, only=None):
    multi = only if only is not None else e2e_matrix(thorough)
    bases = sorted({(b, n, '1', False, t) for (b, n, _, _, t) in multi})
    with ThreadPoolExecutor(max_workers=10) as ex:
        res = list(ex.map(e2e_one, [(binary, j) for j in bases + multi]))
    base = {(r['bench'], r['size'], r['timing']): r for r in res[:len(bases)]}
    out = []
    for r in res[len(bases):]:
        out.append((r, base.get((r['bench'], r['size'], r['timing']))))
    return out, res[:len(bases)]


def e2e_coq(r):
    g = len(r['gpus'].split(','))
    n = r['size'] // 64 if r['bench'] == 'matrixtranspose' else r['size']
    seen = '; '.join('(%d, %d)' % p for p in seen_launches(r))
    return 'Tie.mkBCase %s %d %d [%s]' % ('true' if r['bench'] == 'matrixtranspose' else 'false', n, g, seen)


# ------------------------------------------------------------------ main

def nontrivial(case):
    ev = case['events']
    a = sum(1 for e in ev if e['e'] == 'r' and e['port'] == 'RI' and e.get('got'))
    b = sum(1 for e in ev if e['e'] == 'r' and e['port'] == 'DO' and e.get('got'))
    return a >= 1 and b >= 1


def main(argv):
    rep = vlib.Report(PROP, 'proof')
    rep.checker_cmd = ('make -C coq props/C18.vo && coqc props/C18.v (Print Assumptions) && '
                       'coqc cases/C18/s*.v (vm_compute mismatches / Tie.dmismatches / Tie.smismatches)')
    rep.trusted = ['Coq 8.16.1 kernel + vm_compute',
                   'hand-written models coq/mem/Rdma.v of amd/timing/rdma/comp.go and coq/drv/Distribute.v of '
                   'amd/driver/distributor.go, driver.go (distributeWGToGPUs, WGFilter)',
                   'Go harness harness/cmd/c18 (stub connection, ID renumbering) and the add-only hook amd/driver/verif_export.go',
                   'akita port = two bounded FIFOs; address tables = total functions (0 = lookup panics / empty name)',
                   'whole-system runs are validation only: caches, switches, MMU, CP are not modelled']
    rep.assumptions = ['RDMA theorems hold for every finite sequence of deliveries, ticks and retrievals; rdma_no_crash only for '
                       'protocol-respecting environments (predicate respects)',
                       'rdma_liveness / rdma_liveness_all_answered / rdma_rank_decreases: buffer size and the four widths >= 1, start state '
                       'reachable by protocol-respecting events with no control request left in the control in-buffer (a pending drain is '
                       'covered), fair environment rounds (tick, every port served at least once, oldest unanswered request answered when '
                       'the port has room), no new requests and no control messages during the rounds; bound = rank of the start state',
                       'distribute_covers_once: 1 <= byteSize < 2^64, aligned address, at least one GPU; '
                       'gpu_split_partition: grid and work-group dimensions >= 1, work-group count < 2^32, at least one CU in total',
                       'GPU-count independence of whole workloads is sampled (fir, matrixtranspose, atax with -verify), not proved']
    thorough = vlib.tier() == 'thorough'
    n_rdma = 3000 if thorough else 260
    n_drv = 4000 if thorough else 400

    replay_file = argv[argv.index('--replay') + 1] if '--replay' in argv else None

    ok, log, binary = vlib.go_build('c18')
    rep.obligation('harness builds against the repo working tree (with hook amd/driver/verif_export.go)', ok)
    if not ok:
        rep.violation({'broken': 'go build of harness/cmd/c18 failed', 'log': log[-4000:]}, nofail=True, text='harness build failed')
        return rep.finish()

    with ThreadPoolExecutor(max_workers=4) as bg:
        samples_future = bg.submit(build_and_run_samples, thorough) if not replay_file else None
        e2e_future = bg.submit(e2e_stream, binary, thorough) if not replay_file else None

        ok, log = vlib.coq_build(COQ_TARGETS)
        if not ok:
            rep.obligation('coq build', False)
            rep.violation({'broken': 'Coq development for C18 does not compile', 'log': log[-4000:]}, nofail=True)
            return rep.finish()
        # re-compiling props/C18.v for Print Assumptions takes ~15 s of one core: overlap it with the runs
        props_future = bg.submit(vlib.coq_check_props, PROP)

        def theorem_obligations():
            okp, plog, thms = props_future.result()
            if not okp:
                rep.obligation('coq build', False)
                rep.violation({'broken': 'props/C18.v does not compile', 'log': plog[-4000:]}, nofail=True)
                return False
            for name, axioms in thms:
                rep.obligation('theorem ' + name + (' [axioms: %s]' % ', '.join(axioms) if axioms else ' [closed under the global context]'), True)
            return True

        # ---- run the implementation
        dcases, scases, rcases, pairs2 = [], [], [], []
        if replay_file:
            obj = json.load(open(replay_file))
            kind = obj.get('kind', 'rdma')
            src = obj.get('case') or obj.get('cases') or obj
            src = src if isinstance(src, list) else [src]
            cases = []
            if kind == 'rdma':
                cases, log = run_harness(binary, 'rdma', cases=[strip(c) for c in src])
            elif kind == 'dist':
                dcases, log = run_harness(binary, 'dist', cases=src)
            elif kind == 'split':
                scases, log = run_harness(binary, 'split', cases=src)
            elif kind == 'pair':
                out, log = run_harness(binary, 'pair', seed=obj['seed'], n=obj['index'] + 1)
                msg = monitor_pair(out[obj['index']]) if out else 'harness failed'
                print('# replayed two-engine history %d of seed %d -> %s' % (obj['index'], obj['seed'], msg or 'every request answered once, both drains acknowledged'))
                if msg:
                    rep.violation({'property': PROP, 'kind': 'pair', 'what': msg, 'seed': obj['seed'], 'index': obj['index']}, text=msg)
                return rep.finish()
            elif kind == 'e2e':
                c0 = src[0]
                pairs, _ = e2e_stream(binary, thorough, only=[(c0['bench'], c0['size'], c0['gpus'], c0['unified'], c0['timing'])])
                msg = monitor_e2e(*pairs[0])
                print('# replayed: %s -> %s' % (e2e_name(pairs[0][0]), msg or 'same buffers as the single-GPU run, verification passed'))
                if msg:
                    rep.violation({'property': PROP, 'kind': 'e2e', 'what': msg, 'case': c0}, text=msg)
                return rep.finish()
            elif kind == 'run':
                ok, log, bindir = build_samples()
                r = one_run((bindir, src[0]['cmd'][0], [a for a in src[0]['cmd'][1:] if a != '-verify'], 300))
                print('# replayed run: %s -> rc=%s passed=%s' % (' '.join(r['cmd']), r['rc'], r['passed']))
                if not r['passed']:
                    rep.violation({'property': PROP, 'kind': 'run', 'case': r}, text='whole run fails: ' + ' '.join(r['cmd']))
                return rep.finish()
            cases, dcases, scases = cases or [], dcases or [], scases or []
        else:
            cases = []
            cdir = os.path.join(vlib.ROOT, 'corpus', PROP)
            for p in sorted(os.listdir(cdir)) if os.path.isdir(cdir) else []:
                obj = json.load(open(os.path.join(cdir, p)))
                kind = obj.get('kind', 'rdma') if isinstance(obj, dict) else 'rdma'
                src = obj['cases'] if isinstance(obj, dict) else obj
                out, log = run_harness(binary, kind, cases=[strip(c) for c in src] if kind == 'rdma' else src)
                {'rdma': cases, 'dist': dcases, 'split': scases}[kind].extend(out or [])
            gen, log = run_harness(binary, 'rdma', seed=vlib.seed(), n=n_rdma)
            gd, log2 = run_harness(binary, 'dist', seed=vlib.seed(), n=n_drv)
            gs, log3 = run_harness(binary, 'split', seed=vlib.seed(), n=n_drv)
            rcases, log4 = run_harness(binary, 'route')
            pairs2, log5 = run_harness(binary, 'pair', seed=vlib.seed(), n=(300 if thorough else 30))
            pairs2 = pairs2 or []
            for pc in pairs2:
                if gen is not None:
                    gen += [pc['A'], pc['B']]
            rcases = rcases or []
            if gen is None or gd is None or gs is None:
                rep.obligation('harness run', False)
                rep.violation({'broken': 'harness run failed', 'log': (log + log2 + log3)[-4000:]}, nofail=True)
                return rep.finish()
            cases += gen
            dcases += gd
            scases += gs

        # a stored history may stop being protocol-respecting when the code changes
        # (e.g. it answers a request the engine no longer forwards): judge it as hostile
        for c in cases:
            if not c.get('hostile') and not env_ok(c):
                c['hostile'] = True
                c['demoted'] = True
        # ---- property monitors on what the implementation did
        bad = [(i, m) for i, m in ((i, monitor(c)) for i, c in enumerate(cases)) if m]
        dbad = [(i, m) for i, m in ((i, monitor_dist(c)) for i, c in enumerate(dcases)) if m]
        sbad = [(i, m) for i, m in ((i, monitor_split(c)) for i, c in enumerate(scases)) if m]
        rbad = [(i, m) for i, m in ((i, monitor_route(c)) for i, c in enumerate(rcases)) if m]
        pbad = [(i, m) for i, m in ((i, monitor_pair(c)) for i, c in enumerate(pairs2)) if m]

        # ---- correspondence with the models
        okc, mism, clog = vlib.eval_cases(PROP, H_RDMA, [c['coq'] for c in cases], shard_size=20) if cases else (True, [], '')
        rep.obligation('correspondence: %d RDMA histories evaluated by the model' % len(cases), okc and not mism)
        okd, dmism, dlog = vlib.eval_cases(PROP, H_DRV, [c['coq'] for c in dcases], shard_size=80, checker='Tie.dmismatches') if dcases else (True, [], '')
        rep.obligation('correspondence: %d Distribute calls evaluated by the model' % len(dcases), okd and not dmism)
        oks, smism, slog = vlib.eval_cases(PROP, H_DRV, [c['coq'] for c in scases], shard_size=80, checker='Tie.smismatches') if scases else (True, [], '')
        rep.obligation('correspondence: %d unified launches (table + filters) evaluated by the model' % len(scases), oks and not smism)

        okr, rmism, rlog = vlib.eval_cases(PROP, H_ROUTE, [c['coq'] for c in rcases], shard_size=80, checker='rmismatches') if rcases else (True, [], '')
        rep.obligation('correspondence: RDMA address tables of %d GPUs in timing platforms built by timingconfig (1-4 GPUs, r9nano and mi300a) equal the modelled table' % len(rcases), (bool(rcases) or bool(replay_file)) and okr and not rmism)

        if not theorem_obligations():
            return rep.finish()

        # ---- GPU-count independence stream
        epairs, ebases = e2e_future.result() if e2e_future is not None else ([], [])
        ebad = [(i, m) for i, m in ((i, monitor_e2e(r, b)) for i, (r, b) in enumerate(epairs)) if m]
        btie = [r for r, _ in epairs if not r['unified'] and r['data'] is not None]
        okb2, bmism, blog2 = vlib.eval_cases(PROP, H_DRV, [e2e_coq(r) for r in btie], shard_size=200, checker='Tie.bmismatches') if btie else (True, [], '')
        rep.obligation('correspondence: kernel launches of %d real multi-GPU benchmark runs equal the modelled slices (Bench.launches)' % len(btie), okb2 and not bmism)
        rep.obligation('validation (not proof): %d multi-GPU runs (sizes 1,2,3,5,7,g*k+-1 on 2,3,4 GPUs, fir/relu/matrixtranspose, emulation and timing) leave every device buffer byte-identical to the 1-GPU run' % len(epairs), not ebad)

        # ---- whole runs
        runs = []
        if samples_future is not None:
            okb, blog, bindir, sruns = samples_future.result()
            rep.obligation('sample binaries build from the working tree', okb)
            if not okb:
                rep.violation({'broken': 'go build of amd/samples failed', 'log': blog[-4000:]}, nofail=True, text='sample build failed')
            else:
                runs = sruns

    run_fail = [r for r in runs if not r['passed']]
    rep.obligation('validation (not proof): %d whole runs with -verify pass for 1 GPU, 2 GPUs, unified 2-GPU device' % len(runs), not run_fail)

    hist = collections.Counter((e['e'] + (':' + e['port'] if 'port' in e else '')) for c in cases for e in c['events'])
    rep.coverage.update({
        'evaluations': len(cases) + len(dcases) + len(scases) + len(runs) + len(epairs),
        'distinct_nontrivial': len({vlib.case_hash(strip(c)) for c in cases if nontrivial(c)}),
        'rule': 'RDMA: random port-level histories (60-260 events; buffer sizes {1,2,3,4,128} x per-cycle widths 1-3; banked tables with '
                '2-4 remote and 1-4 local modules); every 5th history starves one path of responses (buffer 2-4, transactions pile up beyond the buffer size) and ends with a fair tail serving the other path; every 5th history keeps the 1-2 entry out-buffer of the control port full (DrainReqs without waiting for acks, rare pick-up) while traffic from outside stays in flight; every 4th history hostile (unknown/duplicate RspTo, wrong message kind, empty/self source, '
                'table miss, restart without drain / before the acknowledgement); non-trivial = at least one answer reached a requester on each path. '
                'Distribute: page sizes 2^{6,10,12,16}, 0-9 GPUs, page counts around multiples of the GPU count, fewer pages than GPUs, misaligned. '
                'Split: 1-6 GPUs with CU counts from {0,1,2,3,4,36,64,120}, 1-3 dimensional grids incl. partial last work-groups, fewer '
                'work-groups than CUs; every work-group of grids <= 20000 WGs is pushed through every real filter.',
        'traces_validated_against_impl': len(cases),
        'rdma_event_histogram': dict(hist),
        'rdma_answers_observed': sum(1 for c in cases for e in c['events'] if e['e'] == 'r' and e['port'] in ('RI', 'DO') and e.get('got')),
        'rdma_drain_acks_observed': sum(1 for c in cases for e in c['events'] if e['e'] == 'r' and e['port'] == 'CT' and e.get('got') and e['got']['flags'] == FL_DRAIN_RSP),
        'rdma_hostile_cases': sum(1 for c in cases if c.get('hostile')),
        'rdma_two_engine_histories': len(pairs2),
        'rdma_two_engine_requests_answered': sum(len(pc[k]['answers']) for pc in pairs2 for k in ('side_a', 'side_b')),
        'rdma_two_engine_drains_acknowledged': sum(pc[k]['drain_acks'] for pc in pairs2 for k in ('side_a', 'side_b')),
        'rdma_fair_drain_tails': sum(1 for c in cases if c.get('drain_tail')),
        'rdma_fair_drain_tails_acknowledged': sum(1 for c in cases if c.get('drain_tail') and any(e['e'] == 'r' and e.get('port') == 'CT' and e.get('got') and e['got']['flags'] == FL_DRAIN_RSP for e in c['events'][c['drain_tail']:])),
        'rdma_busy_fair_tail_cases': sum(1 for c in cases if c.get('busy')),
        'rdma_busy_max_starved_transactions': max([len(in_flight(c['events'], len(c['events']))) for c in cases if c.get('busy')] or [0]),
        'rdma_ctrl_backpressure_cases': sum(1 for c in cases if c.get('lazy')),
        'rdma_drain_acks_under_backpressure': sum(1 for c in cases if c.get('lazy') for e in c['events'] if e['e'] == 'r' and e.get('port') == 'CT' and e.get('got') and e['got']['flags'] == FL_DRAIN_RSP),
        'rdma_crashes_observed': sum(1 for c in cases if any(e.get('crash') for e in c['events'])),
        'distribute_cases': len(dcases), 'distribute_panics': sum(1 for c in dcases if c['panic']),
        'distribute_fewer_pages_than_gpus': sum(1 for c in dcases if not c['panic'] and c['bytes'] and ((c['bytes'] - 1) >> c['log2ps']) + 1 < len(c['gpus'])),
        'gpu_count_independence_runs': len(epairs), 'gpu_count_independence_baselines': len(ebases),
        'gpu_count_independence_buffers_compared': sum(len((b or {}).get('data', {}).get('buffers', [])) if b and b.get('data') else 0 for _, b in epairs),
        'gpu_count_independence_fewer_items_than_gpus': sum(1 for r, _ in epairs if (r['size'] // 64 if r['bench'] == 'matrixtranspose' else r['size']) < len(r['gpus'].split(','))),
        'routing_tables_checked': len(rcases), 'routing_probes': sum(len(c['probes']) for c in rcases),
        'split_cases': len(scases), 'split_exhaustive': sum(1 for c in scases if c.get('exhaustive')),
        'split_workgroups_filtered': sum(c.get('total_wg', 0) for c in scases if c.get('exhaustive')),
        'whole_run_teardown_race_retries': sum(r.get('teardown_race_retries', 0) for r in runs),
        'whole_runs': [{'cmd': ' '.join(r['cmd']), 'passed': r['passed'], 'wall_s': r['wall_s']} for r in runs],
        'model_mismatches': len(mism) + len(dmism) + len(smism) + len(rmism),
        'monitor_failures': len(bad) + len(dbad) + len(sbad) + len(rbad) + len(ebad) + len(pbad) + len(run_fail),
    })
    rep.samples = [{'buf': c['buf'], 'w': c['w'], 'events': [(e['e'], e.get('port'), (e.get('msg') or {}).get('id')) for e in c['events'][:20]]} for c in cases[:2]]

    def fails_monitor(evs, base):
        c = dict(base)
        c['events'] = evs
        out, _ = run_harness(binary, 'rdma', cases=[strip(c)])
        return bool(out) and env_ok(out[0]) and monitor(out[0]) is not None

    if not bad and not dbad and not sbad and not rbad and not ebad and not pbad and not run_fail and (mism or not okc) and not replay_file:
        # the model and the engine part ways: look harder for a history on which the
        # engine itself breaks the property (more seeds, control back-pressure and
        # hostile streams emphasised)
        for rnd, extra in enumerate([('--lazy-every', '1'), ('--hostile-every', '2'), (), ('--lazy-every', '2')]):
            more, _ = run_harness(binary, 'rdma', seed=vlib.seed() * 1000 + 17 + rnd, n=500, extra=extra)
            for c in more or []:
                if not c.get('hostile') and not env_ok(c):
                    c['hostile'] = True
            found = [(c, monitor(c)) for c in more or []]
            found = [(c, m) for c, m in found if m]
            if found:
                cases.append(found[0][0])
                bad = [(len(cases) - 1, found[0][1])]
                break
    if bad:
        i, msg = bad[0]
        c = cases[i]
        small = c['events'] if (c.get('busy') or 'never acknowledged' in msg) else vlib.ddmin(c['events'], lambda evs: fails_monitor(evs, c))
        c2 = strip(c)
        c2['events'] = [{'e': e['e'], **({'port': e['port']} if 'port' in e else {}), **({'msg': e['msg']} if 'msg' in e else {})} for e in small]
        out, _ = run_harness(binary, 'rdma', cases=[c2])
        rep.violation({'property': PROP, 'kind': 'rdma', 'what': monitor(out[0]) if out else msg, 'case': out[0] if out else c,
                       'replay_cmd': './check C18 --replay <this file>'}, text=msg)
    elif dbad:
        i, msg = dbad[0]
        rep.violation({'property': PROP, 'kind': 'dist', 'what': msg, 'case': dcases[i], 'replay_cmd': './check C18 --replay <this file>'}, text=msg)
    elif sbad:
        i, msg = sbad[0]
        rep.violation({'property': PROP, 'kind': 'split', 'what': msg, 'case': scases[i], 'replay_cmd': './check C18 --replay <this file>'}, text=msg)
    elif pbad:
        i, msg = pbad[0]
        pc = pairs2[i]
        rep.violation({'property': PROP, 'kind': 'pair', 'what': msg, 'seed': vlib.seed(), 'index': i,
                       'case': {k: pc[k] for k in ('side_a', 'side_b', 'tail_rounds', 'tail_needed', 'wire_left')},
                       'engine_a': strip(pc['A']), 'engine_b': strip(pc['B']), 'replay_cmd': './check C18 --replay <this file>'}, text=msg)
    elif rbad:
        i, msg = rbad[0]
        rep.violation({'property': PROP, 'kind': 'route', 'what': msg, 'case': rcases[i], 'replay_cmd': './check C18 (the routing check is deterministic and runs on every check)'}, text=msg)
    elif ebad:
        i, msg = ebad[0]
        r = epairs[i][0]
        rep.violation({'property': PROP, 'kind': 'e2e', 'what': msg, 'case': {k: r[k] for k in ('bench', 'size', 'gpus', 'unified', 'timing')},
                       'observed': r['data'], 'single_gpu': (epairs[i][1] or {}).get('data'), 'replay_cmd': './check C18 --replay <this file>'}, text=msg)
    elif run_fail:
        r = run_fail[0]
        rep.violation({'property': PROP, 'kind': 'run', 'what': 'whole run does not pass -verify (or hangs)', 'case': r,
                       'replay_cmd': './check C18 --replay <this file>'},
                      text='%s: rc=%s %s' % (' '.join(r['cmd']), r['rc'], 'TIMEOUT' if r['timeout'] else r['tail'][-200:]))
    elif mism or not okc:
        i, k = mism[0] if mism else (0, 0)
        rep.violation({'property': PROP, 'kind': 'rdma', 'broken': 'correspondence between coq/mem/Rdma.v and amd/timing/rdma/comp.go: '
                       'observation %d of history %d differs; theorems rdma_* of props/C18.v no longer speak about this code' % (k, i),
                       'case': cases[i] if cases else None, 'first_diverging_event': k, 'log': clog[-2000:]}, nofail=True,
                      text='model/implementation mismatch at RDMA history %d event %d; no property violation found on %d histories' % (i, k, len(cases)))
    elif dmism or not okd:
        i = dmism[0][0] if dmism else 0
        rep.violation({'property': PROP, 'kind': 'dist', 'broken': 'correspondence between Pages.distribute (coq/drv/Distribute.v) and '
                       'distributorImpl.Distribute; theorem distribute_covers_once no longer speaks about this code',
                       'case': dcases[i] if dcases else None, 'log': dlog[-2000:]}, nofail=True,
                      text='model/implementation mismatch at Distribute case %d; monitor passes on %d cases' % (i, len(dcases)))
    elif smism or not oks:
        i = smism[0][0] if smism else 0
        rep.violation({'property': PROP, 'kind': 'split', 'broken': 'correspondence between Split.wg_dist/wg_filter (coq/drv/Distribute.v) and '
                       'distributeWGToGPUs / WGFilter; theorem gpu_split_partition no longer speaks about this code',
                       'case': scases[i] if scases else None, 'log': slog[-2000:]}, nofail=True,
                      text='model/implementation mismatch at split case %d; monitor passes on %d cases' % (i, len(scases)))
    if not rep.violations and (bmism or not okb2):
        i = bmism[0][0] if bmism else 0
        rep.violation({'property': PROP, 'kind': 'e2e', 'broken': 'the work partition of a benchmark differs from the modelled slices (coq/drv/Distribute.v Bench); theorems bench_*_partition no longer speak about this code',
                       'case': {k: btie[i][k] for k in ('bench', 'size', 'gpus', 'unified', 'timing')} if btie else None, 'log': blog2[-2000:]}, nofail=True,
                      text='benchmark work partition differs from the model')
    if not rep.violations and (rmism or not okr or (not rcases and not replay_file)):
        rep.violation({'property': PROP, 'kind': 'route', 'broken': 'the RDMA address table built by timingconfig is not [CPU, GPU 1, ..., GPU n] any more (or the routing harness failed); theorem routing_table_correct no longer speaks about this platform',
                       'case': rcases[rmism[0][0]] if rmism else None, 'log': rlog[-2000:]}, nofail=True,
                      text='RDMA address table differs from the modelled table')
    return rep.finish()


if __name__ == '__main__':
    sys.exit(main(sys.argv[1:]))
