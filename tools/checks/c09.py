"""C09 — work-groups are dispatched exactly once within compute-unit resources.
Theorems: coq/props/C09.v over coq/cp/Resource.v (CU resource masks) and
coq/cp/Dispatcher.v (dispatchers + command processor launch path).
Tie: (res) call-exact correspondence of ReserveResourceForWG / FreeResourcesForWG
including the private state after every call; (cp) event-exact correspondence
of the port-level behaviour of the real CommandProcessor with fake CUs."""
import json, os, sys, collections
sys.path.insert(0, os.path.dirname(os.path.dirname(os.path.abspath(__file__))))
import vlib

PROP = 'C09'
HEADER = ('From Coq Require Import List NArith.\nImport ListNotations.\n'
          'From VCp Require Import Resource Dispatcher CuCompletion.\nOpen Scope N_scope.\n')
COQ_TARGETS = ['props/C09.vo']


def units(a, g):
    return a // g + (1 if a % g else 0)


# ------------------------------------------------------------------ monitors

def lds_units(op):
    """LDS a work-group uses, in 256-byte units: the code object's static size or, if larger, the size in
    the dispatch packet (static + dynamic; what the driver asks for and the compute unit allocates)"""
    return units(max(op['lds'], op.get('dyn', 0)), 256)


DYN_LDS = 'co-resident work-groups exceed the LDS of the compute unit'

def regions_of(op, locs):
    """per work-group: sgpr regions, lds region, vgpr regions per simd (unit offsets)"""
    su, vu, lu = units(op['sgpr'], 16), units(op['vgpr'], 4), lds_units(op)
    s = [(l[2] // 64, su) for l in locs]
    v = [(l[0], l[1] // 16, vu) for l in locs]
    lds = sorted({(l[3] // 256, lu) for l in locs})
    return s, v, lds


def paint(size, regs):
    """coverage count per cell, or None if a region leaves the resource"""
    cells = [0] * size
    for off, n in regs:
        if n == 0:
            continue
        if off < 0 or off + n > size:
            return None
        for i in range(off, off + n):
            cells[i] += 1
    return cells


def monitor_res(case):
    """Property C09 (resource part) evaluated on the recorded calls and state
    snapshots of one real CUResourceImpl.  Sound: returns None whenever the
    caller broke the protocol (hostile stream / shrunk inputs)."""
    if case.get('hostile'):
        return None
    cfg = case['cfg']
    if not cfg['simds']:
        return None
    ssize, lsize = cfg['sregs'] // 16, cfg['lds'] // 256
    vsize = [v // 4 // 64 for v, _ in cfg['simds']]
    pool = [p for _, p in cfg['simds']]
    # first the capacity rule with the LDS a work-group really uses (static + dynamic), over the whole history
    live = {}
    for i, o in enumerate(case['ops']):
        key = tuple(o['key'])
        if o.get('crash') or (o['op'] == 'r' and (key in live or o['nwf'] < 1)) or (o['op'] == 'f' and key not in live):
            break
        if o['op'] == 'f':
            del live[key]
        elif o.get('ok'):
            live[key] = o
            need = sum(lds_units(x) for x in live.values())
            if need > lsize:
                return ('call %d: %s: %d resident work-groups use %d LDS units (packet size, static + dynamic), the CU has %d'
                        % (i, DYN_LDS, len(live), need, lsize))
    res = collections.OrderedDict()
    prev = None
    for i, o in enumerate(case['ops']):
        key = tuple(o['key'])
        if o['op'] == 'r':
            if key in res or o['nwf'] < 1:
                return None
        elif key not in res:
            return None
        if o.get('crash'):
            return 'call %d (%s %s) panicked although the caller respected the protocol' % (i, o['op'], list(key))
        snap = o['snap']
        if o['op'] == 'r':
            if o.get('ok'):
                if len(o['locs']) != o['nwf']:
                    return 'call %d: %d locations for %d wavefronts' % (i, len(o['locs']), o['nwf'])
                if any(l[0] >= len(pool) for l in o['locs']):
                    return 'call %d: wavefront placed on a SIMD that does not exist' % i
                res[key] = (o, o['locs'])
            elif prev is not None and (snap['smask'], snap['lmask'], snap['vmasks'], snap['wffree']) != \
                    (prev['smask'], prev['lmask'], prev['vmasks'], prev['wffree']):
                return 'call %d: a failed reservation changed the occupancy' % i
        else:
            del res[key]
        sregs, lregs, vregs = [], [], [[] for _ in pool]
        wfs = [0] * len(pool)
        for (op, locs) in res.values():
            s, v, l = regions_of(op, locs)
            if len(l) > 1:
                return 'call %d: wavefronts of one work-group got different LDS regions' % i
            sregs += s
            lregs += l
            for sid, off, n in v:
                vregs[sid].append((off, n))
                wfs[sid] += 1
        if not res and (any(snap['smask']) or any(snap['lmask']) or any(any(m) for m in snap['vmasks'])
                        or list(snap['wffree']) != pool):
            return ('call %d: every work-group that was reserved has been freed, but the free resources of the CU differ '
                    'from the initial ones (sreg %s lds %s vreg %s wfFree %s): a work-group did not return exactly what it took'
                    % (i, snap['smask'], snap['lmask'], snap['vmasks'], snap['wffree']))
        for name, size, regs, mask in [('SGPR', ssize, sregs, snap['smask']), ('LDS', lsize, lregs, snap['lmask'])] + \
                [('VGPR of SIMD %d' % j, vsize[j], vregs[j], snap['vmasks'][j]) for j in range(len(pool))]:
            cells = paint(size, regs)
            if cells is None:
                return 'call %d: a %s region of a resident work-group exceeds the capacity' % (i, name)
            if any(c > 1 for c in cells):
                return 'call %d: %s regions of resident work-groups overlap' % (i, name)
            if [2 if c else 0 for c in cells] != mask:
                return 'call %d: %s mask is not exactly the regions of the resident work-groups (leak or lost mark)' % (i, name)
        for j in range(len(pool)):
            if snap['wffree'][j] + wfs[j] != pool[j] or snap['wffree'][j] < 0:
                return 'call %d: SIMD %d: %d free slots + %d resident wavefronts != pool size %d' % (i, j, snap['wffree'][j], wfs[j], pool[j])
        prev = snap
    return None


def monitor_cp(case):
    """Property C09 on the port-level trace of the real command processor (the capacity rule with the
    LDS really used is looked for first over the whole history: it names the cause)."""
    m = monitor_cp_rules(case, True)
    return m if m and DYN_LDS in m else monitor_cp_rules(case, False)


def monitor_cp_rules(case, skip_region_rules):
    if case.get('hostile'):
        return None
    launches, mapped, owner, done, resident, answered = {}, {}, {}, set(), {}, set()
    cus = case['cus']
    for i, e in enumerate(case['events']):
        if e['e'] == 'complete':
            ids = e['ids']
            if not ids or len(set(ids)) != len(ids) or any(x not in owner or x in done for x in ids):
                return None          # the (shrunk) environment broke the CU contract (ids of several
                                     # launches in one message are allowed: the emulation CU batches them)
        if e.get('crash'):
            return 'event %d (%s): the command processor panicked on protocol-respecting traffic' % (i, e['e'])
        if e.get('idle_dirty'):
            return ('event %d: a dispatcher is idle (no kernel) but its bookkeeping is not what it was when it was built: %s'
                    % (i, e['idle_dirty']))
        if e.get('pool_dirty'):
            return ('event %d: no dispatcher has a kernel (all work-groups completed) but the shared CU resource pool '
                    'is not back to its initial state: %s' % (i, e['pool_dirty']))
        if e['e'] == 'tick' and e.get('progress') is False and e.get('quiet'):
            # the CP reports no progress (akita puts it to sleep until a message arrives) and no message is
            # anywhere: a launch whose selected work-groups were all mapped and reported will never be answered
            owed = [lid for lid in launches if lid not in answered]
            if owed and all((lid, idx) in mapped and mapped[(lid, idx)] in done
                            for lid in owed for idx in range(len(launches[lid]['wgs']))):
                lid = owed[0]
                return ('event %d: launch %d (%d selected work-groups, all mapped and reported complete) is never answered: '
                        'the command processor makes no progress and all its ports are empty'
                        % (i, lid, len(launches[lid]['wgs'])))
        if e['e'] == 'launch' and e.get('acc'):
            if e['launch']['id'] in launches:
                return None
            launches[e['launch']['id']] = e['launch']
        elif e['e'] == 'complete' and e.get('acc'):
            for x in e['ids']:
                done.add(x)
                resident.pop(x, None)
        elif e.get('map'):
            m = e['map']
            lid, idx = m['key']
            if lid not in launches:
                return 'event %d: MapWGReq for a launch that was never accepted' % i
            l = launches[lid]
            if idx >= len(l['wgs']):
                return 'event %d: work-group %d is outside the grid of launch %d' % (i, idx, lid)
            if (lid, idx) in mapped:
                return 'event %d: work-group %d of launch %d mapped twice' % (i, idx, lid)
            if lid in answered:
                return 'event %d: work-group mapped after the launch response' % i
            if m['cu'] >= len(cus):
                return 'event %d: MapWGReq to an unknown CU' % i
            if len(m['locs']) != l['wgs'][idx]:
                return 'event %d: %d wavefront locations for a work-group of %d wavefronts' % (i, len(m['locs']), l['wgs'][idx])
            mapped[(lid, idx)] = m['id']
            owner[m['id']] = (lid, idx)
            cu = cus[m['cu']]
            if any(x[0] >= len(cu['simds']) for x in m['locs']):
                return 'event %d: wavefront placed on a SIMD that does not exist' % i
            resident[m['id']] = (m['cu'], regions_of(l, m['locs']))
            need = sum(sum(n for _, n in ld) for (c, (_, _, ld)) in resident.values() if c == m['cu'])
            if need > cu['lds'] // 256:
                return ('event %d: %s: the work-groups resident on CU %d use %d LDS units (packet size, static + dynamic), '
                        'the CU has %d' % (i, DYN_LDS, m['cu'], need, cu['lds'] // 256))
            # all work-groups that are certainly resident on this CU now
            sregs, lregs, vregs = [], [], [[] for _ in cu['simds']]
            for (c, (s, v, ld)) in resident.values():
                if c != m['cu']:
                    continue
                sregs += s
                lregs += ld
                for sid, off, n in v:
                    vregs[sid].append((off, n))
            for name, size, regs in [('SGPR', cu['sregs'] // 16, sregs), ('LDS', cu['lds'] // 256, lregs)] + \
                    [('VGPR of SIMD %d' % j, cu['simds'][j][0] // 256, vregs[j]) for j in range(len(cu['simds']))]:
                cells = paint(size, regs)
                if skip_region_rules:
                    continue
                if cells is None:
                    return 'event %d: %s region beyond the capacity of CU %d' % (i, name, m['cu'])
                if any(c > 1 for c in cells):
                    return 'event %d: %s regions of simultaneously resident work-groups overlap on CU %d' % (i, name, m['cu'])
            for j in range(len(cu['simds'])):
                if len(vregs[j]) > cu['simds'][j][1]:
                    return 'event %d: %d wavefronts resident on SIMD %d of CU %d, pool size %d' % (i, len(vregs[j]), j, m['cu'], cu['simds'][j][1])
        elif e.get('rsp') is not None:
            lid = e['rsp']
            if lid not in launches:
                return 'event %d: LaunchKernelRsp for an unknown launch' % i
            if lid in answered:
                return 'event %d: second LaunchKernelRsp for launch %d' % (i, lid)
            answered.add(lid)
            for idx in range(len(launches[lid]['wgs'])):
                if (lid, idx) not in mapped:
                    return 'event %d: LaunchKernelRsp for launch %d although work-group %d was never mapped' % (i, lid, idx)
                if mapped[(lid, idx)] not in done:
                    return 'event %d: LaunchKernelRsp for launch %d before work-group %d completed' % (i, lid, idx)
    return None


def monitor_emu(case):
    """Property C09 on the real command processor + real emulation compute units:
    every MapWGReq is reported complete exactly once, no panic, one response per
    launch and only after all its work-groups were mapped and reported.  Every
    action sequence of the harness is a legal environment."""
    launches, owner, reported, answered, nmap = {}, {}, set(), set(), collections.Counter()
    for i, e in enumerate(case['trace']):
        if e['e'] == 'crash':
            return 'step %d: the command processor / emulation CU panicked on protocol-respecting traffic' % i
        if e['e'] == 'launch':
            launches[e['launch']] = e['nwg']
        elif e['e'] == 'map':
            if e['id'] in owner:
                return 'step %d: MapWGReq %d delivered twice' % (i, e['id'])
            owner[e['id']] = e.get('launch', 0)
            nmap[e.get('launch', 0)] += 1
            if nmap[e.get('launch', 0)] > launches.get(e.get('launch', 0), 0):
                return 'step %d: more MapWGReqs than work-groups for launch %d' % (i, e.get('launch', 0))
        elif e['e'] == 'comp':
            for x in e['ids']:
                if x not in owner:
                    return 'step %d: completion reported for an unknown MapWGReq' % i
                if x in reported:
                    return 'step %d: MapWGReq %d reported complete more than once (message %s)' % (i, x, e['ids'])
                reported.add(x)
        elif e['e'] == 'rsp':
            l = e.get('launch', 0)
            if l not in launches:
                return 'step %d: LaunchKernelRsp for an unknown launch' % i
            if l in answered:
                return 'step %d: second LaunchKernelRsp for launch %d' % (i, l)
            answered.add(l)
            mine = [x for x, o in owner.items() if o == l]
            if len(mine) != launches[l] or any(x not in reported for x in mine):
                return 'step %d: LaunchKernelRsp for launch %d before all its work-groups were mapped and reported' % (i, l)
    return None


def monitor(case):
    if case['mode'] == 'cp':
        return monitor_cp(case)
    if case['mode'] == 'emu':
        return monitor_emu(case)
    return monitor_res(case)


def strip(case):
    """replay input: the case without observations"""
    if case['mode'] == 'emu':
        return {'mode': 'emu', 'ncu': case['ncu'], 'actions': case['actions']}
    if case['mode'] == 'cp':
        return {'mode': 'cp', 'hostile': case.get('hostile', False), 'launch_ov': case.get('launch_ov', 0),
                'sub_ov': case.get('sub_ov', 0), 'kernel_ov': case.get('kernel_ov', 0), 'cus': case['cus'],
                'ndisp': case['ndisp'], 'cap': case.get('cap', 0), 'alg': case.get('alg', ''),
                'events': [{k: e[k] for k in ('e', 'launch', 'ids') if k in e} for e in case['events']]}
    return {'mode': 'res', 'hostile': case.get('hostile', False), 'cfg': case['cfg'],
            'ops': [{k: o[k] for k in ('op', 'key', 'nwf', 'sgpr', 'vgpr', 'lds', 'dyn') if k in o} for o in case['ops']]}


SEQ = {'cp': 'events', 'emu': 'actions', 'res': 'ops'}


def seq(case):
    return case[SEQ[case['mode']]]


def with_seq(case, items):
    c = dict(case)
    c[SEQ[case['mode']]] = items
    return c


def run_impl(binary, cases=None, mode='res', seed=1, n=100):
    tmp = os.path.join(vlib.BUILD, 'c09_%d_%s.json' % (os.getpid(), mode))
    if cases is not None:
        inp = tmp + '.in'
        json.dump(cases, open(inp, 'w'))
        rc, log = vlib.run([binary, '--replay', inp, '--out', tmp])
        os.remove(inp)
    else:
        rc, log = vlib.run([binary, '--mode', mode, '--seed', str(seed), '--n', str(n), '--out', tmp])
    if rc != 0 or not os.path.exists(tmp):
        return None, log
    out = json.load(open(tmp))
    os.remove(tmp)
    for c in out:            # Go omits empty slices
        for k in ('trace', 'cutr', 'actions', 'events', 'ops', 'coqcu'):
            if c['mode'] == {'trace': 'emu', 'cutr': 'emu', 'actions': 'emu', 'coqcu': 'emu', 'events': 'cp', 'ops': 'res'}[k] \
                    and c.get(k) is None:
                c[k] = []
        if c['mode'] == 'emu':
            c['cutr'] = [t or [] for t in c['cutr']]
    return out, log


def nontrivial(case):
    if case['mode'] == 'emu':
        return sum(1 for e in case['trace'] if e['e'] == 'comp') >= 2
    if case['mode'] == 'cp':
        ev = case['events']
        return sum(1 for e in ev if e.get('map')) >= 2 and any(e['e'] == 'complete' and e.get('acc') for e in ev)
    ops = case['ops']
    return sum(1 for o in ops if o['op'] == 'r' and o.get('ok')) >= 2 and any(o['op'] == 'f' and not o.get('crash') for o in ops)


def main(argv):
    rep = vlib.Report(PROP, 'proof')
    rep.checker_cmd = ('make -C coq props/C09.vo && coqc props/C09.v (Print Assumptions) && '
                       'coqc cases/C09*/s*.v (vm_compute rmismatches / cmismatches)')
    rep.trusted = ['Coq 8.16.1 kernel + vm_compute',
                   'hand-written models coq/cp/Resource.v (curesourceimpl.go, resourcemask.go, curesourcepool.go) and '
                   'coq/cp/Dispatcher.v (dispatcher.go, roundrobin.go, cpMiddleware.go launch path, commandprocessor.go Tick)',
                   'Go harness harness/cmd/c09 (fake CUs, stub connection, ID renumbering) and the add-only verif export '
                   'files amd/timing/cp/verif_export{,_build,_state}.go, amd/timing/cp/internal/{resource,dispatching}/verif_export.go',
                   'grid enumeration (kernels.GridBuilder) taken as the list of work-groups it returns (property C08)',
                   'akita port buffers modelled as bounded FIFOs']
    rep.assumptions = ['theorems: any finite sequence of reserve/free calls (resource layer), any finite sequence of '
                       'deliveries, ticks and retrievals on the two ports (dispatcher layer); finite reported capacities; '
                       'every work-group has at least one wavefront',
                       'the sampled histories only decide whether the real code still behaves like the models']
    thorough = vlib.tier() == 'thorough'
    n_res, n_cp, n_emu = (2500, 1500, 500) if thorough else (260, 220, 60)

    replay_file = None
    if '--replay' in argv:
        replay_file = argv[argv.index('--replay') + 1]

    ok, log, binary = vlib.go_build('c09')
    rep.obligation('harness builds against the repo working tree (tag verif)', ok)
    if not ok:
        rep.violation({'broken': 'go build of harness/cmd/c09 against the repo failed', 'log': log[-4000:]}, nofail=True,
                      text='harness build failed')
        return rep.finish()

    ok, log = vlib.coq_build(COQ_TARGETS)
    okp, plog, thms = vlib.coq_check_props(PROP) if ok else (False, log, [])
    if not (ok and okp):
        rep.obligation('coq build', False)
        rep.violation({'broken': 'Coq development for C09 does not compile', 'log': (log + plog)[-4000:]}, nofail=True)
        return rep.finish()
    for name, axioms in thms:
        rep.obligation('theorem ' + name + (' [axioms: %s]' % ', '.join(axioms) if axioms else ' [closed under the global context]'), True)

    # ---- run the implementation
    cases = []
    if replay_file:
        obj = json.load(open(replay_file))
        src = obj if isinstance(obj, list) else (obj.get('case') or obj.get('cases') or obj)
        src = src if isinstance(src, list) else [src]
        cases, log = run_impl(binary, cases=[strip(c) for c in src])
        cases = cases or []
    else:
        cdir = os.path.join(vlib.ROOT, 'corpus', PROP)
        corpus = []
        for p in sorted(os.listdir(cdir)) if os.path.isdir(cdir) else []:
            if p.endswith('.json'):
                corpus += json.load(open(os.path.join(cdir, p)))
        if corpus:
            got, log = run_impl(binary, cases=[strip(c) for c in corpus])
            cases = got or []
        for mode, n in (('res', n_res), ('cp', n_cp), ('emu', n_emu)):
            gen, log = run_impl(binary, mode=mode, seed=vlib.seed(), n=n)
            if gen is None:
                rep.obligation('harness run (%s)' % mode, False)
                rep.violation({'broken': 'harness run failed', 'log': log[-4000:]}, nofail=True)
                return rep.finish()
            cases += gen

    # ---- property monitor on what the implementation did
    bad = [(i, monitor(c)) for i, c in enumerate(cases)]
    bad = [(i, m) for i, m in bad if m]
    # ---- correspondence with the models
    res_idx = [i for i, c in enumerate(cases) if c['mode'] == 'res']
    cp_all = [i for i, c in enumerate(cases) if c['mode'] == 'cp']
    cp_idx = [i for i in cp_all if cases[i].get('coq')]
    emu_idx = [i for i, c in enumerate(cases) if c['mode'] == 'emu']
    emu_terms = [(i, t) for i in emu_idx for t in cases[i].get('coqcu', [])]
    mism, okc, clog = [], True, ''
    for tag, idx, terms, checker, shard in (('r', res_idx, [cases[i]['coq'] for i in res_idx], 'rmismatches', 20),
                                            ('c', cp_idx, [cases[i]['coq'] for i in cp_idx], 'cmismatches', 16),
                                            ('e', [i for i, _ in emu_terms], [t for _, t in emu_terms], 'emismatches', 12)):
        if not idx:
            continue
        o, mm, lg = vlib.eval_cases(PROP + tag, HEADER, terms, shard_size=shard, checker=checker)
        okc = okc and o
        clog += lg
        mism += [(idx[a], k) for a, k in mm]
    mism.sort()
    rep.obligation('correspondence (resource layer): %d call histories evaluated by the model' % len(res_idx),
                   okc and not [m for m in mism if cases[m[0]]['mode'] == 'res'])
    rep.obligation('correspondence (dispatcher layer): %d port-level histories evaluated by the model' % len(cp_idx),
                   okc and not [m for m in mism if cases[m[0]]['mode'] == 'cp'])
    rep.obligation('correspondence (emulation CU completion path): %d compute-unit traces evaluated by the model' % len(emu_terms),
                   okc and not [m for m in mism if cases[m[0]]['mode'] == 'emu'])

    res_cases = [cases[i] for i in res_idx]
    cp_cases = [cases[i] for i in cp_all]
    emu_cases = [cases[i] for i in emu_idx]
    handles = [collections.Counter(e.get('id', 0) for e in (t or []) if e['e'] == 'handle') for c in emu_cases for t in (c.get('cutr') or [])]
    rep.coverage.update({
        'cp_small_port_cases': sum(1 for c in cp_cases if c.get('cap')),
        'cp_one_dispatcher_sequences': sum(1 for c in cp_cases if c.get('seq')),
        'cp_one_dispatcher_sequences_with_3_or_more_responses':
            sum(1 for c in cp_cases if c.get('seq') and sum(1 for e in c['events'] if e.get('rsp') is not None) >= 3),
        'cp_launches_by_wgfilter': dict(collections.Counter(
            'no filter' if not e['launch'].get('filter') else 'selects none' if not e['launch']['wgs'] else
            'selects one' if len(e['launch']['wgs']) == 1 else 'selects several'
            for c in cp_cases for e in c['events'] if e['e'] == 'launch' and e.get('acc'))),
        'cp_zero_workgroup_launches_answered': sum(
            1 for c in cp_cases for e in c['events'] if e.get('rsp') is not None and
            any(x['e'] == 'launch' and x.get('acc') and x['launch']['id'] == e['rsp'] and not x['launch']['wgs'] for x in c['events'])),
        'cp_state_inspections_after_tick': sum(1 for c in cp_cases for e in c['events'] if e['e'] == 'tick'),
        'cp_launches_by_packet_lds': dict(collections.Counter(
            'none' if not e['launch'].get('dyn') else 'equal' if e['launch']['dyn'] == e['launch']['lds'] else
            'larger' if e['launch']['dyn'] > e['launch']['lds'] else 'smaller'
            for c in cp_cases for e in c['events'] if e['e'] == 'launch' and e.get('acc'))),
        'res_reservations_by_packet_lds': dict(collections.Counter(
            'none' if not o.get('dyn') else 'equal' if o['dyn'] == o['lds'] else
            '64KiB' if o['dyn'] == 65536 else 'larger' if o['dyn'] > o['lds'] else 'smaller'
            for c in res_cases for o in c['ops'] if o['op'] == 'r' and o.get('ok'))),
        'res_returns_to_empty_checked': sum(1 for c in res_cases if not c.get('hostile') for k, o in enumerate(c['ops'])
                                            if o['op'] == 'f' and not o.get('crash') and o.get('snap') and not o['snap'].get('nres', 1)),
        'cp_deliveries_refused': sum(1 for c in cp_cases for e in c['events'] if e.get('acc') is False),
        'cp_algorithms': dict(collections.Counter(c.get('alg') or 'round-robin' for c in cp_cases)),
        'emu_cases': len(emu_cases),
        'emu_mapwg': sum(1 for c in emu_cases for e in c['trace'] if e['e'] == 'map'),
        'emu_completion_msgs': sum(1 for c in emu_cases for e in c['trace'] if e['e'] == 'comp'),
        'emu_ids_reported_after_retry': sum(1 for k in handles for v in k.values() if v > 1),
        'emu_launch_rsp': sum(1 for c in emu_cases for e in c['trace'] if e['e'] == 'rsp'),
        'evaluations': len(cases),
        'distinct_nontrivial': len({vlib.case_hash(strip(c)) for c in cases if nontrivial(c)}),
        'rule': 'res: random capacities (1-4 SIMDs, pools 0-10, masks of 1-256 units) and 20-80 random reserve/free calls with '
                'demands around the granularities; cp: real CommandProcessor, 1-8 fake finite CUs, 1-8 dispatchers, 1-4 '
                'overlapping launches (1-D/2-D/3-D grids with partial groups, some that never fit), completions in random '
                'order and grouping; every 6th history hostile (double reserve, unknown free, empty work-group, no SIMD; '
                'duplicate/unknown/mixed completion ids). non-trivial = res: >= 2 successful reservations and a free; '
                'cp: >= 2 MapWGReq and a completion; every reservation/launch carries a packet LDS size (0, equal, larger, 64 KiB); '
                'a quarter of the non-hostile cp histories are sequences of 3-6 kernels through one dispatcher with a rarely emptied '
                '1-2 entry driver port; after every tick the dispatchers\' private bookkeeping and the shared pool are inspected',
        'traces_validated_against_impl': len(cases),
        'res_calls': sum(len(c['ops']) for c in res_cases),
        'res_reserve_ok': sum(1 for c in res_cases for o in c['ops'] if o['op'] == 'r' and o.get('ok')),
        'res_reserve_refused': sum(1 for c in res_cases for o in c['ops'] if o['op'] == 'r' and not o.get('ok') and not o.get('crash')),
        'res_frees': sum(1 for c in res_cases for o in c['ops'] if o['op'] == 'f'),
        'cp_events': dict(collections.Counter(e['e'] for c in cp_cases for e in c['events'])),
        'cp_mapwg': sum(1 for c in cp_cases for e in c['events'] if e.get('map')),
        'cp_launch_rsp': sum(1 for c in cp_cases for e in c['events'] if e.get('rsp') is not None),
        'cp_overlapping_launch_cases': sum(1 for c in cp_cases if sum(1 for e in c['events'] if e['e'] == 'launch') >= 2 and c['ndisp'] >= 2),
        'panics_observed': sum(1 for c in cases if c['mode'] != 'emu' and any(x.get('crash') for x in seq(c))),
        'hostile_cases': sum(1 for c in cases if c.get('hostile')),
        'model_mismatches': len(mism), 'monitor_failures': len(bad),
    })
    rep.samples = [{'mode': c['mode'], 'first': [dict((k, v) for k, v in x.items() if k in ('op', 'e', 'key', 'ok', 'ids', 'rsp', 'a', 'n')) for x in seq(c)[:12]]}
                   for c in (res_cases[:1] + cp_cases[:1] + emu_cases[:1])]

    def fails_monitor(items, base, needle=''):
        out, _ = run_impl(binary, cases=[strip(with_seq(base, items))])
        return bool(out) and needle in (monitor(out[0]) or ' ')[:400] and monitor(out[0]) is not None

    if not bad and (mism or not okc) and not replay_file:
        # try harder: more seeds through the property monitor only
        for extra in range(1, 5):
            more = []
            for mode, n in (('res', 400), ('cp', 300), ('emu', 100)):
                gen, _ = run_impl(binary, mode=mode, seed=vlib.seed() + 7919 * extra, n=n)
                more += gen or []
            found = [(j, monitor(c)) for j, c in enumerate(more)]
            found = [(j, m) for j, m in found if m]
            if found:
                cases = more
                bad = found
                break

    if bad:
        bad.sort(key=lambda b: (DYN_LDS not in b[1], b[0]))      # the capacity rule first: it names the cause
        i, msg = bad[0]
        c = cases[i]
        small = vlib.ddmin(seq(c), lambda items: fails_monitor(items, c, DYN_LDS if DYN_LDS in msg else ''), budget=120)
        out, _ = run_impl(binary, cases=[strip(with_seq(c, small))])
        final = out[0] if out and monitor(out[0]) else c
        final = dict(final)
        final.pop('coq', None)
        final.pop('coqcu', None)
        rep.violation({'property': PROP, 'what': monitor(final), 'case': final,
                       'replay_cmd': './check C09 --replay <this file>'}, text=msg)
    elif mism or not okc:
        i, k = mism[0] if mism else (0, 0)
        c = dict(cases[i]) if cases else None
        if c:
            c.pop('coq', None)
            c.pop('coqcu', None)
        which = {'cp': 'coq/cp/Dispatcher.v and the command processor / dispatcher',
                 'emu': 'coq/cp/CuCompletion.v and amd/emu/computeunit.go (completion batching)',
                 'res': 'coq/cp/Resource.v and curesourceimpl.go / resourcemask.go'}[c['mode'] if c else 'res']
        rep.violation({'property': PROP, 'broken': 'correspondence between %s: observation %d of history %d differs; the '
                       'theorems of props/C09.v no longer speak about this code' % (which, k, i),
                       'case': c, 'first_diverging_event': k, 'log': clog[-2000:]}, nofail=True,
                      text='model/implementation mismatch at history %d step %d (%s); no property violation found on %d histories'
                           % (i, k, which, len(cases)))
    return rep.finish()


if __name__ == '__main__':
    sys.exit(main(sys.argv[1:]))
