"""C01 — simulated kernels compute what the host reference computes (PARTIAL).

Proved (coq/props/C01.v): kernel-argument marshalling (coq/sys/KernArg.v, tied
to the real driver by harness/cmd/c01 'k' cases) and the emulator's work-group
barrier loop (coq/sys/EmuLoop.v, tied to the real emu.ComputeUnit by 't' cases).
Validated, not proved: the end-to-end claim — a configuration matrix of the
real sample binaries run with -verify (workload x size x arch x GPU set x mode).
"""
import collections, hashlib, json, os, random, shutil, struct, subprocess, sys, tempfile, time
from concurrent.futures import ThreadPoolExecutor
sys.path.insert(0, os.path.dirname(os.path.dirname(os.path.abspath(__file__))))
import vlib

PROP = 'C01'
HEADER = 'From Coq Require Import List NArith.\nImport ListNotations.\nFrom VSys Require Import KernArg EmuLoop EmuToy.\nOpen Scope N_scope.\n'
COQ_TARGETS = ['props/C01.vo']

# ------------------------------------------------------------------ monitors (glue)

FMT = {'u8': 'B', 'i8': 'B', 'u16': 'H', 'i16': 'H', 'u32': 'I', 'i32': 'I', 'f32': 'I', 'u64': 'Q', 'i64': 'Q', 'ptr': 'Q'}
ARR = {'a8': 'B', 'a32': 'I', 'alocal': 'I'}


def expected_kernarg(case):
    """independent re-computation of what the kernel must find (struct module)"""
    lds = case['static'] & 0xffffffff
    out = b''
    for f in case['fields']:
        t = f['t']
        if t == 'local':
            out += struct.pack('<I', lds)
            lds = (lds + (f['v'] & 0xffffffff)) & 0xffffffff
        elif t in ARR:
            w = struct.calcsize(ARR[t])
            for v in f['vs']:
                out += struct.pack('<' + ARR[t], v & ((1 << (8 * w)) - 1))
        elif t == 'f32':
            # reflect.Value.Float() goes through float64: a signalling NaN comes back quiet
            v = f['v'] & 0xffffffff
            if (v >> 23) & 0xff == 0xff and v & 0x7fffff:
                v |= 0x400000
            out += struct.pack('<I', v)
        else:
            w = struct.calcsize(FMT[t])
            out += struct.pack('<' + FMT[t], f['v'] & ((1 << (8 * w)) - 1))
    return out, lds


def monitor_k(case):
    obs = case.get('obs') or []
    if not obs:
        return 'no launch request observed'
    want, lds = expected_kernarg(case)
    seen = set()
    for o in obs:
        if o.get('crash'):
            return 'driver panicked while marshalling a valid argument struct: %s' % o['crash']
        if bytes(o['args']) != want:
            for i, (a, b) in enumerate(zip(bytes(o['args']), want)):
                if a != b:
                    return 'kernarg byte %d is 0x%02x, the kernel expects 0x%02x' % (i, a, b)
            return 'kernarg buffer has %d bytes, expected %d' % (len(o['args']), len(want))
        if o['group'] != lds:
            return 'GroupSegmentSize %d, expected static + requested = %d' % (o['group'], lds)
        if o['wgsize'] != list(case['wg']) or o['gridsize'] != list(case['grid']):
            return 'packet geometry %s/%s differs from the launch call %s/%s' % (o['wgsize'], o['gridsize'], case['wg'], case['grid'])
        if o['other'] != 0:
            return 'packet fields that the driver never sets are non-zero'
        pk = struct.unpack('<HHHHHHIIIIIQQQQ', bytes(o['pkt']))
        wantpk = (0, 0, case['wg'][0], case['wg'][1], case['wg'][2], 0, case['grid'][0], case['grid'][1], case['grid'][2],
                  0, lds, o['kobj'], o['kernarg'], 0, 0)
        if pk != wantpk:
            return 'packet in device memory %s differs from the packet sent to the GPU %s' % (pk, wantpk)
        if not o['orig_same']:
            return "the caller's argument struct was modified"
        for a in (o['kobj'], o['kernarg'], o['pktaddr']):
            if a == 0:
                return 'null device address in packet'
        if o['kernarg'] in seen or o['pktaddr'] in seen or o['kernarg'] == o['pktaddr']:
            return 'kernarg/packet buffers alias'
        seen.add(o['kernarg']); seen.add(o['pktaddr'])
        if not case.get('unified') and o['dst_gpu'] != case['gpu']:
            return 'launch request sent to GPU %d, queue belongs to GPU %d' % (o['dst_gpu'], case['gpu'])
    return None


def monitor_t(case):
    """barrier semantics checked on the recorded instruction trace of the real CU"""
    o = case['obs']
    prog = case['prog']
    offs, off = {}, 0
    for i, ti in enumerate(prog):
        offs[off] = i
        off += ti['sz']
    nwf = case['nwf']
    st = {}  # (wg, wf) -> [pc, barriers passed, ended]
    order = []
    for g, w, pcafter in o['trace']:
        key = (g, w)
        if key not in st:
            st[key] = [0, 0, False, False]  # pc, barriers, ended, waiting
            order.append(key)
        s = st[key]
        if s[2]:
            return 'wavefront %s executed an instruction after s_endpgm' % (key,)
        if s[0] not in offs:
            return 'wavefront %s fetched from the middle of an instruction (pc %d)' % (key, s[0])
        ti = prog[offs[s[0]]]
        if s[3]:
            # leaving a barrier: every wavefront of the work-group must have arrived
            # (a wavefront that already ended counts as arrived)
            for w2 in range(nwf):
                s2 = st.get((g, w2))
                if s2 is None or (s2[1] < s[1] and not s2[2]):
                    return 'wavefront %s passed barrier %d before wavefront %d arrived' % (key, s[1], w2)
            s[3] = False
        nxt = s[0] + ti['sz']
        if ti['op'] in ('skipwf', 'skipodd'):
            if pcafter not in (nxt, nxt + ti['b']):
                return 'bad branch target'
        elif ti['op'] == 'loop':
            if pcafter not in (nxt, nxt - ti['a']):
                return 'bad loop target'
        elif pcafter != nxt:
            return 'PC of %s advanced from %d to %d, instruction size is %d' % (key, s[0], pcafter, ti['sz'])
        s[0] = pcafter
        if ti['op'] == 'barrier':
            s[1] += 1
            s[3] = True
        if ti['op'] == 'end':
            s[2] = True
    if o['panic']:
        return 'compute unit panicked on a valid program: %s' % o.get('msg')
    for g in range(case['nwg']):
        for w in range(nwf):
            s = st.get((g, w))
            if s is None or not s[2]:
                return 'work-group %d reported complete but wavefront %d never reached s_endpgm' % (g, w)
    if not o['completions_ok']:
        return 'work-group completion not reported exactly once per MapWGReq'
    return None


def strip_k(c):
    return {k: c[k] for k in ('kind', 'static', 'slack', 'fields', 'grid', 'wg', 'ngpu', 'gpu', 'unified', 'twice')}


def strip_t(c):
    return {k: c[k] for k in ('kind', 'prog', 'nwf', 'lds', 'glob', 'nwg')}


def run_harness(binary, replay=None, seed=1, nk=100, nt=100):
    tmp = os.path.join(vlib.BUILD, 'c01_%d.json' % os.getpid())
    if replay is not None:
        inp = tmp + '.in'
        json.dump(replay, open(inp, 'w'))
        rc, log = vlib.run([binary, '--replay', inp, '--out', tmp], timeout=600)
        os.remove(inp)
    else:
        rc, log = vlib.run([binary, '--seed', str(seed), '--nk', str(nk), '--nt', str(nt), '--out', tmp], timeout=600)
    if rc != 0:
        return None, log
    out = json.load(open(tmp))
    os.remove(tmp)
    out['k'] = out.get('k') or []
    out['t'] = out.get('t') or []
    return out, log


# ------------------------------------------------------------------ validation matrix

# Every size parameter of a workload has its own value list and is drawn
# INDEPENDENTLY (rectangular shapes, values straddling multiples of the
# work-group / tile size in each dimension separately).  A combination that
# fails on the clean tree is not left out silently: it belongs to a known
# finding with a matcher (KNOWN below, tools/checks/c01_known.json) and the
# class has a witness that is run on every check.  Only inherent domain limits
# are encoded in the value lists themselves (power-of-two lengths for
# bitonicsort / fastwalshtransform, AES block multiples, fft >= 8 KiB, a graph /
# matrix with at least one edge / non-zero).
# params: (flag, values, large values).  "large" values are drawn in emulation only
# (a timing run of them would take minutes); None = the flag is omitted.
# The flag set of every table is checked against `<sample> -h` on every run
# (flag_coverage): a numeric flag of a sample that no table varies fails the check.
P = collections.OrderedDict()
_XY = [1, 17, 33, 64, 100, 200, 256, 257, 300]
_XYL = [512, 1024, 1040]   # 1040 floats = one 4 KiB page + 64 bytes: the larger dimension crosses a page boundary of its vector
# an iteration-like value may be given relative to a size parameter drawn before it: (flag, delta, cap) -> min(value(flag) + delta, cap)
P['fir'] = dict(params=[('length', [1, 63, 64, 65, 100, 199, 255, 256, 257, 1000, 4096], [8192, 100000]),
                        ('taps', [1, 2, 16, 33, 64, 128, 300], [('length', 0, 300), ('length', 1, 300)])],
                cdna3=True, multi=True, unified=True, um=True, timing=True)
P['aes'] = dict(params=[('length', [16, 64, 1024, 4096], [65536])], cdna3=True, multi=True, unified=True, um=True, timing=True)
P['atax'] = dict(params=[('x', _XY, _XYL), ('y', _XY, _XYL)], cdna3=True, multi=True, unified=True, um=True, timing=True)
P['bicg'] = dict(params=[('x', _XY, _XYL), ('y', _XY, _XYL)], cdna3=True, multi=True, unified=True, um=True, timing=True)
P['bfs'] = dict(params=[('node', [2, 63, 100, 257, 1000, 1024], [2048, 4096]), ('degree', [1, 3, 5, 8], []), ('depth', [0, 1, 2, 5], [('node', 0, 130), ('node', 1, 130)])],
                cdna3=True, multi=False, unified=True, um=True, timing=True, ignored_flags=['load-graph'])
P['bitonicsort'] = dict(params=[('length', [2, 64, 256, 512], [4096]), ('order-asc', ['true', 'false'], [])],
                        cdna3=True, multi=True, unified=True, um=True, timing=False)
P['fastwalshtransform'] = dict(params=[('length', [2, 64, 256, 512, 2048], [8192, 65536])], cdna3=True, multi=True, unified=True, um=True, timing=False)
P['fft'] = dict(params=[('bytes', [8192, 65536, 131072], [1048576]), ('MB', [None, 1, 2], []), ('passes', [0, 1, 2, 3], [])],  # -bytes overrides -MB; `fft -MB=1` alone is in the core
                cdna3=True, multi=True, unified=True, um=True, timing=True)
P['floydwarshall'] = dict(params=[('node', [8, 16, 17, 24, 32, 48], [64, 128]), ('iter', [0, 1, 3, 5], [('node', -1, 130), ('node', 0, 130), ('node', 1, 130), ('node', 9, 140), 200])],
                          cdna3=True, multi=True, unified=True, um=True, timing=True)
P['kmeans'] = dict(params=[('points', [1, 65, 100, 256, 1000], [1040, 4096]), ('features', [1, 3, 8, 34, 64], [1040]), ('clusters', [1, 2, 5, 7, 16], []),
                           ('max-iter', [0, 1, 2, 3, 5, 10], [('points', 0, 130), ('points', 1, 130)])], cdna3=True, multi=True, unified=True, um=True, timing=True)
P['matrixmultiplication'] = dict(params=[('x', [16, 32, 48, 64, 96], [128, 256, 1056]), ('y', [16, 32, 48, 64], [128, 200, 1040]), ('z', [16, 32, 48, 64], [128, 256, 1056])],
                                 cdna3=True, multi=True, unified=True, um=True, timing=True)
P['matrixtranspose'] = dict(params=[('width', [64, 100, 128, 192, 256], [512, 1024])], cdna3=True, multi=True, unified=True, um=True, timing=True)
P['nbody'] = dict(params=[('particles', [1, 4, 64, 100, 128, 256], [512, 1040]), ('iter', [0, 1, 2, 3, 8], [('particles', 0, 12), ('particles', 1, 12)])],
                  cdna3=True, multi=True, unified=True, um=True, timing=True)
P['nw'] = dict(params=[('length', [64, 128, 192], [])], cdna3=True, multi=False, unified=False, um=False, timing=False)
P['pagerank'] = dict(params=[('node', [1, 16, 32, 65, 100, 256], [1024, 2048]), ('sparsity', [1, 0.5, 0.1, 0.05, 0.01], []),
                             ('iterations', [0, 1, 2, 3, 5, 16], [('node', 0, 70), ('node', 1, 70)])], cdna3=True, multi=True, unified=True, um=True, timing=True)
P['relu'] = dict(params=[('length', [1, 63, 64, 65, 1000, 4097], [100000])], cdna3=True, multi=True, unified=True, um=True, timing=True)
P['simpleconvolution'] = dict(params=[('width', [1, 16, 17, 30, 64, 100], [254, 512, 1040]), ('height', [1, 16, 17, 30, 64, 100], [254, 300, 1040]),
                                      ('mask-size', [1, 3, 5, 7, 9], [])], cdna3=True, multi=True, unified=True, um=True, timing=True)
P['spmv'] = dict(params=[('dim', [8, 63, 64, 100, 128, 129, 256], [1024, 1040, 2048]), ('sparsity', [1, 0.1, 0.05, 0.02, 0.005], [])],
                 cdna3=True, multi=True, unified=True, um=False, timing=True)
P['stencil2d'] = dict(params=[('row', [34, 64, 66], []), ('col', [64, 66, 127, 128, 192], [256, 384, 1088]), ('iter', [0, 1, 3, 5], [('row', 0, 130), ('row', 6, 130)])],
                      cdna3=True, multi=True, unified=True, um=True, timing=True)
P['vectoradd'] = dict(params=[('width', [1, 3, 63, 65, 100, 1000, 4096], [1040, 65536]), ('height', [1, 2, 3], [64, 1040])],
                      cdna3=True, multi=True, unified=True, um=False, timing=False)
P['conv2d'] = dict(params=[('N', [1, 2, 4], []), ('C', [1, 3, 8], []), ('H', [5, 8, 9, 28], [32, 36]), ('W', [5, 8, 11, 28], [32, 36]), ('output-channel', [1, 2, 3, 8], []),
                           ('kernel-height', [1, 3, 5], []), ('kernel-width', [1, 3, 5], []), ('pad-x', [0, 1, 2], []), ('pad-y', [0, 1, 2], []),
                           ('stride-x', [1, 2, 3], []), ('stride-y', [1, 2, 3], []), ('enable-backward', [None, None, 'true'], [])],
                   cdna3=False, multi=False, unified=False, um=False, timing=False)
P['im2col'] = dict(params=[('N', [1, 2, 4], []), ('C', [1, 3, 8], []), ('H', [5, 8, 9, 28], [32, 36]), ('W', [5, 8, 11, 28], [32, 36]), ('kernel-height', [1, 3, 5], []),
                           ('kernel-width', [1, 3, 5], []), ('pad-x', [0, 1, 2], []), ('pad-y', [0, 1, 2], []), ('stride-x', [1, 2, 3], []), ('stride-y', [1, 2, 3], []),
                           ('dilate-x', [1, 2, 3], []), ('dilate-y', [1, 2, 3], [])], cdna3=False, multi=False, unified=False, um=False, timing=False)
P['memcopy'] = dict(params=[], cdna3=False, multi=False, unified=False, um=False, timing=False)

# flags every sample inherits (runner + sampling package): execution classes are
# chosen by the matrix; wavefront-level sampled simulation is an approximation mode
# outside the property
NON_SIZE_FLAGS = {'sampled-granulary', 'sampled-threshold', 'wf-sampling'}


def flag_coverage(bindir):
    """own flags of every sample (from `<sample> -h`) that no parameter table varies"""
    import re
    runner = set(re.findall(r'flag\.\w+\("([\w-]+)"', open(os.path.join(vlib.REPO, 'amd/samples/runner/flag.go')).read()))
    missing = []
    for w, d in P.items():
        rc, out = vlib.run([os.path.join(bindir, w), '-h'], timeout=30)
        own = set(re.findall(r'^\s+-([\w-]+)', out, re.M)) - runner - NON_SIZE_FLAGS - set(d.get('ignored_flags', []))
        missing += ['%s -%s' % (w, f) for f in sorted(own - {k for k, _, _ in d['params']})]
        extra = {k for k, _, _ in d['params']} - own
        missing += ['%s -%s (table entry without such a flag)' % (w, f) for f in sorted(extra)]
    return missing


def vals(c):
    """size parameters of a configuration as numbers"""
    d = {}
    for tok in c['size'].split():
        k, v = tok.lstrip('-').split('=')
        try:
            d[k] = int(v)
        except ValueError:
            try:
                d[k] = float(v)
            except ValueError:
                d[k] = v
    return d


GLOBAL_OFFSET_WORKLOADS = ('fir', 'relu', 'aes', 'kmeans', 'bitonicsort', 'simpleconvolution')


def discrete(c):
    return c['ngpu'] >= 2 and not c['unified']


def mm_tiles(c):
    if c['w'] != 'matrixmultiplication':
        return False
    v = vals(c)
    if c['arch'] == 'cdna3':
        return v['x'] % 32 != 0 or v['z'] % 32 != 0
    return v['x'] % 32 != 0 and v['z'] >= 32


# Known findings: id (= key in c01_known.json), witness command, timeout, matcher on a configuration, text
KNOWN = [
    dict(id='cdna3-discrete-multi-gpu-global-offset', witness='fir -length=64 -gpus=1,2 -arch=cdna3', timeout=60,
         match=lambda c: c['arch'] == 'cdna3' and discrete(c) and c['w'] in GLOBAL_OFFSET_WORKLOADS,
         text='-arch=cdna3 with several discrete GPUs (-gpus=1,2): fir, relu, aes, kmeans, bitonicsort and simpleconvolution tell each '
              'GPU its part of the index space through the hidden global offset, which the gfx942 (HIP) kernels do not add to the '
              'work-item ID: every GPU computes the first part and the rest stays untouched (fir -length=64 -gpus=1,2 -arch=cdna3: '
              '"At position 32, expected 2600, but get 0"); gcn3 and -unified-gpus pass; atax, bicg, matrixtranspose, matrixmultiplication, '
              'nbody, pagerank, spmv, stencil2d, fft, floydwarshall and vectoradd (pointer offsets) pass'),
    dict(id='unified-memory-timing-multi-gpu-hang', witness='fir -length=64 -gpus=1,2 -use-unified-memory -timing', timeout=30, hang=True,
         match=lambda c: c['timing'] and c['um'] and c['ngpu'] >= 2 and (
             (discrete(c) and (c['ngpu'] >= 3 or c['w'] in ('fir', 'aes') or (c['w'] == 'matrixtranspose' and vals(c).get('width', 256) > 64)))
             or (c['unified'] and c['w'] == 'pagerank')),
         text='timing platform, discrete GPU set, -use-unified-memory (classes the acceptance matrix lists): after the repairs 5048ec2f '
              '(page-migration panic) and 039c00e9 (TLB shootdown restarts the reorder buffers) a second, akita-internal circular wait (TLB '
              'flush waits for its MSHR; head-of-line blocking in the MMU migration queue) still deadlocks fir and aes with -gpus=1,2 and '
              'every workload with >= 3 discrete GPUs; also matrixtranspose -width>=128 -gpus=1,2 (width 64 passes) and pagerank -node=65 '
              '-sparsity=0.5 -iterations=1 -unified-gpus=1,2; relu, kmeans, matrixmultiplication, simpleconvolution -gpus=1,2 pass'),
    dict(id='unified-memory-timing-multi-gpu-hang', witness='relu -length=64 -gpus=1,2,3 -use-unified-memory -timing', timeout=30, hang=True,
         match=lambda c: False, text='same class, >= 3 discrete GPUs witness'),
    dict(id='kmeans-max-iter-zero', witness='kmeans -points=100 -features=8 -clusters=3 -max-iter=0', timeout=60,
         match=lambda c: c['w'] == 'kmeans' and vals(c).get('max-iter', 5) == 0,
         text='kmeans -max-iter=0 panics in host code (index out of range [-8]) instead of returning the initial clustering or rejecting '
              'the value; pagerank -iterations=0, stencil2d -iter=0, nbody -iter=0, fft -passes=0 and floydwarshall -iter=0 (= all) are accepted'),
    dict(id='conv2d-backward-stride-or-non-square', witness='conv2d -enable-backward=true -stride-x=2', timeout=60,
         match=lambda c: c['w'] == 'conv2d' and vals(c).get('enable-backward') == 'true' and
         (vals(c).get('stride-x', 1) > 1 or vals(c).get('stride-y', 1) > 1 or vals(c).get('H', 28) != vals(c).get('W', 28)),
         text='conv2d -enable-backward with a stride > 1 panics in host code ("mismatch in size src size [36] dst size [27]"), with a '
              'non-square input it panics "out of memory" or "page not found in page table" (-enable-backward=true -H=32 -W=11); '
              'stride 1 with square inputs passes for every batch/channel/kernel/padding choice'),
    dict(id='floydwarshall-node-multiple-of-8', witness='floydwarshall -node=17', timeout=60,
         match=lambda c: c['w'] == 'floydwarshall' and vals(c).get('node', 16) % 8 != 0,
         text='floydwarshall with a node count that is not a multiple of 8 (4, 12, 17, 20) fails -verify in emulation: the grid is '
              'node/blockSize work-groups per dimension and the kernel has no bounds check; the precondition is not checked'),
    dict(id='matrixmultiplication-tile-multiples', witness='matrixmultiplication -x=48 -y=32 -z=32', timeout=60, match=mm_tiles,
         text='matrixmultiplication fails -verify in emulation unless -x is a multiple of 32 (gcn3, when z >= 32: 16x*x32, 48x*x32 ... '
              'mismatch at [0,0]); the gfx942 kernel additionally needs -z to be a multiple of 32 (cdna3: 32x32x16, 64x64x48 mismatch)'),
    dict(id='matrixmultiplication-tile-multiples', witness='matrixmultiplication -x=32 -y=32 -z=16 -arch=cdna3', timeout=60,
         match=lambda c: False, text='same class, cdna3 witness'),
    dict(id='matrixtranspose-width-multiple-of-64', witness='matrixtranspose -width=100', timeout=60,
         match=lambda c: c['w'] == 'matrixtranspose' and vals(c).get('width', 256) % 64 != 0,
         text='matrixtranspose with a width that is not a multiple of 64 (96, 100) leaves the columns from 64 on untransposed: -verify fails'),
    dict(id='nw-length', witness='nw -length=192', timeout=60,
         match=lambda c: c['w'] == 'nw' and vals(c).get('length', 64) not in (64, 128),
         text='nw verifies only for -length=64 and 128; 16/32/48/100 and 192/256/320 fail (mismatch at (129,129) for 192: rows/cols from '
              '129 on keep their initial value), gcn3 and cdna3'),
    dict(id='spmv-cdna3-dim-over-128', witness='spmv -dim=129 -sparsity=1 -arch=cdna3', timeout=60,
         match=lambda c: c['w'] == 'spmv' and c['arch'] == 'cdna3' and vals(c).get('dim', 128) > 128,
         text='spmv -arch=cdna3 computes only the first 128 rows: dim 129/192/256/300 fail -verify ("not match at (128), expected 0") '
              'whenever row 128 has a non-zero; gcn3 passes; the acceptance matrix lists spmv cdna3 with the default dim 128'),
    dict(id='im2col-non-square', witness='im2col -H=8 -W=11', timeout=60,
         match=lambda c: c['w'] == 'im2col' and vals(c).get('H', 28) != vals(c).get('W', 28),
         text='im2col with a non-square input (H != W) fails its GPU-vs-CPU verification (or runs the emulator into undecodable code) '
              'for every kernel/stride/padding/dilation choice; all square inputs pass; conv2d passes for the same shapes'),
    dict(id='conv2d-padding-out-of-bounds', witness='conv2d -N=2 -H=9 -pad-y=1', timeout=60,
         match=lambda c: c['w'] == 'conv2d' and vals(c).get('H', 28) != vals(c).get('W', 28) and
         (vals(c).get('pad-x', 0) >= 1 or vals(c).get('pad-y', 0) >= 1 or vals(c).get('N', 1) * vals(c).get('C', 1) >= 8),
         text='conv2d with a non-square input and padding, or with N*C >= 8 input planes, panics "page not found in page table" in emulation for some shapes '
              '(conv2d -N=2 -H=9 -pad-y=1 with the default W=28; -N=1 -C=3 -H=28 -W=8 -kernel-width=1 -pad-x=1: vAddr 0x7e3): a kernel of the convolution addresses memory outside '
              'its buffers, which faults only when the address leaves the mapped pages (N=1, square inputs, W=8/11 pass)'),
    dict(id='stencil2d-column-count', witness='stencil2d -row=64 -col=66', timeout=60,
         match=lambda c: c['w'] == 'stencil2d' and vals(c).get('col', 64) not in ((64, 128, 192, 256, 384, 1088) if c['arch'] == 'cdna3' else (64, 127, 128, 192, 256, 384, 1088)),
         text='stencil2d with a column count other than 64/127/128/192 (e.g. -col=66: one full 64-lane work-group) makes the emulator '
              'run into undecodable/unimplemented instructions and panic; cause not isolated'),
    dict(id='stencil2d-row-count', witness='stencil2d -row=66 -col=64', timeout=60,
         match=lambda c: c['w'] == 'stencil2d' and vals(c).get('row', 64) != 64,
         text='stencil2d with a row count other than 64 (18, 34, 50, 66, 130) fails -verify at the last interior/boundary row '
              '("not match at (65,1), expected 1.0 to equal 0.5"): grid rows = (row-2)/16 truncates and the reference disagrees'),
]

def cfg_cmd(c):
    a = [c['w']] + c['size'].split()
    if c['arch'] == 'cdna3':
        a.append('-arch=cdna3')
    if c['gpus']:
        a.append(('-unified-gpus=' if c['unified'] else '-gpus=') + c['gpus'])
    if c['um']:
        a.append('-use-unified-memory')
    if c['timing']:
        a.append('-timing')
        if c.get('gpu'):
            a.append('-gpu=' + c['gpu'])
    return ' '.join(a)


def mk(w, size, arch='gcn3', gpus='', unified=False, um=False, timing=False, gpu=''):
    return dict(w=w, size=size, arch=arch, gpus=gpus, unified=unified, um=um, timing=timing, gpu=gpu,
                ngpu=len(gpus.split(',')) if gpus else 1)


def domain_ok(c):
    """inputs a workload rejects with a message are outside its domain"""
    v = vals(c)
    if c['w'] == 'kmeans' and v.get('points', 1024) < v.get('clusters', 5):
        return False  # kmeans panics: needs at least as many points as clusters
    if c['w'] == 'spmv' and v.get('dim', 128) ** 2 * v.get('sparsity', 0.01) < 1:
        return False  # a matrix without a non-zero ("Allocating 0 bytes")
    if c['w'] in ('conv2d', 'im2col'):
        # the dilated kernel must fit into the (unpadded) input in both dimensions, otherwise the output is empty
        k = max(v.get('kernel-height', 3), v.get('kernel-width', 3))
        dil = max(v.get('dilate-x', 1), v.get('dilate-y', 1))
        if dil * (k - 1) + 1 > min(v.get('H', 28), v.get('W', 28)):
            return False
    return True


def cost_ok(c):
    """run-time budget of a drawn combination (independent large values can multiply to minutes of emulation)"""
    v, w = vals(c), c['w']
    g = v.get
    if w == 'kmeans':
        if c['timing'] and g('points', 1024) * g('features', 32) * max(1, g('max-iter', 5)) > 2e5:
            return False
        return g('points', 1024) * g('features', 32) <= 70000 and g('points', 1024) * g('features', 32) * g('clusters', 5) * max(1, g('max-iter', 5)) <= 5e6
    if w == 'matrixmultiplication':
        return g('x', 64) * g('y', 64) * g('z', 64) <= 2e7
    if w == 'simpleconvolution':
        return g('width', 254) * g('height', 254) * g('mask-size', 3) ** 2 <= 1.5e7
    if w == 'vectoradd':
        return g('width', 1024) * g('height', 1024) <= 1e6
    if w == 'nbody':
        return g('particles', 1024) ** 2 * max(1, g('iter', 8)) <= 1.5e7
    if w == 'pagerank':
        nnz = g('node', 16) ** 2 * g('sparsity', 0.001)
        return nnz <= 1e6 and nnz * max(1, g('iterations', 16)) <= 3e6
    if w == 'spmv':
        return g('dim', 128) ** 2 * g('sparsity', 0.01) <= 2e6
    if w == 'stencil2d':
        return g('row', 64) * g('col', 64) * max(1, g('iter', 1)) <= 3e6
    if w == 'fir':
        return g('length', 4096) * g('taps', 16) <= 5e6
    if w == 'atax' or w == 'bicg':
        return g('x', 4096) * g('y', 4096) <= 1.2e6
    if w == 'conv2d':
        return (g('N', 1) * g('C', 1) * g('H', 28) * g('W', 28) * g('output-channel', 3) * g('kernel-height', 3) * g('kernel-width', 3)) <= 5e6
    return True


def known_class(c):
    for k in KNOWN:
        if k['match'](c):
            return k['id']
    return None


def draw(rng):
    """one configuration: workload uniform, an execution class the workload supports, then every
    size parameter drawn independently from its own list (large values in emulation only)"""
    w = rng.choice(list(P))
    d = P[w]
    classes = [dict()]
    if d['cdna3']:
        classes += [dict(arch='cdna3')] * 2
    classes += [dict(gpus='2')]
    if d['multi']:
        classes += [dict(gpus='1,2'), dict(gpus='1,2,3'), dict(gpus='1,2,3,4')]
        if d['cdna3']:
            classes += [dict(arch='cdna3', gpus='1,2'), dict(arch='cdna3', gpus='1,2,3,4')]
        if d['um']:
            classes += [dict(gpus='1,2', um=True)]
    if d['unified']:
        classes += [dict(gpus='1,2', unified=True), dict(gpus='1,2,3,4', unified=True)]
        if d['cdna3']:
            classes += [dict(arch='cdna3', gpus='1,2', unified=True)]
        if d['um']:
            classes += [dict(gpus='1,2', unified=True, um=True)]
    if d['um']:
        classes += [dict(um=True)]
    if d['timing']:  # acceptance-matrix classes (r9nano timing platform)
        classes += [dict(timing=True)] * 2
        if d['um']:
            classes += [dict(timing=True, um=True)]
        if d['multi']:
            classes += [dict(timing=True, gpus='1,2'), dict(timing=True, gpus='1,2,3'), dict(timing=True, gpus='1,2,3,4')]
            if d['um']:
                classes += [dict(timing=True, gpus='1,2', um=True)]
        if d['unified'] and d['um']:
            classes += [dict(timing=True, gpus='1,2', unified=True, um=True)]
        if d['unified']:
            classes += [dict(timing=True, gpus='1,2', unified=True), dict(timing=True, gpus='1,2,3,4', unified=True)]
    if w == 'vectoradd':  # mi300a timing: the one class the acceptance matrix lists
        classes += [dict(arch='cdna3', timing=True, gpu='mi300a'), dict(arch='cdna3', timing=True, gpu='mi300a', gpus='1,2', unified=True)]
    cls = rng.choice(classes)
    toks, chosen = [], {}
    for k, vs, large in d['params']:
        v = rng.choice(vs + ([] if cls.get('timing') else large))
        if isinstance(v, tuple):   # relative to a size parameter drawn before
            v = max(0, min(chosen.get(v[0], 1) + v[1], v[2]))
        if v is not None:
            chosen[k] = v
            toks.append('-%s=%s' % (k, v))
    return mk(w, ' '.join(toks), **cls)


def draw_matrix(rng, n, seen):
    """n distinct configurations outside the known-finding classes; the number of
    draws that fell into a known class is reported in the evidence"""
    out, skipped = [], collections.Counter()
    tries = 0
    while len(out) < n and tries < 200 * n:
        tries += 1
        c = draw(rng)
        if not domain_ok(c) or not cost_ok(c):
            continue
        k = known_class(c)
        if k:
            skipped[k] += 1
            continue
        if cfg_cmd(c) in seen:
            continue
        seen.add(cfg_cmd(c))
        out.append(c)
    return out, skipped


def core_matrix():
    """fixed part of every run: per workload with several size parameters a few
    rectangular shapes (each dimension on its own side of a work-group / tile
    multiple), plus the execution classes of the acceptance matrix on small sizes"""
    core = [
        mk('fir', '-length=100 -taps=16'), mk('fir', '-length=257 -taps=33', arch='cdna3'), mk('fir', '-length=100', gpus='1,2'),
        mk('fir', '-length=1000', gpus='1,2', unified=True), mk('fir', '-length=65 -taps=1', timing=True),
        mk('bicg', '-x=200 -y=300'), mk('bicg', '-x=300 -y=200', arch='cdna3'), mk('bicg', '-x=17 -y=257'),
        mk('bicg', '-x=257 -y=100', gpus='1,2,3,4', unified=True), mk('bicg', '-x=64 -y=300', timing=True),
        mk('atax', '-x=300 -y=200'), mk('atax', '-x=257 -y=17', arch='cdna3'), mk('atax', '-x=100 -y=33', um=True),
        mk('atax', '-x=64 -y=64', timing=True, gpus='1,2'),
        mk('matrixmultiplication', '-x=32 -y=48 -z=64'), mk('matrixmultiplication', '-x=96 -y=16 -z=32', arch='cdna3'),
        mk('matrixmultiplication', '-x=64 -y=16 -z=48'), mk('matrixmultiplication', '-x=32 -y=64 -z=16', timing=True),
        mk('simpleconvolution', '-width=17 -height=100 -mask-size=5'), mk('simpleconvolution', '-width=100 -height=17 -mask-size=3', arch='cdna3'),
        mk('simpleconvolution', '-width=64 -height=30 -mask-size=7'),
        mk('stencil2d', '-row=64 -col=127 -iter=3'), mk('stencil2d', '-row=64 -col=192', arch='cdna3', gpus='1,2', unified=True),
        mk('kmeans', '-points=65 -features=3 -clusters=2 -max-iter=3'), mk('kmeans', '-points=100 -features=34 -clusters=7 -max-iter=1', arch='cdna3'),
        mk('kmeans', '-points=256 -features=1 -clusters=5 -max-iter=2', gpus='1,2'),
        mk('spmv', '-dim=63 -sparsity=0.1', arch='cdna3'), mk('spmv', '-dim=256 -sparsity=0.02'), mk('spmv', '-dim=100 -sparsity=1', gpus='1,2'),
        mk('nbody', '-particles=100 -iter=3'), mk('nbody', '-particles=256 -iter=1', arch='cdna3'),
        mk('pagerank', '-node=65 -sparsity=0.1 -iterations=2', gpus='1,2'), mk('pagerank', '-node=100 -sparsity=0.5 -iterations=1', timing=True),
        mk('conv2d', '-N=2 -C=3 -H=9 -W=11 -output-channel=2 -kernel-height=3 -kernel-width=1 -stride-x=1 -stride-y=2'), mk('conv2d', '-N=2 -C=3 -H=9 -W=9 -output-channel=2 -kernel-width=1 -pad-x=1 -pad-y=0 -stride-y=2'),
        mk('conv2d', '-H=28 -W=8 -kernel-height=1 -kernel-width=3 -stride-x=2'),
        mk('im2col', '-N=2 -C=3 -H=9 -W=9 -kernel-height=3 -kernel-width=1 -pad-x=1 -stride-y=2 -dilate-x=2'),
        mk('im2col', ''), mk('conv2d', ''),  # default shapes: 2-D work-groups partially filled in X (676 x 9 outputs, 8x8 groups)
        mk('vectoradd', '-width=65 -height=3'), mk('vectoradd', '-width=4096 -height=1', arch='cdna3', timing=True, gpu='mi300a'),
        mk('matrixtranspose', '-width=256', gpus='1,2'), mk('matrixtranspose', '-width=64', arch='cdna3'),
        mk('matrixtranspose', '-width=64', arch='cdna3', timing=True, gpu='mi300a'),  # failed before the V5 id-packing fix (DESIGN §4 row 9c)
        mk('aes', '-length=1024', arch='cdna3'), mk('bitonicsort', '-length=256 -order-asc=false'),
        mk('floydwarshall', '-node=16 -iter=0', gpus='1,2', unified=True, timing=True), mk('floydwarshall', '-node=24 -iter=3'),
        mk('fft', '-bytes=8192 -passes=2', arch='cdna3'), mk('bfs', '-node=63 -degree=5 -depth=2', arch='cdna3'),
        mk('nw', '-length=128', arch='cdna3'), mk('relu', '-length=63', timing=True), mk('fastwalshtransform', '-length=512'),
    ]
    core += [  # configurations that failed before the repairs (discrete multi-GPU splits, atax host code, timing hang 6b55f090,
               # L1 invalidation bd91b146, unified-memory page migration 5048ec2f): regressions are violations
        mk('fir', '-length=65', gpus='1,2'), mk('fir', '-length=1 -taps=1', gpus='1,2,3,4'), mk('fir', '-length=64', timing=True, gpus='1,2,3'),
        mk('relu', '-length=63', gpus='1,2'), mk('relu', '-length=128', timing=True, gpus='1,2'),
        mk('aes', '-length=16', gpus='1,2'), mk('aes', '-length=1024', timing=True, gpus='1,2'),
        mk('bitonicsort', '-length=2', gpus='1,2'), mk('kmeans', '-points=65 -features=8 -clusters=7 -max-iter=3', gpus='1,2'),
        mk('matrixtranspose', '-width=64', gpus='1,2'), mk('matrixtranspose', '-width=192', gpus='1,2,3,4'),
        mk('vectoradd', '-width=4096 -height=1', gpus='1,2'), mk('vectoradd', '-width=63 -height=3', arch='cdna3', gpus='1,2,3,4'),
        mk('fastwalshtransform', '-length=256', gpus='1,2'), mk('atax', '-x=64 -y=100'), mk('atax', '-x=17 -y=257', arch='cdna3'),
        mk('simpleconvolution', '-width=30 -height=17', timing=True, gpus='1,2'),
        mk('floydwarshall', '-node=32', timing=True), mk('pagerank', '-node=32 -sparsity=0.5 -iterations=3', timing=True),
        mk('atax', '-x=64 -y=64', timing=True, gpus='1,2', um=True),
    ]
    core += [  # every numeric flag at an extreme; page-crossing accesses on a unified device; timing with 3/4 discrete GPUs on sizes
               # that really place data on every GPU (these take seconds on a clean tree)
        mk('fir', '-length=4096 -taps=128'), mk('fir', '-length=2048 -taps=300', arch='cdna3'),
        mk('pagerank', '-node=1024 -sparsity=0.01 -iterations=2', gpus='1,2', unified=True), mk('bfs', '-node=1024 -degree=3', gpus='1,2', unified=True),
        mk('pagerank', '-node=2048 -sparsity=0.005 -iterations=1', gpus='1,2,3,4', unified=True),
        mk('fir', '-length=1024', timing=True, gpus='1,2,3'), mk('fir', '-length=1024', timing=True, gpus='1,2,3,4'),
        mk('matrixtranspose', '-width=256', timing=True, gpus='1,2,3,4'),
        mk('fft', '-MB=1'), mk('kmeans', '-points=256 -features=64 -clusters=16 -max-iter=10'), mk('nbody', '-particles=64 -iter=8'),
        mk('pagerank', '-node=100 -sparsity=0.01 -iterations=16'), mk('conv2d', '-H=9 -W=9 -kernel-height=5 -kernel-width=1 -stride-x=3 -stride-y=1 -pad-x=2'),
        mk('conv2d', '-N=2 -C=3 -enable-backward=true'),
        mk('im2col', '-N=2 -C=3 -H=11 -W=11 -kernel-height=1 -kernel-width=5 -stride-x=1 -stride-y=3 -dilate-x=2 -dilate-y=1 -pad-y=2'),
        mk('floydwarshall', '-node=16 -iter=5'), mk('stencil2d', '-row=64 -col=128 -iter=5'), mk('spmv', '-dim=1024 -sparsity=0.005'),
    ]
    core += [  # repaired by 039c00e9 (unified memory, timing, 2 discrete GPUs) and d210735a (simpleconvolution remainder)
        mk('relu', '-length=64', timing=True, gpus='1,2', um=True), mk('kmeans', '-points=100 -features=8 -clusters=3 -max-iter=2', timing=True, gpus='1,2', um=True),
        mk('matrixmultiplication', '-x=32 -y=32 -z=32', timing=True, gpus='1,2', um=True), mk('matrixtranspose', '-width=64', timing=True, gpus='1,2', um=True),
        mk('simpleconvolution', '-width=30 -height=30', timing=True, gpus='1,2', um=True), mk('pagerank', '-node=65 -sparsity=0.5 -iterations=1', timing=True, gpus='1,2', um=True),
        mk('simpleconvolution', '-width=64 -height=64 -mask-size=1', gpus='1,2,3'),
    ]
    core += [  # uneven discrete multi-GPU splits: more work-groups (or work-group columns) than GPUs and not divisible by
               # the GPU count, so the last GPUs get a shorter share (the per-GPU offset must come from the rounded-up share)
        mk('matrixtranspose', '-width=192', gpus='1,2'), mk('matrixtranspose', '-width=320', gpus='1,2,3'),
        mk('matrixtranspose', '-width=320', gpus='1,2,3,4'), mk('relu', '-length=320', gpus='1,2'),
        mk('vectoradd', '-width=320 -height=1', gpus='1,2,3'), mk('fir', '-length=320', gpus='1,2,3'),
    ]
    core += [  # tall and wide shapes whose larger dimension crosses a 4 KiB page of its vector; iteration counts 0, = size, > size
        mk('atax', '-x=1040 -y=1024'), mk('atax', '-x=1024 -y=1040', arch='cdna3'), mk('bicg', '-x=1040 -y=1024'), mk('bicg', '-x=1024 -y=1040'),
        mk('matrixmultiplication', '-x=32 -y=1040 -z=32'), mk('matrixmultiplication', '-x=1056 -y=16 -z=32'), mk('matrixmultiplication', '-x=32 -y=16 -z=1056'),
        mk('simpleconvolution', '-width=1040 -height=30'), mk('simpleconvolution', '-width=30 -height=1040'), mk('spmv', '-dim=1040 -sparsity=0.005'),
        mk('vectoradd', '-width=1040 -height=3'), mk('vectoradd', '-width=3 -height=1040'), mk('stencil2d', '-row=64 -col=1088'),
        mk('kmeans', '-points=1040 -features=3 -clusters=2 -max-iter=2'), mk('kmeans', '-points=3 -features=1040 -clusters=2 -max-iter=2'),
        mk('conv2d', '-H=36 -W=8'), mk('conv2d', '-H=8 -W=36'), mk('nbody', '-particles=1040 -iter=1'),
        mk('floydwarshall', '-node=16 -iter=17'), mk('floydwarshall', '-node=24 -iter=30', arch='cdna3'), mk('floydwarshall', '-node=16 -iter=16'),
        mk('floydwarshall', '-node=8 -iter=100', gpus='1,2'), mk('pagerank', '-node=16 -sparsity=0.5 -iterations=17'),
        mk('pagerank', '-node=32 -sparsity=0.5 -iterations=0'), mk('stencil2d', '-row=64 -col=64 -iter=70'), mk('stencil2d', '-row=64 -col=64 -iter=0'),
        mk('kmeans', '-points=10 -features=3 -clusters=2 -max-iter=11'), mk('nbody', '-particles=4 -iter=8'), mk('nbody', '-particles=64 -iter=0'),
        mk('fft', '-bytes=8192 -passes=0'), mk('fir', '-length=16 -taps=33'), mk('bfs', '-node=63 -depth=64'),
    ]
    bad = [cfg_cmd(c) for c in core if known_class(c)]
    assert not bad, 'core configuration inside a known-finding class: %s' % bad
    return core


def quick_matrix(rng):
    core = core_matrix()
    seen = {cfg_cmd(c) for c in core}
    extra, skipped = draw_matrix(rng, 20, seen)
    return core + extra, skipped


def thorough_matrix(rng, n=900):
    core = core_matrix()
    seen = {cfg_cmd(c) for c in core}
    extra, skipped = draw_matrix(rng, n, seen)
    return core + extra, skipped


def build_samples(names):
    """go build the sample binaries from the current tree (incremental; parallel)"""
    outdir = os.path.join(vlib.BUILD, 'bin' + vlib._repo_tag(), 'samples')
    os.makedirs(outdir, exist_ok=True)
    env = vlib.go_env()
    env['GOFLAGS'] = '-mod=readonly'

    def one(n):
        out = os.path.join(outdir, n)
        rc, log = vlib.run([vlib.go_bin(), 'build', '-o', out, './amd/samples/' + n], cwd=vlib.REPO, env=env, timeout=1500)
        return n, rc, log
    with ThreadPoolExecutor(max_workers=8) as ex:
        res = list(ex.map(one, names))
    bad = [(n, log) for n, rc, log in res if rc != 0]
    return outdir, bad


def run_cfg(bindir, cmd, timeout):
    parts = cmd.split()
    d = tempfile.mkdtemp(prefix='c01run_', dir=vlib.BUILD)
    t0 = time.time()
    try:
        p = subprocess.run([os.path.join(bindir, parts[0]), '-verify', '-disable-rtm'] + parts[1:], cwd=d, timeout=timeout,
                           stdout=subprocess.PIPE, stderr=subprocess.STDOUT)
        rc, out = p.returncode, p.stdout.decode(errors='replace')
    except subprocess.TimeoutExpired as ex:
        rc, out = 124, (ex.stdout or b'').decode(errors='replace') + '\n[timeout after %ss]' % timeout
    finally:
        shutil.rmtree(d, ignore_errors=True)
    ok = rc == 0 and 'panic' not in out.lower()
    return dict(cmd=cmd, rc=rc, ok=ok, secs=round(time.time() - t0, 1), out=out)


def reason(r):
    if r['rc'] == 124:
        return 'did not terminate within the time limit'
    lines = [l for l in r['out'].split('\n') if l.strip() and not l.startswith(('\t', 'goroutine', 'runtime', 'github.com', 'created by', 'main.'))]
    key = [l for l in lines if any(k in l for k in ('anic', 'ismatch', 'rror', 'not match', 'expected', 'atal'))]
    return (key[0] if key else (lines[-1] if lines else 'exit status %d' % r['rc']))[:300]


# ------------------------------------------------------------------ main

def main(argv):
    rep = vlib.Report(PROP, 'proof')
    rep.checker_cmd = ('make -C coq props/C01.vo && coqc props/C01.v (Print Assumptions) && coqc cases/C01/s*.v (vm_compute '
                       'kmismatches/tmismatches) ; validation: sample binaries built from the tree, run with -verify over a configuration matrix')
    rep.trusted = ['Coq 8.16.1 kernel + vm_compute',
                   'hand-written models coq/sys/KernArg.v (amd/driver/kernel.go + binary.Write) and coq/sys/EmuLoop.v (amd/emu/computeunit.go runWG)',
                   'Go harness harness/cmd/c01 (reflection-built argument structs, scripted Decoder/ALU/StorageAccessor plugged into the real compute unit)',
                   "encoding/binary, reflect; each workload's own Verify() as the oracle of the validation matrix"]
    rep.assumptions = ['PARTIAL: the end-to-end statement is validated on a sampled configuration matrix, not proved; the theorems cover '
                       'argument marshalling and the emulator barrier loop over an abstract instruction step',
                       'sizes are restricted to those each workload supports (see docs/C01.md)']
    thorough = vlib.tier() == 'thorough'
    seed = vlib.seed()
    replay_file = argv[argv.index('--replay') + 1] if '--replay' in argv else None
    replay_obj = json.load(open(replay_file)) if replay_file else None

    # ---- build everything
    ok, log, binary = vlib.go_build('c01')
    rep.obligation('harness builds against the working tree', ok)
    if not ok:
        rep.violation({'broken': 'go build of harness/cmd/c01 failed', 'log': log[-4000:]}, nofail=True, text='harness build failed')
        return rep.finish()

    matrix_future = None
    pool = ThreadPoolExecutor(max_workers=1)
    rng = random.Random(seed)
    skipped_known = collections.Counter()
    if replay_obj and replay_obj.get('config'):
        matrix = []
        witnesses = []
        single = [replay_obj['config']]
    elif replay_obj:
        matrix, witnesses, single = [], [], []
    else:
        single = []
        matrix, skipped_known = thorough_matrix(rng) if thorough else quick_matrix(rng)
        witnesses = KNOWN
        if os.environ.get('VERIF_C01_PART') == 'glue':   # development aid: proofs + correspondence only
            matrix, witnesses = [], []
        elif os.environ.get('VERIF_C01_PART') == 'matrix':
            pass

    def run_matrix():
        names = sorted({c['w'] for c in matrix} | {k['witness'].split()[0] for k in witnesses} | {s.split()[0] for s in single})
        if not names:
            return None
        bindir, bad = build_samples(names)
        if bad:
            return dict(build_failed=bad)
        jobs = [(cfg_cmd(c), 150 if thorough else 60) for c in matrix] + [(k['witness'], k['timeout']) for k in witnesses] + [(s, 240) for s in single]
        with ThreadPoolExecutor(max_workers=12) as ex:
            res = list(ex.map(lambda j: run_cfg(bindir, j[0], j[1]), jobs))
        # a failing configuration is re-run twice before it is believed (re-runs of different configurations in parallel)
        wit_cmds = {k['witness'] for k in witnesses}
        again = [i for i, (j, r) in enumerate(zip(jobs, res)) if not r['ok'] and j[0] not in wit_cmds][:40]
        with ThreadPoolExecutor(max_workers=6) as ex:
            re1 = list(ex.map(lambda i: run_cfg(bindir, jobs[i][0], jobs[i][1]), again))
            re2 = list(ex.map(lambda i: run_cfg(bindir, jobs[i][0], jobs[i][1]), again))
        extra = {i: [a, b] for i, a, b in zip(again, re1, re2)}
        out = [[r] + extra.get(i, []) for i, r in enumerate(res)]
        missing_flags = flag_coverage(bindir)
        return dict(bindir=bindir, results=out, missing_flags=missing_flags)

    matrix_future = pool.submit(run_matrix)

    ok, log = vlib.coq_build(COQ_TARGETS)
    okp, plog, thms = vlib.coq_check_props(PROP) if ok else (False, log, [])
    if not (ok and okp):
        rep.obligation('coq build', False)
        rep.violation({'broken': 'Coq development for C01 does not compile', 'log': (log + plog)[-4000:]}, nofail=True)
        matrix_future.result()
        return rep.finish()
    for name, axioms in thms:
        rep.obligation('theorem ' + name + (' [axioms: %s]' % ', '.join(axioms) if axioms else ' [closed under the global context]'), True)

    # ---- glue: run the implementation
    kc, tc = [], []
    if replay_obj and (replay_obj.get('case') or replay_obj.get('cases')):
        src = replay_obj.get('case') or replay_obj.get('cases')
        src = src if isinstance(src, list) else [src]
        out, log = run_harness(binary, replay={'k': [strip_k(c) for c in src if c['kind'] == 'k'], 't': [strip_t(c) for c in src if c['kind'] == 't']})
        kc, tc = (out['k'], out['t']) if out else ([], [])
    elif not replay_obj:
        cdir = os.path.join(vlib.ROOT, 'corpus', PROP)
        corpus = []
        for p in sorted(os.listdir(cdir)) if os.path.isdir(cdir) else []:
            corpus += json.load(open(os.path.join(cdir, p)))
        if corpus:
            out, log = run_harness(binary, replay={'k': [strip_k(c) for c in corpus if c['kind'] == 'k'], 't': [strip_t(c) for c in corpus if c['kind'] == 't']})
            if out:
                kc, tc = out['k'], out['t']
        n = 1500 if thorough else 250
        out, log = run_harness(binary, seed=seed, nk=n, nt=n)
        if out is None:
            rep.obligation('harness run', False)
            rep.violation({'broken': 'harness run failed', 'log': log[-4000:]}, nofail=True)
            matrix_future.result()
            return rep.finish()
        kc += out['k']
        tc += out['t']

    bad_k = [(i, monitor_k(c)) for i, c in enumerate(kc)]
    bad_k = [(i, m) for i, m in bad_k if m]
    bad_t = [(i, monitor_t(c)) for i, c in enumerate(tc)]
    bad_t = [(i, m) for i, m in bad_t if m]

    kterms, kowner = [], []
    for i, c in enumerate(kc):
        for t in c.get('coq') or []:
            kterms.append(t)
            kowner.append(i)
    okk, mism_k, klog = vlib.eval_cases(PROP, HEADER, kterms, shard_size=40, checker='kmismatches', ty='kcase') if kterms else (True, [], '')
    okt, mism_t, tlog = vlib.eval_cases(PROP, HEADER, [c['coq'] for c in tc], shard_size=20, checker='tmismatches', ty='tcase') if tc else (True, [], '')
    rep.obligation('correspondence: %d kernel launches marshalled by the real driver = marshal (KernArg.v)' % len(kterms), okk and not mism_k)
    rep.obligation('correspondence: %d work-group runs of the real emu.ComputeUnit = run_wg (EmuLoop.v)' % len(tc), okt and not mism_t)

    def nontrivial_k(c):
        return any(f['t'] == 'local' for f in c['fields']) and len(c['fields']) >= 3

    def early_exit(c):
        """some wavefront executed s_endpgm having passed fewer barriers than another wavefront of its work-group"""
        nb = collections.Counter()
        ended = {}
        # count barriers per wavefront by replaying instruction sizes
        starts, off = {}, 0
        for ti in c['prog']:
            starts[off] = ti
            off += ti['sz']
        cur = {}
        for g, w, pc in c['obs']['trace']:
            ti = starts.get(cur.get((g, w), 0))
            cur[(g, w)] = pc
            if ti is None:
                continue
            if ti['op'] == 'barrier':
                nb[(g, w)] += 1
            if ti['op'] == 'end':
                ended[(g, w)] = nb[(g, w)]
        return any(ended[k] < max(nb[k2] for k2 in cur if k2[0] == k[0]) for k in ended)

    def nontrivial_t(c):
        return c['nwf'] >= 2 and any(i['op'] == 'barrier' for i in c['prog'])

    # ---- validation matrix
    mres = matrix_future.result()
    pool.shutdown()
    runs, fails, flaky, known_seen, known_gone = [], [], [], [], []
    if mres and mres.get('build_failed'):
        rep.obligation('sample binaries build from the working tree', False)
        rep.violation({'broken': 'go build of sample binaries failed', 'log': [(n, l[-1500:]) for n, l in mres['build_failed']]}, nofail=True,
                      text='sample build failed')
    elif mres:
        rep.obligation('sample binaries build from the working tree', True)
        mf = mres.get('missing_flags') or []
        rep.obligation('every own flag of every sample (`<sample> -h`) is varied by its parameter table', not mf)
        if mf:
            rep.violation({'broken': 'a sample has a flag that the C01 parameter tables do not vary (tools/checks/c01.py P): the matrix would '
                                     'never exercise it', 'flags': mf}, nofail=True, text='unvaried sample flags: %s' % ', '.join(mf))
        wit = {k['witness']: k for k in witnesses}
        for tries in mres['results']:
            r = tries[0]
            if r['cmd'] in wit and not (matrix and r['cmd'] in {cfg_cmd(c) for c in matrix}):
                k = wit[r['cmd']]
                if not r['ok']:
                    known_seen.append((k, r))
                else:
                    known_gone.append(k)
                continue
            runs.append(r)
            if r['ok']:
                continue
            # generic flake rule: only a run that did not terminate once and passes on both re-runs is tolerated
            # (and reported); every other failure, also one that a re-run does not reproduce, is a violation
            if r['rc'] == 124 and len(tries) > 1 and all(t['ok'] for t in tries[1:]):
                flaky.append(r)
            else:
                fails.append(tries)
    for k, r in known_seen:
        rep.known_finding('%s: `%s` -> %s | %s' % (k['id'], k['witness'], reason(r), k['text']), key=k['id'])
    for k in known_gone:
        print('# note: known finding %s no longer reproduces (`%s` passes)' % (k['id'], k['witness']))
    for r in flaky:
        print('# note: `%s` did not terminate once and passed on both re-runs' % r['cmd'])
    if not replay_obj:
        rep.obligation('validation matrix: %d configurations pass -verify (re-run on failure)' % len(runs), not fails)

    def rectangular(cmd):
        """two size parameters of the same kind with different values (x/y[/z], width/height, row/col, H/W)"""
        v = {}
        for tok in cmd.split()[1:]:
            if '=' in tok:
                k, x = tok.lstrip('-').split('=', 1)
                v[k] = x
        for grp in (('x', 'y', 'z'), ('width', 'height'), ('row', 'col'), ('H', 'W')):
            xs = [v[k] for k in grp if k in v]
            if len(xs) >= 2 and len(set(xs)) >= 2:
                return True
        return False

    per = collections.Counter()
    for r in runs:
        a = r['cmd'].split()
        per['workload:' + a[0]] += 1
        per['arch:' + ('cdna3' if '-arch=cdna3' in a else 'gcn3')] += 1
        per['mode:' + ('timing' if '-timing' in a else 'emu')] += 1
        g = [x for x in a if x.startswith(('-gpus=', '-unified-gpus='))]
        per['gpus:' + (g[0][1:] if g else 'default(1)')] += 1
        per['unified-memory:' + ('yes' if '-use-unified-memory' in a else 'no')] += 1

    rep.coverage.update({
        'evaluations': len(kterms) + len(tc) + len(runs),
        'distinct_nontrivial': len({vlib.case_hash(strip_k(c)) for c in kc if nontrivial_k(c)}) +
                               len({vlib.case_hash(strip_t(c)) for c in tc if nontrivial_t(c)}) +
                               len({r['cmd'] for r in runs if r['ok']}),
        'rule': 'three kinds of cases. kernarg: random argument structs (1-14 fields of 14 kinds incl. LDS pointers, arrays, boundary values; '
                'static LDS size incl. values near 2^32; 1-4 GPUs, plain/unified device, repeated launch) marshalled by the real driver; '
                'non-trivial = at least one LDS pointer and three fields. emuloop: random structured toy programs (skips, counted loops, '
                'barriers, wavefront-dependent early exits) on 1-5 wavefronts x 1-2 work-groups run by the real compute unit; non-trivial = '
                'at least two wavefronts and a barrier. matrix: distinct sample command lines that passed -verify; every size parameter of a workload is drawn independently '
                'from its own list (rectangular shapes, values on both sides of work-group / tile multiples), a fixed core with rectangular '
                'shapes per multi-parameter workload runs every time; combinations inside a known-finding class are skipped and counted.',
        'traces_validated_against_impl': len(kterms) + len(tc),
        'kernarg_launches': len(kterms), 'kernarg_cases': len(kc),
        'kernarg_with_lds_pointer': sum(1 for c in kc if any(f['t'] == 'local' for f in c['fields'])),
        'kernarg_unified_device': sum(1 for c in kc if c.get('unified')),
        'emuloop_cases': len(tc), 'emuloop_early_exit_before_barrier': sum(1 for c in tc if early_exit(c)),
        'emuloop_with_barrier': sum(1 for c in tc if nontrivial_t(c)),
        'emuloop_instructions': sum(len(c['obs']['trace']) for c in tc),
        'model_mismatches': len(mism_k) + len(mism_t), 'monitor_failures': len(bad_k) + len(bad_t),
        'matrix_runs': len(runs), 'matrix_failed': len(fails), 'matrix_flaky_rerun_passed': len(flaky),
        'matrix_distribution': dict(per), 'matrix_seconds': round(sum(r['secs'] for r in runs), 1),
        'known_finding_witnesses_run': len(known_seen) + len(known_gone),
        'random_draws_inside_known_classes': dict(skipped_known),
        'matrix_rectangular': sum(1 for r in runs if rectangular(r['cmd'])),
    })
    rep.samples = []
    if kc:
        rep.samples.append({'kernarg': strip_k(kc[0]), 'observed_group_segment_size': kc[0]['obs'][0].get('group') if kc[0].get('obs') else None})
    if tc:
        rep.samples.append({'emuloop': strip_t(tc[0]), 'panic': tc[0]['obs']['panic'], 'trace_len': len(tc[0]['obs']['trace'])})
    rep.samples += [{'matrix': r['cmd'], 'ok': r['ok'], 'secs': r['secs']} for r in runs[:3]]

    # ---- verdicts
    def refails_k(fields, base):
        c = dict(strip_k(base)); c['fields'] = fields
        out, _ = run_harness(binary, replay={'k': [c], 't': []})
        return bool(out) and monitor_k(out['k'][0]) is not None

    def refails_t(prog_idx, base):
        # removing instructions changes branch distances: only whole-program replays are tried
        return False

    if bad_k:
        i, msg = bad_k[0]
        c = kc[i]
        small = vlib.ddmin(c['fields'], lambda fs: refails_k(fs, c), budget=60)
        c2 = dict(strip_k(c)); c2['fields'] = small
        out, _ = run_harness(binary, replay={'k': [c2], 't': []})
        c3 = out['k'][0] if out and monitor_k(out['k'][0]) else c
        rep.violation({'property': PROP, 'what': monitor_k(c3) or msg, 'case': c3, 'replay_cmd': './check C01 --replay <this file>'}, text=msg)
    elif bad_t:
        i, msg = bad_t[0]
        rep.violation({'property': PROP, 'what': msg, 'case': tc[i], 'replay_cmd': './check C01 --replay <this file>'}, text=msg)
    elif fails:
        tries = fails[0]
        r = tries[0]
        rep.violation({'property': PROP, 'what': 'a shipped workload does not verify: ' + reason(r),
                       'config': r['cmd'], 'attempts': [{'rc': t['rc'], 'secs': t['secs'], 'reason': reason(t)} for t in tries],
                       'all_failing_configs': [t[0]['cmd'] for t in fails][:50],
                       'replay_cmd': './check C01 --replay <this file>  (or: build amd/samples/%s and run it with -verify -disable-rtm %s)'
                                     % (r['cmd'].split()[0], ' '.join(r['cmd'].split()[1:])),
                       'output_tail': r['out'][-1500:]},
                      text='%d configuration(s) fail; first: %s -> %s' % (len(fails), r['cmd'], reason(r)))
    elif mism_k or not okk:
        j, k = mism_k[0] if mism_k else (0, 0)
        i = kowner[j] if kterms else 0
        rep.violation({'property': PROP, 'broken': 'correspondence between coq/sys/KernArg.v and amd/driver/kernel.go: launch %d differs (code %d: '
                       '1 kernarg bytes, 2 packet bytes, 3 GroupSegmentSize); theorem kernarg_layout_exact no longer speaks about this code' % (j, k),
                       'case': kc[i] if kc else None, 'log': klog[-2000:]}, nofail=True,
                      text='kernarg model/implementation mismatch at case %d (code %d); the independent monitor found no failing input in %d cases' % (i, k, len(kc)))
    elif mism_t or not okt:
        i, k = mism_t[0] if mism_t else (0, 0)
        rep.violation({'property': PROP, 'broken': 'correspondence between coq/sys/EmuLoop.v and amd/emu/computeunit.go runWG: case %d differs (code %d: '
                       '1 panic flag, 2 instruction trace, 3 LDS, 4 global cells); theorem emu_loop_refines_wg_semantics no longer speaks about this code' % (i, k),
                       'case': tc[i] if tc else None, 'log': tlog[-2000:]}, nofail=True,
                      text='emulator-loop model/implementation mismatch at case %d (code %d); the barrier monitor found no failing input in %d cases' % (i, k, len(tc)))
    return rep.finish()


if __name__ == '__main__':
    sys.exit(main(sys.argv[1:]))
