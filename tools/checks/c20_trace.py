"""C20, trace-reader part: "parsing a serialised trace returns exactly the
structure that was serialised" for nvidia/tracereader.

Model and theorems: coq/nv/NvTrace.v, coq/nv/NvTraceProofs.v.  The cases are
produced by `c20 trace` (harness/cmd/c20/trace.go): a kernel structure, what
the real reader returned for its file, and a Coq term of type
VNv.NvTrace.case for the checker `trace_mismatches`.

Use from a driver:

    from checks import c20_trace            # or importlib, as the driver does
    verdicts = [c20_trace.monitor(c) for c in cases]
    ok, fails, log = vlib.eval_cases('C20T', c20_trace.HEADER, c20_trace.coq_terms(cases),
                                     checker=c20_trace.CHECKER)
"""

import json

HEADER = ('From Coq Require Import List ZArith String.\n'
          'From VNv Require Import NvTrace.\n'
          'Import ListNotations.\n'
          'Open Scope string_scope.\nOpen Scope Z_scope.\n')
CHECKER = 'trace_mismatches'          # list case -> list (Z * Z): (position, detail code)
COQ_TARGETS = ['nv/NvTrace.vo', 'nv/NvTraceProofs.vo']

# detail codes of VNv.NvTrace.check_case
DETAIL = {1: 'only one of model and reader panicked', 2: 'header differs',
          3: 'thread-block / warp skeleton differs'}
FIELDS = ['', 'threadblockID', 'warpID', 'PC', 'Mask', 'DestNum', 'DestRegs', 'OpCode', 'SrcNum', 'SrcRegs',
          'MemWidth', 'AddressCompress', 'MemAddress', 'MemAddresses', 'MemAddressSuffix1', 'MemAddressSuffix2',
          'Immediate', 'number of instructions']

REG_TABLE = set(range(256))          # R0..R254 and the zero register R255

# nvidiaconfig.opcodeTable: mnemonic -> (OpCodeType, VariableType); everything
# else is (OpCodeError, VariableError) = (1, 1)
OPCODE_TABLE = {'IMAD.MOV.U32': (2, 2)}


def detail_text(d):
    if d >= 100:
        i = d - 100
        return 'instruction field %s differs' % (FIELDS[i] if i < len(FIELDS) else i)
    return DETAIL.get(d, 'code %d' % d)


def fits(bits, z):
    return -(1 << (bits - 1)) <= z < (1 << (bits - 1))


def valid_inst(i):
    """mirror of VNv.NvTraceProofs.validb"""
    if not (0 <= i['pc'] < 2 ** 31 and 0 <= i['mask'] < 2 ** 63):
        return False
    if any(r not in REG_TABLE for r in (i.get('dests') or []) + (i.get('srcs') or [])):
        return False
    m = i.get('mem')
    if m is not None:
        if m['width'] == 0 or not fits(32, m['width']):
            return False
        if m['mode'] == 0 and not all(0 <= a < 2 ** 63 for a in (m.get('addrs') or [])):
            return False
        if m['mode'] in (1, 2) and not 0 <= m['base'] < 2 ** 63:
            return False
        if m['mode'] == 1 and not fits(32, m['stride']):
            return False
        if m['mode'] == 2 and not all(fits(32, d) for d in (m.get('deltas') or [])):
            return False
        if m['mode'] not in (0, 1, 2):
            return False
    op = i.get('op', '')
    if not op or any(ch.isspace() for ch in op):
        return False
    return fits(64, i['imm'])


def valid_kernel(k):
    """mirror of valid_kernelb plus the assumptions on texts (no '=' / white
    space in header strings); a kernel given as raw lines is not a serialised
    structure."""
    if k.get('lines') is not None:
        return False
    h = k['header']
    for f in ('kid', 'shmem', 'nregs', 'binver', 'stream'):
        if not fits(32, h[f]):
            return False
    if not all(fits(32, v) for v in h['grid'] + h['block']):
        return False
    if not (0 <= h['shbase'] < 2 ** 63 and 0 <= h['localbase'] < 2 ** 63):
        return False
    for s in (h['name'], h['nvbit'], h['tracer']):
        if not s or '=' in s or any(ch.isspace() for ch in s):
            return False
    for b in k.get('blocks') or []:
        if not all(fits(32, v) for v in b['id']):
            return False
        for w in b.get('warps') or []:
            if not fits(32, w['id']):
                return False
            if not all(valid_inst(i) for i in (w.get('insts') or [])):
                return False
    return True


def nontrivial(case):
    """non-triviality rule for the evidence: a valid kernel with at least one
    instruction that has a memory part, or a raw-lines case"""
    k = case['kernel']
    if k.get('lines') is not None:
        return True
    return any(i.get('mem') is not None
               for b in k.get('blocks') or [] for w in b.get('warps') or [] for i in w.get('insts') or [])


def _regs_ok(parsed, want):
    if [r['id'] for r in parsed] != list(want):
        return False
    return all(r['text'] == 'R%d' % r['id'] and r['zero'] == (r['id'] == 255) for r in parsed)


def monitor(case):
    """monitor of one observed run (see _monitor); a violation on a kernel that
    was written in a non-default layout names the layout"""
    v = _monitor(case)
    lay = case['kernel'].get('layout')
    if v is not None and lay is not None:
        return (v[0], v[1] + ' [layout %s]' % json.dumps(lay, sort_keys=True))
    return v


def _monitor(case):
    """Sound monitor of the property on one observed run.  Returns None or
    ('violation', text) when the reader panicked on a valid file or any field
    of the parsed trace (opcode, addresses and uncompressed address lists
    included) differs from what was serialised."""
    k = case['kernel']
    if not valid_kernel(k):
        return None
    if case.get('crash'):
        return ('violation', 'the reader panicked on a valid trace file: %s' % case.get('panic', ''))
    p = case.get('parsed')
    if p is None:
        return ('violation', 'no kernel entry was read from kernelslist.g')
    want_files = k.get('gsize', 1) or 1
    if p.get('kernels', 1) != want_files:
        return ('violation', 'kernelslist.g yielded %s kernel entries instead of %d' % (p.get('kernels'), want_files))
    if case.get('reparse_differs'):
        return ('violation', 'reading the same kernel file a second time in the same process (after the other files '
                             'of the directory) returned a different structure')
    h, ph = k['header'], p['header']
    for f in ('name', 'kid', 'grid', 'block', 'shmem', 'nregs', 'binver', 'stream', 'shbase', 'localbase',
              'nvbit', 'tracer', 'lineinfo'):
        if h[f] != ph[f]:
            return ('violation', 'header field %s: serialised %r, parsed %r' % (f, h[f], ph[f]))
    blocks = k.get('blocks') or []
    if len(p['blocks']) != len(blocks):
        return ('violation', 'serialised %d thread blocks, parsed %d' % (len(blocks), len(p['blocks'])))
    for bi, (b, pb) in enumerate(zip(blocks, p['blocks'])):
        if pb['id'] != b['id']:
            return ('violation', 'block %d: id %r parsed as %r' % (bi, b['id'], pb['id']))
        last = max(j for j, b2 in enumerate(blocks) if b2['id'] == b['id'])
        if p.get('tbindex') and p['tbindex'][bi] != last:
            return ('violation', 'block %d: tbIDToIndex gives %r, expected %d' % (bi, p['tbindex'][bi], last))
        warps = b.get('warps') or []
        if len(pb['warps']) != len(warps):
            return ('violation', 'block %d: serialised %d warps, parsed %d' % (bi, len(warps), len(pb['warps'])))
        for wi, (w, pw) in enumerate(zip(warps, pb['warps'])):
            insts = w.get('insts') or []
            where = 'block %d warp %d' % (bi, wi)
            if pw['id'] != w['id']:
                return ('violation', '%s: id %r parsed as %r' % (where, w['id'], pw['id']))
            if pw['count'] != len(insts) or len(pw['insts']) != len(insts):
                return ('violation', '%s: %d instructions serialised, InstsCount %r, %d parsed'
                        % (where, len(insts), pw['count'], len(pw['insts'])))
            for ii, (i, q) in enumerate(zip(insts, pw['insts'])):
                at = '%s inst %d' % (where, ii)
                m = i.get('mem')
                mode = m['mode'] if m else 0
                want = [('tb', b['id']), ('warp', w['id']), ('pc', i['pc']), ('mask', i['mask']),
                        ('destnum', len(i.get('dests') or [])), ('srcnum', len(i.get('srcs') or [])),
                        ('memwidth', m['width'] if m else 0), ('compress', mode),
                        ('suffix1', m['stride'] if m and mode == 1 else 0),
                        ('suffix2', list(m.get('deltas') or []) if m and mode == 2 else []),
                        ('imm', i['imm'])]
                for f, v in want:
                    if q[f] != v:
                        return ('violation', '%s: %s serialised %r, parsed %r' % (at, f, v, q[f]))
                if not _regs_ok(q['dests'], i.get('dests') or []):
                    return ('violation', '%s: dest regs %r parsed as %r' % (at, i.get('dests'), q['dests']))
                if not _regs_ok(q['srcs'], i.get('srcs') or []):
                    return ('violation', '%s: src regs %r parsed as %r' % (at, i.get('srcs'), q['srcs']))
                if q['op'] != i['op']:
                    return ('violation', '%s: opcode %r parsed as %r' % (at, i['op'], q['op']))
                if (q.get('optype'), q.get('vartype')) != OPCODE_TABLE.get(i['op'], (1, 1)):
                    return ('violation', '%s: opcode %r got types %r/%r' % (at, i['op'], q.get('optype'), q.get('vartype')))
                if m is None or mode != 0:
                    addr, addrs = (m['base'] if m else 0), []
                else:
                    addrs = list(m.get('addrs') or [])
                    addr = addrs[0] if addrs else 0
                if q['memaddr'] != addr:
                    return ('violation', '%s: address 0x%x parsed as MemAddress %r' % (at, addr, q['memaddr']))
                if q['addrs'] != addrs:
                    return ('violation', '%s: uncompressed addresses %r parsed as %r' % (at, addrs, q['addrs']))
    return None


def coq_terms(cases):
    """Coq terms (type VNv.NvTrace.case) of harness cases, for vlib.eval_cases
    with checker=CHECKER."""
    return [c['coq'] for c in cases]
