"""C15 — reorder buffer.  Theorems: coq/props/C15.v over coq/mem/Rob.v.
Tie: tick-exact correspondence of port-level observations between the real
rob.ReorderBuffer (driven by harness/cmd/c15) and the Gallina model."""
import json, os, subprocess, sys, collections
sys.path.insert(0, os.path.dirname(os.path.dirname(os.path.abspath(__file__))))
import vlib

PROP = 'C15'
HEADER = 'From VLib Require Import Akita.\nFrom VMem Require Import Rob.\nOpen Scope N_scope.\n'
COQ_TARGETS = ['props/C15.vo']
REQUIRED_THEOREMS = ['rob_in_order_exactly_once', 'rob_responses_follow_request_order', 'rob_response_payload',
                     'rob_forward_faithful', 'rob_capacity', 'rob_flush_discards', 'rob_discard_step', 'rob_progress',
                     'rob_control_acknowledged_exactly_once', 'rob_control_retry', 'rob_no_progress_means_no_change',
                     'rob_no_progress_stays',
                     # liveness (coq/mem/RobLive.v): fair round, ranking function, drain within rank(start) rounds
                     'rob_round_decreases', 'rob_liveness', 'rob_drain_serves']


def payload(addr, n):
    return [((addr + i) * 131 + 7) & 0xff for i in range(n)]


def is_subseq(a, b):
    it = iter(b)
    return all(any(x == y for y in it) for x in a)


def monitor(case):
    """Property C15 evaluated on an observed port trace; returns a description
    of the violation or None.  Sound: never flags a behaviour C15 allows."""
    ev = case['events']
    if any(e.get('crash') for e in ev):
        if not case.get('hostile'):
            return 'the buffer panicked on protocol-respecting traffic'
        return None
    delivered = [e['msg'] for e in ev if e['e'] == 'dt' and e.get('acc')]
    byid = {m['id']: m for m in delivered}
    resp = [e['got'] for e in ev if e['e'] == 'rt' and e.get('got')]
    rsptos = [r['rspto'] for r in resp]
    if len(set(rsptos)) != len(rsptos):
        return 'a request was answered twice: RspTo sequence %s' % rsptos
    for r in resp:
        if r['rspto'] not in byid:
            return 'response for an ID that was never delivered: %s' % r['rspto']
    if not is_subseq(rsptos, [m['id'] for m in delivered]):
        return 'responses out of request order: %s' % rsptos
    for r in resp:
        q = byid[r['rspto']]
        if r['dst'] != q['src']:
            return 'response %s routed to %s instead of %s' % (r['rspto'], r['dst'], q['src'])
        if not case.get('hostile'):
            if q['kind'] == 'KRead':
                if r['kind'] != 'KDataReady' or r['data'] != payload(q['addr'], q['size']):
                    return 'read %s answered with wrong payload' % q['id']
            elif r['kind'] != 'KWriteDone':
                return 'write %s answered with %s' % (q['id'], r['kind'])
    # forwarded requests are faithful copies, in order
    def key(m):
        if m['kind'] == 'KRead':
            return ('R', m['addr'], m['size'], m['pid'])
        return ('W', m['addr'], m['pid'], tuple(m['data']), tuple(m['mask']))
    fw = [e['got'] for e in ev if e['e'] == 'rb' and e.get('got')]
    if not is_subseq([key(m) for m in fw], [key(m) for m in delivered]):
        return 'a forwarded request is not a faithful in-order copy of a delivered one'
    # sleep safety (theorem rob_no_progress_means_no_change): a tick that reports no progress changed nothing, so
    # the very next tick (no delivery or retrieval in between) cannot report progress; if it does, the first
    # one consumed or dropped something unreported and the engine would have put the buffer to sleep on it
    for i in range(len(ev) - 1):
        if ev[i]['e'] == 'tick' and ev[i + 1]['e'] == 'tick' and ev[i].get('progress') is False and ev[i + 1].get('progress') is True:
            return ('tick %d reported no progress but the next tick, with nothing delivered or retrieved in between, made '
                    'progress: the first tick changed the buffer without reporting it (the engine would let it sleep)' % i)
    # control protocol (theorem rob_control_acknowledged_exactly_once): the k-th acknowledgement answers the
    # k-th accepted control message, there are never more acknowledgements than accepted messages, and after
    # a quiet drain tail none is missing
    ctl = [e for e in ev if e['e'] == 'dc' and e.get('acc')]
    n_acc = n_ack = 0
    for e in ev:
        if e['e'] == 'dc' and e.get('acc'):
            n_acc += 1
        if e['e'] == 'rc' and e.get('got'):
            if n_ack >= n_acc:
                return 'control acknowledgement %d although only %d control messages were accepted' % (n_ack + 1, n_acc)
            if e['got']['dst'] != ctl[n_ack]['msg']['src']:
                return 'control acknowledgement %d routed to %s instead of %s' % (n_ack + 1, e['got']['dst'], ctl[n_ack]['msg']['src'])
            n_ack += 1
    if case.get('quiet') and n_ack != n_acc:
        return '%d control messages were accepted but only %d acknowledged although the system went quiet' % (n_acc, n_ack)
    if not ctl:
        nb = nr = 0
        for e in ev:
            if e['e'] == 'rb' and e.get('got'):
                nb += 1
            if e['e'] == 'rt' and e.get('got'):
                nr += 1
            if nb - nr - 2 * case['width'] > case['cap']:
                return 'more than capacity outstanding: %d forwarded, %d answered, cap %d' % (nb, nr, case['cap'])
    # flush: after the acknowledgement of a discard was seen, at most 2*width
    # (already queued) responses for requests delivered before the discard
    nack = 0
    acc_ctl_idx = [i for i, e in enumerate(ev) if e['e'] == 'dc' and e.get('acc')]
    for i, e in enumerate(ev):
        if e['e'] == 'rc' and e.get('got'):
            if nack < len(acc_ctl_idx):
                d = acc_ctl_idx[nack]
                if ev[d]['msg']['flags'] & 1:
                    before = {x['msg']['id'] for x in ev[:d] if x['e'] == 'dt' and x.get('acc')}
                    late = [x['got']['rspto'] for x in ev[i:] if x['e'] == 'rt' and x.get('got') and x['got']['rspto'] in before]
                    if len(late) > 2 * case['width']:
                        return 'responses for discarded requests after a flush: %s' % late
            nack += 1
    # emptiness rule: once a discard was acknowledged and afterwards the top port was seen empty,
    # no response for a request delivered before that discard may ever appear
    nack = 0
    for i, e in enumerate(ev):
        if e['e'] == 'rc' and e.get('got'):
            if nack < len(acc_ctl_idx) and ev[acc_ctl_idx[nack]]['msg']['flags'] & 1:
                d = acc_ctl_idx[nack]
                before = {x['msg']['id'] for x in ev[:d] if x['e'] == 'dt' and x.get('acc')}
                empty_at = next((j for j in range(i, len(ev)) if ev[j]['e'] == 'rt' and ev[j].get('none')), None)
                if empty_at is not None:
                    late = [x['got']['rspto'] for x in ev[empty_at:] if x['e'] == 'rt' and x.get('got') and x['got']['rspto'] in before]
                    if late:
                        return 'response for discarded request(s) %s after the flush was acknowledged and the top port had drained' % late
            nack += 1
    # quiescence rule (no silent loss): after a fair drain tail that ended quiet, every request delivered
    # after the last control message was acknowledged (all of them if there was none) has been answered
    if case.get('quiet') and not case.get('hostile'):
        acks = [i for i, e in enumerate(ev) if e['e'] == 'rc' and e.get('got')]
        forwarded = {e['got']['id'] for e in ev if e['e'] == 'rb' and e.get('got')}
        replied = {e['msg']['rspto'] for e in ev if e['e'] == 'db' and e.get('acc')}
        if forwarded <= replied and len(acks) == len(acc_ctl_idx) and (not acc_ctl_idx or ev[acc_ctl_idx[-1]]['msg']['flags'] & 2):
            start = acks[-1] if acks else -1
            must = [e['msg']['id'] for i, e in enumerate(ev) if i > start and e['e'] == 'dt' and e.get('acc')]
            answered = set(rsptos)
            lost = [x for x in must if x not in answered]
            if lost:
                return 'request(s) %s accepted after the last restart were never answered although the system went quiet' % lost[:5]
    return None


def strip(case):
    """events without observations (replay input)"""
    return {'cap': case['cap'], 'width': case['width'], 'hostile': case.get('hostile', False), 'quiet': case.get('quiet', False), 'sib': case.get('sib', False),
            'events': [{'e': e['e'], **({'msg': e['msg']} if 'msg' in e else {})} for e in case['events']]}


def run_impl(binary, cases=None, seed=1, n=100):
    tmp = os.path.join(vlib.BUILD, 'c15_%d.json' % os.getpid())
    if cases is not None:
        inp = tmp + '.in'
        json.dump(cases, open(inp, 'w'))
        rc, log = vlib.run([binary, '--replay', inp, '--out', tmp])
        os.remove(inp)
    else:
        rc, log = vlib.run([binary, '--seed', str(seed), '--n', str(n), '--out', tmp])
    if rc != 0:
        return None, log
    out = json.load(open(tmp))
    os.remove(tmp)
    return out, log


def nontrivial(case):
    ev = case['events']
    got = [e['got']['rspto'] for e in ev if e['e'] == 'rt' and e.get('got')]
    return len(got) >= 2


def main(argv):
    rep = vlib.Report(PROP, 'proof')
    rep.checker_cmd = 'make -C coq props/C15.vo && coqc props/C15.v (Print Assumptions) && coqc cases/C15/s*.v (vm_compute mismatches)'
    rep.trusted = ['Coq 8.16.1 kernel + vm_compute', 'hand-written model coq/mem/Rob.v of amd/timing/rob/rob.go',
                   'Go harness harness/cmd/c15 (stub connection, ID renumbering)', 'akita port buffers modelled as bounded FIFOs']
    rep.assumptions = ['the environment of the ROB is any finite sequence of deliveries, ticks and retrievals (theorems); '
                       'the sampled histories only decide whether the real component still behaves like the model']
    thorough = vlib.tier() == 'thorough'
    n = 3000 if thorough else 400

    replay_file = None
    if '--replay' in argv:
        replay_file = argv[argv.index('--replay') + 1]

    ok, log, binary = vlib.go_build('c15')
    rep.obligation('harness builds against /repo working tree', ok)
    if not ok:
        rep.violation({'broken': 'go build of harness/cmd/c15 against /repo failed', 'log': log[-4000:]}, nofail=True,
                      text='harness build failed')
        return rep.finish()

    ok, log = vlib.coq_build(COQ_TARGETS)
    okp, plog, thms = vlib.coq_check_props(PROP) if ok else (False, log, [])
    if not (ok and okp):
        rep.obligation('coq build', False)
        rep.violation({'broken': 'Coq development for C15 does not compile', 'log': (log + plog)[-4000:]}, nofail=True)
        return rep.finish()
    for name, axioms in thms:
        rep.obligation('theorem ' + name + (' [axioms: %s]' % ', '.join(axioms) if axioms else ' [closed under the global context]'), True)
    # the theorems the property rests on must all be there (a statement that was removed is as bad as one that broke)
    have = {name for name, _ in thms}
    missing = [t for t in REQUIRED_THEOREMS if t not in have]
    rep.obligation('all %d required theorems present (safety, control protocol, sleep safety, liveness with ranking function)'
                   % len(REQUIRED_THEOREMS), not missing)
    if missing:
        rep.violation({'broken': 'props/C15.v no longer states: ' + ', '.join(missing)}, nofail=True,
                      text='required theorem(s) missing: ' + ', '.join(missing))
        return rep.finish()

    # ---- run the implementation
    cases = []
    if replay_file:
        obj = json.load(open(replay_file))
        src = obj.get('case') or obj.get('cases') or obj
        src = src if isinstance(src, list) else [src]
        cases, log = run_impl(binary, cases=[strip(c) for c in src])
    else:
        corpus = []
        for p in sorted(os.listdir(os.path.join(vlib.ROOT, 'corpus', PROP))) if os.path.isdir(os.path.join(vlib.ROOT, 'corpus', PROP)) else []:
            corpus += json.load(open(os.path.join(vlib.ROOT, 'corpus', PROP, p)))
        if corpus:
            cases, log = run_impl(binary, cases=[strip(c) for c in corpus])
            cases = cases or []
        gen, log = run_impl(binary, seed=vlib.seed(), n=n)
        if gen is None:
            rep.obligation('harness run', False)
            rep.violation({'broken': 'harness run failed', 'log': log[-4000:]}, nofail=True)
            return rep.finish()
        cases += gen

    # ---- property monitor on what the implementation did
    bad = [(i, monitor(c)) for i, c in enumerate(cases)]
    bad = [(i, m) for i, m in bad if m]
    # ---- correspondence with the model
    okc, mism, clog = vlib.eval_cases(PROP, HEADER, [c['coq'] for c in cases], shard_size=25)
    rep.obligation('correspondence: %d histories evaluated by the model' % len(cases), okc and not mism)

    hist = collections.Counter(e['e'] for c in cases for e in c['events'])
    rep.coverage.update({
        'evaluations': len(cases),
        'distinct_nontrivial': len({vlib.case_hash(strip(c)) for c in cases if nontrivial(c)}),
        'rule': 'random port-level histories (40-200 events; caps {1,2,3,4,8,128} x widths {1,2,4}); every 5th history hostile '
                '(duplicate/unknown reply IDs, corrupted payload); every 3rd history runs a sibling buffer built from the same builder '
                'value through requests/discard/restart between the events (it must not interfere); non-trivial = at least two responses reached the requester',
        'traces_validated_against_impl': len(cases),
        'event_histogram': dict(hist),
        'responses_observed': sum(1 for c in cases for e in c['events'] if e['e'] == 'rt' and e.get('got')),
        'flush_cases': sum(1 for c in cases if any(e['e'] == 'dc' and e.get('acc') for e in c['events'])),
        'hostile_cases': sum(1 for c in cases if c.get('hostile')),
        'sibling_cases': sum(1 for c in cases if c.get('sib')),
        'model_mismatches': len(mism), 'monitor_failures': len(bad),
    })
    rep.samples = [{'cap': c['cap'], 'width': c['width'], 'events': [(e['e'], e.get('msg', {}).get('id')) for e in c['events'][:25]]} for c in cases[:2]]

    def fails_monitor(evs, base):
        c = dict(base)
        c['events'] = evs
        out, _ = run_impl(binary, cases=[strip(c)])
        return bool(out) and monitor(out[0]) is not None

    if bad:
        i, msg = bad[0]
        c = cases[i]
        small = vlib.ddmin(c['events'], lambda evs: fails_monitor(evs, c))
        c2 = dict(strip(c))
        c2['events'] = [{'e': e['e'], **({'msg': e['msg']} if 'msg' in e else {})} for e in small]
        out, _ = run_impl(binary, cases=[c2])
        rep.violation({'property': PROP, 'what': monitor(out[0]) if out else msg, 'case': out[0] if out else c,
                       'replay_cmd': './check C15 --replay <this file>'}, text=msg)
    elif mism or not okc:
        i, k = mism[0] if mism else (0, 0)
        rep.violation({'property': PROP, 'broken': 'correspondence between coq/mem/Rob.v and amd/timing/rob/rob.go: '
                       'observation %d of history %d differs; theorems of props/C15.v no longer speak about this code' % (k, i),
                       'case': cases[i] if cases else None, 'first_diverging_event': k, 'log': clog[-2000:]}, nofail=True,
                      text='model/implementation mismatch at history %d event %d; no property violation found on %d histories' % (i, k, len(cases)))
    return rep.finish()


if __name__ == '__main__':
    sys.exit(main(sys.argv[1:]))
