"""C04 — instruction decoding.  Theorems: coq/props/C04.v over coq/isa/Decode.v,
coq/isa/Encode.v and the tables the translator tools/gen/gen_tables regenerates
from amd/insts/{format,decodetable,inst,reg}.go on every run.
Tie: (1) translator (tables), (2) field-by-field correspondence between the real
insts.Disassembler.Decode (driven by harness/cmd/c04) and the Gallina model on
encoder-made, hostile, random, mutated, truncated and shipped instruction words,
and on the sequential decode of every shipped kernel."""
import collections, json, os, re, sys
sys.path.insert(0, os.path.dirname(os.path.dirname(os.path.abspath(__file__))))
import vlib

PROP = 'C04'
HEADER = ('From Coq Require Import NArith ZArith List String.\n'
          'From VIsa Require Import InstTypes Decode Encode DecodeCases.\n'
          'Import ListNotations.\nOpen Scope N_scope.\nOpen Scope string_scope.\n')
COQ_TARGETS = ['isa/DecodeCases.vo', 'props/C04.vo']
GEN_FILES = ['FormatTable.v', 'DecodeTable.v', 'RegTable.v']


def run_translator():
    """Build tools/gen/gen_tables and regenerate coq/gen/*.v from the current
    source tree.  Returns (ok, log)."""
    binary = os.path.join(vlib.BUILD, 'bin', 'gen_tables')
    os.makedirs(os.path.dirname(binary), exist_ok=True)
    with vlib.Lock('gen_tables'):
        rc, log = vlib.run([vlib.go_bin(), 'build', '-o', binary, './gen_tables'],
                           cwd=os.path.join(vlib.ROOT, 'tools', 'gen'), env=vlib.go_env(), timeout=600)
        if rc != 0:
            return False, 'building the translator failed\n' + log
        with vlib.Lock('coq'):
            rc, log = vlib.run([binary, '-repo', vlib.REPO, '-out', os.path.join(vlib.COQ, 'gen')], timeout=120)
    return rc == 0, log


def is_sdwa_vop2(buf):
    if len(buf) < 8:
        return False
    w = int.from_bytes(buf[:4], 'little')
    return w >> 31 == 0 and (w >> 25) not in (0x3e, 0x3f) and (w & 0x1ff) == 0xf9


def norm_mnemonic(n):
    """llvm-objdump and the decode table differ in naming conventions only: encoding
    suffixes and the global_/scratch_ spelling of FLAT instructions with SADDR=off"""
    n = re.sub(r'_(e32|e64|sdwa|dpp)$', '', n)
    n = re.sub(r'^(global|scratch)_', 'flat_', n)
    return n


def ref_rows(path, name):
    txt = open(path).read()
    txt = txt[txt.index('Definition ' + name):]
    return re.findall(r'mkRow "([^"]*)" (\d+) (\w+) (\d+) (\d+) (\d+) (\d+) (\d+) (\d+)', txt)


def reference_diff():
    """Rows of the committed reference table that the regenerated table no longer
    contains unchanged, as replayable word cases (encoding | opcode << lo, zero fields)."""
    gen = set(ref_rows(os.path.join(vlib.COQ, 'gen', 'DecodeTable.v'), 'decode_table'))
    ref = ref_rows(os.path.join(vlib.COQ, 'isa', 'RefTable.v'), 'ref_table')
    ftxt = open(os.path.join(vlib.COQ, 'gen', 'FormatTable.v')).read()
    fmts = {m[0]: (int(m[1]), int(m[2])) for m in re.findall(r'mkFormat (\w+) "[^"]*" (\d+) \d+ \d+ (\d+) \d+', ftxt)}
    out = []
    for r in ref:
        if r in gen or r[2] not in fmts:
            continue
        enc, lo = fmts[r[2]]
        w0 = enc | (int(r[1]) << lo)
        out.append({'kind': 'refrow', 'cdna3': False, 'bytes': w0.to_bytes(4, 'little').hex() + '00000000',
                    'want': r[0], 'source': 'coq/isa/RefTable.v: %s opcode %s format %s widths %s' % (r[0], r[1], r[2], '/'.join(r[4:]))})
    return out, len(gen - set(ref))


def known_kernel_gap(c):
    return (c['kind'] == 'kernel' and c.get('status') == 1 and c.get('errfmt') == 'vop3a' and c.get('errop') == 499
            and c.get('kernel') == 'rotate_tensor' and c.get('file', '').endswith('operator_gfx942.hsaco'))


def monitor(c):
    """Property C04 on what the implementation did.  Returns (text, known)."""
    if c['kind'] == 'kernel':
        if c.get('status', 0) != 0:
            what = ('sequential decode of shipped kernel %s (%s) stops after %d instructions at byte %d (word %s, format %s opcode %s): %s'
                    % (c['kernel'], c['file'], c.get('count', 0), c.get('errpos', 0), c.get('errword'), c.get('errfmt'), c.get('errop'),
                       'not decodable' if c['status'] == 1 else 'reported size runs past the end of the code'))
            return what, known_kernel_gap(c)
        return None, False
    o = c['obs']
    buf = bytes.fromhex(c.get('bytes', ''))
    if c['kind'] == 'refrow':
        return ('reference row changed (%s): the word %s now decodes to %s' %
                (c.get('source'), c['bytes'][:8].upper(), o.get('name') if o['outcome'] == 'ok' else o['outcome'])), False
    if c['kind'] == 'listing':
        if o['outcome'] != 'ok':
            return ('%s: the vendor listing disassembles %s as %s, Decode returns %s' %
                    (c.get('source'), c['bytes'], c['want'], o['outcome'])), False
        if norm_mnemonic(o['name']) != norm_mnemonic(c['want']):
            return ('%s: the vendor listing disassembles %s as %s, Decode returns %s' %
                    (c.get('source'), c['bytes'], c['want'], o['name'])), (c['want'] == 'v_mov_b64_e32' and o['name'] == 'v_movrelsd_b32')
        if o['size'] != c['wantsize']:
            return ('%s: %s (%s) occupies %d bytes in the vendor listing, Decode reports %d' %
                    (c.get('source'), c['want'], c['bytes'], c['wantsize'], o['size'])), False
    if o['outcome'] == 'fault':
        return 'Decode panics on %s: %s' % (c['bytes'] or '<empty>', o.get('msg', '')), False
    if not o['agree']:
        return 'two independently constructed decoders disagree on %s' % c['bytes'], False
    if not o['prefix_ok']:
        return 'bytes beyond the reported size change the result of decoding %s' % c['bytes'], False
    if o['outcome'] == 'notimpl' and not is_sdwa_vop2(buf):
        return 'not-implemented diagnostic on a word that is not a VOP2 SDWA encoding: %s' % c['bytes'], False
    if o['outcome'] == 'ok':
        if o['size'] > len(buf) or o['size'] not in (4, 8):
            return ('mis-sized instruction: %s decodes to %s with ByteSize %d (%d bytes given)'
                    % (c['bytes'], o['name'], o['size'], len(buf))), False
    if c.get('valid') and c.get('desc') is not None:
        if o['outcome'] != 'ok':
            return 'the encoding %s of a supported instruction (%s) is not decoded: %s' % (c['bytes'], json.dumps(c['desc']), o['outcome']), False
        if o.get('round'):
            return 'decode(encode d) differs from d for %s (%s): %s' % (json.dumps(c['desc']), c['bytes'], o['round']), False
    return None, False


def strip(c):
    keys = ('kind', 'cdna3', 'bytes', 'desc', 'valid', 'file', 'kernel', 'want', 'wantsize', 'source')
    return {k: c[k] for k in keys if k in c and c[k] is not None}


def run_impl(binary, cases=None, seed=1, n=100, kwords=1500, kernels=True):
    tmp = os.path.join(vlib.BUILD, 'c04_%d.json' % os.getpid())
    cmd = [binary, '--repo', vlib.REPO, '--out', tmp]
    if cases is not None:
        inp = tmp + '.in'
        json.dump(cases, open(inp, 'w'))
        rc, log = vlib.run(cmd + ['--replay', inp], timeout=600)
        os.remove(inp)
    else:
        rc, log = vlib.run(cmd + ['--seed', str(seed), '--n', str(n), '--kwords', str(kwords)] + ([] if kernels else ['--nokernels']),
                           timeout=900)
    if rc != 0 or not os.path.exists(tmp):
        return None, log
    out = json.load(open(tmp))
    os.remove(tmp)
    return out, log


def nontrivial(c):
    """word cases that decode to an instruction; kernels that hold at least 10 instructions"""
    if c['kind'] == 'kernel':
        return c.get('count', 0) >= 10
    return c['obs']['outcome'] == 'ok'


def main(argv):
    rep = vlib.Report(PROP, 'proof')
    rep.checker_cmd = ('build/bin/gen_tables -repo $VERIF_REPO -out coq/gen && make -C coq isa/DecodeCases.vo props/C04.vo && '
                       'coqc props/C04.v (Print Assumptions) && coqc cases/C04/s*.v (vm_compute mismatches)')
    rep.trusted = ['Coq 8.16.1 kernel + vm_compute',
                   'translator tools/gen/gen_tables (go/parser walk of format.go, decodetable.go, inst.go, reg.go; refuses unknown shapes)',
                   'hand-written model coq/isa/Decode.v of disassembler.go/operand.go (checked field by field by correspondence, not verified)',
                   'encoder coq/isa/Encode.v and the harness byte emitter: two transcriptions of the ISA manuals\' bit layouts, compared on every encoder-made case',
                   'Go harness harness/cmd/c04 (flattening of insts.Inst, recover() classification of panics)']
    rep.assumptions = ['buffers passed to Decode have capacity = length (Go slicing buf[:4] checks capacity, the model checks length)',
                       'error messages are not modelled (only error / not-implemented / panic / instruction)',
                       'InstType.ID (assigned in map-iteration order, never read) and Inst.PC are not compared']
    thorough = vlib.tier() == 'thorough'
    n = 12000 if thorough else 1500
    kwords = 0 if thorough else 1200

    replay_file = argv[argv.index('--replay') + 1] if '--replay' in argv else None

    ok, log = run_translator()
    rep.obligation('translator regenerates coq/gen/{FormatTable,DecodeTable,RegTable}.v from the source tree', ok)
    if not ok:
        rep.violation({'property': PROP, 'broken': 'translator gen_tables refuses the current amd/insts sources (a table has a shape it does not understand); '
                       'the tables the theorems quantify over are not those of this code', 'log': log[-3000:]}, nofail=True,
                      text='translator refused: ' + log.strip()[-300:])
        return rep.finish()

    ok, log, binary = vlib.go_build('c04')
    rep.obligation('harness builds against the source tree', ok)
    if not ok:
        rep.violation({'property': PROP, 'broken': 'go build of harness/cmd/c04 failed', 'log': log[-4000:]}, nofail=True, text='harness build failed')
        return rep.finish()

    ok, log = vlib.coq_build(COQ_TARGETS)
    okp, plog, thms = vlib.coq_check_props(PROP) if ok else (False, log, [])
    coq_ok = ok and okp
    if not coq_ok:
        rep.obligation('coq build (theorems over the regenerated tables)', False)
    for name, axioms in thms:
        rep.obligation('theorem ' + name + (' [axioms: %s]' % ', '.join(axioms) if axioms else ' [closed under the global context]'), True)

    # ---- run the implementation
    if replay_file:
        obj = json.load(open(replay_file))
        src = obj.get('case') or obj.get('cases') or obj
        src = src if isinstance(src, list) else [src]
        cases, log = run_impl(binary, cases=[strip(c) for c in src])
        cases = cases or []
    else:
        corpus = []
        cdir = os.path.join(vlib.ROOT, 'corpus', PROP)
        for p in sorted(os.listdir(cdir)) if os.path.isdir(cdir) else []:
            corpus += json.load(open(os.path.join(cdir, p)))
        cases = []
        if corpus:
            cases, log = run_impl(binary, cases=[strip(c) for c in corpus])
            cases = cases or []
        refcases, new_rows = reference_diff()
        rep.coverage['table_rows_not_in_reference'] = new_rows
        rep.coverage['reference_rows_changed'] = len(refcases)
        if refcases:
            rc, log = run_impl(binary, cases=refcases[:50])
            cases += rc or []
        gen, log = run_impl(binary, seed=vlib.seed(), n=n, kwords=kwords)
        if gen is None:
            rep.obligation('harness run', False)
            rep.violation({'property': PROP, 'broken': 'harness run failed', 'log': log[-4000:]}, nofail=True)
            return rep.finish()
        cases += gen

    # ---- property monitor on what the implementation did
    verdicts = [monitor(c) for c in cases]
    bad = [(i, t) for i, (t, known) in enumerate(verdicts) if t and not known]
    known = [(i, t) for i, (t, known) in enumerate(verdicts) if t and known]
    seen_known = set()
    for i, t in known:
        key = 'vop3a-opcode-499-missing' if cases[i]['kind'] == 'kernel' else 'vop1-opcode-56-cdna3-v-mov-b64'
        if key not in seen_known:
            seen_known.add(key)
            rep.known_finding(t, key=key, replay_obj={'property': PROP, 'what': t,
                                                      'case': {k: v for k, v in cases[i].items() if k != 'coq'}})

    # ---- correspondence with the model
    mism, okc, clog = [], True, ''
    if coq_ok:
        lst = [i for i, c in enumerate(cases) if c['kind'] == 'listing']
        keep = set(lst if thorough else [i for k, i in enumerate(lst) if (k * 2654435761 + vlib.seed()) % 7 == 0])
        wordcases = [(i, c) for i, c in enumerate(cases) if c['kind'] != 'kernel' and (c['kind'] != 'listing' or i in keep)]
        kcases = [(i, c) for i, c in enumerate(cases) if c['kind'] == 'kernel']
        okc, mm, clog = vlib.eval_cases(PROP, HEADER, [c['coq'] for _, c in wordcases], shard_size=120, ty='case')
        mism = [(wordcases[a][0], b) for a, b in mm]
        if kcases:
            okk, mm, klog = vlib.eval_cases(PROP, HEADER, [c['coq'] for _, c in kcases], shard_size=4, ty='case')
            mism += [(kcases[a][0], b) for a, b in mm]
            okc, clog = okc and okk, clog + klog
    rep.obligation('correspondence: %d recorded cases evaluated by the model' % len(cases), coq_ok and okc and not mism)

    kinds = collections.Counter(c['kind'] for c in cases)
    outcomes = collections.Counter(c['obs']['outcome'] for c in cases if c['kind'] != 'kernel')
    formats = collections.Counter(c['obs'].get('fname') for c in cases if c['kind'] != 'kernel' and c['obs']['outcome'] == 'ok')
    rep.coverage.update({
        'evaluations': len(cases),
        'distinct_nontrivial': len({vlib.case_hash(strip(c)) for c in cases if nontrivial(c)}),
        'rule': 'word cases: a deterministic core (every special operand code - literal 255, SDWA 249, DPP 250, inline-constant edges, first/last SGPR/VGPR, special and reserved codes - in every operand-code field of every format under real opcodes; one valid description per table row) plus encodings of generated descriptions (all 13 supported formats, every operand class, literal or second dword '
                'at the very end of the buffer or followed by other bytes), hostile field values, truncated encodings, uniformly random '
                'words, random fields under a real encoding+opcode, 1-3 bit flips of valid encodings, buffers of 0-7 bytes, and distinct '
                'instruction words of the shipped kernels; kernel cases: sequential decode of every kernel of every shipped .hsaco. '
                'non-trivial = a word that decodes to an instruction / a kernel with at least 10 instructions; distinct by input hash',
        'traces_validated_against_impl': len(cases),
        'case_kinds': dict(kinds), 'outcomes': dict(outcomes), 'decoded_formats': dict(formats),
        'distinct_mnemonics_decoded': len({c['obs'].get('name') for c in cases if c['kind'] != 'kernel' and c['obs']['outcome'] == 'ok'}),
        'vendor_listing_lines_checked': kinds.get('listing', 0),
        'vendor_listing_mnemonics': len({c.get('want') for c in cases if c['kind'] == 'listing'}),
        'kernels': kinds.get('kernel', 0),
        'kernel_instructions': sum(c.get('count', 0) for c in cases if c['kind'] == 'kernel'),
        'kernels_consumed_exactly': sum(1 for c in cases if c['kind'] == 'kernel' and c.get('status', 0) == 0),
        'valid_descriptions_round_tripped': sum(1 for c in cases if c.get('valid') and c['obs']['outcome'] == 'ok' and not c['obs'].get('round')),
        'model_mismatches': len(mism), 'monitor_failures': len(bad),
    })
    rep.samples = [{k: v for k, v in c.items() if k != 'coq'} for c in cases if c['kind'] in ('enc', 'mut', 'kernelword', 'listing')][:3]

    if bad:
        i, msg = bad[0]
        rep.violation({'property': PROP, 'what': msg, 'case': {k: v for k, v in cases[i].items() if k != 'coq'},
                       'replay_cmd': './check C04 --replay <this file>'}, text=msg)
    elif not coq_ok or mism or not okc:
        # the property is no longer shown: look harder for a failing input
        found = None
        if not replay_file:
            for extra in range(1, 4):
                more, _ = run_impl(binary, seed=vlib.seed() + 1000 * extra, n=4000, kernels=False)
                for c in more or []:
                    t, kn = monitor(c)
                    if t and not kn:
                        found = (c, t)
                        break
                if found:
                    break
        if found:
            c, t = found
            rep.violation({'property': PROP, 'what': t, 'case': {k: v for k, v in c.items() if k != 'coq'},
                           'replay_cmd': './check C04 --replay <this file>'}, text=t)
        elif not coq_ok:
            rep.violation({'property': PROP, 'broken': 'the Coq development for C04 no longer compiles over the regenerated tables '
                           '(a theorem that is proved by computation over the table fails)', 'log': (log + plog)[-4000:]}, nofail=True,
                          text='coq build failed: ' + (log + plog).strip()[-400:])
        else:
            i, k = mism[0] if mism else (0, 0)
            why = {1: 'the model decodes this input differently from insts.Disassembler.Decode',
                   2: 'the Coq encoder and the harness byte emitter disagree',
                   3: 'the model does not decode the encoding of this well-formed description to the instruction it denotes',
                   4: 'sequential decode of this kernel differs between model and implementation'}.get(k, 'evaluation failed')
            rep.violation({'property': PROP, 'broken': 'correspondence between coq/isa/Decode.v and amd/insts/disassembler.go: ' + why +
                           '; the theorems of props/C04.v no longer speak about this code',
                           'case': {kk: v for kk, v in cases[i].items() if kk != 'coq' and kk != 'obs'} if cases else None,
                           'observed': cases[i].get('obs') if cases else None, 'detail': k, 'mismatching_cases': len(mism), 'log': clog[-2000:]},
                          nofail=True,
                          text='model/implementation mismatch (%s) at case %d of %d; no property violation found' % (why, i, len(cases)))
    return rep.finish()


if __name__ == '__main__':
    sys.exit(main(sys.argv[1:]))
