"""C12 — command queues are FIFO and waiting on them terminates.
Theorems: coq/props/C12.v over coq/drv/{Queue,Handoff}.v.
Tie: a real standalone driver.Driver is stepped through the verif-tag yield
points by harness/cmd/c12 (controlled scheduler); every granted step is
translated into model steps and the observation after it (program counters,
blocked/runnable sets, queue lengths and heads, listeners, engineRunning) is
compared with the model by vm_compute.  Plus an un-instrumented stress run
whose verdict is progress / hang."""
import json, os, sys, collections
sys.path.insert(0, os.path.dirname(os.path.dirname(os.path.abspath(__file__))))
import vlib

PROP = 'C12'
HEADER = ('From Coq Require Import List NArith Bool Arith.\nImport ListNotations.\n'
          'From VDrv Require Import Queue Handoff QueueRank.\nOpen Scope N_scope.\n')
UHEADER = ('From Coq Require Import List NArith Bool Arith.\nImport ListNotations.\n'
           'From VDrv Require Import MultiReq MultiReqCheck.\n')
COQ_TARGETS = ['props/C12.vo', 'drv/QueueRank.vo', 'drv/MultiReqCheck.vo']


def monitor(case):
    """Property C12 on what the real driver did; None or a description.
    Sound: flags only behaviour the property forbids."""
    if case.get('term_early'):
        return ('Driver.Terminate returned while an engine goroutine was still in the event loop (at %s) after %d granted '
                'steps: the caller tears down tracers and recorders that the rest of that event still uses'
                % (case['term_early'], len(case.get('steps', []))))
    if case.get('term_stuck'):
        return 'Driver.Terminate did not return although every thread had finished (%d granted steps)' % len(case.get('steps', []))
    if case.get('crashed') and not case.get('hung'):
        late = monitor(dict(case, crashed=False))
        return late or ('the driver panicked after %d granted steps (runEngine recovered the panic and called atexit.Exit)'
                        % len(case.get('steps', [])))
    if case.get('hung'):
        ql = {}
        for ev in case.get('log', []):
            if ev['e'] == 'q':
                ql[ev['q']] = ev['n']
        left = {q: n for q, n in sorted(ql.items()) if n}
        why = ('although every queue is empty' if not left else
               'commands left in queue(s) %s are never looked at again' % left)
        return ('DrainCommandQueue never returns: after %d granted steps every goroutine is blocked and an '
                'application thread has not finished its calls, %s' % (len(case.get('steps', [])), why))
    pending = collections.defaultdict(list)      # queue -> ids in submission order, not yet completed
    mine = collections.defaultdict(list)         # (thread, queue) -> ids submitted
    asyncs = {o['id'] for p in case['progs'] for o in p if o.get('k') == 'async'}
    answered = set()                             # asynchronous commands whose response reached the driver's port
    for ev in case.get('log', []):
        q = ev['q']
        if ev['e'] == 'enq':
            pending[q].append(ev['id'])
            mine[(ev['t'], q)].append(ev['id'])
        elif ev['e'] == 'rsp':
            answered.add(ev['id'])
        elif ev['e'] == 'q':
            while len(pending[q]) > ev['n']:
                x = pending[q].pop(0)            # a completion: must have been the oldest
                if x in asyncs and x not in answered:
                    return ('queues are not isolated: command %d of queue %d was completed although the GPU has not answered '
                            'its request (GPU answers so far: for commands %s) - a response was matched to a queue it does not '
                            'belong to' % (x, q, sorted(answered)))
            if len(pending[q]) != ev['n']:
                return 'queue %d holds %d commands, %d were submitted and not completed' % (q, ev['n'], len(pending[q]))
            head = pending[q][0] + 1 if pending[q] else 0
            if head != ev['id']:
                return ('queue %d is not FIFO / not isolated: its head is command %d, the oldest incomplete '
                        'command submitted to it is %d' % (q, ev['id'] - 1, head - 1))
        elif ev['e'] == 'ret':
            late = [i for i in mine[(ev['t'], q)] if i in pending[q]]
            if late:
                return 'DrainCommandQueue(queue %d) of thread %d returned before its commands %s completed' % (q, ev['t'], late)
    return None


def copy_monitor(c):
    """copy mode (hand-ticked driver, default copy middleware, several queues): None or a description"""
    if c.get('panic'):
        return 'the driver panicked in a multi-queue copy run: %s' % c['panic']
    if c.get('stuck'):
        return 'DrainCommandQueue never returns: ' + c['stuck']
    if c.get('idle_running'):
        return 'queue idle but IsRunning: ' + c['idle_running']
    if c.get('bad_data'):
        return 'queues are not isolated (data): ' + c['bad_data']
    return None


def unified_monitor(u):
    """unified mode (hand-ticked driver, commands with one request per member GPU of a unified device): None or a
    description.  The Go side judges every request at the moment it is sent and every quiet point against the FIFO
    reference; the request log is re-counted here: exactly one LaunchKernelReq per (queue, command, member GPU)."""
    if u.get('violation'):
        return 'commands of a queue take effect one at a time, once, in order: ' + u['violation']
    if u.get('panic'):
        return 'the driver panicked in a run with multi-request commands: %s' % u['panic']
    want = collections.Counter()
    for q, uq in enumerate(u['queues']):
        for k, kind in enumerate(uq['prog']):
            for i in range(0 if kind == 'noop' else len(u['members']) if (kind == 'unified' and uq['gpu'] == 0) else 1):
                want[(q, k, i)] = 1
    got = collections.Counter((r[0], r[1], r[2]) for r in u.get('sent') or [])
    if got != want:
        extra = sorted((got - want).items())
        miss = sorted((want - got).items())
        return ('commands of a queue take effect once: the LaunchKernelReq the driver sent are not exactly one per (queue, command, '
                'member GPU): sent more than once %s, never sent %s' % (extra[:4], miss[:4]))
    return None


def strip(case):
    return {'name': case.get('name', ''), 'nq': case['nq'], 'progs': case['progs'],
            'grants': case.get('grants') or [], 'policy': 'first', 'probe': bool(case.get('probe')),
            'term': bool(case.get('term'))}


def nontrivial(case):
    rets = sum(1 for e in case.get('log', []) if e['e'] == 'ret')
    done = sum(1 for e in case.get('log', []) if e['e'] == 'enq')
    kinds = {s['g'][0] for s in case.get('steps', [])}
    return rets >= 1 and done >= 1 and {'a', 'r', 'e'} <= kinds


def run_impl(binary, args, timeout=600):
    tmp = os.path.join(vlib.BUILD, 'c12_%d.json' % os.getpid())
    rc, log = vlib.run([binary] + args + ['--out', tmp], timeout=timeout)
    if not os.path.exists(tmp) or (rc != 0 and rc != 1):
        return None, log            # rc 1 with an output file: the driver panicked, the runs up to then were written
    out = json.load(open(tmp))
    os.remove(tmp)
    return out, log


def replay_cases(binary, cases):
    inp = os.path.join(vlib.BUILD, 'c12_%d.in.json' % os.getpid())
    json.dump(cases, open(inp, 'w'))
    out, log = run_impl(binary, ['--replay', inp])
    os.remove(inp)
    return out, log


def race_run(seed):
    """Thorough tier, supporting validation only: the same controlled schedules and a short stress run under
    the Go race detector.  Returns a summary dict (never a verdict)."""
    out = os.path.join(vlib.BUILD, 'bin' + vlib._repo_tag(), 'c12race')
    with vlib.Lock('gobuild' + vlib._repo_tag()):
        gm = vlib.go_prepare()
        rc, log = vlib.run([vlib.go_bin(), 'build', '-race', '-modfile=' + gm, '-tags', 'verif', '-o', out, './cmd/c12'],
                           cwd=vlib.HARNESS, env=vlib.go_env(), timeout=1500)
    if rc != 0:
        return {'built': False, 'log': log[-500:]}
    tmp = os.path.join(vlib.BUILD, 'c12race_%d.json' % os.getpid())
    rc1, log1 = vlib.run([out, '--seed', str(seed), '--n', '150', '--out', tmp], timeout=900)
    rc2, log2 = vlib.run([out, '--stress', '8', '--workers', '4', '--out', tmp], timeout=900)
    if os.path.exists(tmp):
        os.remove(tmp)
    reports = (log1 + log2).split('WARNING: DATA RACE')[1:]
    in_driver = [r for r in reports if 'amd/driver' in r.split('Goroutine')[0]]
    return {'built': True, 'schedules': 150, 'reports': len(reports), 'reports_in_amd_driver': len(in_driver),
            'first': in_driver[0][:1500] if in_driver else ''}


def main(argv):
    rep = vlib.Report(PROP, 'proof')
    rep.checker_cmd = ('make -C coq props/C12.vo && coqc props/C12.v (Print Assumptions) && coqc cases/C12/s*.v '
                       '(vm_compute mismatches) ; build/bin*/c12 --stress')
    rep.trusted = ['Coq 8.16.1 kernel + vm_compute',
                   'hand-written LTS coq/drv/Queue.v + Handoff.v of amd/driver/{commandqueue,api,driver}.go and of akita '
                   'SerialEngine.Run/Pause/Continue, TickScheduler.TickLater (checked by replay, not verified)',
                   'atomicity of critical sections of commandsMutex / listenerMutex / engineRunningMutex (no blocking '
                   'operation inside; argued in docs/C12.md, not proved)',
                   'Go harness harness/cmd/c12: controlled scheduler over the verif-tag yield points, quiescence detected '
                   'from runtime.Stack goroutine states',
                   'Go scheduler and memory model are outside the theorems: unlocked shared accesses (CommandQueue.IsRunning, '
                   'Context.buffers, Driver.codeObjGPUAddrs, Driver.requestsToSend) are not expressible']
    rep.assumptions = ['threads interleave at the granularity of the named yield points (sequential consistency)',
                       'every thread that enqueues later calls DrainCommandQueue (the API wakes the driver only there)',
                       'asynchronous commands: the GPU side answers every request through an engine event (the harness plays '
                       'such a GPU for LaunchKernelCommands; memory-copy middleware paths are model-only)',
                       'Driver.Terminate is not called while calls are in flight']
    thorough = vlib.tier() == 'thorough'
    n = 1500 if thorough else 100

    replay_file = argv[argv.index('--replay') + 1] if '--replay' in argv else None

    ok, log, binary = vlib.go_build('c12')
    rep.obligation('harness builds against the working tree (hooks present)', ok)
    if not ok:
        rep.violation({'broken': 'go build of harness/cmd/c12 failed (are the verif hooks of amd/driver present?)',
                       'log': log[-4000:]}, nofail=True, text='harness build failed')
        return rep.finish()

    ok, log = vlib.coq_build(COQ_TARGETS)
    okp, plog, thms = vlib.coq_check_props(PROP) if ok else (False, log, [])
    if not (ok and okp):
        rep.obligation('coq build', False)
        rep.violation({'broken': 'Coq development for C12 does not compile', 'log': (log + plog)[-4000:]}, nofail=True)
        return rep.finish()
    for name, axioms in thms:
        rep.obligation('theorem ' + name + (' [axioms: %s]' % ', '.join(axioms) if axioms else ' [closed under the global context]'), True)

    # ---- code-object stream: one code object launched from several contexts (processes) on an emulation platform
    if not replay_file or 'codeobj' in json.dumps(json.load(open(replay_file)))[:400]:
        tmpc = os.path.join(vlib.BUILD, 'c12_%d.co.json' % os.getpid())
        hs = os.path.join(vlib.REPO, 'amd/driver/memcopy.hsaco')
        rc, log = vlib.run([binary, '--codeobj', hs, '--out', tmpc], timeout=600)
        cos = json.load(open(tmpc)) if os.path.exists(tmpc) else None
        if os.path.exists(tmpc):
            os.remove(tmpc)
        if cos is None:
            rep.obligation('code-object stream', False)
            rep.violation({'broken': 'harness code-object stream failed', 'log': log[-4000:]}, nofail=True,
                          text='harness code-object stream failed: ' + (log.strip().split('\n') or [''])[0][:200])
            return rep.finish()
        cobad = []
        for c in cos:
            if c.get('died'):
                cobad.append((c, 'contexts are not isolated (code object): scenario "%s": %s' % (c['name'], c['died'])))
            for k, st in enumerate(c.get('steps', [])):
                if st['result'] != 'ok':
                    cobad.append((c, 'contexts are not isolated (code object): scenario "%s": launch %d (context %d) computed a wrong '
                                     'result: %s' % (c['name'], k + 1, st['ctx'], st.get('detail', ''))))
        rep.obligation('code-object stream: %d scenarios (2-3 contexts of different and of the same process launch ONE code object on an '
                       'emulation platform, %d launches): every launch completes and copies its own context\'s input'
                       % (len(cos), sum(len(c.get('steps', [])) for c in cos)), not cobad)
        rep.coverage['codeobj_stream'] = {'scenarios': len(cos), 'launches': sum(len(c.get('steps', [])) for c in cos), 'failures': len(cobad)}
        if cobad:
            c, msg = cobad[0]
            rep.violation({'property': PROP, 'what': msg, 'case': [c], 'log': log[-3000:],
                           'replay_cmd': 'build/bin*/c12 --codeobj <tree>/amd/driver/memcopy.hsaco --out /tmp/co.json  (or ./check C12 --replay <this file>)'},
                          text=msg)
            return rep.finish()

    # ---- copy mode: data isolation between queues, re-use of a queue after degenerate commands
    copies = []
    if replay_file:
        obj = json.load(open(replay_file))
        src = obj.get('case') or obj.get('cases') or obj
        src = src if isinstance(src, list) else [src]
        if src and src[0].get('copy'):
            inp = os.path.join(vlib.BUILD, 'c12_%d.copy.json' % os.getpid())
            json.dump(src, open(inp, 'w'))
            copies, log = run_impl(binary, ['--replay', inp])
            os.remove(inp)
            copies = copies or []
    else:
        copies, log = run_impl(binary, ['--copy', '600' if thorough else '100', '--seed', str(vlib.seed())])
        if copies is None:
            rep.obligation('copy-mode run', False)
            rep.violation({'broken': 'harness copy-mode run failed', 'log': log[-4000:]}, nofail=True,
                          text='harness copy-mode run failed: ' + (log.strip().split('\n') or [''])[0][:200])
            return rep.finish()
    cbad = [(c, copy_monitor(c)) for c in copies]
    cbad = [(c, m) for c, m in cbad if m]
    if copies:
        rep.obligation('copy mode: %d hand-ticked runs with 2-3 queues in 1-2 contexts (copies in flight together in %d of them, '
                       'requests answered in random order across queues, zero-byte copies / no-ops / kernels followed by ordinary '
                       'commands): data per queue = its FIFO reference, every queue drains, idle queue => IsRunning = false'
                       % (len(copies), sum(1 for c in copies if c.get('in_flight_together', 0) >= 2)), not cbad)
        rep.coverage['copy_mode'] = {'runs': len(copies), 'answers': sum(c.get('answers', 0) for c in copies),
                                     'with_copies_of_2plus_queues_in_flight': sum(1 for c in copies if c.get('in_flight_together', 0) >= 2),
                                     'zero_byte_copies': sum(1 for c in copies for p in c['progs'] for o in p if o['op'] in ('h2d', 'd2h') and not o.get('n')),
                                     'failures': len(cbad)}
    # ---- hand-ticked histories over the model's command kinds (no-op, kernel, zero-byte copy): tick-exact correspondence
    hands, hmism, hok = [], [], True
    if not replay_file or (src and src[0].get('hand')):
        if replay_file:
            inp = os.path.join(vlib.BUILD, 'c12_%d.hand.json' % os.getpid())
            json.dump(src, open(inp, 'w'))
            hands, log = run_impl(binary, ['--replay', inp])
            os.remove(inp)
        else:
            hands, log = run_impl(binary, ['--hand', '1500' if thorough else '150', '--seed', str(vlib.seed())])
        if hands is None:
            rep.obligation('hand-ticked run', False)
            rep.violation({'broken': 'harness hand-ticked run failed', 'log': log[-4000:]}, nofail=True,
                          text='harness hand-ticked run failed: ' + (log.strip().split('\n') or [''])[0][:200])
            return rep.finish()
        for h in hands:
            m = ('the driver panicked in a hand-ticked run: %s' % h['panic'] if h.get('panic') else
                 'DrainCommandQueue never returns: ' + h['stuck'] if h.get('stuck') else None)
            if m:
                cbad.append((h, m))
        comp = [h for h in hands if not h.get('not_comparable')]
        hok, hmism, hlog = vlib.eval_cases(PROP, HEADER, [h['coq'] for h in comp], shard_size=40, checker='hand_mismatches')
        rep.obligation('correspondence (hand-ticked driver): %d histories, %d Tick calls and GPU answers over no-op, kernel and '
                       'zero-byte-copy commands in 1-3 queues / 1-2 contexts agree with the model tick by tick (queue lengths, '
                       'heads, IsRunning, requests in flight, Tick result)' % (len(comp), sum(len(h['events']) for h in comp)),
                       hok and not hmism)
        rep.coverage['hand_mode'] = {'histories': len(hands), 'comparable': len(comp), 'events': sum(len(h['events']) for h in comp),
                                     'zero_byte_copies': sum(1 for h in comp for p in h['progs'] for o in p if o['k'] in ('h2d0', 'd2h0')),
                                     'mismatches': len(hmism)}
        if not cbad and (hmism or not hok):
            i, k = hmism[0] if hmism else (0, 0)
            hc = dict(comp[i]) if comp else {}
            hc.pop('coq', None)
            rep.violation({'property': PROP, 'broken': 'correspondence between coq/drv/Handoff.v (hand_tick) and the hand-ticked driver: '
                           'event %d of history %d differs' % (k, i), 'case': [hc], 'first_diverging_event': k, 'log': hlog[-2000:]},
                          nofail=True, text='model/implementation mismatch at hand-ticked history %d event %d' % (i, k))
            return rep.finish()
    # ---- unified mode: commands with several outstanding requests (one LaunchKernelReq per member GPU of a unified device)
    if not replay_file or (src and src[0].get('unified')):
        if replay_file:
            inp = os.path.join(vlib.BUILD, 'c12_%d.uni.json' % os.getpid())
            json.dump(src, open(inp, 'w'))
            unis, log = run_impl(binary, ['--replay', inp])
            os.remove(inp)
        else:
            ucorpus = os.path.join(vlib.ROOT, 'corpus', PROP, 'unified.json')
            unis0, log = run_impl(binary, ['--replay', ucorpus]) if os.path.exists(ucorpus) else ([], '')
            unis, log = run_impl(binary, ['--unified', '800' if thorough else '120', '--seed', str(vlib.seed())]) if unis0 is not None else (None, log)
            if unis is not None:
                unis = unis0 + unis
        if unis is None:
            rep.obligation('unified-mode run', False)
            rep.violation({'broken': 'harness unified-mode run failed', 'log': log[-4000:]}, nofail=True,
                          text='harness unified-mode run failed: ' + (log.strip().split('\n') or [''])[0][:200])
            return rep.finish()
        ubad = [(u, unified_monitor(u)) for u in unis]
        ubad = [(u, m) for u, m in ubad if m]
        rep.obligation('unified mode: %d hand-ticked runs on a unified device of 2-4 member GPUs played by the harness (%d multi-request '
                       'commands, %d replies delivered one or two per quiet point in random / first-sent-first / last-sent-first order, %d '
                       'quiet points with a command partly answered, further commands behind it, second queues on the unified device and '
                       'on a plain GPU of another context): requests sent = exactly one per (command, member GPU), nothing of a later '
                       'command or a second copy while replies are outstanding, a command leaves its queue exactly at its last reply, '
                       'completion order = enqueue order, every queue drains'
                       % (len(unis), sum(1 for u in unis for q in u['queues'] for k in q['prog'] if k == 'unified'),
                          sum(u.get('answers', 0) for u in unis), sum(u.get('partial', 0) for u in unis)), not ubad)
        comp = [u for u in unis if u.get('coq')]
        uok, umism, ulog = vlib.eval_cases(PROP, UHEADER, [u['coq'] for u in comp], shard_size=40, checker='group_mismatches', ty='gcase')
        rep.obligation('correspondence (multi-request commands): %d single-queue runs, %d quiet points agree with coq/drv/MultiReq.v '
                       '(queue length, IsRunning, length of the head command\'s request list, requests sent so far; every group of '
                       'replies + start enabled in the model, no start left enabled at a quiet point)'
                       % (len(comp), sum(len(u['events']) for u in comp)), uok and not umism)
        rep.coverage['unified_mode'] = {'runs': len(unis), 'members': dict(collections.Counter(len(u['members']) for u in unis)),
                                        'multi_request_commands': sum(1 for u in unis for q in u['queues'] for k in q['prog'] if k == 'unified'),
                                        'answers': sum(u.get('answers', 0) for u in unis),
                                        'quiet_points_with_partly_answered_command': sum(u.get('partial', 0) for u in unis),
                                        'runs_with_two_queues': sum(1 for u in unis if len(u['queues']) > 1),
                                        'compared_with_model': len(comp), 'model_mismatches': len(umism), 'failures': len(ubad)}
        if ubad and not replay_file:
            # shrink: fewer members, fewer queues, shorter programs, plain answer order - the smallest variant that still fails
            u0 = ubad[0][0]
            cands = []
            for nm in range(2, len(u0['members']) + 1):
                for nqs in range(1, len(u0['queues']) + 1):
                    for ln in range(1, max(len(q['prog']) for q in u0['queues']) + 1):
                        for pol in sorted({'first', u0['policy']}):
                            cands.append({'unified': True, 'name': u0.get('name', ''), 'seed': u0['seed'], 'ngpu': u0['ngpu'],
                                          'members': u0['members'][:nm], 'policy': pol, 'batch': u0['batch'] and pol != 'first',
                                          'queues': [{'gpu': q['gpu'], 'prog': q['prog'][:ln]} for q in u0['queues'][:nqs]]})
            cands.sort(key=lambda c: (len(c['members']) + sum(len(q['prog']) for q in c['queues']) + len(c['queues']), c['policy'] != 'first'))
            inp = os.path.join(vlib.BUILD, 'c12_%d.uni.json' % os.getpid())
            json.dump(cands[:200], open(inp, 'w'))
            small, _ = run_impl(binary, ['--replay', inp])
            os.remove(inp)
            for u in small or []:
                m = unified_monitor(u)
                if m:
                    ubad = [(u, m)]
                    break
        cbad += ubad
        if not cbad and (umism or not uok):
            i, k = umism[0] if umism else (0, 0)
            uc = dict(comp[i]) if comp else {}
            uc.pop('coq', None)
            rep.violation({'property': PROP, 'broken': 'correspondence between coq/drv/MultiReq.v and the hand-ticked driver (unified mode): '
                           'quiet point %d of run %d differs; theorems multi_request_* of props/C12.v no longer speak about this code' % (k, i),
                           'case': [uc], 'first_diverging_event': k, 'log': ulog[-2000:]},
                          nofail=True, text='model/implementation mismatch at unified-mode run %d quiet point %d' % (i, k))
            return rep.finish()
    if cbad:
        c, msg = cbad[0]
        c = dict(c)
        c.pop('coq', None)
        rep.violation({'property': PROP, 'what': msg, 'case': [c],
                       'replay_cmd': 'VERIF_REPO=<tree> ./check C12 --replay <this file>'}, text=msg)
        return rep.finish()

    # ---- controlled-scheduler runs on the implementation
    cases = []
    ncorpus = 0
    if replay_file:
        obj = json.load(open(replay_file))
        src = obj.get('case') or obj.get('cases') or obj
        src = src if isinstance(src, list) else [src]
        src = [c for c in src if 'progs' in c and not c.get('copy')]
        if src:
            cases, log = replay_cases(binary, [strip(c) for c in src])
            cases = cases or []
    else:
        corpus = []
        cdir = os.path.join(vlib.ROOT, 'corpus', PROP)
        for p in sorted(os.listdir(cdir)) if os.path.isdir(cdir) else []:
            corpus += [c for c in json.load(open(os.path.join(cdir, p))) if not c.get('unified')]
        if corpus:
            out, log = replay_cases(binary, [strip(c) for c in corpus])
            cases = out or []
            ncorpus = len(cases)
            rep.obligation('corpus: %d recorded schedules (lost wake-up, engine-exit race, merged wake-up, blocked notifier) replayed on the real driver' % len(corpus),
                           out is not None and len(cases) == len(corpus))
        gen, log = run_impl(binary, ['--seed', str(vlib.seed()), '--n', str(n), '--shaped', '6' if thorough else '2',
                                     '--around', '2' if thorough else '0', '--around-runs', '60' if thorough else '6'])
        if gen is None:
            rep.obligation('harness run', False)
            rep.violation({'broken': 'harness run failed', 'log': log[-4000:]}, nofail=True,
                          text='harness run failed: ' + (log.strip().split('\n') or [''])[0][:200])
            return rep.finish()
        cases += gen
        ex, log = run_impl(binary, ['--explore', '14' if thorough else '7', '--explore-runs', '4000' if thorough else '160'])
        if ex is None:
            rep.obligation('bounded exploration run', False)
            rep.violation({'broken': 'harness exploration run failed', 'log': log[-4000:]}, nofail=True,
                          text='harness exploration run failed: ' + (log.strip().split('\n') or [''])[0][:200])
            return rep.finish()
        nex = len(ex)
        cases += ex

    bad = [(i, monitor(c)) for i, c in enumerate(cases)]
    bad = [(i, m) for i, m in bad if m]
    odd = [(i, k, s['odd']) for i, c in enumerate(cases) for k, s in enumerate(c['steps']) if s.get('odd')]

    okc, allm, clog = vlib.eval_cases(PROP, HEADER, [c['coq'] for c in cases], shard_size=12, checker='check_all')
    mism = [(i, k) for i, k in allm if k < 1000000]
    rankbad = [(i, k - 1000000) for i, k in allm if k >= 1000000]
    nmodel = sum(len(s['chain']) for c in cases for s in c['steps'])
    rep.obligation('cross-check: the ranking function of coq/drv/QueueRank.v (theorem rank_decreases) strictly decreases on '
                   'all %d model transitions of the replayed schedules' % nmodel, okc and not rankbad)
    rep.obligation('correspondence: %d controlled schedules (%d granted steps) agree with the model step by step'
                   % (len(cases), sum(len(c['steps']) for c in cases)), okc and not mism and not odd)

    # ---- un-instrumented stress run
    stress = []
    if not replay_file:
        plans = ([(20, 3, ['--mix', '--chaos']), (20, 8, ['--mix']), (15, 4, ['--oneq']), (10, 1, []), (15, 2, ['--mix', '--chaos'])] if thorough
                 else [(4, 3, ['--mix', '--chaos']), (3, 8, ['--mix']), (4, 4, ['--oneq']), (2, 1, [])])
        for secs, workers, extra in plans:
            r, log = run_impl(binary, ['--stress', str(secs), '--workers', str(workers), '--seed', str(vlib.seed())] + extra,
                              timeout=secs * 25 + 700)
            if r is None:
                r = {'hung': True, 'iterations': 0, 'dump': log[-4000:], 'seconds': 0}
            r['workers'] = workers
            r['mode'] = ' '.join(extra) or 'plain'
            stress.append(r)
        rep.obligation('stress: %s iterations of {Enqueue; [Enqueue]; DrainCommandQueue} (no-op and asynchronous commands, a shared '
                       'queue, random delays at the yield points): every worker kept returning from its drains'
                       % ' + '.join(str(r['iterations']) for r in stress), not any(r['hung'] for r in stress))

    race = race_run(vlib.seed()) if (thorough and not replay_file) else None
    if race is not None:
        rep.coverage['race_detector_supporting_run'] = race
    steps = collections.Counter(s['g'][0] for c in cases for s in c['steps'])
    rep.coverage.update({
        'evaluations': len(cases),
        'distinct_nontrivial': len({vlib.case_hash({'p': c['progs'], 'g': c['grants']}) for c in cases if nontrivial(c)}),
        'rule': 'controlled schedules of 1-3 application threads x 1-3 queues (2 contexts) x 1-3 rounds of {0-2 Enqueue; Drain}, no-op '
                'and asynchronous commands (answered by the harness GPU after 1-40 cycles): random with four scheduling biases, '
                'holds (one thread kept at one yield point while anything else can move) and early sends; shaped programs '
                '(a subscriber kept before its signal while another thread drains; runAsync kept at each of its yield points; '
                'an engine kept before its first/after its last emptiness test; busy context before idle one) with the three '
                'continuation policies from every hold point; every schedule that differs within the first 7 (thorough: 14) '
                'steps for six small programs; kernels in flight in 2-3 contexts; drains entering at deq:notify/enq:notify; four recorded schedules; non-trivial = a command completed, a Drain returned '
                'and application, runAsync and engine steps all occur',
        'traces_validated_against_impl': len(cases),
        'granted_steps': sum(len(c['steps']) for c in cases),
        'steps_by_thread': dict(steps),
        'corpus_cases': ncorpus,
        'async_commands': sum(1 for c in cases for p in c['progs'] for o in p if o.get('k') == 'async'),
        'gpu_events_handled': sum(1 for c in cases for s in c['steps'] if s.get('at') == 'gpu:event'),
        'early_sends_blocked': sum(1 for c in cases for s in c['steps'] if s.get('at') == 'drain:signal' and not s['chain']),
        'cases_with_hold': sum(1 for c in cases if c.get('hold')),
        'cases_with_terminate': sum(1 for c in cases if c.get('term')),
        'model_mismatches': len(mism), 'monitor_failures': len(bad), 'unexpected_blocking': len(odd),
        'rank_checked_transitions': nmodel, 'rank_violations': len(rankbad),
        'stress': [{k: r[k] for k in ('workers', 'mode', 'iterations', 'seconds', 'hung')} for r in stress],
        'not_expressible': 'data races in the sense of the Go memory model (CommandQueue.IsRunning, Context.buffers, '
                           'Driver.codeObjGPUAddrs are accessed without locks); the theorems speak about interleavings of '
                           'atomic steps only',
    })
    rep.samples = [{'progs': c['progs'], 'grants': c['grants'][:40]} for c in cases[:2]]

    if not bad and (mism or odd) and not replay_file:
        # the real driver left the model: look for a schedule on which that becomes a property violation
        # (continuations of the diverging prefix under every hold, with the blocking send allowed early)
        cand = sorted({i for i, _ in mism} | {i for i, _, _ in odd})[:6]
        tries = []
        for i in cand:
            c = cases[i]
            ks = [k for j, k in mism if j == i] + [k + 1 for j, k, _ in odd if j == i]
            k = max(0, min(ks) - 1)
            for cut in (k, max(0, k - 6)):
                for h, hold in enumerate(['', 'a0:drain:signal', 'ra:ra:test', 'ra:ra:continue', 'ra:ra:pause', 'e:eng:returned',
                                          'a1:drain:signal', 'e:tick:end']):
                    for sd in range(3):
                        tries.append(dict(strip(c), grants=c['grants'][:cut], policy='random', probe=True, hold=hold,
                                          seed=1000 * vlib.seed() + 97 * i + 10 * h + sd + 1))
        out, _ = replay_cases(binary, tries)
        for c2 in out or []:
            m = monitor(c2)
            if m:
                cases.append(c2)
                bad = [(len(cases) - 1, m)]
                break
        rep.coverage['continuations_tried_after_divergence'] = len(tries)

    if bad:
        i, msg = bad[0]
        c = cases[i]

        def fails(grants):
            out, _ = replay_cases(binary, [dict(strip(c), grants=grants, probe=True)])
            return bool(out) and monitor(out[0]) is not None
        small = vlib.ddmin(c['grants'], fails, budget=60) if len(c['grants']) > 1 else c['grants']
        out, _ = replay_cases(binary, [dict(strip(c), grants=small, probe=True)])
        cc = out[0] if out and monitor(out[0]) else c
        cc.pop('coq', None)
        rep.violation({'property': PROP, 'what': monitor(cc), 'case': cc,
                       'replay_cmd': 'VERIF_REPO=<tree> ./check C12 --replay <this file>'}, text=msg)
    elif any(r['hung'] for r in stress):
        r = [r for r in stress if r['hung']][0]
        rep.violation({'property': PROP, 'what': 'a worker of the stress loop stopped returning from DrainCommandQueue after %d '
                       'iterations in total (%d workers, %s)' % (r['iterations'], r['workers'], r['mode']),
                       'goroutines': r.get('dump', '')[-6000:],
                       'replay_cmd': 'build/bin*/c12 --stress 30 --workers %d %s --seed %d'
                                     % (r['workers'], r['mode'] if r['mode'] != 'plain' else '', vlib.seed())},
                      text='DrainCommandQueue hang under stress after %d iterations' % r['iterations'])
    elif rankbad and not (mism or odd):
        i, k = rankbad[0]
        c = dict(cases[i])
        c.pop('coq', None)
        rep.violation({'property': PROP, 'broken': 'the ranking function (coq/drv/QueueRank.v) does not decrease at model transition %d of schedule %d '
                       'replayed from the real driver' % (k, i),
                       'case': c}, nofail=True, text='ranking function does not decrease at schedule %d transition %d' % (i, k))
    elif mism or odd or not okc:
        i, k = mism[0] if mism else ((odd[0][0], odd[0][1] + 1) if odd else (0, 0))
        c = dict(cases[i]) if cases else None
        if c:
            c.pop('coq', None)
        rep.violation({'property': PROP, 'broken': 'correspondence between coq/drv/Handoff.v and amd/driver: granted step %d of '
                       'schedule %d differs (model steps not enabled, observation differs, or hang verdict differs); the theorems '
                       'of props/C12.v no longer speak about this code' % (k, i),
                       'case': c, 'first_diverging_step': k, 'log': clog[-2000:]}, nofail=True,
                      text='model/implementation mismatch at schedule %d step %d; no property violation found on %d schedules'
                           % (i, k, len(cases)))
    return rep.finish()


if __name__ == '__main__':
    sys.exit(main(sys.argv[1:]))
