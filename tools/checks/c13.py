"""C13 — code-object loader.  Theorems: coq/props/C13.v over coq/hsaco/Hsaco.v.
Tie: harness/cmd/c13 writes ELF objects with its own ELF writer, feeds them
(and every kernel of every shipped .hsaco) to the real
insts.LoadKernelCodeObjectFromBytes and records every field of the result; the
Gallina model is evaluated on the abstract view (sections, symbols) of the same
objects and must agree field by field (including panics and log.Fatal exits).
Monitor: an independent Python ELF reader + re-parse at the documented offsets."""
import json, os, struct, sys, collections
sys.path.insert(0, os.path.dirname(os.path.dirname(os.path.abspath(__file__))))
import vlib

PROP = 'C13'
HEADER = ('From Coq Require Import NArith List String Uint63.\nImport ListNotations.\n'
          'From VHsaco Require Import Hsaco.\nOpen Scope string_scope.\nOpen Scope N_scope.\n')
COQ_TARGETS = ['props/C13.vo']
KNOWN_MIMIC = ('header-less kernel without descriptor whose first 24 bytes pass the five-field test of '
               'isV2V3Header loses its first 256 bytes (sniffing cannot tell code from a header)')

FIELDS = ['Rsrc1', 'Rsrc2', 'Rsrc3', 'Kernarg', 'Group', 'Private', 'Entry', 'EnPSB', 'EnDispatchPtr', 'EnQueuePtr',
          'EnKernargPtr', 'EnDispatchID', 'EnFlatScratch', 'EnPrivSize', 'EnWgX', 'EnWgY', 'EnWgZ', 'CVMajor',
          'CVMinor', 'MKind', 'MVMajor', 'MVMinor', 'MVStep', 'WFSgpr', 'WIVgpr']


# ------------------------------------------------------------------ monitor

class Elf:
    """Minimal ELF64 little-endian reader (independent of debug/elf and of the
    harness' writer)."""

    def __init__(self, b):
        self.b = b
        assert b[:4] == b'\x7fELF' and b[4] == 2 and b[5] == 1
        self.abi = b[8]
        shoff, = struct.unpack_from('<Q', b, 40)
        shentsize, shnum, shstrndx = struct.unpack_from('<HHH', b, 58)
        self.secs = []
        for i in range(shnum):
            nm, typ, flags, addr, off, size, link, info, align, ent = struct.unpack_from('<IIQQQQIIQQ', b, shoff + i * shentsize)
            self.secs.append({'nameoff': nm, 'type': typ, 'addr': addr, 'off': off, 'size': size, 'link': link})
        st = self.secs[shstrndx]
        for s in self.secs:
            s['name'] = self.cstr(st['off'] + s['nameoff'])
        self.syms = None
        for s in self.secs:
            if s['type'] == 2:
                strs = self.secs[s['link']]
                self.syms = []
                for k in range(1, s['size'] // 24):
                    nm, info, other, shndx, value, size = struct.unpack_from('<IBBHQQ', b, s['off'] + 24 * k)
                    self.syms.append({'name': self.cstr(strs['off'] + nm), 'info': info, 'other': other,
                                      'shndx': shndx, 'value': value, 'size': size})
                break

    def cstr(self, off):
        end = self.b.index(b'\0', off)
        return self.b[off:end].decode('latin-1')

    def data(self, s):
        return self.b[s['off']:s['off'] + s['size']]


def norm_rsrc2(r, kernarg):
    """the normalisations documented in parseV5KernelDescriptor"""
    r &= ~1
    if kernarg > 0:
        r = (r & ~(0x1f << 1)) | (2 << 1)
    r |= (1 << 7) | (1 << 8)
    if (r >> 11) & 3 == 0:
        r |= 1 << 11
    return r & 0xffffffff


def expect(elf, name, truth):
    """What the property promises for loading `name`; None = no judgement.
    Returns (dict of expected values, kind)."""
    if elf.syms is None:
        return None
    text = [i for i, s in enumerate(elf.secs) if s['name'] == '.text']
    ro = [i for i, s in enumerate(elf.secs) if s['name'] == '.rodata']
    if len(text) != 1 or len(ro) > 1:
        return None
    ti = text[0]
    byname = collections.defaultdict(list)
    for y in elf.syms:
        byname[y['name']].append(y)
    # the kernel symbol: the one symbol of that name with positive size in .text
    # (same-named labels of size 0 or symbols in other sections are decoys)
    ks = [y for y in byname[name] if y['shndx'] == ti and y['size'] > 0]
    if len(ks) != 1:
        return None
    y = ks[0]
    t = elf.secs[ti]
    off = y['value'] - t['addr']
    if off < 0 or off + y['size'] > t['size']:
        return None
    sl = elf.data(t)[off:off + y['size']]
    exp = {'sym': y}
    # the descriptor: the one symbol called <name>.kd of size 64; it must lie in
    # .rodata.  Same-named symbols of other sizes are decoys.  Several size-64
    # candidates, or one outside .rodata: no judgement.
    kds = [k for k in byname[name + '.kd'] if k['size'] == 64]
    if len(kds) > 1 or (kds and not (ro and kds[0]['shndx'] == ro[0])):
        return None
    if kds:
        r = elf.secs[ro[0]]
        ko = kds[0]['value'] - r['addr']
        if ko < 0 or ko + 64 > r['size']:
            return None
        d = elf.data(r)[ko:ko + 64]
        group, private, kernarg = struct.unpack_from('<III', d, 0)
        entry, = struct.unpack_from('<Q', d, 16)
        rsrc3, rsrc1, rsrc2 = struct.unpack_from('<III', d, 44)
        m = dict.fromkeys(FIELDS, 0)
        for f in FIELDS[7:17]:
            m[f] = False
        m.update(Group=group, Private=private, Kernarg=kernarg, Entry=entry, Rsrc3=rsrc3, Rsrc1=rsrc1,
                 Rsrc2=norm_rsrc2(rsrc2, kernarg), EnKernargPtr=kernarg > 0)
        vg = ((rsrc1 & 63) + 1) * 4
        sg = (((rsrc1 >> 6) & 15) + 1) * 8
        nv, ns = byname[name + '.num_vgpr'], byname[name + '.numbered_sgpr']
        # metadata symbols are matched by name only; duplicates that disagree
        # leave the register count unjudged
        m['WIVgpr'] = m['WFSgpr'] = None
        if len({y_['value'] for y_ in nv}) <= 1 and (not nv or nv[0]['value'] <= 1024):
            m['WIVgpr'] = max(vg, (nv[0]['value'] + 3) // 4 * 4) if nv else vg
        if len({y_['value'] for y_ in ns}) <= 1 and (not ns or ns[0]['value'] <= 1024):
            m['WFSgpr'] = max(sg, (ns[0]['value'] + 2 + 7) // 8 * 8) if ns else sg
        exp.update(kind='v5', version=5, data=sl, meta=m)
        return exp
    if truth is None:
        # shipped code object V2 file: kernel symbols of type AMDGPU_HSA_KERNEL carry a header
        if elf.abi == 0 and (y['info'] & 15) == 10 and len(sl) >= 256:
            truth = 'v3'
        else:
            exp.update(kind='unknown', data_options=[sl, sl[256:]])
            return exp
    if truth == 'v3':
        h = sl[:256]
        m = dict.fromkeys(FIELDS, 0)
        m['CVMajor'], m['CVMinor'] = struct.unpack_from('<II', h, 0)
        m['MKind'], m['MVMajor'], m['MVMinor'], m['MVStep'] = struct.unpack_from('<HHHH', h, 8)
        m['Rsrc1'], m['Rsrc2'], flags, m['Private'], m['Group'] = struct.unpack_from('<IIIII', h, 48)
        m['Kernarg'], = struct.unpack_from('<Q', h, 72)
        m['WFSgpr'], m['WIVgpr'] = struct.unpack_from('<HH', h, 84)
        for k, f in enumerate(FIELDS[7:17]):
            m[f] = bool(flags >> k & 1)
        m['Entry'] = 0           # relative to the returned instruction bytes
        exp.update(kind='v3', version=3, data=sl[256:], meta=m)
        return exp
    m = dict.fromkeys(FIELDS, 0)
    for f in FIELDS[7:17]:
        m[f] = False
    exp.update(kind='raw', version=5, data=sl, meta=m)
    return exp


def judge(res, exp):
    """compare an observed result with the expectation; returns text or None"""
    if res['class'] != 'ok':
        return 'loader ended in %s (%s) on a well-formed object' % (res['class'], res.get('msg', ''))
    data = bytes.fromhex(res.get('data', ''))
    y = exp['sym']
    s = res.get('sym')
    if not s or any(s[k] != y[k] for k in ('name', 'info', 'other', 'shndx', 'value', 'size')):
        return 'returned symbol %s is not the kernel symbol %s' % (s, y)
    if exp['kind'] == 'unknown':
        if data not in exp['data_options']:
            return 'instruction bytes are neither the symbol slice nor the slice minus 256 bytes'
        return None
    if data != exp['data']:
        return ('instruction bytes differ from the kernel\'s bytes in .text (%s kernel): got %d bytes, expected %d'
                % (exp['kind'], len(data), len(exp['data'])))
    if res['version'] != exp['version']:
        return 'version %d, expected %d' % (res['version'], exp['version'])
    for f in FIELDS:
        e = exp['meta'][f]
        if e is not None and res['meta'][f] != e:
            return 'metadata field %s = %s, the file stores %s (%s kernel)' % (f, res['meta'][f], e, exp['kind'])
    return None


def load_elf(c):
    if c['src'] == 'shipped':
        return Elf(open(os.path.join(vlib.REPO, c['file']), 'rb').read())
    return Elf(bytes.fromhex(c['elf']))


def is_hdr(b):
    if len(b) < 256:
        return False
    maj, mnr = struct.unpack_from('<II', b, 0)
    kind, mvm = struct.unpack_from('<HH', b, 8)
    ent, = struct.unpack_from('<Q', b, 16)
    return maj == 1 and mnr <= 2 and kind == 1 and 7 <= mvm <= 9 and ent == 256


def only_kernel(elf):
    """name of the only kernel symbol of the object, else None"""
    if elf.syms is None:
        return None
    ks = [y for y in elf.syms if 0 < y['shndx'] < len(elf.secs) and elf.secs[y['shndx']]['name'] == '.text' and y['size'] > 0]
    return ks[0]['name'] if len(ks) == 1 else None


def monitor(c):
    """[(query index, text, known:bool)] for a valid case"""
    if not c.get('valid'):
        return []
    try:
        elf = load_elf(c)
    except Exception as ex:              # a file this reader cannot parse: no judgement
        return []
    out = []
    for qi, q in enumerate(c['queries']):
        name = q['name']
        if name == '':
            # auto-detection: with exactly one kernel symbol (positive size, in a
            # section called .text) the result must be that of loading it by name
            name = only_kernel(elf)
            if not name:
                continue
        truth = (c.get('truth') or {}).get(name)
        if c['src'] != 'shipped' and truth is None:
            continue
        exp = expect(elf, name, truth)
        if exp is None:
            continue
        msg = judge(q['res'], exp)
        if msg and q['name'] == '':
            msg = 'loaded with the empty name (the only kernel is %r, loading it by name must give the same): %s' % (name, msg)
        if msg:
            known = (exp.get('kind') == 'raw' and q['res']['class'] == 'ok' and is_hdr(exp['data'])
                     and bytes.fromhex(q['res'].get('data', '')) == exp['data'][256:])
            out.append((qi, msg, known))
    return out


# ------------------------------------------------------------------ driver

def strip(c):
    if c['src'] == 'hist':
        return {'src': 'hist', 'tag': c.get('tag', 'history'), 'valid': True,
                'images': [dict(strip(im), queries=[]) for im in c['images']],
                'steps': [{'img': st['img'], 'name': st['name'], 'fresh': st.get('fresh', False)} for st in c['steps']]}
    d = {k: c[k] for k in ('src', 'tag', 'valid', 'abi', 'secs', 'syms', 'symtab') if k in c}
    if c.get('file'):
        d['file'] = c['file']
    if c.get('truth'):
        d['truth'] = c['truth']
    if c['src'] == 'shipped':
        d.pop('secs', None)
        d.pop('syms', None)
    d['queries'] = [{'name': q['name']} for q in c['queries']]
    return d


def flatten(cases):
    """history containers -> their images (each image carries the results of
    the steps performed on it); returns (flat list, container index per entry)"""
    flat, owner = [], []
    for ci, c in enumerate(cases):
        if c['src'] == 'hist':
            for im in c['images']:
                flat.append(im)
                owner.append(ci)
        else:
            flat.append(c)
            owner.append(None)
    return flat, owner


def run_impl(binary, cases=None, seed=1, n=100, shipped=True, nh=0):
    tmp = os.path.join(vlib.BUILD, 'c13_%d.json' % os.getpid())
    args = [binary, '--repo', vlib.REPO, '--out', tmp]
    if cases is not None:
        inp = tmp + '.in'
        json.dump(cases, open(inp, 'w'))
        rc, log = vlib.run(args + ['--replay', inp])
        os.remove(inp)
    else:
        rc, log = vlib.run(args + ['--seed', str(seed), '--n', str(n), '--nh', str(nh)] + ([] if shipped else ['--shipped=false']))
    if rc != 0:
        return None, log
    out = json.load(open(tmp))
    os.remove(tmp)
    return out, log


def nontrivial(c):
    return any(q['res']['class'] == 'ok' and q['res'].get('data') for q in c['queries'])


def spread(cases, shard):
    """order cases so that the big ones land in different shards"""
    idx = sorted(range(len(cases)), key=lambda i: -len(cases[i]['coq']))
    ns = max(1, (len(cases) + shard - 1) // shard)
    order = []
    for k in range(ns):
        order += idx[k::ns]
    return order


def main(argv):
    rep = vlib.Report(PROP, 'proof')
    rep.checker_cmd = ('make -C coq props/C13.vo && coqc props/C13.v (Print Assumptions) && '
                       'coqc cases/C13/s*.v (vm_compute mismatches)')
    rep.trusted = ['Coq 8.16.1 kernel + vm_compute', 'Go debug/elf (the model starts at the section list and symbol table it returns)',
                   'hand-written model coq/hsaco/Hsaco.v of amd/insts/hsaco.go (checked by sampling, not verified)',
                   'Go harness harness/cmd/c13 (ELF writer, worker subprocess), byte-string unpacking in Hsaco.v',
                   'encoders coq/hsaco/HsacoSpec.v written from the amd_kernel_code_t / AMDHSA kernel-descriptor layouts']
    rep.assumptions = ['theorems hold for every section list / symbol table / name (guards are in the statements); '
                       'V5 normalisations in parseV5KernelDescriptor are taken as the specification of "metadata as stored"; '
                       'the sampled objects only decide whether the real loader still behaves like the model']
    thorough = vlib.tier() == 'thorough'
    n = 2500 if thorough else 200
    nh = 300 if thorough else 30
    replay_file = argv[argv.index('--replay') + 1] if '--replay' in argv else None

    ok, log, binary = vlib.go_build('c13')
    rep.obligation('harness builds against the working tree', ok)
    if not ok:
        rep.violation({'broken': 'go build of harness/cmd/c13 failed', 'log': log[-4000:]}, nofail=True, text='harness build failed')
        return rep.finish()
    ok, log = vlib.coq_build(COQ_TARGETS)
    okp, plog, thms = vlib.coq_check_props(PROP) if ok else (False, log, [])
    if not (ok and okp):
        rep.obligation('coq build', False)
        rep.violation({'broken': 'Coq development for C13 does not compile', 'log': (log + plog)[-4000:]}, nofail=True)
        return rep.finish()
    for name, axioms in thms:
        rep.obligation('theorem ' + name + (' [axioms: %s]' % ', '.join(axioms) if axioms else ' [closed under the global context]'), True)

    # ---- run the implementation
    if replay_file:
        obj = json.load(open(replay_file))
        src = obj.get('case') or obj.get('cases') or obj
        src = src if isinstance(src, list) else [src]
        cases, log = run_impl(binary, cases=[strip(c) for c in src])
        cases = cases or []
    else:
        corpus = []
        cdir = os.path.join(vlib.ROOT, 'corpus', PROP)
        for p in sorted(os.listdir(cdir)) if os.path.isdir(cdir) else []:
            corpus += json.load(open(os.path.join(cdir, p)))
        cases = []
        if corpus:
            cases, log = run_impl(binary, cases=[strip(c) for c in corpus])
            cases = cases or []
        gen, log = run_impl(binary, seed=vlib.seed(), n=n, nh=nh)
        if gen is None:
            rep.obligation('harness run', False)
            rep.violation({'broken': 'harness run failed', 'log': log[-4000:]}, nofail=True)
            return rep.finish()
        cases += gen
    top = cases
    cases, owner = flatten(top)
    died = [(i, q) for i, c in enumerate(cases) for q in c['queries'] if q['res']['class'] == 'died' or q['res'].get('fatal') == 9]

    # ---- property monitor
    bad, known = [], []
    for i, c in enumerate(cases):
        for qi, msg, kn in monitor(c):
            (known if kn else bad).append((i, qi, msg))
    if known:
        rep.known_finding(KNOWN_MIMIC + ' [%d witness(es), e.g. kernel %r]' %
                          (len(known), cases[known[0][0]]['queries'][known[0][1]]['name']), key='headerless-mimic-stripped')

    # ---- correspondence with the model
    shard = 12
    order = spread(cases, shard)
    okc, mism, clog = vlib.eval_cases(PROP, HEADER, [cases[i]['coq'] for i in order], shard_size=shard, ty='case')
    mism = sorted((order[i], k) for i, k in mism)
    nq = sum(len(c['queries']) for c in cases)
    rep.obligation('correspondence: %d loader calls on %d objects evaluated by the model' % (nq, len(cases)), okc and not mism and not died)

    cls = collections.Counter()
    for c in cases:
        for q in c['queries']:
            r = q['res']
            cls['%s:%s' % ('valid' if c['valid'] else 'hostile', r['class'] + (str(r.get('version', '')) if r['class'] == 'ok' else str(r.get('fatal', ''))))] += 1
    truth = collections.Counter(t for c in cases for t in (c.get('truth') or {}).values())
    mimic_v5 = 0
    for c in cases:
        for q in c['queries']:
            r = q['res']
            if r['class'] == 'ok' and r['version'] == 5 and r['meta'] and is_hdr(bytes.fromhex(r.get('data', ''))) and r['sym'] and \
               any(y['name'] == q['name'] + '.kd' for y in c['syms'] or []):
                mimic_v5 += 1
    shipped = [c for c in cases if c['src'] == 'shipped']
    rep.coverage.update({
        'evaluations': nq,
        'distinct_nontrivial': len({vlib.case_hash(strip(c)) for c in cases if nontrivial(c)}),
        'rule': 'ELF64 objects from an independent writer: 1-6 kernels (V2/V3 header / V5 descriptor / header-less), shuffled '
                'symbol tables and section orders, section addresses up to 2^63, code mimicking or nearly mimicking a header, '
                'metadata symbols around the rounding boundaries; every 3rd object damaged (colliding names, out-of-range '
                'symbols, missing sections/symtab, empty name); plus every positive-size .text symbol of every shipped .hsaco. '
                'plus load histories executed by ONE process: an object and two same-length variants (same kernel names, other code / '
                'headers / descriptors) overwritten in place in one reused buffer, repeated and interleaved loads, an unrelated '
                'object in between; every returned object is overwritten after it has been recorded, each load is compared with '
                'the model of that image alone. non-trivial = at least one call returned a code object with instruction bytes',
        'objects': len(cases), 'histories': sum(1 for c in top if c['src'] == 'hist'),
        'history_loads': sum(len(c['steps']) for c in top if c['src'] == 'hist'),
        'history_loads_from_overwritten_buffer': sum(1 for c in top if c['src'] == 'hist' for st in c['steps'] if not st.get('fresh')), 'shipped_files': len(shipped), 'shipped_loader_calls': sum(len(c['queries']) for c in shipped),
        'outcome_histogram': dict(cls), 'generated_kernel_kinds': dict(truth),
        'v5_loads_whose_code_passes_the_header_test': mimic_v5,
        'monitor_judged_calls': sum(1 for c in cases if c.get('valid') for q in c['queries']),
        'empty_name_loads_of_valid_objects': sum(1 for c in cases if c.get('valid') for q in c['queries'] if q['name'] == ''),
        'valid_objects_with_decoy_symbols': sum(1 for c in cases if c.get('valid') and 'decoy' in c.get('tag', '')),
        'model_mismatches': len(mism), 'monitor_failures': len(bad), 'known_finding_witnesses': len(known),
    })
    rep.samples = [{'tag': c['tag'], 'file': c.get('file'), 'queries': [(q['name'], q['res']['class'], q['res'].get('version')) for q in c['queries'][:4]]}
                   for c in cases[:1] + cases[-2:]]

    def fails_monitor(syms, base, qname):
        c = strip(base)
        c['syms'] = syms
        c['queries'] = [{'name': qname}]
        out, _ = run_impl(binary, cases=[c])
        return bool(out) and any(not kn for _, _, kn in monitor(out[0]))

    def nocoq(c):
        c = dict(c)
        c.pop('coq', None)
        if 'images' in c:
            c['images'] = [nocoq(im) for im in c['images']]
        return c

    def hist_fails(base, steps):
        h = strip(base)
        h['steps'] = steps
        out, _ = run_impl(binary, cases=[h])
        if not out:
            return None
        fl, _ = flatten(out)
        msgs = [m for im in fl for _, m, kn in monitor(im) if not kn]
        return (out[0], msgs[0]) if msgs else None

    if bad:
        i, qi, msg = bad[0]
        c = cases[i]
        qname = c['queries'][qi]['name']
        small = c
        if owner[i] is not None:
            # the failing load is part of a history: shrink the sequence of loads
            h = top[owner[i]]
            steps = vlib.ddmin(strip(h)['steps'], lambda st: hist_fails(h, st) is not None, budget=60)
            r = hist_fails(h, steps)
            if r:
                small, msg = r
                msg = 'history of %d loads in one process: %s' % (len(steps), msg)
            else:
                small = h
        elif c['src'] != 'shipped':
            syms = vlib.ddmin(c['syms'], lambda s: fails_monitor(s, c, qname), budget=60)
            c2 = strip(c)
            c2['syms'] = syms
            c2['queries'] = [{'name': qname}]
            out, _ = run_impl(binary, cases=[c2])
            if out and monitor(out[0]):
                small = out[0]
                msg = monitor(out[0])[0][1]
        else:
            c2 = strip(c)
            c2['queries'] = [{'name': qname}]
            out, _ = run_impl(binary, cases=[c2])
            small = out[0] if out else c
        rep.violation({'property': PROP, 'what': msg, 'kernel': qname, 'case': nocoq(small),
                       'replay_cmd': './check C13 --replay <this file>'}, text='kernel %r: %s' % (qname, msg))
    elif mism or not okc or died:
        if mism:
            i, k = mism[0]
            q = cases[i]['queries'][k // 100]
            what = 'loader call %d (kernel %r) of object %d differs from the model in field code %d' % (k // 100, q['name'], i, k % 100)
        elif died:
            i, q = died[0]
            what = 'loader call for %r of object %d ended unexpectedly: %s' % (q['name'], i, q['res'].get('msg'))
        else:
            i, what = 0, 'the case files do not compile'
        c = None
        if cases:
            c = nocoq(top[owner[i]] if owner[i] is not None else cases[i])
            if owner[i] is not None:
                what += ' (a load inside a history of loads performed by one process)'
        rep.violation({'property': PROP, 'broken': 'correspondence between coq/hsaco/Hsaco.v and amd/insts/hsaco.go: ' + what +
                       '; theorems of props/C13.v no longer speak about this code', 'case': c, 'log': clog[-2000:]},
                      nofail=True, text='model/implementation mismatch: %s; no property violation found on %d loader calls' % (what, nq))
    return rep.finish()


if __name__ == '__main__':
    sys.exit(main(sys.argv[1:]))
