"""C17 — banked DRAM model.  Theorems: coq/props/C17.v over coq/mem/Dram.v and
coq/mem/Pipeline.v.  Tie: tick-exact correspondence of Top-port observations
between the real simplebankedmemory.Comp (driven by harness/cmd/c17) and the
Gallina model; property monitor: a flat byte array applied in arrival order."""
import json, os, sys, collections
sys.path.insert(0, os.path.dirname(os.path.dirname(os.path.abspath(__file__))))
import vlib

PROP = 'C17'
HEADER = ('From VLib Require Import Akita.\nFrom VMem Require Import Pipeline Dram.\n'
          'Open Scope N_scope.\n')
COQ_TARGETS = ['props/C17.vo']


def saddr(cfg, addr):
    """storage address; None if the address converter would panic"""
    cv = cfg.get('aconv')
    if not cv:
        return addr
    if addr < cv['offset']:
        return None
    a = addr - cv['offset']
    rnd = cv['size'] * cv['total']
    if rnd == 0 or (a % rnd) // cv['size'] != cv['index']:
        return None
    return a // rnd * cv['size'] + addr % cv['size']


def monitor(case):
    """Property C17 evaluated on an observed Top-port trace; returns a
    description of the violation or None.  Sound: never flags a behaviour the
    property allows.  Memory contract: requests are applied to a flat byte
    array in the order in which their delivery was accepted."""
    ev = case['events']
    cfg = case['cfg']
    hostile = case.get('hostile')
    if any(e.get('crash') for e in ev):
        if not hostile:
            return 'the memory panicked on protocol-respecting traffic'
        return None
    if hostile:
        # hostile traffic that happened not to panic is still checked below unless
        # it contains a request outside the contract (bad source / non-request)
        for e in ev:
            if e['e'] == 'd' and (e['msg']['kind'] not in ('KRead', 'KWrite') or e['msg']['src'] in (0, 1)):
                return None
    mem = {}
    expect = {}
    order = []
    for e in ev:
        if e['e'] != 'd' or not e.get('acc'):
            continue
        m = e['msg']
        a = saddr(cfg, m['addr'])
        if a is None:
            return None  # outside the contract (converter would reject it)
        if m['id'] in expect:
            return None  # duplicate identifiers: not generated
        order.append(m['id'])
        if m['kind'] == 'KRead':
            expect[m['id']] = ('KDataReady', m['src'], [mem.get(a + i, 0) for i in range(m['size'])])
        else:
            mask = m['mask']
            if mask and len(mask) < len(m['data']):
                return None
            for i, b in enumerate(m['data']):
                if not mask or mask[i]:
                    mem[a + i] = b
            expect[m['id']] = ('KWriteDone', m['src'], [])
    seen = set()
    for e in ev:
        if e['e'] != 'r' or not e.get('got'):
            continue
        g = e['got']
        k = g['rspto']
        if k not in expect:
            return 'response for an ID that was never delivered: %s' % k
        if k in seen:
            return 'request %s was answered twice' % k
        seen.add(k)
        kind, src, data = expect[k]
        if g['kind'] != kind:
            return 'request %s answered with %s instead of %s' % (k, g['kind'], kind)
        if g['dst'] != src or g['src'] != 1:
            return 'response to %s routed %s -> %s, expected 1 -> %s' % (k, g['src'], g['dst'], src)
        if kind == 'KDataReady' and g['data'] != data:
            return ('read %s returned %s; the flat byte array in arrival order holds %s'
                    % (k, g['data'], data))
    # sleep safety (dram_sleep_safe / dram_quiet_stays_quiet): a tick that reported no progress changed
    # nothing, so the next tick - nothing delivered, retrieved or probed in between - reports none either
    for i in range(len(ev) - 1):
        if ev[i]['e'] == 'tick' and ev[i].get('progress') is False and ev[i + 1]['e'] == 'tick' and ev[i + 1].get('progress'):
            return ('tick %d reported no progress but the directly following tick %d did: a tick without progress '
                    'changed the state (the engine would have put the memory to sleep)' % (i, i + 1))
    # the storage object itself (Comp.Storage / the object given to WithStorage) holds the flat array
    if not hostile and not cfg.get('aconv'):
        for e in ev:
            if e['e'] == 'st':
                for x in e.get('stor', []):
                    want = [mem.get(x['addr'] + i, 0) for i in range(len(x['data']))]
                    if x['data'] != want:
                        return ('storage holds %s at %#x; the flat byte array of this memory holds %s (the memory shares '
                                'or lost its storage)' % (x['data'], x['addr'], want))
    # liveness (dram_every_request_answered): after inflight*(missdelay+cps*depth+4) fair rounds
    # (retrieve until the port is empty, tick) without deliveries every request is answered
    if not hostile:
        msg = fair_tail_rule(ev, cfg, order, seen)
        if msg:
            return msg
    # quiescence: a retrieval found the port empty and the very next event was a tick
    # without progress (so the state did not change and the port is still empty);
    # if nothing is delivered afterwards, whatever is unanswered is lost for good
    for i in range(len(ev) - 1):
        if ev[i]['e'] == 'r' and ev[i].get('none') and ev[i + 1]['e'] == 'tick' and ev[i + 1].get('progress') is False \
                and not any(e['e'] == 'd' and e.get('acc') for e in ev[i + 2:]):
            lost = [k for k in order if k not in seen]
            if lost:
                return 'requests never answered although the memory is idle: %s' % lost[:8]
            break
    return None


def fair_tail_rule(ev, cfg, order, seen):
    per = cfg['missdelay'] + cfg['cps'] * cfg['depth'] + 4
    core = [e for e in ev if e['e'] in ('d', 'tick', 'r')]
    if not core or not (core[-1]['e'] == 'r' and core[-1].get('none')):
        return None  # the port is not known to be empty at the end
    lost = [k for k in order if k not in seen]
    if not lost:
        return None
    # split the events after the last delivery attempt into groups ending with a tick
    last_d = max([i for i, e in enumerate(core) if e['e'] == 'd'], default=-1)
    rounds = []  # (index of first event of the round, fair?)
    start = last_d + 1
    for i in range(last_d + 1, len(core)):
        if core[i]['e'] == 'tick':
            fair = i > start and core[i - 1]['e'] == 'r' and core[i - 1].get('none')
            rounds.append((start, fair))
            start = i + 1
    # longest suffix of fair rounds
    j = len(rounds)
    while j > 0 and rounds[j - 1][1]:
        j -= 1
    for k in range(j, len(rounds)):
        at = rounds[k][0]
        got_before = sum(1 for e in core[:at] if e['e'] == 'r' and e.get('got'))
        inflight = len(order) - got_before  # upper bound of what the theorem calls in flight
        if len(rounds) - k >= inflight * per:
            return ('requests %s still unanswered after %d fair rounds (retrieve all, tick) although %d requests were '
                    'outstanding and the proved bound is %d*%d rounds' % (lost[:8], len(rounds) - k, inflight, inflight, per))
    return None


def strip_ev(e):
    out = {'e': e['e']}
    if 'msg' in e:
        out['msg'] = e['msg']
    if 'stor' in e:
        out['stor'] = [{'addr': x['addr'], 'data': [0] * len(x['data'])} for x in e['stor']]
    return out


def strip(case):
    """events without observations (replay input)"""
    return {'cfg': case['cfg'], 'hostile': case.get('hostile', False),
            'events': [strip_ev(e) for e in case['events']]}


def run_impl(binary, cases=None, seed=1, n=100):
    tmp = os.path.join(vlib.BUILD, 'c17_%d.json' % os.getpid())
    if cases is not None:
        inp = tmp + '.in'
        json.dump(cases, open(inp, 'w'))
        rc, log = vlib.run([binary, '--replay', inp, '--out', tmp])
        os.remove(inp)
    else:
        rc, log = vlib.run([binary, '--seed', str(seed), '--n', str(n), '--out', tmp])
    if rc != 0:
        return None, log
    out = json.load(open(tmp))
    os.remove(tmp)
    return out, log


def _tick_groups(ev):
    g = []
    for e in ev:
        if e['e'] == 'tick':
            yield g
            g = []
        else:
            g.append(e)
    yield g


def conflicts(case):
    """number of reads that overlap an earlier-delivered write (the situations in
    which ordering matters)"""
    w = []
    n = 0
    for e in case['events']:
        if e['e'] == 'd' and e.get('acc'):
            m = e['msg']
            if m['kind'] == 'KWrite':
                w.append((m['addr'], m['addr'] + len(m['data'])))
            elif m['kind'] == 'KRead' and any(a < m['addr'] + m['size'] and m['addr'] < b for a, b in w):
                n += 1
    return n


def nontrivial(case):
    got = [e for e in case['events'] if e['e'] == 'r' and e.get('got')]
    return len(got) >= 2 and conflicts(case) >= 1


def main(argv):
    rep = vlib.Report(PROP, 'proof')
    rep.checker_cmd = ('make -C coq props/C17.vo && coqc props/C17.v (Print Assumptions) && '
                       'coqc cases/C17/s*.v (vm_compute mismatches)')
    rep.trusted = ['Coq 8.16.1 kernel + vm_compute',
                   'hand-written models coq/mem/Dram.v (simplebankedmemory comp.go/builder.go/selector.go) and '
                   'coq/mem/Pipeline.v (akita v4.9.0 pipelining/pipeline.go), checked by sampling only',
                   'Go harness harness/cmd/c17 (stub connection, ID renumbering)',
                   'akita port = two bounded FIFOs; mem.Storage = byte array with a capacity check per 4 KiB unit; '
                   'uint64 arithmetic modelled without wrap-around (addresses below 2^63)']
    rep.assumptions = ['the environment of the DRAM is any finite sequence of deliveries, ticks and retrievals (theorems); '
                       'the sampled histories only decide whether the real component still behaves like the model',
                       'storage owned by the component (not shared with other components), default interleaved bank selector']
    thorough = vlib.tier() == 'thorough'
    n = 3000 if thorough else 220

    replay_file = None
    if '--replay' in argv:
        replay_file = argv[argv.index('--replay') + 1]

    ok, log, binary = vlib.go_build('c17')
    rep.obligation('harness builds against the repo working tree', ok)
    if not ok:
        rep.violation({'broken': 'go build of harness/cmd/c17 against the repo failed', 'log': log[-4000:]}, nofail=True,
                      text='harness build failed')
        return rep.finish()

    ok, log = vlib.coq_build(COQ_TARGETS)
    okp, plog, thms = vlib.coq_check_props(PROP) if ok else (False, log, [])
    if not (ok and okp):
        rep.obligation('coq build', False)
        rep.violation({'broken': 'Coq development for C17 does not compile', 'log': (log + plog)[-4000:]}, nofail=True)
        return rep.finish()
    for name, axioms in thms:
        rep.obligation('theorem ' + name + (' [axioms: %s]' % ', '.join(axioms) if axioms else ' [closed under the global context]'), True)

    # ---- run the implementation
    ncorpus = 0
    if replay_file:
        obj = json.load(open(replay_file))
        src = obj.get('case') or obj.get('cases') or obj
        src = src if isinstance(src, list) else [src]
        cases, log = run_impl(binary, cases=[strip(c) for c in src])
        cases = cases or []
    else:
        corpus = []
        cdir = os.path.join(vlib.ROOT, 'corpus', PROP)
        for p in sorted(os.listdir(cdir)) if os.path.isdir(cdir) else []:
            corpus += json.load(open(os.path.join(cdir, p)))
        cases = []
        if corpus:
            cases, log = run_impl(binary, cases=[strip(c) for c in corpus])
            cases = cases or []
            ncorpus = len(cases)
            rep.obligation('corpus of %d stored histories replayed' % len(corpus), len(cases) == len(corpus))
        gen, log = run_impl(binary, seed=vlib.seed(), n=n)
        if gen is None:
            rep.obligation('harness run', False)
            rep.violation({'broken': 'harness run failed', 'log': log[-4000:]}, nofail=True)
            return rep.finish()
        cases += gen

    # ---- property monitor on what the implementation did
    bad = [(i, monitor(c)) for i, c in enumerate(cases)]
    bad = [(i, m) for i, m in bad if m]
    # ---- correspondence with the model
    okc, res, clog = vlib.eval_cases(PROP, HEADER, [c['coq'] for c in cases], shard_size=12, checker='audit')
    ncoq = [sum(1 for e in c['events'] if e['e'] in ('d', 'tick', 'r')) for c in cases]
    mism = [(i, k) for i, k in res if k != ncoq[i] + 1]
    notwf = {i for i, k in res if k == ncoq[i] + 1}
    # protocol-respecting histories must satisfy the hypotheses (wf_cfg, wf_req) of dram_no_panic and
    # dram_every_request_answered, so that those theorems speak about what the generator calls well-formed
    outside = [i for i in sorted(notwf) if not cases[i].get('hostile')]
    rep.obligation('protocol-respecting histories satisfy wf_cfg/wf_req of the no-panic and liveness theorems', not outside)
    rep.obligation('correspondence: %d histories evaluated by the model' % len(cases), okc and not mism)

    hist = collections.Counter(e['e'] for c in cases for e in c['events'])
    cfgs = collections.Counter('b%d w%d d%d l%d miss%d row%d' % (c['cfg']['banks'], c['cfg']['width'], c['cfg']['depth'],
                                                                 c['cfg']['cps'], c['cfg']['missdelay'], c['cfg']['rowlog2'])
                               for c in cases)
    rep.coverage.update({
        'evaluations': len(cases),
        'distinct_nontrivial': len({vlib.case_hash(strip(c)) for c in cases if nontrivial(c)}),
        'rule': 'random Top-port histories (30-150 events plus a final drain; banks 1..32 (all values, weighted towards 1,2,3,5,6,7,12,16,24,31,32); capacities 2^32 or 64 KiB..1 MiB incl. values that are no multiple of the stripe / row / 4 KiB unit, with a top-of-capacity address class; x width {1,2} x depth {1,2,5} x '
                'stage latency {1,2,3} x row-miss delay {0,2,5,52} x row size {off,2^7,2^8,2^11} x port buffers {1,2,4,16} x '
                'post-pipeline buffer {1,2,128}); hot-address pool with unaligned and boundary-straddling accesses of 1-64 bytes, '
                'masked writes, bursts, no-retrieve phases, pairs of row misses to one bank, fair drain tail; one history in five builds a '
                'second memory from the same builder value and writes through it, one in five passes its own storage object '
                '(WithStorage) - the storage is read back at the end; every 5th history hostile (non-request message, short mask, beyond '
                'capacity, bad source, converter mismatch); non-trivial = at least two responses and at least one read that '
                'overlaps an earlier write',
        'traces_validated_against_impl': len(cases),
        'corpus_cases': ncorpus,
        'event_histogram': dict(hist),
        'distinct_configurations': len(cfgs),
        'responses_observed': sum(1 for c in cases for e in c['events'] if e['e'] == 'r' and e.get('got')),
        'read_after_write_conflicts': sum(conflicts(c) for c in cases),
        'refused_deliveries': sum(1 for c in cases for e in c['events'] if e['e'] == 'd' and e.get('acc') is False),
        'crashed_cases': sum(1 for c in cases if any(e.get('crash') for e in c['events'])),
        'hostile_cases': sum(1 for c in cases if c.get('hostile')),
        'requests_straddling_4k_unit': sum(1 for c in cases if not c.get('hostile') for e in c['events'] if e['e'] == 'd' and e.get('acc')
                                           and e['msg']['addr'] % 4096 + max(e['msg']['size'], len(e['msg']['data'])) > 4096),
        'protocol_respecting_aconv_cases': sum(1 for c in cases if not c.get('hostile') and c['cfg'].get('aconv')),
        'max_deliveries_between_ticks': max((sum(1 for e in g if e['e'] == 'd' and e.get('acc'))
                                             for c in cases for g in _tick_groups(c['events'])), default=0),
        'consecutive_tick_pairs': sum(1 for c in cases for a, b in zip(c['events'], c['events'][1:]) if a['e'] == 'tick' and b['e'] == 'tick'),
        'quiet_tick_followed_by_tick': sum(1 for c in cases for a, b in zip(c['events'], c['events'][1:])
                                           if a['e'] == 'tick' and b['e'] == 'tick' and a.get('progress') is False),
        'bank_counts': dict(sorted(collections.Counter(c['cfg']['banks'] for c in cases).items())),
        'capacity_not_multiple_of_stripe': sum(1 for c in cases if c['cfg']['capacity'] % (c['cfg']['banks'] << c['cfg']['log2ilv'])),
        'requests_in_last_stripe_of_capacity': sum(1 for c in cases if not c.get('hostile') for e in c['events'] if e['e'] == 'd' and e.get('acc')
                                                   and e['msg']['addr'] + max(e['msg']['size'], len(e['msg']['data']), 1)
                                                   > c['cfg']['capacity'] // (c['cfg']['banks'] << c['cfg']['log2ilv']) * (c['cfg']['banks'] << c['cfg']['log2ilv'])),
        'requests_touching_last_byte_of_capacity': sum(1 for c in cases if not c.get('hostile') for e in c['events'] if e['e'] == 'd' and e.get('acc')
                                                       and e['msg']['addr'] + max(e['msg']['size'], len(e['msg']['data'])) == c['cfg']['capacity']),
        'twin_builder_cases': sum(1 for c in cases if c['cfg'].get('twin')), 'own_storage_cases': sum(1 for c in cases if c['cfg'].get('ownstorage')),
        'storage_readbacks': sum(1 for c in cases for e in c['events'] if e['e'] == 'st'),
        'model_mismatches': len(mism), 'monitor_failures': len(bad),
        'histories_within_wf_hypotheses': len(cases) - len(notwf), 'protocol_respecting_outside_wf': len(outside),
    })
    rep.samples = [{'cfg': c['cfg'], 'events': [(e['e'], e.get('msg', {}).get('id')) for e in c['events'][:25]]} for c in cases[:2]]

    def fails_monitor(evs, base):
        c = dict(base)
        c['events'] = evs
        out, _ = run_impl(binary, cases=[strip(c)])
        return bool(out) and monitor(out[0]) is not None

    if bad:
        i, msg = bad[0]
        c = cases[i]
        small = vlib.ddmin(c['events'], lambda evs: fails_monitor(evs, c))
        c2 = dict(strip(c))
        c2['events'] = [strip_ev(e) for e in small]
        out, _ = run_impl(binary, cases=[c2])
        rep.violation({'property': PROP, 'what': monitor(out[0]) if out else msg, 'case': out[0] if out else c,
                       'replay_cmd': './check C17 --replay <this file>'}, text=msg)
    elif outside and okc and not mism:
        i = outside[0]
        rep.violation({'property': PROP, 'broken': 'history %d is generated as protocol-respecting traffic but lies outside wf_cfg/wf_req '
                       '(hypotheses of dram_no_panic / dram_every_request_answered in props/C17.v)' % i, 'case': cases[i]}, nofail=True,
                      text='generator and theorem hypotheses disagree on what well-formed traffic is (history %d)' % i)
    elif mism or not okc:
        # the model no longer describes the code: look harder for an input on which the
        # real component violates the property itself (monitor only, more seeds)
        found = None
        if not replay_file:
            for extra in range(1, 7):
                more, _ = run_impl(binary, seed=vlib.seed() + 1000 * extra, n=500)
                for c in more or []:
                    m = monitor(c)
                    if m:
                        found = (c, m)
                        break
                if found:
                    break
        if found:
            c, msg = found
            small = vlib.ddmin(c['events'], lambda evs: fails_monitor(evs, c))
            c2 = dict(strip(c))
            c2['events'] = [strip_ev(e) for e in small]
            out, _ = run_impl(binary, cases=[c2])
            rep.violation({'property': PROP, 'what': monitor(out[0]) if out else msg, 'case': out[0] if out else c,
                           'replay_cmd': './check C17 --replay <this file>'}, text=msg)
            return rep.finish()
        i, k = mism[0] if mism else (0, 0)
        rep.violation({'property': PROP, 'broken': 'correspondence between coq/mem/Dram.v and amd/timing/mem/simplebankedmemory: '
                       'observation %d of history %d differs; theorems of props/C17.v no longer speak about this code' % (k, i),
                       'case': cases[i] if cases else None, 'first_diverging_event': k, 'log': clog[-2000:]}, nofail=True,
                      text='model/implementation mismatch at history %d event %d; no property violation found on %d histories' % (i, k, len(cases)))
    return rep.finish()


if __name__ == '__main__':
    sys.exit(main(sys.argv[1:]))
