"""C06 - vector lanes are independent and obey EXEC; scalar instructions ignore EXEC.
Theorems: coq/props/C06.v over coq/isa/Lanes.v (generic lane combinator).
Tie: harness/cmd/c06 runs every implemented handler of emu.ALUImpl and cdna3.ALU on
a recording emu.InstEmuState and evaluates (i) trace discipline, (ii) the metamorphic
lane-permutation check, the scalar EXEC-independence check, and (iii) emits cases of
representative handlers that are replayed through VIsa.Lanes.seq_loop inside Coq."""
import json, os, sys, collections
sys.path.insert(0, os.path.dirname(os.path.dirname(os.path.abspath(__file__))))
import vlib

PROP = 'C06'
HEADER = ('From Coq Require Import List NArith ZArith.\nFrom VIsa Require Import Lanes LanesCorr.\nFrom VIsa Require IsaState.\n'
          'Import ListNotations.\nOpen Scope N_scope.\n')
COQ_TARGETS = ['props/C06.vo']
DETAIL = {99: 'handler not in the ExecImplV table', 1: 'VGPR file', 2: 'SGPR file', 3: 'EXEC/VCC', 4: 'memory content', 5: 'a store the code did not make',
          6: 'LDS content'}


def run_harness(binary, args):
    tmp = os.path.join(vlib.BUILD, 'c06_%d.json' % os.getpid())
    rc, log = vlib.run([binary, '--out', tmp] + args, timeout=900)
    if rc != 0 or not os.path.exists(tmp):
        return None, log
    out = json.load(open(tmp))
    os.remove(tmp)
    return out, log


def replay_specs(binary, specs):
    inp = os.path.join(vlib.BUILD, 'c06_%d.in.json' % os.getpid())
    json.dump(specs, open(inp, 'w'))
    out, log = run_harness(binary, ['--replay', inp])
    os.remove(inp)
    return out, log


def key(spec):
    return '%s/%s/%d' % (spec['alu'], spec['fmt'], spec['opcode'])


def shrink(binary, res):
    """Make a failing vector case smaller: fewer active lanes, then zero the
    registers of lanes that do not matter.  Every candidate is re-run on the
    implementation."""
    spec = res['spec']
    if spec.get('scalar'):
        return res

    def fails(s):
        out, _ = replay_specs(binary, [s])
        return bool(out) and bool(out['violations'])

    lanes = [i for i in range(64) if spec['exec'] >> i & 1]

    def with_lanes(ls):
        s = dict(spec)
        s['exec'] = sum(1 << i for i in ls)
        return s
    if len(lanes) > 1:
        small = vlib.ddmin(lanes, lambda ls: fails(with_lanes(ls)), budget=60)
        if fails(with_lanes(small)):
            spec = with_lanes(small)
    keep = set(i for i in range(64) if spec['exec'] >> i & 1)
    if spec.get('perm'):
        keep |= set(spec['perm'][i] for i in keep)
    s = dict(spec)
    s['vgpr'] = [row if i in keep else [0] * len(row) for i, row in enumerate(spec['vgpr'])]
    if fails(s):
        spec = s
    out, _ = replay_specs(binary, [spec])
    return out['violations'][0] if out and out['violations'] else res


def main(argv):
    rep = vlib.Report(PROP, 'proof')
    rep.checker_cmd = ('make -C coq props/C06.vo && coqc props/C06.v (Print Assumptions) && build/bin/c06 (monitors i, ii, scalar) '
                       '&& coqc cases/C06_<pid>/s*.v (vm_compute mismatches)')
    rep.trusted = ['Coq 8.16.1 kernel + vm_compute',
                   'hand transcriptions coq/isa/LanesCorr.v (integer ALU handlers, f32 compares / class / min-max / int->float conversions on bit patterns, all FLAT and DS handlers) and coq/isa/ExecImplV.v (C03 builder, ~75 integer vector rows per ALU), checked by sampling, not verified',
                   'the claim that every other handler has the loop shape of Lanes.seq_loop rests on monitors (i)/(ii) run on the real code',
                   'Go harness harness/cmd/c06 (recording InstEmuState over the repository\'s emu.Wavefront, logging StorageAccessor, instruction encoders)',
                   'insts.Disassembler.Decode builds the instruction values the handlers are run on']
    rep.assumptions = ['theorems: generic in the per-lane function (extensional; a load or a store), all 2^64 EXEC masks, all states, all lane permutations',
                       'sampled: which handlers are instances of the combinator']
    thorough = vlib.tier() == 'thorough'
    n, ns, nc, ncv = (300, 120, 8, 4) if thorough else (24, 14, 2, 1)

    replay_file = argv[argv.index('--replay') + 1] if '--replay' in argv else None

    ok, log, binary = vlib.go_build('c06')
    rep.obligation('harness builds against the working tree of the repository', ok)
    if not ok:
        rep.violation({'broken': 'go build of harness/cmd/c06 failed', 'log': log[-4000:]}, nofail=True, text='harness build failed')
        return rep.finish()

    # ---- the registration table coq/isa/LanesTable.v is generated from the handlers found in the real ALUs
    tpath = os.path.join(vlib.ROOT, 'coq', 'isa', 'LanesTable.v')
    ttmp = os.path.join(vlib.BUILD, 'c06_table_%d.v' % os.getpid())
    rc, tlog = vlib.run([binary, '--table', '--out', ttmp], timeout=300)
    table_txt = open(ttmp).read() if rc == 0 and os.path.exists(ttmp) else ''
    if os.path.exists(ttmp):
        os.remove(ttmp)
    cur = open(tpath).read() if os.path.exists(tpath) else ''
    table_ok = rc == 0 and table_txt.strip() == cur.strip()
    rep.obligation('coq/isa/LanesTable.v (the table of handler_table_lane_independent) is what the harness generates from the handlers '
                   'of the working tree', table_ok)
    if not table_ok:
        rep.violation({'broken': 'coq/isa/LanesTable.v differs from the output of `build/bin/c06 --table`: a tabulated handler no longer '
                                 'exists in the ALUs, or the table was edited by hand; theorem handler_table_lane_independent no longer '
                                 'speaks about the handlers of this tree', 'log': tlog[-1500:] if rc != 0 else ''}, nofail=True,
                      text='registration table out of date (regenerate with build/bin/c06 --table > coq/isa/LanesTable.v)')
        return rep.finish()
    import re
    tab = re.findall(r'\(\* (\S+) (\S+) \*\) mkT (true|false) IsaState\.F_(\w+) (\d+) \(fun (?:_ _|ab ng) => (.*)\);?$', cur, re.M)
    tab_keys = {'%s/%s/%s' % (a, f.lower(), op) for a, _, _, f, op, _ in tab}
    tab_own = {'%s/%s/%s' % (a, f.lower(), op) for a, _, _, f, op, t in tab if not t.startswith('H_v ')}

    ok, log = vlib.coq_build(COQ_TARGETS)
    okp, plog, thms = vlib.coq_check_props(PROP) if ok else (False, log, [])
    if not (ok and okp):
        rep.obligation('coq build', False)
        rep.violation({'broken': 'Coq development for C06 does not compile', 'log': (log + plog)[-4000:]}, nofail=True)
        return rep.finish()
    for name, axioms in thms:
        rep.obligation('theorem ' + name + (' [axioms: %s]' % ', '.join(axioms) if axioms else ' [closed under the global context]'), True)

    # ---- run the implementation
    violations, coq_cases, handlers, crashes, samples, distinct = [], [], [], [], [], 0
    if replay_file:
        obj = json.load(open(replay_file))
        src = obj.get('case') or obj.get('cases') or obj
        src = src if isinstance(src, list) else [src]
        specs = [c.get('spec', c) for c in src]
        out, log = replay_specs(binary, specs)
        if out is None:
            rep.violation({'broken': 'harness replay failed', 'log': log[-4000:]}, nofail=True)
            return rep.finish()
        violations, coq_cases = out['violations'] or [], out['coq_cases'] or []
    else:
        cdir = os.path.join(vlib.ROOT, 'corpus', PROP)
        corpus = []
        for p in sorted(os.listdir(cdir)) if os.path.isdir(cdir) else []:
            corpus += json.load(open(os.path.join(cdir, p)))
        if corpus:
            out, log = replay_specs(binary, corpus)
            if out is None:
                rep.violation({'broken': 'harness corpus run failed', 'log': log[-4000:]}, nofail=True)
                return rep.finish()
            violations += out['violations'] or []
            coq_cases += out['coq_cases'] or []
        rep.coverage['corpus_cases'] = len(corpus)
        out, log = run_harness(binary, ['--seed', str(vlib.seed()), '--n', str(n), '--ns', str(ns), '--nc', str(nc), '--ncv', str(ncv)])
        if out is None:
            rep.obligation('harness run', False)
            rep.violation({'broken': 'harness run failed', 'log': log[-4000:]}, nofail=True)
            return rep.finish()
        violations += out['violations'] or []
        coq_cases += out['coq_cases'] or []
        handlers, crashes, samples, distinct = out['handlers'], out['crash_samples'] or [], out['samples'] or [], out['distinct_nontrivial']

    # ---- correspondence with the Coq combinator
    # own shard directory per run: concurrent runs of this check (seeded runs, other worktrees) must not share coq/cases/C06
    cdir_name = '%s_%d' % (PROP, os.getpid())
    okc, mism, clog = vlib.eval_cases(cdir_name, HEADER, [c['coq'] for c in coq_cases], shard_size=max(4, len(coq_cases) // 16 + 1),
                                      ty='icase') if coq_cases else (True, [], '')
    if okc and not mism:
        import shutil
        shutil.rmtree(os.path.join(vlib.COQ, 'cases', cdir_name), ignore_errors=True)
    unmodelled = sorted({coq_cases[i]['spec']['corr'] for i, k in mism if k == 99})
    mism = [(i, k) for i, k in mism if k != 99]
    own = [c for c in coq_cases if not c['spec']['corr'].startswith('H_v ')]
    rep.obligation('correspondence: %d cases of %d handlers replayed through Lanes.seq_loop (%d cases / %d handlers on own transcriptions, '
                   '%d cases / %d handlers on rows of ExecImplV.vdesc_of)' %
                   (len(coq_cases), len({key(c['spec']) for c in coq_cases}), len(own), len({key(c['spec']) for c in own}),
                    len(coq_cases) - len(own), len({key(c['spec']) for c in coq_cases if c['spec']['corr'].startswith('H_v ')})),
                   okc and not mism)

    vec = [h for h in handlers if not h.get('scalar')]
    sca = [h for h in handlers if h.get('scalar')]
    rep.coverage.update({
        'evaluations': sum(h['cases'] for h in handlers) + len(coq_cases),
        'distinct_nontrivial': distinct,
        'rule': 'per implemented (alu, format, opcode) handler: random instruction words (operand kinds VGPR / SGPR / inline int / inline float / '
                'literal / VCC or SGPR pair as mask, SDWA, abs/neg, DS offsets, FLAT saddr+offset) decoded by insts.Disassembler, random '
                'architectural state with corner values, random EXEC (all, none, one lane, prefix, sparse, random), random lane permutation; '
                'non-trivial = EXEC neither 0 nor all ones and the handler did not panic (scalar: the two EXEC values differ); '
                'distinct = distinct (handler, instruction words, EXEC, VCC)',
        'handlers_exercised': len(handlers), 'vector_handlers': len(vec), 'scalar_handlers': len(sca),
        'vector_by_alu_format': dict(collections.Counter('%s/%s' % (h['alu'], h['fmt']) for h in vec)),
        'handlers_under_i_trace_discipline': sum(1 for h in vec if h['discipline_checked'] > 0),
        'handlers_under_ii_metamorphic': sum(1 for h in vec if h['metamorphic_checked'] > 0),
        'handlers_under_iii_correspondence': len({key(c['spec']) for c in coq_cases}),
        'vector_handlers_transcribed': len(tab_keys), 'vector_handlers_total': len(vec),
        'vector_handlers_transcribed_of_total': '%d/%d' % (len(tab_keys), len(vec)),
        'vector_handlers_with_own_transcription_in_LanesCorr': len(tab_own),
        'vector_handlers_only_through_ExecImplV_rows': len(tab_keys - tab_own),
        'handler_table_entries': len(tab),
        'tabulated_handlers_without_a_replayed_case_this_run': sorted(tab_keys - {key(c['spec']) for c in coq_cases}) if not replay_file else [],
        'vector_handlers_not_transcribed': sorted('%s/%s/%d %s' % (h['alu'], h['fmt'], h['opcode'], h['name']) for h in vec
                                                  if '%s/%s/%d' % (h['alu'], h['fmt'], h['opcode']) not in tab_keys),
        'scalar_handlers_exec_independence_checked': sum(1 for h in sca if h['discipline_checked'] > 0),
        'cases_i': sum(h['discipline_checked'] for h in vec), 'cases_ii': sum(h['metamorphic_checked'] for h in vec),
        'cases_iii': len(coq_cases), 'rows_missing_in_ExecImplV': unmodelled,
        'handlers_under_iii_by_format': dict(collections.Counter('%s/%s' % (a, f) for a, f, _ in {tuple(key(c['spec']).split('/')) for c in coq_cases})), 'cases_scalar': sum(h['discipline_checked'] for h in sca),
        'store_cases_with_colliding_lanes': sum(h['overlap_cases'] for h in vec),
        'vector_exceptions_documented_cross_lane': ['%s/%s/%d %s' % (h['alu'], h['fmt'], h['opcode'], h['name']) for h in vec if h.get('exception')],
        'scalar_exceptions_documented_exec_readers': ['%s/%s/%d %s' % (h['alu'], h['fmt'], h['opcode'], h['name']) for h in sca if h.get('exception')],
        'handlers_unreachable_through_decoder': ['%s/%s/%d' % (h['alu'], h['fmt'], h['opcode']) for h in handlers if h.get('direct')],
        'handlers_that_panicked_on_some_input': ['%s/%s/%d %s: %s' % (c['spec']['alu'], c['spec']['fmt'], c['spec']['opcode'], c['spec']['name'],
                                                                       c['crash'].strip()[:90]) for c in crashes],
        'traces_validated_against_impl': len(coq_cases),
        'model_mismatches': len(mism), 'monitor_failures': len(violations),
    })
    rep.samples = [{k: v for k, v in s.items() if k != 'sgpr'} for s in samples[:2]]

    if violations:
        seen = set()
        for v in violations:
            k = key(v['spec']) + v['kind']
            if k in seen:
                continue
            seen.add(k)
            v = shrink(binary, v)
            text = '%s %s (%s): %s check: %s' % (v['spec']['alu'], v['spec']['name'], key(v['spec']), v['kind'], v['fail'])
            rep.violation({'property': PROP, 'what': text, 'case': v['spec'], 'replay_cmd': './check C06 --replay <this file>'}, text=text)
    elif mism or not okc:
        i, k = mism[0] if mism else (0, 0)
        c = coq_cases[i] if coq_cases else None
        rep.violation({'property': PROP,
                       'broken': 'correspondence between coq/isa/LanesCorr.v and the Go handler %s: %s differs; '
                                 'theorem seq_loop_eq_lift no longer speaks about this code' % (key(c['spec']) if c else '?', DETAIL.get(k, 'result')),
                       'case': c['spec'] if c else None, 'differs_in': DETAIL.get(k, str(k)), 'log': clog[-2000:]}, nofail=True,
                      text='model/implementation mismatch for %s (%s); no lane-independence violation found on %d cases' %
                           (key(c['spec']) if c else '?', DETAIL.get(k, 'coq failure'), rep.coverage['evaluations']))
    return rep.finish()


if __name__ == '__main__':
    sys.exit(main(sys.argv[1:]))
