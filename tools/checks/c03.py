"""C03 — instruction execution conforms to the GCN3/CDNA3 ISA.
Theorems: coq/props/C03.v over coq/isa/{IsaState,ExecImpl,ExecSpec}.v.
Tie: single instructions are run on the real ALUs (emu.NewALU, cdna3.NewALU)
from a fully controlled state by harness/cmd/c03; Coq evaluates ExecImpl
(correspondence: must equal the Go result exactly) and ExecSpec (the property
monitor: Go != manual is a violation of C03 unless it is a listed finding)."""
import json, os, sys, collections
sys.path.insert(0, os.path.dirname(os.path.dirname(os.path.abspath(__file__))))
import vlib

PROP = 'C03'
HEADER = ('From Coq Require Import ZArith List.\nImport ListNotations.\n'
          'From VIsa Require Import IsaState ExecImpl ExecSpec IsaCheck.\nOpen Scope Z_scope.\n')
COQ_TARGETS = ['isa/IsaCheck.vo', 'isa/ExecFThm.vo', 'isa/ExecMThm.vo', 'props/C03.vo']

# ---- known findings (proposed entries of known_findings.json), keyed by (alu, format, opcode)
KNOWN_OPS = {
    ('cdna3', 'SOP1', 48): 's_abs_i32 sets SCC = (S0 < 0) instead of (D != 0); the pinned test TestSOP1Opcode48SABSI32 asserts this',
    ('cdna3', 'VOP2', 23): 'v_fmamk_f32 is computed as float32(src0*K) + src1 with two roundings; the CDNA3 manual prescribes a fused multiply-add',
    ('cdna3', 'VOP2', 24): 'v_fmaak_f32 is computed as float32(src0*src1) + K with two roundings; the CDNA3 manual prescribes a fused multiply-add',
    ('cdna3', 'VOP2', 59): 'v_fmac_f32 is computed as float32(src0*src1) + dst with two roundings; the CDNA3 manual prescribes a fused multiply-add',
    ('cdna3', 'VOP3A', 459): 'v_fma_f32 is computed as float32(src0*src1) + src2 with two roundings; the manual prescribes a fused multiply-add',
}
HI64_TEXT = ('vcc_hi as the 32-bit shift amount of v_lshlrev_b64 / v_lshrrev_b64 / v_ashrrev_i64 is read as the whole 64-bit VCC (exec_hi: panic) '
             '(the decode table marks SRC0 of these opcodes 64 bits wide; the manual: S0.u[5:0])')
UNSUP_TEXT = 'vccz/execz as source operand panic ("Register type not supported")'

SOP2_64 = {11, 13, 15, 17, 19, 21, 23, 25, 27, 29, 31, 33}
SOP1_64 = {1, 28, 32, 33, 34, 35, 36, 37, 38, 39}


def is64(c):
    return (c['fmt'] == 'SOP2' and c['op'] in SOP2_64) or (c['fmt'] == 'SOP1' and c['op'] in SOP1_64)


def classify(c):
    """Known-finding class of a case on which the Go ALU and the manual differ, or None."""
    key = (c['alu'], c['fmt'], c['op'])
    srcs = [c['src0'], c['src1']] + ([c['dst']] if c['fmt'] == 'SOPK' and c['op'] in (2, 3, 15) else [])
    if c['fmt'] == 'VOP3A' and c['op'] in (655, 656, 657) and c['src0'] in (107, 127):
        return ('operand', 'hi-half-wide-slot'), HI64_TEXT
    if c.get('panic'):
        if any(s in (251, 252) for s in srcs):
            return ('operand', 'unsupported'), UNSUP_TEXT
        return None
    if key in KNOWN_OPS:
        return key, KNOWN_OPS[key]
    return None


def strip(c):
    return {k: c[k] for k in ('alu', 'words', 'fill', 'pre', 'set', 'wide', 'kinds', 'class', 'sparse') if k in c}


def run_impl(binary, cases=None, seed=1, per=30, perv=2):
    tmp = os.path.join(vlib.BUILD, 'c03_%d.json' % os.getpid())
    if cases is not None:
        inp = tmp + '.in'
        json.dump(cases, open(inp, 'w'))
        rc, log = vlib.run([binary, '--replay', inp, '--out', tmp])
        os.remove(inp)
    else:
        rc, log = vlib.run([binary, '--seed', str(seed), '--per', str(per), '--perv', str(perv), '--kernels', vlib.REPO, '--out', tmp])
    if rc != 0:
        return None, log
    out = json.load(open(tmp))
    os.remove(tmp)
    return out, log


def proved_rows():
    """The (alu, format, opcode) rows covered by impl_eq_spec theorems, read from Coq."""
    src = os.path.join(vlib.COQ, 'cases', 'C03_rows.v')
    os.makedirs(os.path.dirname(src), exist_ok=True)
    open(src, 'w').write('From Coq Require Import ZArith List.\nImport ListNotations.\nFrom VIsa Require Import IsaState ExecVThm ExecFThm ExecFThm64 ExecMThm.\nOpen Scope Z_scope.\nSet Printing Depth 100000.\nSet Printing Width 200.\n'
                         'Definition G := Eval vm_compute in (proved_rows GCN3 ++ frows GCN3 ++ frows64 GCN3 ++ mrows GCN3).\nPrint G.\n'
                         'Definition C := Eval vm_compute in (proved_rows CDNA3 ++ frows CDNA3 ++ frows64 CDNA3 ++ mrows CDNA3).\nPrint C.\n')
    rc, log = vlib.run(['coqc'] + vlib.coq_q_args() + [os.path.relpath(src, vlib.COQ)], cwd=vlib.COQ, timeout=300)
    for ext in ('.v', '.vo', '.vok', '.vos', '.glob'):
        try:
            os.remove(src[:-2] + ext)
        except OSError:
            pass
    res = set()
    if rc != 0:
        return res
    import re
    parts = re.split(r'\n(?=[GC] =)', log)
    for part in parts:
        alu = 'gcn3' if part.lstrip().startswith('G =') else 'cdna3' if part.lstrip().startswith('C =') else None
        if alu:
            for f, op in re.findall(r'\(\s*F_(\w+),\s*(\d+)\s*\)', part):
                res.add((alu, f, int(op)))
    return res


float_axioms = set()


def full_axioms(log):
    """Print Assumptions blocks of the props log, including names whose type is printed on the next line."""
    import re
    blocks, cur = [], None
    for line in log.split('\n'):
        if line.startswith('Closed under the global context'):
            blocks.append([])
            cur = None
        elif line.startswith('Axioms:'):
            cur = []
            blocks.append(cur)
        elif cur is not None:
            m = re.match(r'^([A-Za-z][A-Za-z0-9_\.\']*)\s*(:.*)?$', line)
            if m:
                cur.append(m.group(1))
    return blocks


def nontrivial(c):
    return not c.get('panic') and not c.get('nodec') and \
        (c['ndiff'] > 0 or c['post'] != c['pre'] or c['fmt'] in ('SOPC', 'SOPP'))


def main(argv):
    rep = vlib.Report(PROP, 'proof')
    rep.checker_cmd = ('make -C coq isa/IsaCheck.vo props/C03.vo && coqc props/C03.v (Print Assumptions) && '
                       'coqc cases/C03/s*.v (vm_compute of ExecImpl and ExecSpec on every recorded run)')
    rep.trusted = ['Coq 8.16.1 kernel + vm_compute',
                   'hand transcription coq/isa/ExecSpec.v of the GCN3/CDNA3 manuals (written from knowledge of the ISA: no PDF text extraction tool in the sandbox)',
                   'hand transcription coq/isa/ExecImpl.v of the Go handlers (checked on every run against the real ALUs, not verified)',
                   'Go harness harness/cmd/c03 (assembles words, decodes them with the repo decoder, wraps the real emu.Wavefront)']
    rep.assumptions = ['states are well formed (registers hold values of their width, SCC is 0/1); operand kinds as listed by adm32/adm64/admd32/admd64',
                       'PC handed to the ALU is the address of the next instruction (emu/computeunit.go advances it before Run)']
    thorough = vlib.tier() == 'thorough'
    per = 150 if thorough else 10
    perv = 12 if thorough else 1
    replay_file = argv[argv.index('--replay') + 1] if '--replay' in argv else None

    ok, log, binary = vlib.go_build('c03')
    rep.obligation('harness builds against the repo working tree', ok)
    if not ok:
        rep.violation({'broken': 'go build of harness/cmd/c03 failed', 'log': log[-4000:]}, nofail=True, text='harness build failed')
        return rep.finish()
    ok, log = vlib.coq_build(COQ_TARGETS)
    okp, plog, thms = vlib.coq_check_props(PROP) if ok else (False, log, [])
    if not (ok and okp):
        rep.obligation('coq build', False)
        rep.violation({'broken': 'Coq development for C03 does not compile', 'log': (log + plog)[-4000:]}, nofail=True)
        return rep.finish()
    full = full_axioms(plog)
    for k, (name, axioms) in enumerate(thms):
        axioms = full[k] if k < len(full) and full[k] else axioms
        float_axioms.update(axioms)
        rep.obligation('theorem ' + name + (' [axioms: %s]' % ', '.join(axioms) if axioms else ' [closed under the global context]'), True)

    ops = []
    if replay_file:
        obj = json.load(open(replay_file))
        src = obj.get('case') or obj.get('cases') or obj
        src = src if isinstance(src, list) else [src]
        out, log = run_impl(binary, cases=[strip(c) for c in src])
        cases = out['cases'] if out else []
        ncorpus = 0
    else:
        corpus = []
        cdir = os.path.join(vlib.ROOT, 'corpus', PROP)
        for p in sorted(os.listdir(cdir)) if os.path.isdir(cdir) else []:
            corpus += json.load(open(os.path.join(cdir, p)))
        cases = []
        if corpus:
            out, log = run_impl(binary, cases=[strip(c) for c in corpus])
            cases = out['cases'] if out else []
        ncorpus = len(cases)
        out, log = run_impl(binary, seed=vlib.seed(), per=per, perv=perv)
        if out is None:
            rep.obligation('harness run', False)
            rep.violation({'broken': 'harness run failed', 'log': log[-4000:]}, nofail=True)
            return rep.finish()
        cases += out['cases']
        ops = out['ops']
    undecodable = [c for c in cases if c.get('nodec')]
    cases = [c for c in cases if not c.get('nodec')]

    # spread the (expensive) vector cases over all shards: evaluate a strided permutation
    shard = 300
    nsh = max(1, (len(cases) + shard - 1) // shard)
    perm = sorted(range(len(cases)), key=lambda i: (i % nsh, i))
    okc, mism_p, clog = vlib.eval_cases(PROP, HEADER, [cases[i]['coq'] for i in perm], shard_size=shard, timeout=300)
    mism = [(perm[k], dcode) for k, dcode in mism_p]
    det = dict(mism)
    impl_bad = [i for i in range(len(cases)) if det.get(i, 0) & 1]
    spec_bad = [i for i in range(len(cases)) if det.get(i, 0) & 2]
    unspec = [i for i in range(len(cases)) if det.get(i, 0) & 4]
    rep.obligation('correspondence: ExecImpl reproduces %d runs of the real ALUs exactly' % len(cases), okc and not impl_bad)

    known = collections.OrderedDict()
    viol = []
    for i in spec_bad:
        k = classify(cases[i])
        if k is None:
            viol.append(i)
        else:
            known.setdefault(k[0], [k[1], 0, i])
            known[k[0]][1] += 1
    for key, (text, n, first) in known.items():
        c = cases[first]
        kstr = '/'.join(str(x) for x in key)
        rep.known_finding('%s [%s; %d runs; e.g. alu=%s words=%s]' % (text, kstr, n, c['alu'], ' '.join('%08x' % w for w in c['words'])),
                          key=kstr, replay_obj={'property': PROP, 'what': text, 'case': c})
    rep.obligation('monitor: every run equals ExecSpec or belongs to a listed finding (%d runs deviate, all listed)' % len(spec_bad), not viol)

    # ---- opcode closure of the shipped kernels vs coverage
    proved = proved_rows()
    rep.obligation('proved row list read from Coq (%d rows)' % len(proved), len(proved) > 0)
    spec_defined = {(c['alu'], c['fmt'], c['op']) for i, c in enumerate(cases) if not (det.get(i, 0) & 4)}
    not_impl = {(o['alu'], o['fmt'], o['op']) for o in ops if not o['impl'] and 'outside the ALU' not in o.get('note', '')}
    closure = (out or {}).get('closure') or []
    cl = {'proved': [], 'differential_only': [], 'handled_outside_alu': [], 'not_implemented_by_alu': [], 'not_modelled': []}
    for e in closure:
        k = (e['alu'], e['fmt'], e['op'])
        tag = '%s/%s/%d %s' % (e['alu'], e['fmt'], e['op'], e['name'])
        if k in proved:
            cl['proved'].append(tag)
        elif e['fmt'] == 'SOPP' and e['op'] in (1, 10):
            cl['handled_outside_alu'].append(tag)
        elif k in spec_defined:
            cl['differential_only'].append(tag)
        elif k in not_impl:
            cl['not_implemented_by_alu'].append(tag)
        else:
            cl['not_modelled'].append(tag)
    pairs = collections.defaultdict(set)
    for cat, tags in cl.items():
        for t in tags:
            pairs['/'.join(t.split(' ')[0].split('/')[1:])].add(cat)
    def best(cs):
        for c in ('proved', 'differential_only', 'handled_outside_alu', 'not_implemented_by_alu', 'not_modelled'):
            if c in cs:
                return c
    pair_hist = collections.Counter(best(v) for v in pairs.values())
    all_proved_pairs = sum(1 for v in pairs.values() if v == {'proved'})
    hist = collections.Counter((c['alu'], c['fmt']) for c in cases)
    impl_ops = [(o['alu'], o['fmt'], o['op']) for o in ops if o['impl']]
    modelled = sorted({(c['alu'], c['fmt'], c['op']) for c in cases})
    rep.coverage.update({
        'evaluations': len(cases),
        'distinct_nontrivial': len({vlib.case_hash(strip(c)) for c in cases if nontrivial(c)}),
        'rule': 'one instruction per case, all implemented SOP2/SOP1/SOPC/SOPK/SOPP opcodes of both ALUs. (a) deterministic corner grid, always run: each source in {0, 1, 0x7fffffff, 0x80000000, 0xfffffffe, 0xffffffff, random} x each other source likewise x SCC-in {0,1} (64-bit analogues for B64 rows; EXEC x source for saveexec); shift amounts {0,1,31,32,33,63,64,0xffffffff}; bit-field offset {0,1,4,16,31} x width {0,1,4,16,28,31,32,33,64,127}; SOPK immediates x register values equal/near the sign-extended immediate; SOPP immediates x SCC x VCC zero/non-zero x EXEC zero/non-zero. (c) vector integer opcodes of VOP2/VOP1/VOPC/VOP3a/VOP3b: two 64-lane grid cases per opcode (per-lane cross product of eight operand corners, shift-amount / 64-bit corners, carry-in pattern and complement, EXEC full and with holes, and three cases with EXEC = 0, 1, 1<<63) plus random cases with all operand kinds; corpus of repaired-defect witnesses. (d) binary32 opcodes (add/sub/mul/mac/mad/fma, min/max, compares, conversions): grid lanes over {+-0, +-1, +-inf, NaN, denormals, largest finite, 2^31, 2^32, halfway cases} plus random; NaN results compared as a class. (e) memory opcodes (SMEM s_load_dword..x16, FLAT/GLOBAL loads and stores, DS reads/writes incl. read2/write2/b128) against a flat byte memory standing in for the storage accessor and a 64 KiB LDS (default content by formula; stores additionally compared at every byte the manual says is written): per SMEM opcode 8 and per DS opcode 9 deterministic cases (two-address offsets {0,1,31,32,63,64,127,128,255}, 16-bit offsets {0,4,0xFF,0x100,0x7FFC,0xFFFC,..}; EXEC full / 60-lane tail / even lanes / lanes 0 and 63 off / holes / 1<<63 / 0 / 1); per FLAT/GLOBAL opcode an address-mode grid (immediate in {0,1,4,0xFFF,-1,-4,-8,-4096} x SADDR off / SGPR pair, lanes = VGPR-offset corners {0,4,<|imm|,|imm|,0xFFFFF000..,0xFFFFFFFC} and 64-bit bases around 2^32 / 2^64), six full-EXEC lane patterns (contiguous, reversed, bit-reversed, strided, all equal, ends contiguous with permuted middle) and seven EXEC corners (incl. 60-lane tail, even lanes, lanes 0 and 63 off) (address bases incl. wrap at 2^64 and 2^32, lane strides 0/1/3/4/8/16 = overlapping and unaligned stores, SADDR off / s[0:1] / other pair, offsets 0, 4, -4, 4095, -4096, unaligned SMEM offsets, EXEC full / holes / two lanes / empty, LDS accesses leaving the allocation) plus random cases; every byte read or written and the whole LDS are compared. (b) %d random cases per scalar opcode: operand kinds SGPR / literal / '
                'inline +- / float constants / vcc_lo / vcc_hi / m0 / exec_lo / scc / exec_hi / vccz / execz, destinations SGPR / vcc / m0 / exec; '
                'values from corner sets (0, 1, -1, 0x7fffffff, 0x80000000, shift amounts 31/32/33/63/64, bit-field descriptors, carry pairs a+b=2^32-1) and random; '
                'random SCC/VCC/EXEC/M0/PC and register-file fill; non-trivial = executed without panic and changed state or is a compare/branch' % per,
        'corpus_cases': ncorpus,
        'grid_cases': sum(1 for c in cases if c.get('class') == 'grid'),
        'cases_per_alu_format': {'%s/%s' % k: v for k, v in sorted(hist.items())},
        'operand_kind_histogram': dict(collections.Counter(k for c in cases for k in (c.get('kinds') or []))),
        'panics_observed': sum(1 for c in cases if c.get('panic')),
        'implemented_scalar_opcodes': len([o for o in impl_ops if not o[1].startswith('VOP')]),
        'implemented_vector_integer_opcodes_modelled': len([o for o in impl_ops if o[1].startswith('VOP')]),
        'opcodes_modelled_and_run': len(modelled),
        'opcodes_not_implemented_by_alu': len([o for o in ops if not o['impl']]),
        'model_mismatches': len(impl_bad), 'spec_deviations': len(spec_bad), 'unlisted_deviations': len(viol),
        'outside_spec_subset': len(unspec), 'undecodable': len(undecodable),
        'known_finding_classes': len(known),
        'shipped_kernel_closure': {
            'stats': (out or {}).get('closure_stats'),
            'alu_format_opcode_triples': len(closure),
            'triples_by_coverage': {k: len(v) for k, v in cl.items()},
            'distinct_format_opcode_pairs': len(pairs),
            'pairs_by_best_coverage': dict(pair_hist),
            'pairs_proved_on_every_alu_that_ships_them': all_proved_pairs,
            'differential_only': cl['differential_only'],
            'not_implemented_by_alu': cl['not_implemented_by_alu'],
            'not_modelled': cl['not_modelled'],
        },
    })
    rep.samples = [{k: c[k] for k in ('alu', 'name', 'words', 'pre', 'post', 'kinds')} for c in cases[ncorpus:ncorpus + 3]]

    if viol:
        i = viol[0]
        c = cases[i]
        rep.violation({'property': PROP, 'what': 'the %s ALU executes %s (format %s opcode %d) differently from the ISA manual transcription' % (c['alu'], c['name'], c['fmt'], c['op']),
                       'case': c, 'others': len(viol) - 1, 'replay_cmd': './check C03 --replay <this file>'},
                      text='%s %s: Go result differs from ExecSpec (words %s, pre %s, post %s)' % (c['alu'], c['name'], ' '.join('%08x' % w for w in c['words']), c['pre'], c['post']))
    elif impl_bad or not okc:
        i = impl_bad[0] if impl_bad else 0
        c = cases[i] if cases else None
        rep.violation({'property': PROP, 'broken': 'correspondence between coq/isa/ExecImpl.v and the Go ALU: the recorded run is not what the transcription computes; '
                       'theorems of props/C03.v no longer speak about this code', 'case': c, 'others': len(impl_bad) - 1, 'log': clog[-2000:]}, nofail=True,
                      text='model/implementation mismatch (%d runs), first: %s; the run agrees with the manual or is a listed finding' % (len(impl_bad), (c or {}).get('name')))
    return rep.finish()


if __name__ == '__main__':
    sys.exit(main(sys.argv[1:]))
