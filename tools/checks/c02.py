"""C02 — timing mode is functionally transparent (PARTIAL).

Proved (coq/props/C02.v over coq/cu/InitRegs.v, coq/cu/Coalescer.v): the three
mechanisms where timing mode re-implements what the emulator implements too —
wavefront register initialisation, FLAT coalescing + load write-back, scalar
load splitting — compute the same registers / memory as the emulator.
Tie: both real implementations are run on the same generated inputs
(harness/cmd/c02 init|flat|smem), compared with each other (monitor) and with
the Gallina models (vm_compute).
Not proved, only sampled (validation): whole programs (shipped benchmarks and
generated micro-kernels) on the emulation platform vs the r9nano and mi300a
timing platforms: -verify outcome and every device buffer."""
import json, os, sys, shutil, collections, tempfile, hashlib
from concurrent.futures import ThreadPoolExecutor
sys.path.insert(0, os.path.dirname(os.path.dirname(os.path.abspath(__file__))))
import vlib

PROP = 'C02'
HEADER = 'From VCu Require Import InitRegs Coalescer.\nFrom Coq Require Import List NArith.\nImport ListNotations.\nOpen Scope N_scope.\n'
COQ_TARGETS = ['props/C02.vo']
CORPUS = os.path.join(vlib.ROOT, 'corpus', PROP)

INIT_KEYS = ['version', 'entry', 'en', 'rsrc2', 'kernel_object', 'kernarg', 'grid', 'wg', 'packet_addr',
             'init_exec', 'first_wi', 'id', 'sx', 'sy']
FLAT_KEYS = ['lg', 'cdna3', 'op', 'exec', 'saddr', 'off13', 'addr_v', 'data_v', 'dst_v', 'sbase', 'vaddr',
             'data', 'base', 'mem', 'perm', 'class', 'kind']
SMEM_KEYS = ['lg', 'op', 'sbase_r', 'sdata', 'imm', 'off_r', 'off', 'base_v', 'base', 'mem', 'perm', 'class']
KEYS = {'init': INIT_KEYS, 'flat': FLAT_KEYS, 'smem': SMEM_KEYS}
CHECKER = {'init': ('imismatches', 'icase'), 'flat': ('fmismatches', 'fcase'), 'smem': ('smismatches', 'scase')}


def strip(mode, c):
    return {k: c.get(k) for k in KEYS[mode]}


def run_impl(binary, mode, cases=None, seed=1, n=100):
    tmp = os.path.join(vlib.BUILD, 'c02_%s_%d.json' % (mode, os.getpid()))
    if cases is not None:
        inp = tmp + '.in'
        json.dump(cases, open(inp, 'w'))
        rc, log = vlib.run([binary, mode, '--replay', inp, '--out', tmp])
        os.remove(inp)
    else:
        rc, log = vlib.run([binary, mode, '--seed', str(seed), '--n', str(n), '--out', tmp])
    if rc != 0:
        return None, log
    out = json.load(open(tmp))
    os.remove(tmp)
    return out, log


# ------------------------------------------------------------------ monitors
# Each returns None or (text, known_key).  known_key != None marks an input
# class listed as a known finding (reported, not alarmed).

def straddles(c):
    """some active lane has a dword (or the ushort) crossing a cache-line boundary"""
    ls = 1 << c['lg']
    op = c['op']
    rc = {21: 2, 29: 2, 22: 3, 30: 3, 23: 4, 31: 4}.get(op, 1)
    for l in range(64):
        if not (c['exec'] >> l) & 1:
            continue
        a = c['addrs'][l]
        if op in (16, 17):
            continue
        if op == 18:
            if a % ls + 2 > ls:
                return True
            continue
        for j in range(rc):
            if (a + 4 * j) % ls + 4 > ls:
                return True
    return False


def monitor_init(c):
    if c['emu'] != c['timing']:
        def where(a, b):
            if a is None or b is None:
                return 'emu %s, timing %s' % ('panics' if a is None else 'ok', 'panics' if b is None else 'ok')
            names = ['PC', 'EXEC'] + ['s%d' % i for i in range(24)] + ['v%d[lane %d]' % (i, l) for l in range(64) for i in range(3)]
            for n, x, y in zip(names, a, b):
                if x != y:
                    return '%s: emu 0x%x timing 0x%x' % (n, x, y)
            return 'length'
        return ('wavefront register initialisation differs between emulation and timing: ' + where(c['emu'], c['timing']), None)
    return None


def acc_size(op):
    return 1 if op in (16, 17, 24) else 2 if op in (18, 19, 26) else 4


def emu_bytes(c):
    """byte addresses the real emulator ALU accessed (start of every storage access it made, extent by opcode)"""
    rc = {21: 2, 29: 2, 22: 3, 30: 3, 23: 4, 31: 4}.get(c['op'], 1)
    n = acc_size(c['op']) * rc
    return set(a + i for a, _ in (c.get('emu_acc') or []) for i in range(n))


def timing_bytes(c):
    """byte addresses the timing transactions touch: loads = the bytes the lane information selects from the
    line responses, stores = the bytes with their dirty-mask bit set"""
    out = set()
    if c['op'] <= 23:
        n = acc_size(c['op'])
        for t in c.get('txns') or []:
            for _, _, o in t['lanes']:
                out.update(t['line'] + o + i for i in range(n))
    else:
        for r in c.get('wreqs') or []:
            out.update(r['line'] + i for i, d in enumerate(r['mask']) if d)
    return out


def saddr_stress(c):
    """SAddr mode with an active lane whose 32-bit VGPR offset + immediate leaves [0, 2^32): 'neg' / 'ovf'"""
    if not c.get('mode'):
        return None
    imm = c['off13']
    for l in range(64):
        if (c['exec'] >> l) & 1:
            v = c['vaddr'][l] & 0xFFFFFFFF
            if v + imm < 0:
                return 'neg'
            if v + imm >= 1 << 32:
                return 'ovf'
    return None


def monitor_flat(c):
    load = c['op'] <= 23
    if load:
        same = c['emu_ok'] and c['treg_ok'] and c['emu'] == c['treg']
    else:
        same = c['emu_ok'] and c['wreq_ok'] and c['emu'] == c['tmem']
    if c['emu_ok'] and (c['txn_ok'] if load else c['wreq_ok']):
        # addresses: the timing transactions must touch exactly the bytes the emulator accesses
        eb, tb = emu_bytes(c), timing_bytes(c)
        if eb != tb:
            only_e, only_t = sorted(eb - tb), sorted(tb - eb)
            what = 'FLAT opcode %d (%s, SADDR field %d, offset:%d, lg=%d, exec=0x%x): timing transactions and emulator touch different bytes: ' % (
                c['op'], 'cdna3' if c['cdna3'] else 'gcn3', c['saddr'], c['off13'], c['lg'], c['exec'])
            if only_e:
                what += 'emulator accesses 0x%x (%d bytes in no transaction) ' % (only_e[0], len(only_e))
            if only_t:
                what += 'timing touches 0x%x (%d bytes the emulator does not access)' % (only_t[0], len(only_t))
            return (what, None)
    if same:
        return None
    known = None
    if c['emu_ok'] and straddles(c):
        known = 'flat-dword-straddles-cache-line'
    what = 'FLAT opcode %d (lg=%d, exec=0x%x): ' % (c['op'], c['lg'], c['exec'])
    if not c['emu_ok']:
        what += 'emulator panics (%s), timing %s' % (c.get('emu_err'), 'ok' if (c['treg_ok'] or c['wreq_ok']) else 'panics')
    elif load and not c['treg_ok']:
        what += 'timing write-back panics (%s), emulator completes' % c.get('tim_err')
    elif not load and not c['wreq_ok']:
        what += 'timing coalescer panics (%s), emulator completes' % c.get('tim_err')
    elif load:
        i = next(i for i, (x, y) in enumerate(zip(c['emu'], c['treg'])) if x != y)
        what += 'lane %d v%d: emu 0x%08x timing 0x%08x' % (i // 4, c['dst_v'] + i % 4, c['emu'][i], c['treg'][i])
    else:
        i = next(i for i, (x, y) in enumerate(zip(c['emu'], c['tmem'])) if x != y)
        what += 'memory byte at 0x%x: emu 0x%02x timing 0x%02x' % (c['base'] + i, c['emu'][i], c['tmem'][i])
    return (what, known)


def monitor_smem(c):
    same = c['emu_ok'] and c['tim_ok'] and c['emu'] == c['tim']
    if same:
        return None
    known = None
    what = 's_load opcode %d start 0x%x (lg=%d): ' % (c['op'], c['start'], c['lg'])
    if not c['emu_ok']:
        what += 'emulator panics (%s)' % c.get('emu_err')
    elif not c['tim_ok']:
        what += 'timing panics (%s), emulator completes' % c.get('tim_err')
    else:
        i = next(i for i, (x, y) in enumerate(zip(c['emu'], c['tim'])) if x != y)
        what += 's%d: emu 0x%08x timing 0x%08x' % (i, c['emu'][i], c['tim'][i])
    return (what, known)


MONITOR = {'init': monitor_init, 'flat': monitor_flat, 'smem': monitor_smem}

KNOWN_TEXT = {
    'flat-dword-straddles-cache-line': 'FLAT access whose dword crosses a cache-line boundary: timing coalescer/write-back panics, emulator completes',
}


def nontrivial(mode, c):
    if mode == 'init':
        return c['emu'] is not None
    if mode == 'flat':
        return c['emu_ok'] and bin(c['exec']).count('1') >= 2 and len(set(c['addrs'])) >= 2
    return c['emu_ok'] and len(c.get('pieces') or []) >= 2


# ------------------------------------------------------------------ whole programs

WORKLOADS_QUICK = [
    ('fir', 256, 'gcn3'), ('matrixtranspose', 64, 'gcn3'), ('simpleconvolution', 32, 'gcn3'),
    ('aes', 1024, 'gcn3'), ('fastwalshtransform', 256, 'gcn3'), ('matrixtranspose', 64, 'cdna3'),
    ('vectoradd', 1024, 'cdna3'), ('bitonicsort', 256, 'gcn3'), ('floydwarshall', 32, 'gcn3'),
]
WORKLOADS_THOROUGH = WORKLOADS_QUICK + [
    ('fir', 1024, 'gcn3'), ('floydwarshall', 16, 'gcn3'), ('fastwalshtransform', 1024, 'gcn3'),
    ('bitonicsort', 1024, 'gcn3'), ('matrixtranspose', 128, 'cdna3'), ('fir', 256, 'cdna3'),
    ('simpleconvolution', 64, 'gcn3'), ('floydwarshall', 64, 'gcn3'), ('bitonicsort', 512, 'cdna3'),
]
# 'emu2' is a second emulation run: buffers are compared with the timing runs only when the two
# emulation runs leave identical buffers (several benchmarks draw their input from an unseeded PRNG;
# for those only the -verify outcome, which compares with a CPU reference, is compared)
PLATFORMS = [('emu', []), ('emu2', []), ('r9nano', ['-timing', '-gpu=r9nano']), ('mi300a', ['-timing', '-gpu=mi300a'])]
PARALLEL = ('r9nano-parallel', ['-timing', '-gpu=r9nano', '-parallel'])
MAGIC = ('r9nano-magic', ['-timing', '-gpu=r9nano', '-magic-memory-copy'])
MAGIC_MI = ('mi300a-magic', ['-timing', '-gpu=mi300a', '-magic-memory-copy'])
EXTRA_PLATFORM_WORKLOADS = {('fir', 256, 'gcn3'), ('bitonicsort', 256, 'gcn3')}


def platforms_for(bench, size, arch):
    if arch == 'cdna3':
        ps = [p for p in PLATFORMS if p[0] in ('emu', 'emu2', 'mi300a')]
    else:
        ps = list(PLATFORMS)
    if (bench, size, arch) in EXTRA_PLATFORM_WORKLOADS:
        ps += [MAGIC, MAGIC_MI, PARALLEL]
    return ps


def run_bench(binary, bench, size, arch, plat, extra, timeout=150):
    d = tempfile.mkdtemp(prefix='c02b_', dir=os.environ.get('TMPDIR', '/tmp'))
    out = os.path.join(d, 'r.json')
    cmd = [binary, 'bench', '-bench=' + bench, '-size=%d' % size, '-arch=' + arch, '-disable-rtm', '-out', out] + extra
    rc, log = vlib.run(cmd, cwd=d, timeout=abs(timeout))
    res = None
    if os.path.exists(out):
        try:
            res = json.load(open(out))
        except Exception:
            res = None
    shutil.rmtree(d, ignore_errors=True)
    if res is None and timeout > 0 and rc == 124:
        # a run that never finishes is a driver/queue matter (C12), not a result difference: one more try
        return run_bench(binary, bench, size, arch, plat, extra, timeout=-timeout)
    if res is None:
        res = {'bench': bench, 'verified': False, 'error': 'no result (rc=%d): %s' % (rc, log[-600:]), 'buffers': []}
    res.update({'size': size, 'arch': arch, 'platform': plat, 'cmd': ' '.join(cmd[1:])})
    return res


def run_micro(binary, platform, seed, n, only=-1, timeout=240, profile='', mode='micro'):
    d = tempfile.mkdtemp(prefix='c02m_', dir=os.environ.get('TMPDIR', '/tmp'))
    out = os.path.join(d, 'r.json')
    cmd = [binary, mode, '--seed', str(seed), '--n', str(n), '--platform', platform, '--out', out]
    if profile:
        cmd += ['--profile', profile]
    if only >= 0:
        cmd += ['--only', str(only)]
    rc, log = vlib.run(cmd, cwd=d, timeout=timeout)
    res = None
    if os.path.exists(out):
        try:
            res = json.load(open(out))
        except Exception:
            res = None
    shutil.rmtree(d, ignore_errors=True)
    return res, log


def why_stopped(log):
    """the panic message (or the time-out marker) of a run that left no result"""
    for line in log.split('\n'):
        if 'anic' in line or '[timeout' in line:
            return line.strip()[:300]
    return log[-300:]


def micro_diff(e, t, plat):
    """emulation vs timing result of one generated kernel"""
    for name in ('out', 'out2', 'scr'):
        if e[name] != t[name]:
            i = next(i for i, (x, y) in enumerate(zip(e[name], t[name])) if x != y)
            return 'buffer %s differs at element %d: emu 0x%08x %s 0x%08x' % (name, i, e[name][i], plat, t[name][i])
    if e['traces'] != t['traces']:
        ks = sorted(set(e['traces']) | set(t['traces']))
        k = next(k for k in ks if e['traces'].get(k) != t['traces'].get(k))
        return 'executed-instruction sequence of wavefront %s differs: emu %s %s %s (count:hash)' % (k, e['traces'].get(k), plat, t['traces'].get(k))
    return None


def compare_runs(ref, other):
    """emu result vs a timing result: list of differences (text)"""
    diffs = []
    if ref['verified'] != other['verified']:
        diffs.append('-verify: %s %s, %s %s (%s)' % (ref['platform'], 'passes' if ref['verified'] else 'fails',
                                                    other['platform'], 'passes' if other['verified'] else 'fails',
                                                    (other.get('error') or ref.get('error') or '')[:200]))
    if (other.get('error') or '').startswith(('run', 'dump', 'no result')):
        return diffs or ['%s: %s' % (other['platform'], other['error'][:300])]
    a, b = ref['buffers'], other['buffers']
    if [(x['size'], x['freed']) for x in a] != [(x['size'], x['freed']) for x in b]:
        diffs.append('device buffer lists differ: %s vs %s' % ([x['size'] for x in a], [x['size'] for x in b]))
        return diffs
    for x, y in zip(a, b):
        if x['sha'] != y['sha']:
            off = ''
            if x.get('hex') and y.get('hex'):
                bx, by = bytes.fromhex(x['hex']), bytes.fromhex(y['hex'])
                i = next(i for i in range(len(bx)) if bx[i] != by[i])
                off = ' first at byte %d: %s 0x%02x, %s 0x%02x' % (i, ref['platform'], bx[i], other['platform'], by[i])
            diffs.append('device buffer #%d (%d bytes) differs%s' % (x['index'], x['size'], off))
    return diffs


def main(argv):
    import time
    T0 = time.time()
    def phase(n):
        if os.environ.get('VERIF_TIMING'):
            sys.stderr.write('[c02 %6.1fs] %s\n' % (time.time() - T0, n))
    rep = vlib.Report(PROP, 'proof')
    rep.checker_cmd = ('make -C coq props/C02.vo && coqc props/C02.v (Print Assumptions) && '
                       'coqc cases/C02*/s*.v (vm_compute imismatches/fmismatches/smismatches)')
    rep.trusted = ['Coq 8.16.1 kernel + vm_compute',
                   'hand-written models coq/cu/InitRegs.v, coq/cu/Coalescer.v of the Go code listed in their headers (checked by sampling, not verified)',
                   'Go harness harness/cmd/c02 and the verif-tag hooks amd/emu/verif_c02.go, amd/timing/cu/verif_c02.go, amd/driver/verif_c02.go',
                   'memory between compute unit and storage (caches, TLB, DRAM, ROB) abstracted: a line read returns the line, a masked line write updates the dirty bytes',
                   'instruction issue, scoreboard, wait counts: not modelled here (C14-C17)']
    rep.assumptions = ['PARTIAL: end-to-end equality of whole programs is only sampled (differential runs), not proved',
                       'theorems: FLAT addresses such that no dword of an access crosses a cache line; scalar loads dword aligned; the lane base address is computed mod 2^64 on both sides (timing_flat_addr / emu_flat_addr), the per-register addr + 4*j without 64-bit wrap-around']
    thorough = vlib.tier() == 'thorough'
    counts = {'init': 1500 if thorough else 200, 'flat': 1500 if thorough else 150, 'smem': 800 if thorough else 100}

    replay_file = None
    if '--replay' in argv:
        replay_file = argv[argv.index('--replay') + 1]

    ok, log, binary = vlib.go_build('c02')
    rep.obligation('harness builds against the working tree (with hooks)', ok)
    if not ok:
        rep.violation({'broken': 'go build of harness/cmd/c02 failed', 'log': log[-4000:]}, nofail=True, text='harness build failed')
        return rep.finish()

    phase('go build done')
    ok, log = vlib.coq_build(COQ_TARGETS)
    phase('coq build done')
    okp, plog, thms = vlib.coq_check_props(PROP) if ok else (False, log, [])
    if not (ok and okp):
        rep.obligation('coq build', False)
        rep.violation({'broken': 'Coq development for C02 does not compile', 'log': (log + plog)[-4000:]}, nofail=True)
        return rep.finish()
    for name, axioms in thms:
        rep.obligation('theorem ' + name + (' [axioms: %s]' % ', '.join(axioms) if axioms else ' [closed under the global context]'), True)

    phase('props checked')
    # ---- mechanism level: both implementations + model on the same inputs
    replay = None
    if replay_file:
        replay = json.load(open(replay_file))
    all_cases = {}
    for mode in ('init', 'flat', 'smem'):
        cases = []
        if replay is not None:
            if replay.get('mode') != mode:
                continue
            src = replay.get('case') or replay.get('cases')
            src = src if isinstance(src, list) else [src]
            cases, log = run_impl(binary, mode, cases=[strip(mode, c) for c in src])
            cases = cases or []
        else:
            corpus = []
            p = os.path.join(CORPUS, mode + '.json')
            if os.path.exists(p):
                corpus = json.load(open(p))
            if corpus:
                got, log = run_impl(binary, mode, cases=[strip(mode, c) for c in corpus])
                cases += got or []
            gen, log = run_impl(binary, mode, seed=vlib.seed(), n=counts[mode])
            if gen is None:
                rep.obligation('harness run (%s)' % mode, False)
                rep.violation({'broken': 'harness run failed', 'mode': mode, 'log': log[-4000:]}, nofail=True)
                return rep.finish()
            cases += gen
        all_cases[mode] = cases

    total = 0
    distinct = set()
    known_seen = collections.OrderedDict()
    for mode, cases in all_cases.items():
        total += len(cases)
        bad = []
        for i, c in enumerate(cases):
            m = MONITOR[mode](c)
            if m is None:
                continue
            text, known = m
            if known:
                known_seen.setdefault(known, text)
            else:
                bad.append((i, text))
        phase('monitor ' + mode)
        chk, ty = CHECKER[mode]
        okc, mism, clog = vlib.eval_cases(PROP + mode, HEADER, [c['coq'] for c in cases], shard_size=(10 if mode == 'flat' else 25), checker=chk, ty=ty)
        rep.obligation('correspondence %s: %d cases, both implementations vs model' % (mode, len(cases)), okc and not mism)
        for c in cases:
            if nontrivial(mode, c):
                distinct.add(vlib.case_hash([mode, strip(mode, c)]))
        rep.coverage['%s_cases' % mode] = len(cases)
        rep.coverage['%s_model_mismatches' % mode] = len(mism)
        rep.coverage['%s_monitor_failures' % mode] = len(bad)
        if mode == 'flat':
            rep.coverage['flat_by_opcode'] = dict(collections.Counter(str(c['op']) for c in cases))
            rep.coverage['flat_transactions_hist'] = dict(collections.Counter(
                str(len(c.get('txns') or c.get('wreqs') or [])) for c in cases))
            rep.coverage['flat_address_layout'] = dict(collections.Counter(
                '%s/%s/%s' % ('saddr' if c.get('mode') else 'off', c.get('kind') or 'corpus', 'cdna3' if c['cdna3'] else 'gcn3') for c in cases))
            stress = collections.Counter('%s/%s/%s' % ('load' if c['op'] <= 23 else 'store', saddr_stress(c), 'cdna3' if c['cdna3'] else 'gcn3')
                                         for c in cases if saddr_stress(c))
            rep.coverage['flat_saddr_vgpr_plus_imm_outside_32bit'] = dict(stress)
            rep.coverage['flat_window_across_4GiB'] = sum(1 for c in cases if (c['base'] >> 32) != ((c['base'] + len(c['mem']) - 1) >> 32))
            if replay is None:
                need = ['load/neg/gcn3', 'store/neg/gcn3', 'load/neg/cdna3', 'store/neg/cdna3']
                rep.obligation('generator reaches SAddr-mode loads and stores (both architectures) whose negative immediate exceeds an active '
                               'lane\'s VGPR offset: %s' % {k: stress.get(k, 0) for k in need}, all(stress.get(k, 0) > 0 for k in need))
        if mode == 'smem':
            rep.coverage['smem_pieces_hist'] = dict(collections.Counter(str(len(c.get('pieces') or [])) for c in cases))
        if mode == 'init':
            rep.coverage['init_versions'] = dict(collections.Counter(str(c['version']) for c in cases))
            rep.coverage['init_queue_or_privsize'] = sum(1 for c in cases if c['en'][2] or c['en'][6])
        if bad:
            i, text = bad[0]
            c = cases[i]
            rep.violation({'property': PROP, 'mode': mode, 'what': text, 'case': strip(mode, c), 'observed': {k: v for k, v in c.items() if k not in KEYS[mode] and k != 'coq'},
                           'replay_cmd': './check C02 --replay <this file>'}, text=text)
        elif mism or not okc:
            i, k = mism[0] if mism else (0, 0)
            rep.violation({'property': PROP, 'mode': mode,
                           'broken': 'correspondence between the Coq model and the Go code (%s case %d, detail bits %d: see %s in coq/cu); '
                                     'the theorems of props/C02.v no longer speak about this code' % (mode, i, k, chk),
                           'case': strip(mode, cases[i]) if cases else None, 'log': clog[-2000:]}, nofail=True,
                          text='model/implementation mismatch in %s case %d (detail %d); emulation and timing agree on all %d cases' % (mode, i, k, len(cases)))
        if not rep.samples and cases:
            rep.samples.append({'mode': mode, 'input': {k: (v if not isinstance(v, list) or len(v) <= 12 else v[:12] + ['...']) for k, v in strip(mode, cases[0]).items()}})
    for k, text in known_seen.items():
        rep.known_finding('%s: %s [witness: %s]' % (k, KNOWN_TEXT[k], text[:160]), key=k)

    phase('mechanisms done')
    # ---- end-to-end differential (validation only)
    runs = []
    e2e_diffs = []
    known_e2e = []
    if replay is None or replay.get('mode') == 'bench':
        wl = WORKLOADS_THOROUGH if thorough else WORKLOADS_QUICK
        if replay is not None:
            wl = [(replay['bench'], replay['size'], replay['arch'])]
        jobs = []
        for bench, size, arch in wl:
            for plat, extra in platforms_for(bench, size, arch):
                jobs.append((bench, size, arch, plat, extra))
        with ThreadPoolExecutor(max_workers=8) as ex:
            runs = list(ex.map(lambda j: run_bench(binary, *j), jobs))
        by = collections.OrderedDict()
        for r in runs:
            by.setdefault((r['bench'], r['size'], r['arch']), {})[r['platform']] = r
        det = 0
        for key, d in by.items():
            ref = d['emu']
            if not ref['verified']:
                e2e_diffs.append((key, 'emu', ['emulation run does not verify: %s' % (ref.get('error') or '')[:300]]))
                continue
            deterministic = not compare_runs(ref, d['emu2'])
            det += deterministic
            for plat, r in d.items():
                if plat in ('emu', 'emu2'):
                    continue
                if deterministic:
                    diffs = compare_runs(ref, r)
                else:
                    diffs = compare_runs(dict(ref, buffers=[]), dict(r, buffers=[]))
                if diffs:
                    e2e_diffs.append((key, plat, diffs))
        rep.coverage['e2e_workloads_with_deterministic_buffers'] = det
        rep.obligation('end-to-end differential (validation, not proof): %d runs of %d workloads agree with emulation' % (len(runs), len(by)), not e2e_diffs)
        for k in known_e2e:
            rep.known_finding(k, key=k.split(':')[0])
        rep.coverage['e2e_runs'] = len(runs)
        rep.coverage['e2e_workloads'] = ['%s/%d/%s' % k for k in by]
        rep.coverage['e2e_buffers_compared'] = sum(len(r['buffers']) for r in runs if r['platform'] != 'emu')
        for key, plat, diffs in e2e_diffs[:1]:
            rep.violation({'property': PROP, 'mode': 'bench', 'bench': key[0], 'size': key[1], 'arch': key[2], 'platform': plat,
                           'what': diffs, 'cmd': [r['cmd'] for r in runs if (r['bench'], r['size'], r['arch']) == key],
                           'replay_cmd': './check C02 --replay <this file>'},
                          text='%s size %d arch %s: %s differs from emulation: %s' % (key[0], key[1], key[2], plat, '; '.join(diffs)[:400]))
        total += len(runs)
        for r in runs:
            if r['verified'] and r['buffers']:
                distinct.add(vlib.case_hash(['bench', r['bench'], r['size'], r['arch'], r['platform']]))

    # ---- generated micro-kernels on whole platforms (validation only)
    # streams: (name, harness mode, profile, kernels quick/thorough, timing platforms)
    #   general : all kernel families on the stock platforms and on a one-CU R9 Nano
    #   lds     : LDS kernels with 4-24 work-groups of 1-4 wavefronts on one CU / one shader array
    #   seq     : blocking launch sequences reader / writer / reader ... without memory copies
    #   dirty   : copy - kernel - copy - kernel - copy with ~2 MB of dirty lines in the L2 at the second copy
    STREAMS = [
        ('general', 'micro', '', 40, 150, ['r9nano', 'mi300a', 'r9nano:1x1']),
        ('lds', 'micro', 'lds', 12, 40, ['r9nano:1x1', 'r9nano:1x2', 'r9nano:2x1']),
        ('seq', 'seq', '', 10, 40, ['r9nano', 'mi300a', 'r9nano:1x1', 'r9nano:1x4']),
        # dirty: a kernel leaves the whole L2 dirty, H2D into one page of the same buffer, reader kernel, D2H
        ('dirty', 'dirty', '', 1, 3, ['r9nano'] + (['mi300a'] if thorough else [])),
        # copies: copy - kernel - copy with unaligned device pointers / lengths on sub-ranges, byte for byte
        ('copies', 'copies', '', 8, 30, ['r9nano', 'mi300a']),
        # twoctx: two contexts (two PIDs, same virtual addresses) run kernels concurrently on one GPU
        ('twoctx', 'twoctx', '', 3, 8, ['r9nano', 'r9nano:1x1', 'mi300a']),
    ]
    if replay is None or replay.get('mode') == 'micro':
        mseed = replay['seed'] if replay else vlib.seed()
        streams = STREAMS
        if replay:
            streams = [st for st in STREAMS if st[0] == replay.get('stream', 'general')]
        jobs = []
        for name, hmode, profile, nq, nt, plats in streams:
            mn = replay['n'] if replay else (nt if thorough else nq)
            only = replay['index'] if (replay and hmode not in ('dirty', 'twoctx')) else -1
            if replay and replay.get('platform') in plats:
                plats = [replay['platform']]
            for p in ['emu'] + plats:
                jobs.append((name, hmode, profile, mn, only, p))
        with ThreadPoolExecutor(max_workers=8) as ex:
            results = list(ex.map(lambda j: run_micro(binary, j[5], mseed, j[3], j[4], profile=j[2], mode=j[1]), jobs))
        micro_bad = []
        refs = {}
        for j, (res, log) in zip(jobs, results):
            if j[5] == 'emu':
                refs[j[0]] = res
                if res is None:
                    micro_bad.append((j, -1, 'the emulation platform did not finish stream %s: %s' % (j[0], log[-400:])))
        ntr = 0
        for j, (got, log) in zip(jobs, results):
            name, hmode, profile, mn, only, p = j
            ref = refs.get(name)
            if p == 'emu' or ref is None:
                continue
            if got is None:
                culprit = -1
                for k in ref:
                    if hmode in ('dirty', 'twoctx'):
                        break
                    g1, _ = run_micro(binary, p, mseed, mn, k['index'], timeout=90, profile=profile, mode=hmode)
                    if g1 is None:
                        culprit = k['index']
                        break
                micro_bad.append((j, culprit, 'platform %s does not finish (panic or hang) on generated %s #%d which emulation completes: %s'
                                  % (p, {'micro': 'kernel', 'seq': 'launch sequence'}.get(hmode, hmode + ' scenario'), culprit, why_stopped(log))))
                continue
            for e, t in zip(ref, got):
                if hmode == 'dirty':
                    dd = None
                    for nm in ('page_data', 'read_back', 'before', 'after'):
                        if e[nm] != t[nm]:
                            nd = sum(1 for x, y in zip(e[nm], t[nm]) if x != y)
                            i = next(i for i, (x, y) in enumerate(zip(e[nm], t[nm])) if x != y)
                            dd = ('copy-kernel-copy scenario %d: kernel dirties 2 MB, host overwrites page %d, %s: %d of %d words differ, first word %d: '
                                  'emu 0x%08x %s 0x%08x' % (e['index'], e['page'], {'page_data': 'device-to-host copy of the page',
                                  'read_back': 'the page as read by the next kernel', 'before': 'the page before it', 'after': 'the page after it'}[nm],
                                  nd, len(e[nm]), i, e[nm][i], p, t[nm][i]))
                            break
                elif hmode == 'copies':
                    dd = None
                    for oi, (a, b) in enumerate(zip(e['ops'] + [{'kind': 'final', 'off': 0, 'len': len(e['final']) // 2, 'data': e['final']}],
                                                    t['ops'] + [{'kind': 'final', 'off': 0, 'len': len(t['final']) // 2, 'data': t['final']}])):
                        if a.get('data') != b.get('data'):
                            x, y = bytes.fromhex(a['data']), bytes.fromhex(b['data'])
                            i = next(i for i in range(len(x)) if x[i] != y[i])
                            nd = sum(1 for u, v in zip(x, y) if u != v)
                            dd = ('copy stream %d: %s: device-to-host copy #%d of %d bytes from buffer offset %d returns %d wrong bytes, first at byte %d: emu 0x%02x %s 0x%02x'
                                  % (e['index'], ' '.join('%s(%d,%d)' % (o['kind'], o['off'], o['len']) for o in e['ops'][:oi + 1])[-300:], oi, a['len'], a['off'], nd, i, x[i], p, y[i]))
                            break
                elif hmode == 'twoctx':
                    dd = None
                    for c in (0, 1):
                        if e['out'][c] != t['out'][c]:
                            i = next(i for i, (x, y) in enumerate(zip(e['out'][c], t['out'][c])) if x != y)
                            dd = ('two contexts on one GPU (scenario %d, %d words): result of context %d differs at word %d: emu 0x%08x %s 0x%08x'
                                  % (e['index'], e['words'], c, i, e['out'][c][i], p, t['out'][c][i]))
                            break
                elif hmode == 'seq':
                    dd = None
                    for nm in ('out', 'x'):
                        if e[nm] != t[nm]:
                            i = next(i for i, (x, y) in enumerate(zip(e[nm], t[nm])) if x != y)
                            per = 128 * e['num_wg']
                            where = ('launch %d, work-item %d, %s-load result' % (i // per, (i % per) // 2, 'scalar' if i % 2 else 'vector')) if nm == 'out' else 'x[%d]' % i
                            dd = 'blocking launch sequence %s (%d work-groups): %s: emu 0x%08x %s 0x%08x' % (
                                ''.join('W' if st['write'] else 'R' for st in e['steps']), e['num_wg'], where, e[nm][i], p, t[nm][i])
                            break
                else:
                    dd = micro_diff(e, t, p)
                    ntr += len(e['traces'])
                    if dd:
                        dd = 'generated kernel %d (%s, %d x %d work-items): %s' % (
                            e['index'], ','.join(e['features'] or []), e['num_wg'], e['wg_size'], dd)
                if dd:
                    micro_bad.append((j, e['index'], dd))
                    break
        nk = sum(len(r or []) for r in refs.values())
        rep.obligation('generated micro-kernels and launch sequences (validation, not proof): %d programs x platforms, buffers and per-wavefront instruction sequences agree with emulation' % nk, not micro_bad)
        rep.coverage['micro_programs'] = {k: len(v or []) for k, v in refs.items()}
        rep.coverage['micro_platform_runs'] = len(jobs)
        rep.coverage['micro_wavefront_traces_compared'] = ntr
        rep.coverage['micro_features'] = dict(collections.Counter(
            f for name in ('general', 'lds') for k in (refs.get(name) or []) for f in (k['features'] or [])))
        total += sum(len(r or []) for (r, _l) in results)
        for name in ('general', 'lds'):
            for k in (refs.get(name) or []):
                distinct.add(vlib.case_hash(['micro', k['words'], k['wg_size'], k['num_wg']]))
        for k in (refs.get('seq') or []):
            distinct.add(vlib.case_hash(['seq', k['steps'], k['num_wg']]))
        for k in (refs.get('dirty') or []):
            distinct.add(vlib.case_hash(['dirty', k['index'], k['page']]))
        for k in (refs.get('copies') or []):
            distinct.add(vlib.case_hash(['copies', [(o['kind'], o['off'], o['len']) for o in k['ops']]]))
        for k in (refs.get('twoctx') or []):
            distinct.add(vlib.case_hash(['twoctx', k['index'], k['words']]))
        for j, idx, text in micro_bad[:1]:
            name, hmode, profile, mn, only, p = j
            words = None
            if hmode == 'micro':
                words = next((k['words'] for k in (refs.get(name) or []) if k['index'] == idx), None)
            rep.violation({'property': PROP, 'mode': 'micro', 'stream': name, 'seed': mseed, 'n': mn, 'index': idx, 'platform': p, 'what': text,
                           'words': ['%08x' % w for w in words] if words else None,
                           'disassemble_cmd': ('build/bin*/c02 micro --seed %d --n %d --only %d --print%s' % (mseed, mn, idx, ' --profile ' + profile if profile else ''))
                           if hmode == 'micro' else None,
                           'replay_cmd': './check C02 --replay <this file>'}, text=text)
        g = refs.get('general')
        if g:
            rep.samples.append({'mode': 'micro', 'kernel': g[0]['index'], 'features': g[0]['features'],
                                'words': ['%08x' % w for w in g[0]['words'][:24]] + ['...']})
    phase('e2e done')
    rep.coverage.update({
        'evaluations': total,
        'distinct_nontrivial': len(distinct),
        'traces_validated_against_impl': sum(len(v) for v in all_cases.values()),
        'rule': 'mechanism cases: random code-object flags x packets x wavefront geometry (init); FLAT opcodes 16,17,18,20,21,23,28-31 x EXEC masks x '
                'address patterns (contiguous, line stride, same address, two lines, random; saddr/off modes; line size 16/64/128) with responses delivered in '
                'random order (flat); s_load_dword..x8 near line ends (smem). Non-trivial: init = no panic; flat = >=2 active lanes with >=2 distinct '
                'addresses; smem = split into >=2 requests; whole-program run = verified run with buffers dumped. Known classes (line-straddling dword, '
                'unaligned s_load, s_load_dwordx16) are generated separately as witnesses.',
    })
    return rep.finish()


if __name__ == '__main__':
    sys.exit(main(sys.argv[1:]))
