"""C19 — page migration.  Theorems: coq/props/C19.v over coq/mem/Pmc.v (+ drv/Migration.v).
Tie: event-exact correspondence between TWO real PageMigrationControllers wired
by harness/cmd/c19 (which plays connections, network and both memories) and
the Gallina system model, plus a store/completion monitor on the implementation."""
import json, os, sys, collections
sys.path.insert(0, os.path.dirname(os.path.dirname(os.path.abspath(__file__))))
import vlib

PROP = 'C19'
HEADER = 'From VMem Require Import Pmc.\nOpen Scope N_scope.\n'
COQ_TARGETS = ['props/C19.vo']


def monitor(case):
    """Property C19 evaluated on what the two real controllers did.  The store
    comparison runs inside the harness at every completion and at the end of
    the run (field `viol`); completions are re-counted here from the observed
    control-port traffic.  Sound: only classes `uni`/`bidir`/`stall` (page sizes that
    are multiples of 64, no third party) are judged."""
    if case.get('viol'):
        return case['viol']
    if case['class'] not in ('uni', 'bidir', 'stall'):
        return None
    if any(e.get('crash') for e in case['events']):
        return 'a controller panicked on protocol-respecting traffic'
    for w in (0, 1):
        acc = [e['msg'] for e in case['events'] if e['e'] == 'cr' and e['w'] == w and e.get('acc')]
        rsp = [e['got'] for e in case['events'] if e['e'] == 'tc' and e['w'] == w and e.get('got')]
        if len(rsp) > len(acc):
            return 'controller %d: %d completions for %d requests' % (w, len(rsp), len(acc))
        for i, r in enumerate(rsp):
            if r['kind'] != 'MigRsp' or r['dst'] != acc[i]['src']:
                return 'controller %d: completion %d is %s to %s, expected MigRsp to %s' % (w, i, r['kind'], r['dst'], acc[i]['src'])
        if case.get('quiescent') and len(rsp) != len(acc):
            return 'controller %d: %d requests accepted, %d completions after the system went quiet' % (w, len(acc), len(rsp))
    return None


def strip(case):
    """replay input: events without observations"""
    keep = ('ka', 'ca', 'kb', 'cb', 'msize', 'class', 'quiescent', 'chunks', 'maxpage')
    out = {k: case[k] for k in keep if k in case}
    out['events'] = [{'e': e['e'], 'w': e.get('w', 0), 'k': e.get('k', 0), **({'msg': e['msg']} if e.get('msg') else {})}
                     for e in case['events']]
    return out


def run_impl(binary, cases=None, seed=1, n=100):
    tmp = os.path.join(vlib.BUILD, 'c19_%d.json' % os.getpid())
    if cases is not None:
        inp = tmp + '.in'
        json.dump(cases, open(inp, 'w'))
        rc, log = vlib.run([binary, '--replay', inp, '--out', tmp])
        os.remove(inp)
    else:
        rc, log = vlib.run([binary, '--seed', str(seed), '--n', str(n), '--out', tmp])
    if rc != 0:
        return None, log
    out = json.load(open(tmp))
    os.remove(tmp)
    return out, log


def run_driver(binary, seed, n):
    tmp = os.path.join(vlib.BUILD, 'c19_drv_%d.json' % os.getpid())
    rc, log = vlib.run([binary, '--seed', str(seed), '--drv-n', str(n), '--drv-out', tmp])
    if rc != 0:
        return None, log
    out = json.load(open(tmp))
    os.remove(tmp)
    return out, log


def run_handshake(binary, seed, n):
    tmp = os.path.join(vlib.BUILD, 'c19_hs_%d.json' % os.getpid())
    rc, log = vlib.run([binary, '--seed', str(seed), '--hs-n', str(n), '--hs-out', tmp])
    if rc != 0:
        return None, log
    out = json.load(open(tmp))
    os.remove(tmp)
    return out, log


def run_banked(binary, seed, n, cases=None):
    """two real controllers behind a real mem.InterleavedAddressPortMapper (2-4 banks per side, interleaving
    smaller than / equal to / larger than the page); the harness plays the banks"""
    tmp = os.path.join(vlib.BUILD, 'c19_bank_%d.json' % os.getpid())
    cmd = [binary, '--seed', str(seed), '--bank-n', str(n), '--bank-out', tmp]
    if cases is not None:
        json.dump(cases, open(tmp + '.in', 'w'))
        cmd += ['--bank-replay', tmp + '.in']
    rc, log = vlib.run(cmd)
    if cases is not None:
        os.remove(tmp + '.in')
    if rc != 0:
        return None, log
    out = json.load(open(tmp))
    os.remove(tmp)
    return out, log


# always run first: a page of 1 KiB over 2 banks interleaved at 256 bytes (destination) read from 3 banks interleaved
# at 1 KiB (source), and a 4 KiB page over two banks interleaved at 1 KiB (the geometry of seeded C19-14)
BANK_WITNESS = [
    {'nbanks': [2, 3], 'inter': [256, 1024], 'lat': [[0, 3], [1, 0, 7]], 'msize': 65536, 'sched': 1,
     'reqs': [{'w': 0, 'rd': 62464, 'wr': 6144, 'size': 1024}]},
    {'nbanks': [2, 2], 'inter': [1024, 1024], 'lat': [[5, 0], [0, 9]], 'msize': 65536, 'sched': 2,
     'reqs': [{'w': 0, 'rd': 40960, 'wr': 8192, 'size': 4096}, {'w': 1, 'rd': 36864, 'wr': 4096, 'size': 4096}]},
]

BANK_IN = ('nbanks', 'inter', 'lat', 'msize', 'reqs', 'sched')


def shrink_banked(binary, c):
    """smallest scenario that still fails: one request at a time, then zero latencies"""
    def fails(x):
        out, _ = run_banked(binary, 0, 0, cases=[x])
        return bool(out) and bool(out[0].get('viol'))
    cur = {k: c[k] for k in BANK_IN}
    for q in c['reqs']:
        x = dict(cur, reqs=[q])
        if fails(x):
            cur = x
            break
    x = dict(cur, lat=[[0] * len(l) for l in cur['lat']])
    if fails(x):
        cur = x
    out, _ = run_banked(binary, 0, 0, cases=[cur])
    return out[0] if out and out[0].get('viol') else c


HS_HEADER = 'From VDrv Require Import Handshake.\nOpen Scope N_scope.\n'
KNOWN_WIRING = 'NewRDMADrainRspToDriver'


def system_run():
    """atax with unified memory on two GPUs, timing platform: the only whole-system path
    through driver handshake + command processor + both PMCs.  Returns (status, detail):
    'pass' | 'known' (CommandProcessor.Driver never set: nil dereference) | 'fail' | 'skip'."""
    out = os.path.join(vlib.BUILD, 'bin' + vlib._repo_tag(), 'atax_c19')
    os.makedirs(os.path.dirname(out), exist_ok=True)
    with vlib.Lock('gobuild' + vlib._repo_tag()):
        rc, log = vlib.run([vlib.go_bin(), 'build', '-o', out, './amd/samples/atax'], cwd=vlib.REPO, env=vlib.go_env(), timeout=900)
    if rc != 0:
        return 'skip', log[-1500:]
    d = os.path.join(vlib.BUILD, 'c19_sys_%d' % os.getpid())
    os.makedirs(d, exist_ok=True)
    try:
        rc, log = vlib.run([out, '-x=64', '-y=64', '-gpus=1,2', '-timing', '-use-unified-memory', '-verify'], cwd=d, timeout=120)
    finally:
        import shutil
        shutil.rmtree(d, ignore_errors=True)
    if rc == 0 and 'Passed!' in log:
        return 'pass', ''
    if KNOWN_WIRING in log and 'nil pointer' in log:
        return 'known', ''
    return 'fail', log[-2500:]


def system_run_relu():
    """regression for the reorder-buffer repair (43e5cc78): relu on two discrete GPUs with unified memory
    migrates a page away from a GPU that has vector loads in flight.  'pass' | 'hang' | 'fail' | 'skip'."""
    out = os.path.join(vlib.BUILD, 'bin' + vlib._repo_tag(), 'relu_c19')
    with vlib.Lock('gobuild' + vlib._repo_tag()):
        rc, log = vlib.run([vlib.go_bin(), 'build', '-o', out, './amd/samples/relu'], cwd=vlib.REPO, env=vlib.go_env(), timeout=900)
    if rc != 0:
        return 'skip', log[-1500:]
    d = os.path.join(vlib.BUILD, 'c19_relu_%d' % os.getpid())
    os.makedirs(d, exist_ok=True)
    try:
        rc, log = vlib.run([out, '-length=64', '-gpus=1,2', '-timing', '-use-unified-memory', '-verify'], cwd=d, timeout=40)
    finally:
        import shutil
        shutil.rmtree(d, ignore_errors=True)
    if rc == 0 and 'Passed!' in log:
        return 'pass', ''
    if rc == 124:
        return 'hang', ''
    return 'fail', log[-2500:]


DRV_HEADER = 'From VDrv Require Import Migration.\nOpen Scope N_scope.\n'


def nontrivial(case):
    return case['class'] in ('uni', 'bidir', 'stall') and sum(case['completed']) >= 1 and case['chunks'] >= 2


def eval_model(cases):
    """vlib.eval_cases with shards balanced by size (a 16 KiB page is a few MB of term)"""
    order = sorted(range(len(cases)), key=lambda i: -len(cases[i]['coq']))
    # greedy bin packing into at most 16 bins
    nb = min(16, max(1, len(cases)))
    bins = [[0, []] for _ in range(nb)]
    for i in order:
        b = min(bins, key=lambda x: x[0])
        b[0] += len(cases[i]['coq'])
        b[1].append(i)
    # shards of equal length (padded with empty cases) keep the library interface unchanged
    maxlen = max(len(b[1]) for b in bins)
    terms = []
    filler = 'mkCase 1 0 1 0 [] []'
    index = []
    for b in bins:
        for j in range(maxlen):
            if j < len(b[1]):
                terms.append(cases[b[1][j]]['coq'])
                index.append(b[1][j])
            else:
                terms.append(filler)
                index.append(None)
    okc, fails, clog = vlib.eval_cases(PROP, HEADER, terms, shard_size=maxlen, ty='case')
    mism = sorted((index[i], k) for i, k in fails if index[i] is not None)
    return okc, mism, clog


def main(argv):
    rep = vlib.Report(PROP, 'proof')
    rep.checker_cmd = 'make -C coq props/C19.vo && coqc props/C19.v (Print Assumptions) && coqc cases/C19/s*.v (vm_compute mismatches)'
    rep.trusted = ['Coq 8.16.1 kernel + vm_compute',
                   'hand-written model coq/mem/Pmc.v of amd/timing/pagemigrationcontroller/pmc.go (tied by sampling, not verified)',
                   'hand-written model coq/drv/Migration.v of Driver.preparePageForMigration / allocatePageWithGivenVAddr / regular device free list / vm.PageTable (tied by sampling through a verif-tagged export hook)',
                   'hand-written model coq/drv/Handshake.v of the migration part of Driver.Tick (tied by sampling: the real driver with the harness playing MMU and command processors)',
                   'Go harness harness/cmd/c19 (stub connection, network and byte-array memories, ID/port renumbering, store monitor; '
                   'banked scenarios: one byte array per bank, owner of an address computed by the harness from the geometry)',
                   'akita port = two bounded FIFOs of capacity 1; message IDs modelled as (creator, counter) pairs; addresses do not wrap at 2^64']
    rep.assumptions = ['theorems: the environment of the two controllers is any finite sequence of ticks, transfers, deliveries (any order), memory services (any order) and refusals; '
                       'migration requests go to one controller at a time per source (the driver sends one PageMigrationReqToCP at a time), have page sizes that are multiples of 64 and name the other controller',
                       'theorem pmc_bidirectional: requests to either controller at any time, sources inside / destinations outside the read-only region of each memory; theorem pmc_liveness: fair schedules (every canonical action at least once per round), page size >= 64',
                       'whole-system run: atax -gpus=1,2 -timing -use-unified-memory (needs the platform wiring fix; unavailable while C01 finding unified-memory-timing-multi-gpu is open)',
                       'theorem migration_every_page_copied_and_remapped: allocator hygiene (a free physical page is listed once, on one device, and is not mapped; C10 territory), distinct aligned pages in one request; '
                       'theorem handshake_every_page_once: GPUReqToVAddrMap has one group per GPU number (it is a Go map) and the map iteration visits every group once',
                       'theorem completion_retried_until_sent / late-MMU scenarios: the driver has ONE slot for an answer the MMU port refused; the MMU side is at most one whole migration late (a third pending answer would overwrite the slot - observation in docs/C19.md)',
                       'handshake scenarios: the harness plays MMU, command processors and physical memory (one 4 KiB byte array per physical page); a PageMigrationReqToCP is executed as a page copy when it is acknowledged',
                       'sampled schedules only decide whether the real controllers still behave like the model']
    thorough = vlib.tier() == 'thorough'
    n = 1500 if thorough else 120

    replay_file = None
    if '--replay' in argv:
        replay_file = argv[argv.index('--replay') + 1]
        try:
            _o = json.load(open(replay_file))
            if 'driver_case' in _o or 'handshake_case' in _o or 'banked_case' in _o or ('case' not in _o and 'cases' not in _o and not isinstance(_o, list)):
                replay_file = None   # driver scenarios are regenerated from the seed: run the whole check
        except (OSError, ValueError):
            pass

    ok, log, binary = vlib.go_build('c19')
    rep.obligation('harness builds against the repo working tree', ok)
    if not ok:
        rep.violation({'broken': 'go build of harness/cmd/c19 against the repo failed', 'log': log[-4000:]}, nofail=True,
                      text='harness build failed')
        return rep.finish()

    ok, log = vlib.coq_build(COQ_TARGETS)
    okp, plog, thms = vlib.coq_check_props(PROP) if ok else (False, log, [])
    if not (ok and okp):
        rep.obligation('coq build', False)
        rep.violation({'broken': 'Coq development for C19 does not compile', 'log': (log + plog)[-4000:]}, nofail=True)
        return rep.finish()
    for name, axioms in thms:
        rep.obligation('theorem ' + name + (' [axioms: %s]' % ', '.join(axioms) if axioms else ' [closed under the global context]'), True)

    # ---- run the implementation
    cases = []
    ncorpus = 0
    if replay_file:
        obj = json.load(open(replay_file))
        src = obj.get('case') or obj.get('cases') or obj
        src = src if isinstance(src, list) else [src]
        cases, log = run_impl(binary, cases=[strip(c) for c in src])
        cases = cases or []
    else:
        corpus = []
        cdir = os.path.join(vlib.ROOT, 'corpus', PROP)
        for p in sorted(os.listdir(cdir)) if os.path.isdir(cdir) else []:
            corpus += json.load(open(os.path.join(cdir, p)))
        if corpus:
            cases, log = run_impl(binary, cases=[strip(c) for c in corpus])
            cases = cases or []
            ncorpus = len(cases)
        gen, log = run_impl(binary, seed=vlib.seed(), n=n)
        if gen is None:
            rep.obligation('harness run', False)
            rep.violation({'broken': 'harness run failed', 'log': log[-4000:]}, nofail=True)
            return rep.finish()
        cases += gen

    # ---- banked local memories behind a real interleaved address-to-port mapper
    if not replay_file:
        bwit, blog = run_banked(binary, 0, 0, cases=BANK_WITNESS)
        bcases, blog2 = run_banked(binary, vlib.seed(), 900 if thorough else 90)
        if bwit is None or bcases is None:
            blog = blog + blog2
            bcases = None
        else:
            bcases = bwit + bcases
        if bcases is None:
            rep.obligation('harness run (banked-memory scenarios)', False)
            rep.violation({'broken': 'banked-memory scenarios failed to run', 'log': blog[-4000:]}, nofail=True)
            return rep.finish()
        bbad = [c for c in bcases if c.get('viol')]
        rep.obligation('monitor: %d migrations over interleaved banks, contents compared through the owning banks, '
                       'every request sent to the owner of its address' % sum(c['completed'] for c in bcases), not bbad)
        rep.coverage.update({'banked_cases': len(bcases),
                             'banked_interleaving_vs_page': dict(collections.Counter(c['relation'] for c in bcases)),
                             'banked_migrations_completed': sum(c['completed'] for c in bcases),
                             'banked_pages_spanning_2_or_more_banks': sum(1 for c in bcases if c['spanbanks'] >= 2),
                             'banked_write_requests_checked': sum(c['writes'] for c in bcases),
                             'banked_read_requests_checked': sum(c['reads'] for c in bcases),
                             'banked_replies_out_of_request_order': sum(c['outoforder'] for c in bcases),
                             'banked_bank_count_histogram': dict(collections.Counter(str(n) for c in bcases for n in c['nbanks'])),
                             'banked_monitor_failures': len(bbad)})
        if bbad:
            c = shrink_banked(binary, bbad[0])
            rep.violation({'property': PROP, 'what': c['viol'], 'banked_case': c,
                           'replay_cmd': 'c19 --bank-replay <file with [banked_case]> --bank-out out.json'},
                          text='banked memory: ' + c['viol'])
            return rep.finish()

    # ---- driver side: real preparePageForMigration calls (hook in the worktree)
    dcases = []
    if not replay_file:
        dcases, dlog = run_driver(binary, vlib.seed(), 400 if thorough else 80)
        if dcases is None:
            rep.obligation('harness run (driver scenarios)', False)
            rep.violation({'broken': 'driver scenarios failed to run', 'log': dlog[-4000:]}, nofail=True)
            return rep.finish()
        dbad = [c for c in dcases if c.get('viol')]
        okd, dmism, dclog = vlib.eval_cases(PROP, DRV_HEADER, [c['coq'] for c in dcases], shard_size=40,
                                            checker='mmismatches', ty='mcase')
        rep.obligation('correspondence: %d calls of Driver.preparePageForMigration evaluated by the model' % len(dcases),
                       okd and not dmism)
        rep.coverage.update({'driver_calls': len(dcases), 'driver_calls_panicked': sum(1 for c in dcases if c['panicked']),
                             'driver_model_mismatches': len(dmism), 'driver_monitor_failures': len(dbad)})
        if dbad:
            c = dict(dbad[0])
            c.pop('coq', None)
            rep.violation({'property': PROP, 'what': c['viol'], 'driver_case': c}, text='driver: ' + c['viol'])
            return rep.finish()
        if dmism or not okd:
            i = dmism[0][0] if dmism else 0
            c = dict(dcases[i]) if dcases else {}
            c.pop('coq', None)
            rep.violation({'property': PROP, 'broken': 'correspondence between coq/drv/Migration.v and Driver.preparePageForMigration / '
                           'allocatePageWithGivenVAddr: call %d differs; theorem migration_updates_only_target no longer speaks about this code' % i,
                           'driver_case': c, 'log': dclog[-2000:]}, nofail=True,
                          text='driver model/implementation mismatch at call %d' % i)
            return rep.finish()

    # ---- driver handshake (drain - shootdown - migrate - restart) on the real driver
    if not replay_file:
        hcases, hlog = run_handshake(binary, vlib.seed(), 600 if thorough else 96)
        if hcases is None:
            rep.obligation('harness run (handshake scenarios)', False)
            rep.violation({'broken': 'handshake scenarios failed to run', 'log': hlog[-4000:]}, nofail=True)
            return rep.finish()
        direct = [c for c in hcases if not c.get('engine')]
        eng = [c for c in hcases if c.get('engine')]
        okh, hmism, hclog = vlib.eval_cases(PROP, HS_HEADER, [c['coq'] for c in direct], shard_size=20,
                                            checker='hmismatches', ty='hcase')
        rep.obligation('correspondence: %d driver handshakes (%d events) evaluated by the model' %
                       (len(direct), sum(len(c['events']) for c in direct)), okh and not hmism)
        hbad = [c for c in hcases if c.get('viol')]
        rep.coverage.update({'handshake_cases': len(direct), 'handshake_engine_cases': len(eng),
                             'handshake_requests_answered': sum(c['done'] for c in hcases),
                             'handshake_requests_with_every_page_compared': sum(c.get('checked', 0) for c in hcases),
                             'handshake_requests_with_2_or_more_requesting_gpus': sum(c.get('multigroup', 0) for c in hcases),
                             'handshake_groups_with_2_or_more_pages': sum(c.get('multipage', 0) for c in hcases),
                             'handshake_pages_migrated': sum(c.get('pages', 0) for c in hcases),
                             'handshake_cases_with_2_or_more_processes': sum(1 for c in hcases if c.get('procs', 0) >= 2),
                             'handshake_extra_contexts_InitWithExistingPID': sum(c.get('extractx', 0) for c in hcases),
                             'handshake_cases_with_late_mmu': sum(1 for c in hcases if c.get('late')),
                             'handshake_max_completion_delay_cycles': max([c.get('maxlate', 0) for c in hcases] or [0]),
                             'handshake_model_mismatches': len(hmism), 'handshake_monitor_failures': len(hbad)})
        if hbad:
            c = dict(hbad[0])
            c.pop('coq', None)
            rep.violation({'property': PROP, 'what': c['viol'], 'handshake_case': c}, text='handshake: ' + c['viol'])
            return rep.finish()
        if hmism or not okh:
            i, k = hmism[0] if hmism else (0, 0)
            c = dict(direct[i]) if direct else {}
            c.pop('coq', None)
            rep.violation({'property': PROP, 'broken': 'correspondence between coq/drv/Handshake.v and the migration handshake of driver.go: '
                           'observation %d of scenario %d differs; theorem handshake_order no longer speaks about this code' % (k, i),
                           'handshake_case': c, 'log': hclog[-2000:]}, nofail=True,
                          text='handshake model/implementation mismatch at scenario %d event %d' % (i, k))
            return rep.finish()
        # ---- the one whole-system path
        st, detail = system_run()
        rep.coverage['system_level_run'] = st
        if st == 'known':
            # this is C01's registered finding unified-memory-timing-multi-gpu; while it is open there is no
            # whole-system path for C19 (the fix is commit "fix: timing platform tells each command processor ...")
            c01 = [k for k in vlib.load_known() if k.get('property') == 'C01' and k.get('key') == 'unified-memory-timing-multi-gpu'
                   and k.get('status', 'open') == 'open']
            if c01:
                rep.coverage['system_level_run'] = 'unavailable: platform not wired (C01 finding unified-memory-timing-multi-gpu is open)'
            else:
                rep.violation({'property': PROP, 'what': 'atax -gpus=1,2 -timing -use-unified-memory panics: CommandProcessor.Driver is not set'},
                              text='whole-system page migration run panics (platform wiring regressed)')
                return rep.finish()
        elif st == 'fail':
            rep.violation({'property': PROP, 'what': 'atax -x=64 -y=64 -gpus=1,2 -timing -use-unified-memory -verify failed', 'log': detail},
                          text='whole-system page migration run failed')
            return rep.finish()
        if st == 'pass':
            st2, detail2 = system_run_relu()
            rep.coverage['system_level_run_relu'] = st2
            if st2 in ('hang', 'fail'):
                rep.violation({'property': PROP, 'what': 'relu -length=64 -gpus=1,2 -timing -use-unified-memory -verify: ' + st2 +
                               ' (a page is migrated away from a GPU with vector loads in flight; the shootdown must also reset the '
                               'reorder buffers above the address translators)', 'log': detail2},
                              text='whole-system page migration run (relu, 2 GPUs) does not complete: ' + st2)
                return rep.finish()

    # ---- property monitor on what the implementation did
    bad = [(i, monitor(c)) for i, c in enumerate(cases)]
    bad = [(i, m) for i, m in bad if m]
    # observation: a third party's pull request re-targets the single requestingPMCtrlPort field
    misrouted = [c for c in cases if c['class'] == 'hostile' and
                 (any(e.get('crash') for e in c['events']) or c['completed'] != c['accepted'])]
    # ---- correspondence with the model
    okc, mism, clog = eval_model(cases)
    rep.obligation('correspondence: %d schedules (%d events) evaluated by the model' %
                   (len(cases), sum(len(c['events']) for c in cases)), okc and not mism)

    hist = collections.Counter(e['e'] for c in cases for e in c['events'])
    rep.coverage.update({
        'evaluations': len(cases),
        'distinct_nontrivial': len({vlib.case_hash(strip(c)) for c in cases if nontrivial(c)}),
        'rule': 'random schedules of two real controllers (classes: uni = requests to one controller, bidir = both directions on disjoint regions, '
                'stall = 3-5 requests back to back while completions are left in the control port for a long stretch, '
                'odd = page sizes that are not multiples of 64, hostile = a third party injects pull requests); 1-3 requests per controller, '
                'pages of 64..16384 bytes, random weights per event kind, out-of-range deliveries, then a fair drain; '
                'non-trivial = monitored class, at least 2 chunks and at least one completed migration',
        'traces_validated_against_impl': len(cases),
        'corpus_cases': ncorpus,
        'event_histogram': dict(hist),
        'class_histogram': dict(collections.Counter(c['class'] for c in cases)),
        'page_size_histogram': dict(collections.Counter(str(c['maxpage']) for c in cases)),
        'migrations_completed': sum(sum(c['completed']) for c in cases),
        'chunks_moved': sum(c['chunks'] for c in cases if c['class'] in ('uni', 'bidir', 'stall')),
        'refused_deliveries': sum(c['refusals'] for c in cases),
        'out_of_order_deliveries': sum(c['reordered'] for c in cases),
        'stalled_completions': sum(1 for c in cases if c['class'] == 'stall' and sum(c['completed']) >= 3),
        'quiescent_cases': sum(1 for c in cases if c['quiescent']),
        'hostile_cases_with_misrouting_effect': len(misrouted),
        'model_mismatches': len(mism), 'monitor_failures': len(bad),
    })
    rep.samples = [{'class': c['class'], 'msize': c['msize'], 'accepted': c['accepted'], 'completed': c['completed'],
                    'events': [(e['e'], e.get('w', 0), e.get('k', 0)) for e in c['events'][:25]]} for c in cases[:2]]

    def fails_monitor(evs, base):
        c = dict(strip(base))
        c['events'] = evs
        c['quiescent'] = False
        out, _ = run_impl(binary, cases=[c])
        return bool(out) and monitor(out[0]) is not None

    if bad:
        i, msg = bad[0]
        c = cases[i]
        evs = strip(c)['events']
        small = evs
        if fails_monitor(evs, c):
            small = vlib.ddmin(evs, lambda x: fails_monitor(x, c), budget=120)
        c2 = dict(strip(c))
        c2['events'] = small
        if small is not evs:
            c2['quiescent'] = False
        out, _ = run_impl(binary, cases=[c2])
        what = (monitor(out[0]) if out else None) or msg
        rep.violation({'property': PROP, 'what': what, 'case': c2, 'replay_cmd': './check C19 --replay <this file>'}, text=what)
    elif mism or not okc:
        i, k = mism[0] if mism else (0, 0)
        c = cases[i] if cases else None
        rep.violation({'property': PROP, 'broken': 'correspondence between coq/mem/Pmc.v and amd/timing/pagemigrationcontroller/pmc.go: '
                       'observation %d of schedule %d differs (1000000+n = final memory window n); the theorems of props/C19.v no longer speak about this code' % (k, i),
                       'case': strip(c) if c else None, 'first_diverging_event': k,
                       'event': c['events'][k] if c and k < len(c['events']) else None, 'log': clog[-2000:]}, nofail=True,
                      text='model/implementation mismatch at schedule %d event %d; no property violation found on %d schedules' % (i, k, len(cases)))
    return rep.finish()


if __name__ == '__main__':
    sys.exit(main(sys.argv[1:]))
