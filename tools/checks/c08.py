"""C08 — the dispatch grid is partitioned exactly into work-groups, wavefronts and lanes.
Theorems: coq/props/C08.v over coq/grid/Grid.v (proofs coq/grid/GridProofs.v).
Tie: the real kernels.GridBuilder, emu initWfRegs and timing WfDispatcher are run by
harness/cmd/c08 on generated geometries; every observation (NumWG, work-group IDs and
current sizes, FirstWiFlatID, InitExecMask, EXEC, sampled lane registers) is compared
with the Gallina model evaluated by vm_compute."""
import json, os, sys, collections, itertools, copy
sys.path.insert(0, os.path.dirname(os.path.dirname(os.path.abspath(__file__))))
import vlib

PROP = 'C08'
HEADER = ('From Coq Require Import ZArith List.\nImport ListNotations.\n'
          'From VGrid Require Import Grid.\nOpen Scope Z_scope.\n')
COQ_TARGETS = ['props/C08.vo']
UNWRITTEN = 0xEEEEEEEE
KNOWN_TIMING_V5 = ('timing WfDispatcher.initRegisters does not pack the work-item IDs of V5 code objects into v0 '
                   '(the emulator does): a V5 kernel unpacking v0 sees y = z = 0 in multi-dimensional work-groups '
                   '[owned by C02, DESIGN finding 9c]')


def nwg(g, s):
    return (g - 1) // s + 1


def accepts(case, i, j, k):
    """The work-group filter of the case, evaluated independently of the Go code."""
    f = case['filter']
    G, S = case['g'], case['s']
    kind = f['kind']
    if kind in ('nil', 'all'):
        return True
    if kind == 'mod':
        return (f['a'] * i + f['b'] * j + f['c'] * k + f['d']) % f['m'] < f['t']
    if kind == 'range':
        flat = k * nwg(G[0], S[0]) * nwg(G[1], S[1]) + j * nwg(G[0], S[0]) + i
        return f['d'] <= flat < f['t']
    if kind == 'full':
        return all(min(S[d], G[d] - (i, j, k)[d] * S[d]) == S[d] for d in range(3))
    raise ValueError(kind)


def expected_wgs(case):
    G, S = case['g'], case['s']
    n = [nwg(G[d], S[d]) for d in range(3)]
    out = [(i, j, k) for k in range(n[2]) for j in range(n[1]) for i in range(n[0]) if accepts(case, i, j, k)]
    return out


def lane_ids(regs, lane, interp, vgpr):
    """Work-item IDs as a kernel reads them from v0..v2 of one lane: a V5 kernel
    unpacks v0; a V2/V3 kernel reads the registers the code object enables."""
    v0, v1, v2 = regs[3 * lane:3 * lane + 3]
    if interp == 'v5':
        return [v0 & 1023, (v0 >> 10) & 1023, (v0 >> 20) & 1023]
    return [v0, v1 if vgpr > 0 else None, v2 if vgpr > 1 else None]


SGPR_SIZES = [4, 2, 2, 2, 2, 2, 1, 1, 1, 1, 1, 1, 1]   # dwords of the inputs, in ABI order (bit k of 'sgpr')
DEFAULT_SGPR = 1 << 3 | 1 << 10 | 1 << 11 | 1 << 12


def abi_slot(mask, k):
    """SGPR number of input k: the dwords of the enabled inputs before it (None if disabled)"""
    if not (mask >> k) & 1:
        return None
    return sum(SGPR_SIZES[j] for j in range(k) if (mask >> j) & 1)


def executed(case, mode, interp):
    """multiset of global IDs (projected on the components the hardware provides) over
    all enabled lanes, as initialised by `mode` (emu / tim)"""
    S, vgpr = case['s'], case['vgpr']
    comps = [0, 1, 2] if interp == 'v5' else [d for d in range(3) if d == 0 or vgpr >= d]
    mask = case.get('sgpr', DEFAULT_SGPR)
    slots = [abi_slot(mask, 10 + d) for d in range(3)]
    # a coordinate is known to the kernel only if both its work-group ID and its work-item ID are provided
    comps = [d for d in comps if slots[d] is not None]
    have = collections.Counter()
    for w in case['wgs']:
        for f in w['wfs']:
            # a register the initialiser did not write holds 0 in a fresh register file (most lenient reading)
            wgid = [(0 if f[mode + '_s'][slots[d]] == UNWRITTEN else f[mode + '_s'][slots[d]])
                    if slots[d] is not None else None for d in range(3)]
            for lane in range(64):
                if (f['exec'] >> lane) & 1:
                    ids = lane_ids(f[mode], lane, interp, vgpr)
                    have[tuple(wgid[d] * S[d] + ids[d] for d in comps)] += 1
    return have, comps


def grid_points(case, wgs, comps):
    G, S = case['g'], case['s']
    want = collections.Counter()
    for ijk in wgs:
        rng = [range(c * S[d], min(G[d], (c + 1) * S[d])) for d, c in enumerate(ijk)]
        for p in itertools.product(*rng):
            want[tuple(p[d] for d in comps)] += 1
    return want


def monitor(case):
    """Property C08 on what the implementation did.  Returns (violation text or None,
    known-finding text or None).  Sound: flags only behaviour C08 forbids."""
    if case.get('crash'):
        return 'the grid builder / register initialisation panicked: %s' % case['crash'], None
    G = case['g']
    exp = expected_wgs(case)
    kind = case['filter']['kind']
    # the ID-only filters are the ones the property speaks about ("full" looks at current sizes)
    if kind != 'full' and case['numwg'] != len(exp):
        return 'NumWG announces %d work-groups, the filter accepts %d' % (case['numwg'], len(exp)), None
    exp = exp[case.get('skip', 0):]
    got = [tuple(w['id']) for w in case['wgs']]
    if sorted(got) != sorted(exp):
        miss = sorted(set(exp) - set(got))[:3]
        extra = sorted(set(got) - set(exp))[:3]
        dup = [x for x, c in collections.Counter(got).items() if c > 1][:3]
        return ('produced work-groups differ from the accepted ones: %d produced, %d expected; missing %s, '
                'unexpected %s, duplicated %s' % (len(got), len(exp), miss, extra, dup)), None
    if not case.get('nil_stable', True):
        return 'NextWG returned a work-group after it had returned nil', None
    for w in case['wgs']:
        for f in w['wfs']:
            for mode in ('emu', 'tim'):
                if f[mode + '_exec'] != f['exec']:
                    return '%s EXEC %#x differs from InitExecMask %#x in work-group %s' % (
                        mode, f[mode + '_exec'], f['exec'], w['id']), None
    interp = 'v5' if case['ver'] == 5 else 'v3'
    known = None
    for mode in ('emu', 'tim'):
        have, comps = executed(case, mode, interp)
        want = grid_points(case, exp, comps)
        if have == want:
            continue
        if mode == 'tim' and interp == 'v5':
            # known class: the registers are a correct *unpacked* ID set
            h3, c3 = executed(case, mode, 'v3')
            if h3 == grid_points(case, exp, c3):
                known = KNOWN_TIMING_V5
                continue
        never = sorted((want - have).keys())[:4]
        extra = sorted((have - want).keys())[:4]
        outside = sorted(p for p in have if any(not (0 <= p[n] < G[d]) for n, d in enumerate(comps)))[:4]
        return ('%s: the global IDs of the enabled lanes are not the grid: %d lane(s) enabled for %d work-item(s); '
                'never executed %s; executed twice or unexpected %s; outside the grid %s (ID components %s)'
                % (mode, sum(have.values()), sum(want.values()), never, extra, outside, comps)), None
    return None, known


def strip(case):
    return {k: case[k] for k in ('g', 's', 'filter', 'ver', 'vgpr', 'sgpr', 'skip', 'sample') if k in case}


def run_impl(binary, cases=None, seed=1, n=100):
    tmp = os.path.join(vlib.BUILD, 'c08_%d.json' % os.getpid())
    if cases is not None:
        inp = tmp + '.in'
        json.dump(cases, open(inp, 'w'))
        rc, log = vlib.run([binary, '--replay', inp, '--out', tmp])
        os.remove(inp)
    else:
        rc, log = vlib.run([binary, '--seed', str(seed), '--n', str(n), '--out', tmp])
    if rc != 0:
        return None, log
    out = json.load(open(tmp))
    os.remove(tmp)
    return out, log


def brief(case):
    """a case without the bulky register dumps (for replay files)"""
    o = copy.deepcopy(case)
    o.pop('coq', None)
    for w in o.get('wgs') or []:
        for f in w['wfs']:
            f.pop('emu', None)
            f.pop('tim', None)
    return o


def nontrivial(case):
    """at least one partial work-group, or a filter that rejects something"""
    partial = any(w['cur'] != w['size'] for w in case['wgs'])
    G, S = case['g'], case['s']
    total = nwg(G[0], S[0]) * nwg(G[1], S[1]) * nwg(G[2], S[2])
    return partial or len(case['wgs']) < total


def shrink(binary, case):
    """greedy shrinking of a case that fails the monitor"""
    def fails(c):
        out, _ = run_impl(binary, cases=[strip(c)])
        return bool(out) and monitor(out[0])[0] is not None
    cur = strip(case)
    cur['sample'] = [[0, 0]]
    changed = True
    budget = 120
    while changed and budget > 0:
        changed = False
        cands = []
        if cur['filter']['kind'] != 'nil':
            cands.append(dict(cur, filter={'kind': 'nil', 'a': 0, 'b': 0, 'c': 0, 'd': 0, 'm': 0, 't': 0}))
        if cur.get('skip'):
            cands.append(dict(cur, skip=0))
        for k in range(10):   # drop SGPR inputs other than the work-group IDs
            if (cur.get('sgpr', 0) >> k) & 1:
                cands.append(dict(cur, sgpr=cur['sgpr'] & ~(1 << k)))
        for key in ('g', 's'):
            for d in (2, 1, 0):
                v = cur[key][d]
                for nv in (1, v // 2, v - 1):
                    if 1 <= nv < v:
                        c = dict(cur)
                        c[key] = list(cur[key])
                        c[key][d] = nv
                        cands.append(c)
        for c in cands:
            budget -= 1
            if budget <= 0:
                break
            if fails(c):
                cur = c
                changed = True
                break
    return cur


# ---------------------------------------------------------------- sequences of unified multi-GPU launches

LHEADER = ('From Coq Require Import ZArith List.\nImport ListNotations.\n'
           'From VGrid Require Import Grid Launches.\nOpen Scope Z_scope.\n')


def lstrip(case):
    return {'cus': case['cus'], 'sched': case.get('sched', 1),
            'launches': [{'g': l['g'], 's': l['s'], 'queue': l.get('queue', 0)} for l in case['launches']]}


def run_launch_impl(binary, cases=None, seed=1, n=50):
    tmp = os.path.join(vlib.BUILD, 'c08l_%d.json' % os.getpid())
    if cases is not None:
        inp = tmp + '.in'
        json.dump(cases, open(inp, 'w'))
        rc, log = vlib.run([binary, '--launches', '--replay', inp, '--out', tmp])
        os.remove(inp)
    else:
        rc, log = vlib.run([binary, '--launches', '--seed', str(seed), '--n', str(n), '--out', tmp])
    if rc != 0:
        return None, log
    out = json.load(open(tmp))
    os.remove(tmp)
    return out, log


def monitor_launches(case):
    """C08 for launches that are in flight together: the requests of every launch
    partition that launch's own grid.  Independent of the model."""
    if case.get('crash'):
        return 'the driver / grid builder panicked: %s' % case['crash']
    for k, l in enumerate(case['launches']):
        n = [nwg(l['g'][d], l['s'][d]) for d in range(3)]
        total = n[0] * n[1] * n[2]
        where = 'launch %d of %d (grid %s, work-group %s, queue %d, %d GPUs with CUs %s)' % (
            k, len(case['launches']), l['g'], l['s'], l['queue'], len(case['cus']), case['cus'])
        if not l['reqs']:
            return where + ': no LaunchKernelReq reached any GPU'
        for r in l['reqs']:
            if r['numwg'] != len(r['produced']):
                return where + ': GPU %d announces %d work-groups, its grid builder produces %d' % (
                    r['gpu'], r['numwg'], len(r['produced']))
        seen = collections.Counter(tuple(p) for r in l['reqs'] for p in r['produced'])
        announced = sum(r['numwg'] for r in l['reqs'])
        allids = set(itertools.product(range(n[0]), range(n[1]), range(n[2])))
        missing = sorted(allids - set(seen))
        dup = sorted(p for p, c in seen.items() if c > 1)
        foreign = sorted(set(seen) - allids)
        if announced != total or missing or dup or foreign:
            return where + (': %d work-groups in the grid, %d announced and %d produced over all GPUs; never produced %s%s; '
                            'produced twice %s; not in the grid %s' % (
                                total, announced, sum(seen.values()), missing[:4], '...' if len(missing) > 4 else '',
                                dup[:4], foreign[:4]))
    return None


def shrink_launches(binary, case):
    def fails(c):
        out, _ = run_launch_impl(binary, cases=[c])
        return bool(out) and monitor_launches(out[0]) is not None
    cur = lstrip(case)
    budget = 60
    changed = True
    while changed and budget > 0:
        changed = False
        cands = []
        if len(cur['launches']) > 1:
            for k in range(len(cur['launches'])):
                cands.append(dict(cur, launches=cur['launches'][:k] + cur['launches'][k + 1:]))
        if len(cur['cus']) > 1:
            for k in range(len(cur['cus'])):
                cands.append(dict(cur, cus=cur['cus'][:k] + cur['cus'][k + 1:]))
        for k, l in enumerate(cur['launches']):
            for key in ('g', 's'):
                for d in (2, 1, 0):
                    v = l[key][d]
                    for nv in (1, v // 2):
                        if 1 <= nv < v:
                            l2 = dict(l)
                            l2[key] = list(l[key])
                            l2[key][d] = nv
                            cands.append(dict(cur, launches=cur['launches'][:k] + [l2] + cur['launches'][k + 1:]))
        for c in cands:
            budget -= 1
            if budget <= 0:
                break
            if fails(c):
                cur = c
                changed = True
                break
    return cur


def launch_part(rep, binary, thorough, replay_cases):
    n = 800 if thorough else 90
    if replay_cases is not None:
        cases, log = run_launch_impl(binary, cases=[lstrip(c) for c in replay_cases])
        cases = cases or []
    else:
        cases = []
        p = os.path.join(vlib.ROOT, 'corpus', PROP, 'launches-seq.json')
        if os.path.exists(p):
            cases, log = run_launch_impl(binary, cases=[lstrip(c) for c in json.load(open(p))])
            cases = cases or []
        gen, log = run_launch_impl(binary, seed=vlib.seed(), n=n)
        if gen is None:
            rep.obligation('harness run (launch sequences)', False)
            rep.violation({'broken': 'harness run (--launches) failed', 'log': log[-4000:]}, nofail=True)
            return
        cases += gen
    bad = [(i, m) for i, m in ((i, monitor_launches(c)) for i, c in enumerate(cases)) if m]
    okc, mism, clog = vlib.eval_cases(PROP, LHEADER, [c['coq'] for c in cases], shard_size=12,
                                      checker='lmismatches', ty='lcase')
    rep.obligation('correspondence: %d sequences of overlapping unified multi-GPU launches evaluated by the model'
                   % len(cases), okc and not mism)
    rep.coverage.update({
        'launch_sequences': len(cases),
        'launches': sum(len(c['launches']) for c in cases),
        'launch_sequences_on_two_queues': sum(1 for c in cases if len({l['queue'] for l in c['launches']}) > 1),
        'launch_sequences_with_different_wg_counts': sum(
            1 for c in cases if len({nwg(l['g'][0], l['s'][0]) * nwg(l['g'][1], l['s'][1]) * nwg(l['g'][2], l['s'][2])
                                     for l in c['launches']}) > 1),
        'launch_requests': sum(len(l['reqs']) for c in cases for l in c['launches']),
        'launch_model_mismatches': len(mism), 'launch_monitor_failures': len(bad),
    })
    if not bad and (mism or not okc) and replay_cases is None:
        for extra in range(1, 5):
            more, _ = run_launch_impl(binary, seed=vlib.seed() * 1000 + extra, n=300)
            for c in more or []:
                m = monitor_launches(c)
                if m:
                    cases.append(c)
                    bad.append((len(cases) - 1, m))
                    break
            if bad:
                break
    if bad:
        i, msg = bad[0]
        small = shrink_launches(binary, cases[i])
        out, _ = run_launch_impl(binary, cases=[small])
        if not out or monitor_launches(out[0]) is None:
            out = [cases[i]]
        what = monitor_launches(out[0])
        o = copy.deepcopy(out[0])
        o.pop('coq', None)
        rep.violation({'property': PROP, 'kind': 'launches', 'what': what, 'case': o,
                       'replay_cmd': './check C08 --replay <this file>'}, text=what)
    elif mism or not okc:
        i, k = mism[0] if mism else (0, 0)
        o = copy.deepcopy(cases[i]) if cases else None
        if o:
            o.pop('coq', None)
        rep.violation({'property': PROP, 'kind': 'launches',
                       'broken': 'correspondence between coq/grid/Launches.v and the driver\'s unified multi-GPU launch '
                       '(distributeWGToGPUs + WGFilter closures): code %d of sequence %d (1000+k = the requests of launch k '
                       'differ, 2000+k = the model panics, 9 = crash)' % (k, i),
                       'case': o, 'code': k, 'log': clog[-2000:]}, nofail=True,
                      text='launch sequences: model/implementation mismatch at sequence %d (code %d)' % (i, k))


def main(argv):
    rep = vlib.Report(PROP, 'proof')
    rep.checker_cmd = ('make -C coq props/C08.vo && coqc props/C08.v (Print Assumptions) && '
                       'coqc cases/C08/s*.v (vm_compute mismatches)')
    rep.trusted = ['Coq 8.16.1 kernel + vm_compute',
                   'hand-written model coq/grid/Grid.v of amd/kernels/gridbuilder.go, grid.go and of the lane-ID loops of '
                   'amd/emu/computeunit.go initWfRegs / amd/timing/cu/wfdispatcher.go initRegisters (checked by sampling)',
                   'Go harness harness/cmd/c08 and hook amd/emu/verif_export_c08.go',
                   'Go int arithmetic does not overflow for uint32 extents / uint16 group sizes (all values non-negative, '
                   'so / and % are Z.div and Z.modulo)']
    rep.assumptions = ['grid extents >= 1 and work-group sizes >= 1 (no other bound) for the partition theorem; '
                       'work-group sizes < 2^32 for the register statements and <= 1024 for the V5 packing; '
                       'NumWG theorem: the filter looks at work-group IDs only (true of the driver\'s filter)']
    thorough = vlib.tier() == 'thorough'
    n = 4000 if thorough else 320

    replay_file = None
    replay_launches = None
    if '--replay' in argv:
        replay_file = argv[argv.index('--replay') + 1]

    ok, log, binary = vlib.go_build('c08')
    rep.obligation('harness builds against the repo working tree (%s)' % vlib.REPO, ok)
    if not ok:
        rep.violation({'broken': 'go build of harness/cmd/c08 against the repo failed', 'log': log[-4000:]}, nofail=True,
                      text='harness build failed')
        return rep.finish()

    ok, log = vlib.coq_build(COQ_TARGETS)
    okp, plog, thms = vlib.coq_check_props(PROP) if ok else (False, log, [])
    if not (ok and okp):
        rep.obligation('coq build', False)
        rep.violation({'broken': 'Coq development for C08 does not compile', 'log': (log + plog)[-4000:]}, nofail=True)
        return rep.finish()
    for name, axioms in thms:
        rep.obligation('theorem ' + name + (' [axioms: %s]' % ', '.join(axioms) if axioms else ' [closed under the global context]'), True)

    # ---- run the implementation
    if replay_file:
        obj = json.load(open(replay_file))
        if isinstance(obj, dict) and obj.get('kind') == 'launches':
            replay_launches = obj.get('case') or obj.get('cases')
            replay_launches = replay_launches if isinstance(replay_launches, list) else [replay_launches]
            cases = []
        else:
            src = obj.get('case') or obj.get('cases') or obj
            src = src if isinstance(src, list) else [src]
            cases, log = run_impl(binary, cases=[strip(c) for c in src])
            cases = cases or []
    else:
        corpus = []
        cdir = os.path.join(vlib.ROOT, 'corpus', PROP)
        for p in sorted(os.listdir(cdir)) if os.path.isdir(cdir) else []:
            if p.endswith('.json') and not p.startswith('launches'):
                corpus += json.load(open(os.path.join(cdir, p)))
        cases = []
        if corpus:
            cases, log = run_impl(binary, cases=[strip(c) for c in corpus])
            cases = cases or []
        gen, log = run_impl(binary, seed=vlib.seed(), n=n)
        if gen is None:
            rep.obligation('harness run', False)
            rep.violation({'broken': 'harness run failed', 'log': log[-4000:]}, nofail=True)
            return rep.finish()
        cases += gen

    # ---- property monitor on what the implementation did
    res = [monitor(c) for c in cases]
    bad = [(i, r[0]) for i, r in enumerate(res) if r[0]]
    known = sorted({r[1] for r in res if r[1]})
    for k in known:
        rep.known_finding(k + ' (seen in %d case(s))' % sum(1 for r in res if r[1] == k), key='timing-v5-ids-unpacked')
    # ---- correspondence with the model
    okc, mism, clog = vlib.eval_cases(PROP, HEADER, [c['coq'] for c in cases], shard_size=24, ty='ccase')
    rep.obligation('correspondence: %d geometries evaluated by the model' % len(cases), okc and not mism)

    dims = collections.Counter(sum(1 for d in range(3) if c['g'][d] > 1 or c['s'][d] > 1) for c in cases)
    rep.coverage.update({
        'evaluations': len(cases),
        'distinct_nontrivial': len({vlib.case_hash(strip(c)) for c in cases if nontrivial(c)}),
        'rule': 'stratified geometries: 1-/2-/3-D, group sizes 1..16 per axis (1-D up to 1024, 2-D rows up to 64), '
                'product <= 1024, extents m*S+{-1,0,+1,random}; filters nil/all/modular/flattened-range (1-4 GPUs)/'
                'current-size dependent; V3 and V5 objects, EnableVgprWorkItemID 0..2; Skip; non-trivial = at least one '
                'partial work-group or a filter that rejects a work-group',
        'traces_validated_against_impl': len(cases),
        'dimension_histogram': {str(k): v for k, v in sorted(dims.items())},
        'filter_histogram': dict(collections.Counter(c['filter']['kind'] for c in cases)),
        'work_groups': sum(len(c['wgs']) for c in cases),
        'partial_work_groups': sum(1 for c in cases for w in c['wgs'] if w['cur'] != w['size']),
        'wavefronts': sum(len(w['wfs']) for c in cases for w in c['wgs']),
        'sparse_wavefronts': sum(1 for c in cases for w in c['wgs'] for f in w['wfs']
                                 if f['exec'] & (f['exec'] + 1) != 0),
        'rows_not_dividing_64': sum(1 for c in cases if 64 % c['s'][0] != 0),
        'v5_cases': sum(1 for c in cases if c['ver'] == 5),
        'wgid_sgpr_enable_histogram_xyz': {format(k, '03b')[::-1]: v for k, v in sorted(collections.Counter((c.get('sgpr', DEFAULT_SGPR) >> 10) & 7 for c in cases).items())},
        'distinct_sgpr_enable_masks': len({c.get('sgpr', DEFAULT_SGPR) for c in cases}),
        'cases_with_more_than_one_wg_in_every_dimension': sum(1 for c in cases if all(nwg(c['g'][d], c['s'][d]) > 1 for d in range(3))),
        'skip_cases': sum(1 for c in cases if c.get('skip')),
        'model_mismatches': len(mism), 'monitor_failures': len(bad),
    })
    rep.samples = [{'g': c['g'], 's': c['s'], 'filter': c['filter']['kind'], 'numwg': c['numwg'],
                    'wgs': [(w['id'], w['cur'], [(f['first'], hex(f['exec'])) for f in w['wfs']]) for w in c['wgs'][:3]]}
                   for c in cases[:3]]

    if not bad and (mism or not okc) and not replay_file:
        # model and code disagree but no property violation yet: look harder for a failing input
        for extra in range(1, 6):
            more, _ = run_impl(binary, seed=vlib.seed() * 1000 + extra, n=600)
            for c in more or []:
                m, _k = monitor(c)
                if m:
                    cases.append(c)
                    bad.append((len(cases) - 1, m))
                    break
            if bad:
                break

    if bad:
        i, msg = bad[0]
        c = cases[i]
        small = shrink(binary, c)
        out, _ = run_impl(binary, cases=[small])
        if not out or monitor(out[0])[0] is None:
            out = [c]
        what = monitor(out[0])[0]
        rep.violation({'property': PROP, 'what': what, 'case': brief(out[0]),
                       'replay_cmd': './check C08 --replay <this file>'}, text=what)
    elif mism or not okc:
        i, k = mism[0] if mism else (0, 0)
        c = brief(cases[i]) if cases else None
        rep.violation({'property': PROP, 'broken': 'correspondence between coq/grid/Grid.v and the grid builder / register '
                       'initialisers: observation code %d of case %d differs (1 = NumWG, 1000+k = work-group k, 3 = nil not '
                       'stable, 100+k = sampled wavefront k registers, 9 = crash); the theorems of props/C08.v no longer speak '
                       'about this code' % (k, i),
                       'case': c, 'code': k, 'log': clog[-2000:]}, nofail=True,
                      text='model/implementation mismatch at case %d (code %d); no property violation found' % (i, k))
    if replay_launches is not None or not replay_file:
        launch_part(rep, binary, thorough, replay_launches)
    return rep.finish()


if __name__ == '__main__':
    sys.exit(main(sys.argv[1:]))
