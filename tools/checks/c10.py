"""C10 - device memory management.  Theorems: coq/props/C10.v over
coq/drv/Alloc.v (list allocator, mirror, page table, contexts) and
coq/drv/Buddy.v (buddy allocator).  Tie: call-exact correspondence between a
real standalone driver.Driver (harness/cmd/c10) and the Gallina model on random
multi-process API histories, plus a monitor that evaluates the property on the
page-table / free-list snapshots the implementation produced."""
import json, os, sys, collections
sys.path.insert(0, os.path.dirname(os.path.dirname(os.path.abspath(__file__))))
import vlib

PROP = 'C10'
HEADER = 'From Coq Require Import List NArith Bool.\nImport ListNotations.\nFrom VDrv Require Import Alloc.\nOpen Scope N_scope.\n'
COQ_TARGETS = ['props/C10.vo']
MAXFREE = 128


def npages(ps, n):
    return (n - 1) // ps + 1


def monitor(case):
    """Property C10 evaluated on the observed snapshots.  Returns a description
    of the first violation or None.  Sound: only flags behaviour the property
    forbids (judged from the page table, the free lists and the returned
    pointers; `valid` = the call respects the API contract and capacity)."""
    ps = 1 << case['lps']
    ctx_pid, ctx_cur = [], []
    members = {}
    returned = collections.defaultdict(list)   # pid -> [(ptr, npages)]
    live_bufs = {}                               # (pid, ptr) -> npages
    prev_pages, prev_devs, prev_bufs = {}, None, []
    for idx, o in enumerate(case['ops']):
        tag = 'call %d (%s): ' % (idx, o['op'])
        if o.get('crash'):
            if o.get('valid'):
                return tag + 'the driver panicked on a call inside its contract and capacity: ' + o['crash']
            return None
        snap = o.get('snap') or {}
        devs = snap.get('devs') or []
        if not devs:
            return None   # partial observation (no snapshot): nothing can be judged from here on
        pages = {}
        for p in snap.get('pages') or []:
            pages[(p[0], p[1])] = p
        # ---- state invariant
        seen_pa = {}
        for (pid, va), p in pages.items():
            pa, dv = p[2], p[3]
            if p[5] != 1:
                return tag + 'page (%d,%#x) is invalid, has a wrong page size or a wrong key' % (pid, va)
            if va % ps or pa % ps:
                return tag + 'page (%d,%#x)->%#x is not page aligned' % (pid, va, pa)
            if dv >= len(devs) or not (devs[dv]['base'] <= pa < devs[dv]['base'] + devs[dv]['size']):
                return tag + 'page (%d,%#x)->%#x lies outside device %d recorded for it' % (pid, va, pa, dv)
            if pa in seen_pa:
                return tag + 'physical page %#x is mapped twice: %s and (%d,%#x)' % (pa, seen_pa[pa], pid, va)
            seen_pa[pa] = '(%d,%#x)' % (pid, va)
        if not case.get('buddy'):
            for di, d in enumerate(devs):
                fl = d['free']
                if len(set(fl)) != len(fl):
                    return tag + 'free list of device %d holds a page twice' % di
                for f in fl:
                    if f in seen_pa:
                        return tag + 'live physical page %#x (%s) is on the free list of device %d' % (f, seen_pa[f], di)
                    if f % ps or not (d['base'] <= f < d['base'] + d['size']):
                        return tag + 'free list of device %d holds %#x, not a page of that device' % (di, f)
        if o.get('skip'):
            prev_pages, prev_devs, prev_bufs = pages, devs, snap.get('bufs') or []
            continue
        # ---- effect of this call
        changed = {k for k in set(pages) | set(prev_pages) if pages.get(k) != prev_pages.get(k)}
        allowed = set()
        op = o['op']
        c = o.get('c', 0)
        pid = ctx_pid[c] if c < len(ctx_pid) else None
        if op in ('init', 'initpid'):
            ctx_pid.append(o['ret'][0])
            ctx_cur.append(1)
            if op == 'initpid' and o['ret'][0] != pid:
                return tag + 'InitWithExistingPID returned a different process'
            if op == 'init' and o['ret'][0] in ctx_pid[:-1]:
                return tag + 'Init reused a process ID'
        elif op == 'unify':
            members[o['ret'][0]] = list(o.get('ids', []))
        elif op == 'select':
            ctx_cur[c] = o.get('d', 0)
        elif op in ('alloc', 'allocu'):
            ptr, n = o['ret'][0], npages(ps, o.get('n', 0))
            if ptr % ps:
                return tag + 'returned pointer %#x is not page aligned' % ptr
            for (q, m) in returned[pid]:
                if ptr < q + m * ps and q < ptr + n * ps:
                    return tag + 'buffer %#x (+%d pages) overlaps buffer %#x (+%d pages) of the same process' % (ptr, n, q, m)
            returned[pid].append((ptr, n))
            live_bufs[(pid, ptr)] = n
            target = ctx_cur[c] if op == 'alloc' else 1
            for i in range(n):
                k = (pid, ptr + i * ps)
                allowed.add(k)
                if k not in pages:
                    return tag + 'page %#x of the new buffer is not mapped' % k[1]
                p = pages[k]
                if (p[4] == 1) != (op == 'allocu'):
                    return tag + 'unified flag of page %#x is wrong' % k[1]
                if target in members:
                    if p[3] not in members[target]:
                        return tag + 'page %#x was placed on device %d, not a member of unified device %d' % (k[1], p[3], target)
                elif p[3] != target:
                    return tag + 'page %#x was placed on device %d instead of %d' % (k[1], p[3], target)
                if k in prev_pages:
                    return tag + 'virtual page %#x was already mapped' % k[1]
        elif op == 'free':
            n = live_bufs.get((pid, o.get('a', 0)))
            if o.get('valid') and n is not None:
                del live_bufs[(pid, o.get('a', 0))]
                for i in range(n):
                    k = (pid, o.get('a', 0) + i * ps)
                    allowed.add(k)
                    if k in pages:
                        return tag + 'page %#x of the freed buffer is still mapped' % k[1]
                    if k not in prev_pages:
                        continue
                    pa, dv = prev_pages[k][2], prev_pages[k][3]
                    if not case.get('buddy') and devs[dv]['nfree'] <= MAXFREE and pa not in devs[dv]['free']:
                        return tag + 'physical page %#x of the freed buffer was not returned to device %d' % (pa, dv)
                if not case.get('buddy') and prev_devs is not None:
                    delta = sum(d['nfree'] for d in devs) - sum(d['nfree'] for d in prev_devs)
                    if delta != n:
                        return tag + 'freeing %d pages made %d pages reusable' % (n, delta)
            else:
                allowed = set(changed)   # outside the contract: only the state invariant is claimed
                for k in changed:
                    live_bufs.pop(k, None)
        elif op in ('remap', 'dist', 'mig'):
            if op == 'mig':
                rng = [(pid, o.get('a', 0))]
            else:
                rng = [(pid, o.get('a', 0) + i * ps) for i in range(npages(ps, o.get('n', 0)) if o.get('n', 0) else 0)]
            allowed = set(rng)
            if o.get('valid'):
                if op == 'dist' and len(o.get('ids', [])) > 1 and sum(o['ret']) != len(rng) * ps:
                    return tag + 'Distribute reports %s bytes for %d pages' % (o['ret'], len(rng))
                if op == 'dist' and len(o.get('ids', [])) == 1 and (changed or o['ret'] != [o.get('n', 0)]):
                    return tag + 'Distribute over one GPU must not move anything'
                for k in rng:
                    if k not in pages:
                        return tag + 'page %#x disappeared' % k[1]
                    p = pages[k]
                    if op == 'remap':
                        tgt = members.get(o.get('d', 0), [o.get('d', 0)])
                    elif op == 'dist':
                        tgt = o.get('ids', []) if len(o.get('ids', [])) > 1 else [prev_pages[k][3]]
                    else:
                        tgt = [o.get('d', 0) + 1]
                    if p[3] not in tgt:
                        return tag + 'page %#x is on device %d, expected one of %s' % (k[1], p[3], tgt)
                if op == 'mig' and (o['ret'][0] != pages[rng[0]][2] or o['ret'][1] != prev_pages[rng[0]][2]):
                    return tag + 'migration preparation reported the wrong physical pages'
                if op in ('remap', 'dist') and not case.get('buddy') and prev_devs is not None and len(devs) == len(prev_devs):
                    # conservation: the previous physical pages of the range go back to their devices
                    delta = sum(d['nfree'] for d in devs) - sum(d['nfree'] for d in prev_devs)
                    if delta != 0:
                        return tag + 'the call lost %d physical pages (free + live is no longer the whole device)' % (-delta)
        elif op == 'rmfreed':
            pass
        extra = changed - allowed
        if extra:
            k = sorted(extra)[0]
            return tag + 'the call changed page (%d,%#x), which it must not touch: %s -> %s' % (k[0], k[1], prev_pages.get(k), pages.get(k))
        # no physical page handed out while live
        prev_pa = {p2[2]: k2 for k2, p2 in prev_pages.items()}
        for k in changed:
            if k in pages:
                pa = pages[k][2]
                if pa in prev_pa and prev_pa[pa] != k:
                    k2 = prev_pa[pa]
                    # Remap/Distribute give the previous pages of the range back and may take them again
                    # within the same call; it is a double hand-out only if the old owner still has the page
                    if k2 in pages and pages[k2][2] == pa:
                        return tag + 'physical page %#x handed out to (%d,%#x) while live as (%d,%#x)' % ((pa,) + k + k2)
                    continue
                if pa in prev_pa:
                    continue
                if not case.get('buddy') and prev_devs is not None:
                    dv = pages[k][3]
                    if dv < len(prev_devs) and prev_devs[dv]['nfree'] <= MAXFREE and pa not in prev_devs[dv]['free']:
                        return tag + 'physical page %#x was handed out but was not on the free list of device %d' % (pa, dv)
        # buffer bookkeeping of the contexts
        bufs = snap.get('bufs') or []
        for ci, row in enumerate(bufs):
            old = prev_bufs[ci] if ci < len(prev_bufs) else []
            trip = lambda r: [tuple(r[i:i + 3]) for i in range(0, len(r), 3)]
            exp = trip(old)
            if ci == c and op in ('alloc', 'allocu'):
                exp = exp + [(o['ret'][0], o.get('n', 0), 0)]
            elif ci == c and op == 'free':
                exp = [(a, s, 1 if a == o.get('a', 0) else f) for (a, s, f) in exp]
            elif ci == c and op == 'rmfreed':
                exp = [(a, s, f) for (a, s, f) in exp if not f]
            if trip(row) != exp:
                return tag + 'buffer list of context %d is %s, expected %s' % (ci, trip(row), exp)
        prev_pages, prev_devs, prev_bufs = pages, devs, bufs
    return None


def strip(case):
    keys = ('op', 'c', 'n', 'a', 'd', 'ids')
    return {'lps': case['lps'], 'buddy': case.get('buddy', False), 'gpus': case['gpus'], 'hostile': case.get('hostile', False), 'large': case.get('large', False),
            'ops': [{k: o[k] for k in keys if k in o} for o in case['ops']]}


def run_impl(binary, cases=None, seed=1, n=100, buddy_every=0, large_every=0):
    tmp = os.path.join(vlib.BUILD, 'c10_%d.json' % os.getpid())
    if cases is not None:
        inp = tmp + '.in'
        json.dump(cases, open(inp, 'w'))
        rc, log = vlib.run([binary, '--replay', inp, '--out', tmp])
        os.remove(inp)
    else:
        rc, log = vlib.run([binary, '--seed', str(seed), '--n', str(n), '--buddy-every', str(buddy_every), '--large-every', str(large_every), '--out', tmp])
    if rc != 0:
        return None, log
    out = json.load(open(tmp))
    os.remove(tmp)
    return out, log


def nontrivial(case):
    ops = [o['op'] for o in case['ops']]
    return ops.count('alloc') + ops.count('allocu') >= 3 and 'free' in ops and len(((case['ops'][-1].get('snap') or {}).get('pages')) or []) >= 1


def slim(case, keep=3):
    """replay files: drop the per-call snapshots except around the end"""
    c = dict(case)
    c.pop('coq', None)
    ops = []
    for i, o in enumerate(case['ops']):
        o2 = dict(o)
        if i < len(case['ops']) - keep:
            o2.pop('snap', None)
        ops.append(o2)
    c['ops'] = ops
    return c


def main(argv):
    rep = vlib.Report(PROP, 'proof')
    rep.checker_cmd = 'make -C coq props/C10.vo && coqc props/C10.v (Print Assumptions) && coqc cases/C10/s*.v (vm_compute mismatches)'
    rep.trusted = ['Coq 8.16.1 kernel + vm_compute',
                   'hand-written model coq/drv/Alloc.v of amd/driver (memoryallocator.go, device.go, devicememstateinterface.go, api.go, distributor.go, context.go, preparePageForMigration) '
                   'and coq/drv/Buddy.v of devicebuddymemstate.go/buddystructures.go',
                   'akita vm.PageTable modelled as a keyed list (Insert/Update/Remove panic as in pagetable.go)',
                   'Go harness harness/cmd/c10 and the verif-tagged exports amd/driver/verif_export.go, amd/driver/internal/verif_export.go',
                   'no uint64 overflow (addresses < 2^45), device sizes are multiples of the page size']
    rep.assumptions = ['theorems: any finite sequence of API calls with arbitrary arguments by any number of contexts/processes '
                       '(migration preparation only towards ordinary devices); the sampled histories only decide whether the real driver still behaves like the model',
                       'after a Go panic the driver state is not modelled']
    thorough = vlib.tier() == 'thorough'
    n = 4000 if thorough else 300

    replay_file = argv[argv.index('--replay') + 1] if '--replay' in argv else None

    ok, log, binary = vlib.go_build('c10')
    rep.obligation('harness builds against the repo working tree', ok)
    if not ok:
        rep.violation({'broken': 'go build of harness/cmd/c10 against the repo failed', 'log': log[-4000:]}, nofail=True,
                      text='harness build failed')
        return rep.finish()

    ok, log = vlib.coq_build(COQ_TARGETS)
    okp, plog, thms = vlib.coq_check_props(PROP) if ok else (False, log, [])
    if not (ok and okp):
        rep.obligation('coq build', False)
        rep.violation({'broken': 'Coq development for C10 does not compile', 'log': (log + plog)[-4000:]}, nofail=True)
        return rep.finish()
    for name, axioms in thms:
        rep.obligation('theorem ' + name + (' [axioms: %s]' % ', '.join(axioms) if axioms else ' [closed under the global context]'), True)

    # ---- run the implementation
    ncorpus = 0
    if replay_file:
        obj = json.load(open(replay_file))
        src = obj.get('case') or obj.get('cases') or obj
        src = src if isinstance(src, list) else [src]
        cases, log = run_impl(binary, cases=[strip(c) for c in src])
        cases = cases or []
    else:
        cases = []
        cdir = os.path.join(vlib.ROOT, 'corpus', PROP)
        corpus = []
        for p in sorted(os.listdir(cdir)) if os.path.isdir(cdir) else []:
            corpus += json.load(open(os.path.join(cdir, p)))
        if corpus:
            cases, log = run_impl(binary, cases=[strip(c) for c in corpus])
            cases = cases or []
            ncorpus = len(cases)
        gen, log = run_impl(binary, seed=vlib.seed(), n=n, buddy_every=6, large_every=10)
        if gen is None:
            rep.obligation('harness run', False)
            rep.violation({'broken': 'harness run failed', 'log': log[-4000:]}, nofail=True)
            return rep.finish()
        cases += gen

    # ---- property monitor on what the implementation did
    bad = [(i, monitor(c)) for i, c in enumerate(cases)]
    bad = [(i, m) for i, m in bad if m]
    # the buddy allocator's double hand-out (former known finding buddy-live-page-rehanded) is repaired
    # (fix 986fea68): buddy histories are judged by the monitor like all others; the former witnesses stay
    # in the corpus as regressions.
    # ---- correspondence with the model
    lst = [c for c in cases if not c.get('buddy')]
    bud = [c for c in cases if c.get('buddy')]
    okc, mism, clog = vlib.eval_cases(PROP, HEADER, [c['coq'] for c in lst], shard_size=10)
    rep.obligation('correspondence (list allocator): %d histories evaluated by the model' % len(lst), okc and not mism)
    okb, mismb, clogb = True, [], ''
    if bud and os.path.exists(os.path.join(vlib.COQ, 'drv', 'Buddy.v')):
        okb, mismb, clogb = vlib.eval_cases(PROP + 'b', 'From Coq Require Import List NArith Bool.\nImport ListNotations.\nFrom VDrv Require Import Buddy.\nOpen Scope N_scope.\n',
                                            [c['coq'] for c in bud], shard_size=32, checker='bmismatches')
        rep.obligation('correspondence (buddy allocator): %d histories evaluated by the model' % len(bud), okb and not mismb)

    hist = collections.Counter(o['op'] for c in cases for o in c['ops'])
    rep.coverage.update({
        'evaluations': len(cases),
        'distinct_nontrivial': len({vlib.case_hash(strip(c)) for c in cases if nontrivial(c)}),
        'rule': 'random API histories (20-80 calls; 1-3 processes incl. shared-PID contexts; CPU + 1-4 GPUs of 16-64 pages, one in four of 2-8 pages; '
                'page sizes 2^12..2^16 and 2^21; request sizes around multiples of the page size and of 4 KiB (exact, +-1, half a page); every 10th history is a short history around large buffers (2 MiB - 1 page, 2 MiB, 2 MiB + 1, 4 MiB + delta, 64 MiB at page sizes >= 2^16) mixed with small allocations of two contexts, frees, re-allocations, remaps, distribution; unified devices; every 5th history hostile: double free, foreign/mid-buffer free, over-capacity, unmapped remap, bad device); '
                'non-trivial = at least three allocations, a free, and a non-empty final page table',
        'traces_validated_against_impl': len(lst) + (len(bud) if bud and okb else 0),
        'corpus_cases': ncorpus,
        'call_histogram': dict(hist),
        'calls_total': sum(hist.values()),
        'allocs_4k_multiple_not_page_multiple': sum(1 for c in cases for o in c['ops'] if o['op'] in ('alloc', 'allocu') and o.get('n', 0) % 4096 == 0 and o.get('n', 0) % (1 << c['lps']) != 0),
        'page_size_histogram': dict(collections.Counter(str(c['lps']) for c in cases)),
        'processes_histogram': dict(collections.Counter(str(len({o['ret'][0] for o in c['ops'] if o['op'] in ('init', 'initpid') and o['ret']})) for c in cases)),
        'large_buffer_cases': sum(1 for c in cases if c.get('large')),
        'large_allocations': sum(1 for c in cases for o in c['ops'] if o['op'] in ('alloc', 'allocu') and o.get('n', 0) >= (1 << 21) - (1 << c['lps'])),
        'hostile_cases': sum(1 for c in cases if c.get('hostile')),
        'buddy_cases': len(bud),
        'crashes_observed': sum(1 for c in cases for o in c['ops'] if o.get('crash')),
        'valid_frees': sum(1 for c in cases for o in c['ops'] if o['op'] == 'free' and o.get('valid')),
        'model_mismatches': len(mism) + len(mismb), 'monitor_failures': len(bad),
    })
    rep.samples = [{'lps': c['lps'], 'gpus': c['gpus'],
                    'ops': [(o['op'], o.get('c'), o.get('a', o.get('n')), o['ret']) for o in c['ops'][:20]]} for c in cases[ncorpus:ncorpus + 2]]

    def fails_monitor(ops, base):
        c = strip(base)
        c['ops'] = [{k: o[k] for k in ('op', 'c', 'n', 'a', 'd', 'ids') if k in o} for o in ops]
        out, _ = run_impl(binary, cases=[c])
        try:
            return bool(out) and monitor(out[0]) is not None
        except Exception:
            return False   # a shrunk history the monitor cannot judge is not a failing input

    if bad:
        i, msg = bad[0]
        c = cases[i]
        small = vlib.ddmin(c['ops'], lambda ops: fails_monitor(ops, c))
        c2 = strip(c)
        c2['ops'] = [{k: o[k] for k in ('op', 'c', 'n', 'a', 'd', 'ids') if k in o} for o in small]
        out, _ = run_impl(binary, cases=[c2])
        final = out[0] if out else c
        rep.violation({'property': PROP, 'what': monitor(final) or msg, 'case': slim(final),
                       'replay_cmd': './check C10 --replay <this file>'}, text=monitor(final) or msg)
    elif mism or not okc or mismb or not okb:
        if mism or not okc:
            i, k = mism[0] if mism else (0, 0)
            c = lst[i] if lst else None
            which = 'coq/drv/Alloc.v and amd/driver (list allocator)'
        else:
            i, k = mismb[0] if mismb else (0, 0)
            c = bud[i] if bud else None
            which = 'coq/drv/Buddy.v and amd/driver/internal/devicebuddymemstate.go'
        what = 'the final page table / free lists / buffer lists differ' if k == 1000 else 'observation of call %d differs' % k
        rep.violation({'property': PROP, 'broken': 'correspondence between %s: history %d: %s; the theorems of props/C10.v no longer speak about this code' % (which, i, what),
                       'case': slim(c, keep=1000) if c else None, 'first_diverging_call': k, 'log': (clog + clogb)[-2000:]}, nofail=True,
                      text='model/implementation mismatch at history %d, %s; no property violation found on %d histories' % (i, what, len(cases)))
    return rep.finish()


if __name__ == '__main__':
    sys.exit(main(sys.argv[1:]))
