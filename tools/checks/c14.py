"""C14 - barriers, wait counts, wavefront termination (partial: the scheduler's
decision automaton).  Theorems: coq/props/C14.v over coq/cu/Sched.v.
Tie: micro-programs run on the real timing platform (one-CU R9 Nano) and on the
emulator; a monitor checks the property on what the implementation did; the
recorded per-cycle trace of the scheduler is replayed in the Coq automaton
(cycle-exact: wavefront states, outstanding counters, internalExecuting,
barrierBuffer, completion messages); the emulator's barrier/end log is compared
with the Coq model of its loop."""
import json, os, sys, collections
sys.path.insert(0, os.path.dirname(os.path.dirname(os.path.abspath(__file__))))
import vlib

PROP = 'C14'
HEADER = ('From VCu Require Import Sched.\nFrom Coq Require Import List NArith.\n'
          'Import ListNotations.\nOpen Scope N_scope.\n')
COQ_TARGETS = ['props/C14.vo', 'cu/Smem.vo']


def cmp_guard(g, x, k):
    return {'': True, 'eq': x == k, 'ne': x != k, 'lt': x < k, 'gt': x > k}[g]


def guard_ok(s, i, wg=0):
    return cmp_guard(s.get('g', ''), i, s.get('k', 0)) and cmp_guard(s.get('gw', ''), wg, s.get('kw', 0))


def barriers_of(prog, i, wg=0):
    """number of barriers wavefront i of work-group wg executes before it ends"""
    n = 0
    for s in prog:
        if not guard_ok(s, i, wg):
            continue
        if s['op'] == 'barrier':
            n += 1
        if s['op'] == 'endpgm':
            return n, True
    return n, False


def well_formed(case):
    """every wavefront ends; a wavefront that executes barrier k must find all
    wavefronts that have not ended before it... (generator invariant: barriers
    are never guarded, so a live wavefront executes all of them)"""
    for s in case['prog']:
        if s['op'] == 'barrier' and (s.get('g') or s.get('gw')):
            return False
    return all(barriers_of(case['prog'], i, g)[1] for i in range(case['nwf']) for g in range(case['nwg']))


def ticks(evs):
    cur = None
    for e in evs:
        if e['e'] == 't':
            if cur is not None:
                yield cur
            cur = {'t': e.get('t', 0), 'evs': []}
        elif cur is not None:
            cur['evs'].append(e)
    if cur is not None:
        yield cur


def monitor_timing(case):
    """Property C14 on the recorded trace of the timing compute unit.  Sound:
    flags only behaviour the property forbids for well-formed programs."""
    t = case['timing']
    if t['result'] == 'crash':
        return 'timing simulator panicked: %s' % t.get('panic', '')
    if t['result'] == 'hang':
        return 'timing: the kernel never completes (a work-group hangs)'
    wg = t['wg_of']
    n = len(wg)
    groups = collections.defaultdict(list)
    arrived = [0] * n
    passed = [0] * n
    ended = [False] * n
    kind = [None] * n
    s_started = [0] * n
    f_started = [0] * n
    s_rsp = [0] * n   # instructions whose last-marked response arrived (what the simulator counts)
    f_rsp = [0] * n
    s_fin = [0] * n   # instructions none of whose transactions is in flight any more
    f_fin = [0] * n
    mapped = 0
    gid_of = {}
    end_tick = {}
    for tk in ticks(t['evs']):
        evs = tk['evs']
        # unit completions precede the evaluation pass
        for e in evs:
            if e['e'] == 'done':
                w = e.get('w', 0)
                if kind[w] == 'sload':
                    s_started[w] += 1
                elif kind[w] == 'flat':
                    f_started[w] += 1
        for e in evs:
            if e['e'] == 'chk':
                for w, (a, b) in enumerate(zip(e.get('sc', []), e.get('vc', []))):
                    if a < 0 or b < 0:
                        return ('wait counters of wavefront %d are negative (lgkm %d, vm %d) in cycle %d: a later s_waitcnt / s_endpgm '
                                'would not wait for outstanding memory operations' % (w, a, b, tk['t']))
        sd = [e for e in evs if e['e'] == 'sdone']
        for e in sd:
            w = e.get('w', 0)
            sc = s_started[w] + f_started[w] - s_fin[w] - f_fin[w]
            vc = f_started[w] - f_fin[w]
            if e['k'] == 'end':
                if sc != 0 or vc != 0:
                    return 'wavefront %d ended with %d scalar / %d vector memory operations in flight' % (w, sc, vc)
                ended[w] = True
                end_tick[w] = tk['t']
            elif e['k'] == 'wait':
                if sc > e.get('b', 0) or vc > e.get('a', 0):
                    return ('s_waitcnt vmcnt(%d) lgkmcnt(%d) of wavefront %d completed with %d vector / %d scalar operations outstanding'
                            % (e.get('a', 0), e.get('b', 0), w, vc, sc))
        for e in sd:
            w = e.get('w', 0)
            if e['k'] == 'bar':
                passed[w] += 1
                k = passed[w]
                for u in groups[gid_of[w]]:
                    if u != w and not ended[u] and arrived[u] < k:
                        return ('wavefront %d passed barrier %d of its group while wavefront %d had neither reached it nor ended'
                                % (w, k, u))
        for e in evs:
            if e['e'] == 'issue':
                w = e.get('w', 0)
                if ended[w]:
                    return 'wavefront %d issued an instruction after it ended' % w
                if arrived[w] != passed[w]:
                    return 'wavefront %d issued an instruction while waiting at barrier %d' % (w, arrived[w])
                kind[w] = e['k']
                if e['k'] == 'bar':
                    arrived[w] += 1
            elif e['e'] == 'rsp':
                w = e.get('w', 0)
                if ended[w]:
                    return 'a memory response for wavefront %d arrived after it ended' % w
                if e['k'] == 's':
                    s_rsp[w] += 1
                else:
                    f_rsp[w] += 1
            elif e['e'] == 'flush':
                # the instruction every unfinished wavefront was executing is rolled back
                # (an s_barrier it waited at will be executed again)
                for w in range(mapped):
                    if not ended[w]:
                        arrived[w] = passed[w]
                        kind[w] = None
            elif e['e'] == 'mfin':
                w = e.get('w', 0)
                if e['k'] == 's':
                    s_fin[w] += 1
                else:
                    f_fin[w] += 1
            elif e['e'] == 'map':
                g = e.get('g', 0)
                for i in range(e['n']):
                    gid_of[mapped] = g
                    groups[g].append(mapped)
                    mapped += 1
    # completion: exactly once per group, in the cycle its last wavefront ended
    seen = collections.Counter(d['g'] for d in t['done'])
    for g in range(case['nwg']):
        if seen.get(g, 0) != 1:
            return 'completion of work-group %d reported %d times' % (g, seen.get(g, 0))
    for d in t['done']:
        g = d['g']
        if g not in groups:
            return 'completion reported for an unknown work-group'
        if not all(ended[u] for u in groups[g]):
            return 'completion of work-group %d reported although a wavefront never ended' % g
        last = max(end_tick[u] for u in groups[g])
        if d['t'] < last:
            return 'completion of work-group %d reported in cycle %d, before its last wavefront ended (cycle %d)' % (g, d['t'], last)
    if mapped != case['nwf'] * case['nwg']:
        return 'only %d of %d wavefronts were ever mapped' % (mapped, case['nwf'] * case['nwg'])
    return None


def monitor_emu(case):
    e = case['emu']
    if e['result'] == 'crash':
        return 'emulator panicked: %s' % e.get('panic', '')
    if e['result'] == 'hang':
        return 'emulator: the kernel never completes'
    bars = collections.defaultdict(int)
    ended = set()
    for ev in e['evs']:
        w = (ev['g'], ev['i'])
        if w in ended:
            return 'emulator: wavefront %s executed an instruction after s_endpgm' % (w,)
        k = bars[w]
        if k > 0:
            for i in range(case['nwf']):
                u = (ev['g'], i)
                if u != w and u not in ended and bars[u] < k:
                    return 'emulator: wavefront %s ran past barrier %d before wavefront %s reached it' % (w, k, u)
        if ev['k'] == 'bar':
            bars[w] += 1
        else:
            ended.add(w)
    if len(ended) != case['nwf'] * case['nwg']:
        return 'emulator: %d of %d wavefronts ended' % (len(ended), case['nwf'] * case['nwg'])
    rep = collections.Counter(e.get('done') or [])
    for g in range(case['nwg']):
        if rep.get(g, 0) != 1:
            return 'emulator: completion of work-group %d reported %d times' % (g, rep.get(g, 0))
    if set(rep) - set(range(case['nwg'])):
        return 'emulator: completion reported for an unknown work-group'
    return None


def monitor(case):
    if not well_formed(case):
        return None
    m = monitor_timing(case) or monitor_emu(case)
    if m:
        return m
    if case['timing'].get('out') != case['emu'].get('out'):
        to, eo = case['timing'].get('out') or [], case['emu'].get('out') or []
        bad = [i for i in range(min(len(to), len(eo))) if to[i] != eo[i]]
        return 'values stored by the kernel differ between timing and emulation (first at work-item %s)' % (bad[:1] or '?')
    return None


def strip(case):
    return {k: case[k] for k in ('name', 'nwf', 'nwg', 'pen', 'gpu', 'refuse', 'flush', 'prog') if k in case}


def run_impl(binary, cases=None, seed=1, n=40, timeout=4000):
    tmp = os.path.join(vlib.BUILD, 'c14_%d.json' % os.getpid())
    if cases is not None:
        inp = tmp + '.in'
        json.dump(cases, open(inp, 'w'))
        rc, log = vlib.run([binary, '--replay', inp, '--out', tmp, '--timeout', str(timeout)], timeout=1500)
        os.remove(inp)
    else:
        rc, log = vlib.run([binary, '--seed', str(seed), '--n', str(n), '--out', tmp, '--timeout', str(timeout)], timeout=1500)
    if rc != 0 or not os.path.exists(tmp):
        return None, log
    out = json.load(open(tmp))
    os.remove(tmp)
    return out, log


def nontrivial(case):
    """at least one barrier actually synchronised two wavefronts, or a wait
    count / end of program was evaluated with memory in flight"""
    t = case['timing']
    if not t or not t.get('evs'):
        return False
    bars = sum(1 for e in t['evs'] if e['e'] == 'sdone' and e['k'] == 'bar')
    waited = any(e['e'] == 'chk' and any(x == 2 for x in e.get('st', [])) and len(e.get('int', [])) > 0 for e in t['evs'])
    return (bars >= 2 and case['nwf'] >= 2) or (waited and any(s['op'] in ('fload', 'floadu', 'sload', 'gload', 'scload', 'floadg', 'gloadg', 'sload2', 'sx2', 'sx4a', 'sx4b', 'sx4c', 'sx8', 'sx8b') for s in case['prog']))


def main(argv):
    rep = vlib.Report(PROP, 'proof')
    rep.checker_cmd = ('make -C coq props/C14.vo && coqc props/C14.v (Print Assumptions) && '
                       'coqc cases/C14/s*.v (vm_compute mismatches, emismatches)')
    rep.trusted = ['Coq 8.16.1 kernel + vm_compute',
                   'hand-written model coq/cu/Sched.v of amd/timing/cu/scheduler.go (+ issue, unit completion, memory return) and of the loop of amd/emu/computeunit.go',
                   'Go harness harness/cmd/c14 (hand assembler, engine/tracing/port hooks, //go:build verif accessors in amd/timing/cu and timingconfig)',
                   'python monitor tools/checks/c14.py']
    rep.assumptions = ['PARTIAL: theorems cover the scheduler decision automaton; fetch/decode/issue arbitration, scoreboard, unit and memory latencies '
                       'and dispatch-port back-pressure are environment choices (over-approximated); pause/flush and sampling mode not modelled',
                       'sampled programs only decide whether the real scheduler still behaves like the model']
    thorough = vlib.tier() == 'thorough'
    n = 400 if thorough else 30

    replay_file = argv[argv.index('--replay') + 1] if '--replay' in argv else None

    ok, log, binary = vlib.go_build('c14')
    rep.obligation('harness builds against the repository working tree (with verif hooks)', ok)
    if not ok:
        rep.violation({'broken': 'go build of harness/cmd/c14 failed (are the hook: commits of branch work-c14 present?)', 'log': log[-4000:]},
                      nofail=True, text='harness build failed')
        return rep.finish()

    ok, log = vlib.coq_build(COQ_TARGETS)
    okp, plog, thms = vlib.coq_check_props(PROP) if ok else (False, log, [])
    if not (ok and okp):
        rep.obligation('coq build', False)
        rep.violation({'broken': 'Coq development for C14 does not compile', 'log': (log + plog)[-4000:]}, nofail=True)
        return rep.finish()
    for name, axioms in thms:
        rep.obligation('theorem ' + name + (' [axioms: %s]' % ', '.join(axioms) if axioms else ' [closed under the global context]'), True)

    cases = []
    if replay_file:
        obj = json.load(open(replay_file))
        src = obj.get('case') or obj.get('cases') or obj if isinstance(obj, dict) else obj
        src = src if isinstance(src, list) else [src]
        cases, log = run_impl(binary, cases=[strip(c) for c in src])
        cases = cases or []
    else:
        corpus = []
        cdir = os.path.join(vlib.ROOT, 'corpus', PROP)
        for p in sorted(os.listdir(cdir)) if os.path.isdir(cdir) else []:
            corpus += json.load(open(os.path.join(cdir, p)))
        if corpus:
            cases, log = run_impl(binary, cases=[strip(c) for c in corpus])
            cases = cases or []
        gen, log = run_impl(binary, seed=vlib.seed(), n=n)
        if gen is None:
            rep.obligation('harness run', False)
            rep.violation({'broken': 'harness run failed', 'log': log[-4000:]}, nofail=True)
            return rep.finish()
        cases += gen

    bad = [(i, monitor(c)) for i, c in enumerate(cases)]
    bad = [(i, m) for i, m in bad if m]

    okc, mism, clog = vlib.eval_cases(PROP, HEADER, [c['coq'] for c in cases if c.get('coq')], shard_size=3,
                                      checker='mismatches', ty='tcase')
    idx = [i for i, c in enumerate(cases) if c.get('coq')]
    mism = [(idx[i], k) for i, k in mism]
    oke, emism, elog = vlib.eval_cases(PROP + 'e', HEADER, [c['coq_emu'] for c in cases if c.get('coq_emu')], shard_size=200,
                                       checker='emismatches', ty='ecase')
    eidx = [i for i, c in enumerate(cases) if c.get('coq_emu')]
    emism = [(eidx[i], k) for i, k in emism]
    # scalar loads: the requests seen on the scalar-memory port against the split of coq/cu/Smem.v
    scases, sowner = [], []
    for ci, c in enumerate(cases):
        byinst = collections.OrderedDict()
        for q in ((c.get('timing') or {}).get('sreqs') or []):
            byinst.setdefault(q['i'], []).append(q)
        for i, qs in byinst.items():
            scases.append('(%d, %d, [%s])' % (qs[0]['a'], sum(q['n'] for q in qs),
                          ';'.join('(%d,%d,%s)' % (q['a'], q['n'], 'true' if q['cw'] else 'false') for q in qs)))
            sowner.append(ci)
    oks, smism, slog = (True, [], '')
    if scases:
        oks, smism, slog = vlib.eval_cases(PROP + 's', 'From VCu Require Import Smem.\nFrom Coq Require Import List NArith.\nImport ListNotations.\nOpen Scope N_scope.\n',
                                           scases, shard_size=4000, checker='smismatches', ty='scase')
    smism = [(sowner[i], k) for i, k in smism]
    rep.obligation('correspondence: read requests of %d scalar loads equal the split of coq/cu/Smem.v' % len(scases), oks and not smism)
    rep.obligation('correspondence: %d scheduler traces replayed by the Coq automaton' % len(idx), okc and not mism)
    rep.obligation('correspondence: %d emulator barrier logs reproduced by the Coq loop model' % len(eidx), oke and not emism)

    hist = collections.Counter(e['k'] for c in cases if c['timing'] and c['timing'].get('evs') for e in c['timing']['evs'] if e['e'] == 'issue')
    full = sum(1 for c in cases if c['timing'] and any(e['e'] == 'chk' and len(e.get('bar', [])) >= 16 for e in (c['timing'].get('evs') or [])))
    rep.coverage.update({
        'evaluations': len(cases),
        'distinct_nontrivial': len({vlib.case_hash(strip(c)) for c in cases if nontrivial(c)}),
        'rule': 'random well-formed micro-programs (3-20 statements: barriers, guarded early exits, flat/scalar loads incl. loads straddling cache lines unevenly, a third of the memory programs on a CU with coalescing penalty 3, wait counts with '
                'thresholds {0,1,2,3,15}, LDS exchanges, guarded delays), 1..16 wavefronts x 1..21 work-groups on one compute unit, every 5th '
                'a corner shape (full barrier buffer, exit while partners are held, ladders, staggered exits, slow exit as last event of a barrier followed by more barriers with a late arrival, straddling load/wait/use, loads in flight at exit); '
                'non-trivial = >= 2 barrier releases with >= 2 wavefronts, or a scheduler-held instruction with loads in the program',
        'traces_validated_against_impl': len(idx),
        'issued_instruction_histogram': dict(hist),
        'cycles_simulated': sum(c['timing']['cycles'] for c in cases if c['timing']),
        'cases_with_full_barrier_buffer': full,
        'cases_on_mi300a_cu': sum(1 for c in cases if c.get('gpu') == 'mi300a'),
        'pipeline_flushes': sum(c['timing'].get('flushes', 0) for c in cases if c['timing']),
        'emu_completion_batches_of_2_or_more': sum(1 for c in cases if c['emu'] for b in (c['emu'].get('batches') or []) if b >= 2),
        'emu_completion_sends_refused': sum(c['emu'].get('refused', 0) for c in cases if c['emu']),
        'completion_sends_refused': sum(c['timing'].get('refused', 0) for c in cases if c['timing']),
        'cases_with_early_exit': sum(1 for c in cases if any(s['op'] == 'endpgm' and s.get('g') for s in c['prog'])),
        'scalar_loads_split_checked': len(scases), 'scalar_loads_straddling': sum(1 for x in scases if x.count('(') > 2),
        'model_mismatches': len(mism) + len(emism) + len(smism), 'monitor_failures': len(bad),
    })
    rep.samples = [{'nwf': c['nwf'], 'nwg': c['nwg'], 'prog': c['prog'], 'timing': c['timing']['result'], 'emu': c['emu']['result']} for c in cases[:3]]

    import re

    def kind_of(msg):
        return re.sub(r'\d+', '#', msg or '')

    def fails_monitor(prog, base, want):
        """the shrunk program must fail in the same way (same message up to numbers)"""
        c = dict(strip(base))
        c['prog'] = prog
        if not prog or prog[-1]['op'] != 'endpgm' or prog[-1].get('g'):
            return False
        out, _ = run_impl(binary, cases=[c])
        return bool(out) and kind_of(monitor(out[0])) == want

    if bad:
        i, msg = bad[0]
        c = cases[i]
        small = vlib.ddmin(c['prog'], lambda p: fails_monitor(p, c, kind_of(msg)), budget=40)
        c2 = dict(strip(c))
        c2['prog'] = small
        out, _ = run_impl(binary, cases=[c2])
        res = out[0] if out else c
        for k in ('coq', 'coq_emu'):
            res.pop(k, None)
        if res.get('timing') and res['timing'].get('evs') and len(res['timing']['evs']) > 400:
            res['timing']['evs'] = res['timing']['evs'][-400:]
        rep.violation({'property': PROP, 'what': monitor(out[0]) if out else msg, 'case': res,
                       'replay_cmd': './check C14 --replay <this file>'}, text=msg)
    elif mism or emism or smism or not okc or not oke or not oks:
        if smism or not oks:
            i, k = smism[0] if smism else (0, 0)
            what = ('correspondence between coq/cu/Smem.v and executeSMEMLoad: the read requests of a scalar load of case %d '
                    '(addresses, sizes, CanWaitForCoalesce flags) differ from the model' % i)
        elif mism or not okc:
            i, k = mism[0] if mism else (0, 0)
            what = ('correspondence between coq/cu/Sched.v and amd/timing/cu/scheduler.go: check point %d of the trace of case %d differs; '
                    'theorems of props/C14.v no longer speak about this code' % (k, i))
        else:
            i, k = emism[0] if emism else (0, 0)
            what = 'correspondence between the emulator loop model and amd/emu/computeunit.go: barrier/end log of case %d differs' % i
        c = dict(cases[i]) if cases else {}
        for kk in ('coq', 'coq_emu'):
            c.pop(kk, None)
        if c.get('timing') and c['timing'].get('evs') and len(c['timing']['evs']) > 400:
            c['timing']['evs'] = c['timing']['evs'][:400]
        rep.violation({'property': PROP, 'broken': what, 'case': c, 'first_diverging_event': k, 'log': (clog + elog)[-2000:]}, nofail=True,
                      text='model/implementation mismatch at case %d (event %d); no property violation found on %d cases' % (i, k, len(cases)))
    return rep.finish()


if __name__ == '__main__':
    sys.exit(main(sys.argv[1:]))
