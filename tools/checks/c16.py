"""C16 — address translator.  Theorems: coq/props/C16.v over coq/mem/AddrTrans.v.
Tie: tick-exact correspondence of port-level observations between the real
addresstranslator.Comp (built with MakeBuilder, driven by harness/cmd/c16) and
the Gallina model."""
import json, os, sys, collections
sys.path.insert(0, os.path.dirname(os.path.dirname(os.path.abspath(__file__))))
import vlib

PROP = 'C16'
HEADER = 'From VLib Require Import Akita.\nFrom VMem Require Import AddrTrans.\nOpen Scope N_scope.\n'
COQ_TARGETS = ['props/C16.vo']
M64 = (1 << 64) - 1
F_CANWAIT = 256


def content_equal(b, r):
    """fields of a bottom request that are copied from the top request"""
    if b['kind'] != r['kind'] or b['rspto'] != r['rspto'] or (b['flags'] & F_CANWAIT) != (r['flags'] & F_CANWAIT):
        return False
    if b['kind'] == 'KRead':
        return b['size'] == r['size']
    return b['data'] == r['data'] and b['mask'] == r['mask']


def max_matching(cands, nright):
    """size of a maximum bipartite matching; cands[i] = admissible right nodes of left node i"""
    match = [-1] * nright

    def aug(i, seen):
        for j in cands[i]:
            if j in seen:
                continue
            seen.add(j)
            if match[j] < 0 or aug(match[j], seen):
                match[j] = i
                return True
        return False
    return sum(1 for i in range(len(cands)) if aug(i, set()))


def quiet(ev, lookups, replies, fwd, botrsp):
    if not {q['id'] for _, q in lookups.values()} <= {x['rspto'] for _, x in replies}:
        return False
    if not {b['id'] for _, b in fwd} <= {x['rspto'] for _, x in botrsp}:
        return False
    last = -1
    for i, e in enumerate(ev):
        if e.get('progress') or e.get('got') or e.get('gotq') or (e['e'][0] == 'd' and e.get('acc')):
            last = i
    tail = ev[last + 1:]
    kinds = collections.Counter(e['e'] for e in tail)
    return kinds['tick'] >= 3 and all(kinds[p] >= 1 for p in ('rt', 'rb', 'rx', 'rc'))


def monitor(case):
    """Property C16 evaluated on an observed port trace; returns a description of
    the violation or None.  Sound: it only flags behaviour that contradicts a
    theorem of props/C16.v (for every environment, hostile or not), or, for the
    completeness clause, the behaviour under the fair drain schedule."""
    ev = case['events']
    cfg = case['cfg']
    k, w = cfg['log2ps'], cfg['width']
    hostile = case.get('hostile')
    if any(e.get('crash') for e in ev):
        return None if hostile else 'the translator panicked on protocol-respecting traffic'
    # -- sleep safety (at_no_progress_stays): the engine stops ticking after a tick without progress, so a
    #    tick that reports progress directly after one that reported none (no delivery or retrieval in
    #    between) means the first one changed state without saying so
    for i in range(len(ev) - 1):
        if (ev[i]['e'] == 'tick' and ev[i + 1]['e'] == 'tick' and ev[i].get('progress') is False
                and ev[i + 1].get('progress') is True):
            return ('changed state without reporting progress: tick %d reported no progress, the very next tick '
                    '(event %d, nothing in between) reported progress' % (i, i + 1))
    page = lambda a: (a >> k) << k
    deliv = []      # (index, msg) of accepted top requests
    lookups = {}    # canonical lookup id -> (index, treq)
    replies = []    # (index, trsp) accepted
    botrsp = []     # (index, msg) accepted bottom responses
    fwd = []        # (index, msg) bottom requests retrieved
    rsp = []        # (index, msg) top responses retrieved
    for i, e in enumerate(ev):
        if e['e'] == 'dt' and e.get('acc') and e['msg']['kind'] in ('KRead', 'KWrite'):
            deliv.append((i, e['msg']))
        elif e['e'] == 'rx' and e.get('gotq'):
            lookups[e['gotq']['id']] = (i, e['gotq'])
        elif e['e'] == 'dx' and e.get('acc'):
            replies.append((i, e['trsp']))
        elif e['e'] == 'db' and e.get('acc'):
            botrsp.append((i, e['msg']))
        elif e['e'] == 'rb' and e.get('got'):
            fwd.append((i, e['got']))
        elif e['e'] == 'rt' and e.get('got'):
            rsp.append((i, e['got']))
    ids = [m['id'] for _, m in deliv]
    distinct = len(set(ids)) == len(ids)

    # -- lookups: never invented, one per (page, PID) request, right device and provider
    if len({q['id'] for _, q in lookups.values()}) != len(lookups):
        return 'two translation requests with the same ID'
    for i, q in lookups.values():
        if q['dev'] != cfg['dev']:
            return 'translation request %d carries device %d' % (q['id'], q['dev'])
        if q['vaddr'] != page(q['vaddr']):
            return 'translation request %d for unaligned address %d' % (q['id'], q['vaddr'])
        if q['dst'] != 200 + (q['vaddr'] >> k) % cfg['ntr']:
            return 'translation request %d sent to provider %d' % (q['id'], q['dst'])
        if not any(j < i and page(r['addr']) == q['vaddr'] and r['pid'] == q['pid'] for j, r in deliv):
            return 'translation request %d (page %d, PID %d) matches no delivered request' % (q['id'], q['vaddr'], q['pid'])

    # -- forwards: an injective assignment forward -> delivered request such that the
    #    content is copied and the address is PAddr + offset for a PAddr delivered in
    #    answer to a lookup of that request's own page and PID
    paddrs = collections.defaultdict(list)   # (vpage, pid) -> [(reply index, paddr, index at which the lookup was retrieved)]
    for i, x in replies:
        if x['rspto'] in lookups:
            iq, q = lookups[x['rspto']]
            paddrs[(q['vaddr'], q['pid'])].append((i, x['paddr'], iq))
    # a discard delivered at index d and acknowledged at index D: every lookup retrieved before d was issued
    # before the discard was taken and died with it; a request delivered after D is accepted only after the
    # restart and waits on a lookup issued later, so an answer to one of those dead lookups must never be
    # the source of its translation (at_paddr_correct: the reply used has RespondTo = the ID of the lookup
    # the request waits on)
    ctl0 = [i for i, e in enumerate(ev) if e['e'] == 'dc' and e.get('acc')]
    acks0 = [i for i, e in enumerate(ev) if e['e'] == 'rc' and e.get('got')]
    discards = [(d, acks0[n]) for n, d in enumerate(ctl0)
                if n < len(acks0) and ev[d]['msg']['kind'] == 'KCtrl' and ev[d]['msg']['flags'] & 1]

    def dead_before(ir):
        """lookups retrieved before this index cannot serve a request delivered at index ir"""
        return max([d for d, D in discards if D < ir], default=-1)

    def admissible(ib, b, ir, r):
        if ir > ib or not content_equal(b, r) or b['pid'] != 0 or b['src'] != 2:
            return False
        if b['dst'] != 100 + (b['addr'] >> k) % cfg['nmem']:
            return False
        off = r['addr'] & ((1 << k) - 1)
        dead = dead_before(ir)
        return any(ix < ib and iq > dead and b['addr'] == ((pa + off) & M64)
                   for ix, pa, iq in paddrs[(page(r['addr']), r['pid'])])

    cands = []
    for ib, b in fwd:
        c = [j for j, (ir, r) in enumerate(deliv) if admissible(ib, b, ir, r)]
        if not c:
            return ('bottom request %d (addr %d) is not the translation of any delivered request under the '
                    'delivered page of its own (page, PID)' % (b['id'], b['addr']))
        cands.append(c)
    if len({b['id'] for _, b in fwd}) != len(fwd):
        return 'two bottom requests with the same ID'
    if max_matching(cands, len(deliv)) < len(fwd):
        return 'some request was forwarded more than once (%d forwards cannot be assigned to distinct requests)' % len(fwd)

    # -- responses
    fwd_by_id = {b['id']: (ib, b) for ib, b in fwd}
    byid = {m['id']: (i, m) for i, m in deliv}
    rsptos = [o['rspto'] for _, o in rsp]
    if distinct and len(set(rsptos)) != len(rsptos):
        return 'a request was answered twice: RspTo sequence %s' % rsptos
    for io, o in rsp:
        if o['rspto'] not in byid:
            return 'response for an ID that was never delivered: %s' % o['rspto']
        ir, r = byid[o['rspto']]
        if distinct and (o['dst'] != r['src'] or o['src'] != 1):
            return 'response to %s routed from %s to %s instead of %s' % (r['id'], o['src'], o['dst'], r['src'])
        if distinct:
            ok = False
            for ix, x in botrsp:
                if ix < io and x['kind'] == o['kind'] and x['rspto'] in fwd_by_id:
                    ib, b = fwd_by_id[x['rspto']]
                    if ib < ix and admissible(ib, b, ir, r) and (o['kind'] != 'KDataReady' or o['data'] == x['data']):
                        ok = True
                        break
            if not ok:
                return 'response to %s does not carry the payload of a memory response to its forwarded request' % r['id']

    ctl = [i for i, e in enumerate(ev) if e['e'] == 'dc' and e.get('acc')]
    acks = [i for i, e in enumerate(ev) if e['e'] == 'rc' and e.get('got')]
    # -- completeness when quiet.  Quiet (re-derived from the trace, not trusted from the harness): every
    #    lookup and every bottom request the environment retrieved got an ACCEPTED reply, and the history ends
    #    with three rounds in which nothing moved (no tick progress, every port empty).  Then every request
    #    delivered after the acknowledgement of the last restart must have been forwarded and answered,
    #    provided that restart was taken while flushing (the control message before it is a discard: only
    #    then are both tables empty at the restart, see at_restart_without_discard_refuted) and nothing
    #    followed it.  Without any control traffic: every delivered request.
    if case.get('drained') and not hostile and distinct and quiet(ev, lookups, replies, fwd, botrsp):
        start = None
        if not ctl:
            start = -1
        elif (len(ctl) >= 2 and len(acks) >= len(ctl) and ev[ctl[-1]]['msg']['flags'] & 3 == 2
              and ev[ctl[-2]]['msg']['flags'] & 1):
            start = acks[len(ctl) - 1]
        case['_scope'] = 'none' if start is None else ('all' if start < 0 else 'after-restart')
        if start is not None:
            tags = {b['rspto'] for _, b in fwd}
            answered = set(rsptos)
            for i, m in deliv:
                if i > start and m['rspto'] == m['id']:
                    if m['id'] not in tags:
                        return ('lost request: request %d (PID %d, addr %d)%s was never forwarded although every '
                                'lookup and every memory request was answered and the translator is quiet'
                                % (m['id'], m['pid'], m['addr'],
                                   ', delivered after the last restart was acknowledged,' if start >= 0 else ''))
                    if m['id'] not in answered:
                        return ('lost response: request %d was forwarded but never answered although every memory '
                                'request was answered and the translator is quiet' % m['id'])
    # -- flush: once the acknowledgement of a discard has been seen, only what was
    #    already queued in a port (at most `width`) can still come out for requests
    #    delivered before the discard
    if not hostile and distinct:
        tag = {m['rspto']: m['id'] for _, m in deliv}   # Info tag -> request (unique in the valid stream)
        nack = 0
        for i, e in enumerate(ev):
            if e['e'] == 'rc' and e.get('got'):
                if nack < len(ctl):
                    d = ctl[nack]
                    if ev[d]['msg']['flags'] & 1:
                        before = {m['id'] for j, m in deliv if j < d}
                        late_r = [o['rspto'] for io, o in rsp if io > i and o['rspto'] in before]
                        late_f = [b['id'] for ib, b in fwd if ib > i and tag.get(b['rspto']) in before]
                        if len(late_r) > w:
                            return 'responses for discarded requests after a flush: %s' % late_r
                        if len(late_f) > w:
                            return 'forwards of discarded requests after a flush: %s' % late_f
                nack += 1
    return None


def strip(case):
    """events without observations (replay input)"""
    def ev(e):
        o = {'e': e['e']}
        if 'msg' in e:
            o['msg'] = e['msg']
        if 'trsp' in e:
            o['trsp'] = e['trsp']
        return o
    return {'cfg': case['cfg'], 'hostile': case.get('hostile', False), 'drained': case.get('drained', False),
            'events': [ev(e) for e in case['events']]}


def run_impl(binary, cases=None, seed=1, n=100):
    tmp = os.path.join(vlib.BUILD, 'c16_%d.json' % os.getpid())
    if cases is not None:
        inp = tmp + '.in'
        json.dump(cases, open(inp, 'w'))
        rc, log = vlib.run([binary, '--replay', inp, '--out', tmp])
        os.remove(inp)
    else:
        rc, log = vlib.run([binary, '--seed', str(seed), '--n', str(n), '--out', tmp])
    if rc != 0:
        return None, log
    out = json.load(open(tmp))
    os.remove(tmp)
    return out, log


def stats(case):
    ev = case['events']
    k = case['cfg']['log2ps']
    deliv = [e['msg'] for e in ev if e['e'] == 'dt' and e.get('acc')]
    pages = {}
    for m in deliv:
        pages.setdefault((m['addr'] >> k), set()).add(m['pid'])
    lookups = [e['gotq'] for e in ev if e['e'] == 'rx' and e.get('gotq')]
    fw = [e['got'] for e in ev if e['e'] == 'rb' and e.get('got')]
    # out-of-order: a reply answers a lookup that is not the oldest unanswered one
    pend, ooo_tr = [], 0
    pendb, ooo_bot = [], 0
    for e in ev:
        if e['e'] == 'rx' and e.get('gotq'):
            pend.append(e['gotq']['id'])
        elif e['e'] == 'dx' and e.get('acc') and e['trsp']['rspto'] in pend:
            ooo_tr += pend[0] != e['trsp']['rspto']
            pend.remove(e['trsp']['rspto'])
        elif e['e'] == 'rb' and e.get('got'):
            pendb.append(e['got']['id'])
        elif e['e'] == 'db' and e.get('acc') and e['msg']['rspto'] in pendb:
            ooo_bot += pendb[0] != e['msg']['rspto']
            pendb.remove(e['msg']['rspto'])
    return {
        'pid_collision': any(len(p) > 1 for p in pages.values()),
        'coalesced': max(0, len(fw) - len(lookups)) if not any(e['e'] == 'dc' for e in ev) else 0,
        'blocked': sum(1 for e in ev if e.get('blocked')),
        'ooo_tr': ooo_tr, 'ooo_bot': ooo_bot,
        'responses': sum(1 for e in ev if e['e'] == 'rt' and e.get('got')),
        'forwards': len(fw),
    }


def nontrivial(case):
    st = stats(case)
    return st['forwards'] >= 2 and st['responses'] >= 1


def main(argv):
    rep = vlib.Report(PROP, 'proof')
    rep.checker_cmd = ('make -C coq props/C16.vo && coqc props/C16.v (Print Assumptions) && '
                       'coqc cases/C16/s*.v (vm_compute mismatches)')
    rep.trusted = ['Coq 8.16.1 kernel + vm_compute',
                   'hand-written model coq/mem/AddrTrans.v of amd/timing/mem/addresstranslator/{addresstranslator,builder}.go',
                   'Go harness harness/cmd/c16 (stub connection, ID renumbering by first appearance)',
                   'akita port = two bounded FIFOs; interleaved port mapper = (addr / 2^log2PageSize) mod n']
    rep.assumptions = ['theorems: the environment is any finite sequence of deliveries, ticks and retrievals on the four ports; '
                       'at_paddr_correct assumes translation replies carry the page of the environment page table for the '
                       'lookup they answer (env_ok); the never-twice clauses assume distinct requester IDs; '
                       'at_no_panic assumes well-typed messages and control messages with Discard or Restart set',
                       'model scope: log2PageSize < 64, addresses < 2^64, requester Src non-empty and different from the '
                       'translator ports (akita Send panics otherwise)',
                       'the sampled histories only decide whether the real component still behaves like the model']
    thorough = vlib.tier() == 'thorough'
    n = 3000 if thorough else 320

    replay_file = None
    if '--replay' in argv:
        replay_file = argv[argv.index('--replay') + 1]

    ok, log, binary = vlib.go_build('c16')
    rep.obligation('harness builds against the repo working tree', ok)
    if not ok:
        rep.violation({'broken': 'go build of harness/cmd/c16 against the repo failed', 'log': log[-4000:]}, nofail=True,
                      text='harness build failed')
        return rep.finish()

    ok, log = vlib.coq_build(COQ_TARGETS)
    okp, plog, thms = vlib.coq_check_props(PROP) if ok else (False, log, [])
    if not (ok and okp):
        rep.obligation('coq build', False)
        rep.violation({'broken': 'Coq development for C16 does not compile', 'log': (log + plog)[-4000:]}, nofail=True)
        return rep.finish()
    for name, axioms in thms:
        rep.obligation('theorem ' + name + (' [axioms: %s]' % ', '.join(axioms) if axioms else ' [closed under the global context]'), True)

    # ---- real-engine runs: the akita engine decides when the translator ticks
    def engine_runs(args):
        tmp = os.path.join(vlib.BUILD, 'c16_eng_%d.json' % os.getpid())
        rc, elog = vlib.run([binary] + args + ['--out', tmp], timeout=600)
        if rc != 0:
            return [{'seed': 0, 'problem': 'real-engine run did not finish (rc %d): %s' % (rc, elog[-500:])}]
        out = json.load(open(tmp))
        os.remove(tmp)
        return out

    if replay_file and 'engine_seed' in json.load(open(replay_file)):
        es = json.load(open(replay_file))['engine_seed']
        res = engine_runs(['--engine-seed', str(es)])
        badr = [r for r in res if r.get('problem')]
        rep.obligation('real-engine run seed %d completes' % es, not badr)
        if badr:
            rep.violation({'property': PROP, 'what': badr[0]['problem'], 'engine_seed': es,
                           'replay_cmd': './check C16 --replay <this file>'}, text='real engine: ' + badr[0]['problem'])
        return rep.finish()

    # ---- run the implementation
    cases = []
    if replay_file:
        obj = json.load(open(replay_file))
        src = obj.get('case') or obj.get('cases') or obj
        src = src if isinstance(src, list) else [src]
        cases, log = run_impl(binary, cases=[strip(c) for c in src])
        cases = cases or []
    else:
        corpus = []
        cdir = os.path.join(vlib.ROOT, 'corpus', PROP)
        for p in sorted(os.listdir(cdir)) if os.path.isdir(cdir) else []:
            corpus += json.load(open(os.path.join(cdir, p)))
        if corpus:
            cases, log = run_impl(binary, cases=[strip(c) for c in corpus])
            cases = cases or []
        gen, log = run_impl(binary, seed=vlib.seed(), n=n)
        if gen is None:
            rep.obligation('harness run', False)
            rep.violation({'broken': 'harness run failed', 'log': log[-4000:]}, nofail=True)
            return rep.finish()
        cases += gen

    # ---- property monitor on what the implementation did
    bad = [(i, monitor(c)) for i, c in enumerate(cases)]
    bad = [(i, m) for i, m in bad if m]
    # ---- correspondence with the model
    okc, mism, clog = vlib.eval_cases(PROP, HEADER, [c['coq'] for c in cases], shard_size=25)
    rep.obligation('correspondence: %d histories evaluated by the model' % len(cases), okc and not mism)

    eng = [] if replay_file else engine_runs(['--engine-smoke', '400' if thorough else '40', '--seed', str(vlib.seed())])
    eng_bad = [r for r in eng if r.get('problem')]
    if eng:
        rep.obligation('real engine: %d simulations (%d requests) ran to quiescence with every request answered once'
                       % (len(eng), sum(r.get('requests', 0) for r in eng)), not eng_bad)

    hist = collections.Counter(e['e'] for c in cases for e in c['events'])
    sts = [stats(c) for c in cases]
    rep.coverage.update({
        'evaluations': len(cases),
        'distinct_nontrivial': len({vlib.case_hash(strip(c)) for c in cases if nontrivial(c)}),
        'rule': 'random port-level histories (40-220 events + fair drain tail for the valid stream; log2PageSize {6,12,16,21} x '
                'width {1,2,4} x 1-3 memory providers x 1-2 translation providers); 1-4 pages x 1-3 PIDs per history; '
                'every 5th history hostile (duplicate/unknown reply IDs, wrong page, wrong response kind, corrupted payload, '
                'ill-typed messages, control message without flags); non-trivial = at least two forwards and one response observed',
        'traces_validated_against_impl': len(cases),
        'event_histogram': dict(hist),
        'forwards_observed': sum(s['forwards'] for s in sts),
        'responses_observed': sum(s['responses'] for s in sts),
        'cases_same_page_different_pid': sum(1 for s in sts if s['pid_collision']),
        'cases_with_coalesced_lookup': sum(1 for s in sts if s['coalesced'] > 0),
        'ticks_with_reply_waiting_and_bottom_port_full': sum(s['blocked'] for s in sts),
        'translation_replies_out_of_order': sum(s['ooo_tr'] for s in sts),
        'memory_responses_out_of_order': sum(s['ooo_bot'] for s in sts),
        'consecutive_tick_pairs': sum(1 for c in cases for i in range(len(c['events']) - 1)
                                      if c['events'][i]['e'] == 'tick' and c['events'][i + 1]['e'] == 'tick'),
        'tick_pairs_first_without_progress': sum(1 for c in cases for i in range(len(c['events']) - 1)
                                                 if c['events'][i]['e'] == 'tick' and c['events'][i + 1]['e'] == 'tick'
                                                 and c['events'][i].get('progress') is False),
        'tick_pairs_no_progress_with_pending_input': sum(
            1 for c in cases for i in range(len(c['events']) - 1)
            if c['events'][i]['e'] == 'tick' and c['events'][i + 1]['e'] == 'tick'
            and c['events'][i].get('progress') is False and c['events'][i].get('pending')),
        'tick_pairs_after_refused_forward_of_a_reply': sum(
            1 for c in cases for i in range(len(c['events']) - 1)
            if c['events'][i]['e'] == 'tick' and c['events'][i + 1]['e'] == 'tick'
            and c['events'][i].get('progress') is False and c['events'][i].get('blocked')),
        'real_engine_runs': len(eng), 'real_engine_requests': sum(r.get('requests', 0) for r in eng),
        'real_engine_failures': len(eng_bad),
        'drained_cases': sum(1 for c in cases if c.get('drained')),
        'quiet_rule_all_requests': sum(1 for c in cases if c.get('_scope') == 'all'),
        'quiet_rule_after_restart': sum(1 for c in cases if c.get('_scope') == 'after-restart'),
        'flush_cases': sum(1 for c in cases if any(e['e'] == 'dc' and e.get('acc') for e in c['events'])),
        'hostile_cases': sum(1 for c in cases if c.get('hostile')),
        'crash_cases': sum(1 for c in cases if any(e.get('crash') for e in c['events'])),
        'model_mismatches': len(mism), 'monitor_failures': len(bad),
    })
    rep.samples = [{'cfg': c['cfg'], 'events': [(e['e'], (e.get('msg') or {}).get('id')) for e in c['events'][:25]]} for c in cases[:2]]

    def cls(msg):
        return ' '.join((msg or '').split()[:2])

    def fails_monitor(evs, base, want=None):
        # shrinking keeps the kind of violation (same leading words of the monitor's message)
        c = dict(base)
        c['events'] = evs
        out, _ = run_impl(binary, cases=[strip(c)])
        m = monitor(out[0]) if out else None
        return m is not None and (want is None or cls(m) == want)

    if eng_bad and not bad:
        rep.violation({'property': PROP, 'what': eng_bad[0]['problem'], 'engine_seed': eng_bad[0]['seed'],
                       'replay_cmd': './check C16 --replay <this file>'}, text='real engine: ' + eng_bad[0]['problem'])
    if bad:
        i, msg = bad[0]
        c = cases[i]
        nev = len(strip(c)['events'])
        small = vlib.ddmin(c['events'], lambda evs: fails_monitor(evs, c, cls(msg)))
        c2 = strip(c)
        c2['events'] = strip({'cfg': c['cfg'], 'events': small})['events']
        out, _ = run_impl(binary, cases=[c2])
        if not (out and monitor(out[0])):
            out = [c]
        rep.violation({'property': PROP, 'what': monitor(out[0]) or msg, 'case': out[0],
                       'shrunk_from_events': nev, 'replay_cmd': './check C16 --replay <this file>'}, text=monitor(out[0]) or msg)
    elif mism or not okc:
        # no monitor failure: look harder for a failing input before giving up
        found = None
        if not replay_file:
            for extra in range(1, 4):
                more, _ = run_impl(binary, seed=vlib.seed() + 7919 * extra, n=n)
                for c in more or []:
                    m = monitor(c)
                    if m:
                        found = (c, m)
                        break
                if found:
                    break
        if found:
            c, msg = found
            small = vlib.ddmin(c['events'], lambda evs: fails_monitor(evs, c, cls(msg)))
            c2 = strip(c)
            c2['events'] = strip({'cfg': c['cfg'], 'events': small})['events']
            out, _ = run_impl(binary, cases=[c2])
            if not (out and monitor(out[0])):
                out = [c]
            rep.violation({'property': PROP, 'what': monitor(out[0]) or msg, 'case': out[0],
                           'replay_cmd': './check C16 --replay <this file>'}, text=monitor(out[0]) or msg)
        else:
            i, kk = mism[0] if mism else (0, 0)
            rep.violation({'property': PROP, 'broken': 'correspondence between coq/mem/AddrTrans.v and '
                           'amd/timing/mem/addresstranslator/addresstranslator.go: observation %d of history %d differs; '
                           'the theorems of props/C16.v no longer speak about this code' % (kk, i),
                           'case': cases[i] if cases else None, 'first_diverging_event': kk, 'log': clog[-2000:],
                           'replay_cmd': './check C16 --replay <this file>'}, nofail=True,
                          text='model/implementation mismatch at history %d event %d; no property violation found on %d histories'
                               % (i, kk, len(cases)))
    return rep.finish()


if __name__ == '__main__':
    sys.exit(main(sys.argv[1:]))
