"""C05 — reproducibility (partial).  Theorems: coq/props/C05.v.

Ties, all re-checked on every run:
 (i)   engine: the real akita sim.SerialEngine is driven (harness/cmd/c05 engine)
       with generated schedules of dummy events whose handlers schedule further
       events; handled order, panic flag and final time are compared with the
       Gallina model VSys.Engine (vm_compute), and with a second execution of
       the same script on a fresh engine (monitor).
 (ii)  translator tools/gen/nondet: lists every map range / select / clock /
       random source in the simulation packages of the current tree, writes
       coq/gen/MapRanges.v; every site must be classified in
       tools/checks/c05_sites.json (theorem every_site_accounted) and every
       cited lemma must exist.
 (iii) VALIDATION, not proof: whole simulations are repeated in fresh processes
       under different GOMAXPROCS; final time, every mgpusim_metrics row and the
       functional result are compared."""
import glob, json, os, shutil, sqlite3, sys, tempfile, collections, time
from concurrent.futures import ThreadPoolExecutor
sys.path.insert(0, os.path.dirname(os.path.dirname(os.path.abspath(__file__))))
import vlib

PROP = 'C05'
HEADER = 'From Coq Require Import List NArith Bool.\nFrom VSys Require Import Engine.\nImport ListNotations.\nOpen Scope N_scope.\n'
SITES = os.path.join(vlib.ROOT, 'tools', 'checks', 'c05_sites.json')
KNOWN_HANDOFF = ('final simulated time and time-derived metrics (CPI stacks, cache/DRAM latencies) differ between identical '
                 'serial-engine runs depending on host scheduling (frequent with GOMAXPROCS>1, rare with 1): driver.runAsync pauses the '
                 'engine wherever it is and TickLater schedules the next command relative to that time (hand-off race; Coq: '
                 'handoff_time_refuted); the same cause makes the rows CPIStack.total / SIMDCPIStack.total, which read the engine clock at report time, depend on whether the engine goroutine has finished; all differences vanish when the application waits for the engine to go idle after every drain (settled schedule)')


# ------------------------------------------------------------------ translator

def build_translator():
    out = os.path.join(vlib.BUILD, 'bin', 'gen_nondet')
    os.makedirs(os.path.dirname(out), exist_ok=True)
    with vlib.Lock('gobuild-gen'):
        rc, log = vlib.run([vlib.go_bin(), 'build', '-o', out, './nondet'], cwd=os.path.join(vlib.ROOT, 'tools', 'gen'),
                           env=vlib.go_env(), timeout=600)
    return rc == 0, log, out


AKITA_PREFIX = 'github.com/sarchlab/akita/v4/'


def run_translator_library(binary):
    """Informational: sites inside the akita packages that the walked simulation
    packages depend on (read-only from the module cache).  Not classified."""
    js = os.path.join(vlib.BUILD, 'c05_sites_library.json')
    rc, log = vlib.run([binary, '-repo', vlib.REPO, '-go', vlib.go_bin(), '-json', js, '-libprefix', AKITA_PREFIX],
                       env=vlib.go_env(), timeout=600)
    if rc != 0:
        return None, log
    return json.load(open(js)), log


def run_translator(binary):
    js = os.path.join(vlib.BUILD, 'c05_sites_found.json')
    with vlib.Lock('coq'):   # MapRanges.v is an input of the Coq build
        rc, log = vlib.run([binary, '-repo', vlib.REPO, '-go', vlib.go_bin(), '-json', js, '-classes', SITES,
                            '-coq', os.path.join(vlib.COQ, 'gen', 'MapRanges.v')], env=vlib.go_env(), timeout=600)
    if rc != 0:
        return None, log
    return json.load(open(js)), log


# ------------------------------------------------------------------ engine tie

def engine_run(binary, cases=None, seed=1, n=100):
    tmp = os.path.join(vlib.BUILD, 'c05_eng_%d.json' % os.getpid())
    if cases is not None:
        inp = tmp + '.in'
        json.dump(cases, open(inp, 'w'))
        rc, log = vlib.run([binary, 'engine', '--replay', inp, '--out', tmp], timeout=300)
        os.remove(inp)
    else:
        rc, log = vlib.run([binary, 'engine', '--seed', str(seed), '--n', str(n), '--out', tmp], timeout=300)
    if rc != 0:
        return None, log
    out = json.load(open(tmp))
    os.remove(tmp)
    return out, log


def strip(c):
    return {'tbl': c['tbl'], 'tops': c['tops'], 'hostile': c.get('hostile', False), 'fuel': c.get('fuel', 0),
            'kind': c.get('kind', '')}


def engine_monitor(c):
    """C05 on the real engine: same script, fresh engine => same handled order, same
    panic flag, same final time; plus what any event queue must satisfy.  Sound:
    flags nothing that a deterministic time-ordered engine may do."""
    if c['handled'] != c['handled2']:
        k = next((i for i, (a, b) in enumerate(zip(c['handled'], c['handled2'])) if a != b), min(len(c['handled']), len(c['handled2'])))
        return 'two executions of the same schedule handled events in different orders (first difference at position %d)' % k
    if c['crashed'] != c['crashed2'] or c['now'] != c['now2']:
        return 'two executions of the same schedule ended differently (panic %s/%s, time %s/%s)' % (
            c['crashed'], c['crashed2'], c['now'], c['now2'])
    ids = [h[0] for h in c['handled']]
    if len(set(ids)) != len(ids):
        return 'an event was handled twice'
    ts = [h[1] for h in c['handled']]
    if any(a > b for a, b in zip(ts, ts[1:])):
        return 'events handled out of time order'
    return None


def engine_nontrivial(c):
    ts = [h[1] for h in c['handled']]
    return len(ts) >= 4 and len(set(ts)) < len(ts)     # at least one tie among >= 4 handled events


# ------------------------------------------------------------------ whole-simulation runs

def sim_run(binary, spec, gmp, idx, quiet=False, gogc=None, settle=False, hold=0, twice=False):
    """One process.  gmp/gogc perturb the Go runtime; settle / hold steer the host schedule through the driver's
    yield hook (see harness/cmd/c05: C05_SETTLE, C05_HOLD_AFTER); twice = two simulations in the process."""
    wl, size, rounds, flags = spec['wl'], spec['size'], spec['rounds'], spec['flags']
    d = tempfile.mkdtemp(prefix='c05_%s_' % spec['name'].replace('/', '_'))
    env = dict(os.environ)
    for k in ('GOGC', 'GODEBUG', 'C05_SETTLE', 'C05_HOLD_AFTER', 'C05_TWICE'):
        env.pop(k, None)
    env['GOMAXPROCS'] = str(gmp)
    env['C05_HSACO'] = os.path.join(vlib.REPO, 'amd', 'tests', 'deterministic', 'empty_kernel', 'kernels.hsaco')
    if quiet:
        gogc = 'off'
    pre = 'GOMAXPROCS=%d ' % gmp
    if gogc is not None:
        env['GOGC'] = str(gogc)
        pre += 'GOGC=%s ' % gogc
    if settle:
        env['C05_SETTLE'] = '1'
        pre += 'C05_SETTLE=1 '
    if hold:
        env['C05_HOLD_AFTER'] = str(hold)
        pre += 'C05_HOLD_AFTER=%d ' % hold
    if twice:
        env['C05_TWICE'] = '1'
        pre += 'C05_TWICE=1 '
    cmd = [binary, 'sim', wl, str(size), str(rounds), '--'] + flags
    res = {'cmd': pre + 'C05_HSACO=%s ' % env['C05_HSACO'] + ' '.join(cmd), 'gomaxprocs': gmp, 'gogc': gogc, 'settle': settle, 'hold': hold,
           'twice': twice, 'quiet': quiet, 'name': spec['name'], 'idx': idx}
    try:
        for attempt in range(3):
            rc, log = vlib.run(cmd, cwd=d, env=env, timeout=spec.get('timeout', 60) * (2 if twice else 1))
            res['rc'] = rc
            if rc != 124:
                break
            res.setdefault('timeouts', 0)
            res['timeouts'] += 1
            for f in glob.glob(os.path.join(d, '*.sqlite3')):
                os.remove(f)
        res['tail'] = log[-600:]
        res['fail_line'] = next((l[-300:] for l in log.split('\n') if 'mismatch' in l.lower() or 'panic' in l.lower() or 'expected' in l.lower()), None)
        outs = [json.loads(l[7:]) for l in log.split('\n') if l.startswith('C05SIM ')]

        def rows_of(o):
            if not o or not spec.get('metrics', True):
                return None
            f = os.path.join(d, o.get('sqlite') or '')
            if not o.get('sqlite') or not os.path.exists(f):
                return None
            try:
                con = sqlite3.connect(f)
                # the complete table, whatever rows the reporter writes
                rows = [list(r) for r in con.execute('select Location, What, Value, Unit from mgpusim_metrics order by rowid').fetchall()]
                con.close()
                return rows
            except sqlite3.Error:
                return None
        res['out'] = outs[0] if outs else None
        res['rows'] = rows_of(res['out'])
        if twice:
            o2 = outs[1] if len(outs) > 1 else None
            res['second'] = {'rc': rc, 'out': o2, 'rows': rows_of(o2), 'cmd': res['cmd'] + '  [second simulation in the same process]',
                             'gomaxprocs': gmp}
    finally:
        shutil.rmtree(d, ignore_errors=True)
    return res


def functional(r):
    """what must be equal even with the parallel engine"""
    return (r['rc'], (r['out'] or {}).get('digest'), (r['out'] or {}).get('verify'))


def commands(r):
    """per-command (what, start, end) recorded by a tracer inside the engine goroutine, in start order"""
    return (r['out'] or {}).get('commands') or []


def observables(r, spec):
    if spec.get('parallel'):
        return functional(r)
    rows = r['rows']
    return (r['rc'], (r['out'] or {}).get('digest'), (r['out'] or {}).get('final_time_bits'),
            json.dumps(rows) if rows is not None else None, json.dumps(commands(r)))


def row_diff(a, b):
    ra, rb = a['rows'] or [], b['rows'] or []
    out = []
    for x, y in zip(ra, rb):
        if x != y:
            out.append([x, y])
            if len(out) >= 4:
                break
    if len(ra) != len(rb):
        out.append(['row count', len(ra), len(rb)])
    nd = sum(1 for x, y in zip(ra, rb) if x != y)
    if nd:
        out.append(['differing metric rows', nd, 'of', len(ra)])
    for i, (x, y) in enumerate(zip(commands(a), commands(b))):
        if x != y:
            out.append(['driver command %d (what, start, end)' % i, x, y])
            break
    if len(commands(a)) != len(commands(b)):
        out.append(['driver command count', len(commands(a)), len(commands(b))])
    fa, fb = (a['out'] or {}).get('final_time'), (b['out'] or {}).get('final_time')
    if fa != fb:
        out.append(['final simulated time', fa, fb])
    return out


def shift_equivalent(a, b, spec):
    """The hand-off class (known finding): a command was picked up a few cycles
    earlier or later.  Same exit and functional result, same metric rows in the same
    order, every count/byte metric identical, every real-valued metric equal up to
    float rounding of shifted absolute times, final time within a few cycles per
    hand-off.  Anything else is a different kind of nondeterminism."""
    if functional(a) != functional(b):
        return False
    ra, rb = a['rows'] or [], b['rows'] or []
    if len(ra) != len(rb):
        return False
    for x, y in zip(ra, rb):
        if (x[0], x[1], x[3]) != (y[0], y[1], y[3]):
            return False
        u, v = x[2], y[2]
        if u == v or (u != u and v != v):
            continue
        if x[3] in ('count', 'bytes') or u is None or v is None:
            return False
        if abs(u - v) > 1e-9 * max(abs(u), abs(v)):
            return False
    try:
        fa, fb = float(a['out']['final_time']), float(b['out']['final_time'])
    except (TypeError, KeyError, ValueError):
        return False
    return abs(fa - fb) <= 20e-9 * spec.get('handoffs', 50)


def workloads(thorough):
    T = ['-timing', '-report-all', '-verify', '-disable-rtm']
    w = [
        {'name': 'fir64-emu', 'wl': 'fir', 'size': 64, 'rounds': 0, 'flags': ['-verify', '-disable-rtm']},
        {'name': 'fir256-timing', 'wl': 'fir', 'size': 256, 'rounds': 0, 'flags': T, 'hold': True, 'twice': True},
        {'name': 'mt64-timing', 'wl': 'mt', 'size': 64, 'rounds': 0, 'flags': T, 'hold': True},
        {'name': 'copy4k-timing', 'wl': 'copy', 'size': 4096, 'rounds': 3, 'flags': T, 'hold': True},
        {'name': 'fir256-2gpu-timing', 'wl': 'fir', 'size': 256, 'rounds': 0, 'flags': T + ['-gpus=1,2']},
        {'name': 'fir256-timing-parallel', 'wl': 'fir', 'size': 256, 'rounds': 0, 'parallel': True, 'metrics': False,
         'flags': ['-timing', '-parallel', '-verify', '-disable-rtm']},
        {'name': 'mt64-emu-parallel', 'wl': 'mt', 'size': 64, 'rounds': 0, 'parallel': True, 'metrics': False,
         'flags': ['-parallel', '-verify', '-disable-rtm']},
        # LDS-using kernels, >= 64 work-groups, emulation with the parallel engine and several Ps
        {'name': 'mt256-lds-emu-parallel', 'wl': 'mt', 'size': 256, 'rounds': 0, 'parallel': True, 'metrics': False,
         'par_gmps': [4, 16, 16, 4, 16, 8], 'flags': ['-parallel', '-verify', '-disable-rtm']},
        {'name': 'mm128-lds-emu-parallel', 'wl': 'mm', 'size': 128, 'rounds': 0, 'parallel': True, 'metrics': False,
         'par_gmps': [4, 16, 16, 4, 16, 8], 'flags': ['-parallel', '-verify', '-disable-rtm']},
    ]
    # concurrency inside the simulated system (one application thread, everything enqueued before the first drain)
    w += [
        {'name': 'streams3-1gpu-timing', 'wl': 'streams', 'size': 600, 'rounds': 3, 'prefilled': True, 'queues': 3, 'flags': ['-timing', '-report-all', '-disable-rtm']},
        {'name': 'multiq-2gpu-timing', 'wl': 'multiq', 'size': 256, 'rounds': 16, 'prefilled': True, 'queues': 2, 'flags': ['-timing', '-report-all', '-disable-rtm', '-gpus=1,2'],
         'reps': 8 if not thorough else 12},
    ]
    # long kernels: more work-groups than the GPU holds at once, completions interleave with dispatch, wavefront objects
    # are reused; two kernels in a row; both timing platforms
    L = ['-timing', '-report-all', '-disable-rtm']
    w += [
        {'name': 'longkernel-4096wg-timing', 'wl': 'longk', 'size': 4096, 'rounds': 8, 'prefilled': True, 'queues': 1, 'timeout': 120, 'flags': L},
        {'name': 'longk2-r9nano-timing', 'wl': 'longk2', 'size': 1536, 'rounds': 8, 'prefilled': True, 'queues': 1, 'timeout': 120, 'flags': L,
         'twice': True, 'unsettled': 1},
        {'name': 'longk2-mi300a-timing', 'wl': 'longk2', 'size': 1024, 'rounds': 8, 'prefilled': True, 'queues': 1, 'timeout': 120,
         'flags': L + ['-gpu=mi300a'], 'unsettled': 1},
        {'name': 'fir2048-mi300a-cdna3-timing', 'wl': 'fir', 'size': 2048, 'rounds': 0, 'flags': T + ['-arch=cdna3', '-gpu=mi300a'],
         'twice': True, 'hold': True},
    ]
    if thorough:
        w += [
            {'name': 'fir1024-timing', 'wl': 'fir', 'size': 1024, 'rounds': 0, 'flags': T},
            {'name': 'mt128-timing', 'wl': 'mt', 'size': 128, 'rounds': 0, 'flags': T},
            {'name': 'mt64-emu', 'wl': 'mt', 'size': 64, 'rounds': 0, 'flags': ['-verify', '-disable-rtm']},
            {'name': 'fir256-unified2-timing', 'wl': 'fir', 'size': 256, 'rounds': 0, 'flags': T + ['-unified-gpus=1,2']},
            {'name': 'copy64k-timing', 'wl': 'copy', 'size': 65536, 'rounds': 4, 'flags': T},
            {'name': 'fir256-cdna3-timing', 'wl': 'fir', 'size': 256, 'rounds': 0, 'flags': T + ['-arch=cdna3', '-gpu=mi300a']},
        ]
    return w


WITNESS = {'name': 'handoff-witness', 'wl': 'copy', 'size': 4096, 'rounds': 150, 'timeout': 15, 'handoffs': 400,
           'flags': ['-timing', '-report-all', '-verify', '-disable-rtm']}


def same_shape(a, b):
    """same exit, same functional result, same metric rows (keys, order); values may differ"""
    if functional(a) != functional(b):
        return False
    ka = [(r[0], r[1], r[3]) for r in (a['rows'] or [])]
    kb = [(r[0], r[1], r[3]) for r in (b['rows'] or [])]
    return ka == kb and [c[0] for c in commands(a)] == [c[0] for c in commands(b)]


# Go-runtime perturbations (GOMAXPROCS, GOGC) of the settled repetitions: GC after almost every allocation, no GC at
# all, few / many Ps.  Each repetition is a fresh process (per-process hash seeds, map iteration seeds, ASLR).
PERT_QUICK = [(1, 'off'), (1, '1'), (4, '20'), (16, None)]
PERT_THOROUGH = PERT_QUICK + [(16, '1'), (2, 'off'), (4, None), (1, '400')]
# metric rows known to read the engine clock while the engine goroutine may still run (C05/handoff-race)
KNOWN_CLOCK_ROWS = ('CPIStack.total', 'SIMDCPIStack.total')


def compare_workload(binary, spec, thorough, pool):
    """Returns (runs, verdict, detail, notes): verdict in ok | handoff | violation.

    S  settled repetitions (the application thread waits at the end of every DrainCommandQueue until the engine
       goroutine has given up the engine, so the known hand-off race cannot occur) in fresh processes under perturbed
       Go runtimes: must be bit-identical in every observable -> otherwise VIOLATION.
    T  a second simulation in the same process must equal the first.
    H  'slow engine' schedule: the engine goroutine is held after the last command was dequeued, so the reporter runs
       while trailing events are pending: only the rows known to read the engine clock may differ.
    U  unsettled repetitions (ordinary host scheduling): value-only differences from the settled reference are the known
       hand-off race; different functional result / rows / command kinds are a VIOLATION."""
    if spec.get('parallel'):
        # "With the parallel engine the functional results remain identical": one serial-engine run of the same workload
        # is the reference; the parallel-engine repetitions run with several Ps (the failure modes are data races between
        # components that execute in the same cycle, hence probabilistic: several repetitions)
        serial = dict(spec, flags=[f for f in spec['flags'] if f != '-parallel'], name=spec['name'] + '-serialref')
        gm = spec.get('par_gmps', [1, 2, 16, 16]) * (2 if thorough else 1)
        futs = [pool.submit(sim_run, binary, serial, 4, 0)] + [pool.submit(sim_run, binary, spec, g, i + 1) for i, g in enumerate(gm)]
        runs = [f.result() for f in futs]
        ref, par = runs[0], runs[1:]
        if ref['rc'] != 0:
            return runs, 'violation', {'what': 'serial-engine reference run failed (exit %s)' % ref['rc'], 'cmd': ref['cmd'], 'tail': ref['tail']}, {}
        bad = [r for r in par if r['rc'] != 0]
        if bad:
            return runs, 'violation', {'what': 'functional result wrong or run failed with the parallel engine (exit %s) while the serial-engine '
                                               'run of the same workload passes -verify; %d of %d parallel repetitions failed'
                                               % (bad[0]['rc'], len(bad), len(par)),
                                       'cmd_a': ref['cmd'], 'cmd_b': bad[0]['cmd'], 'tail': bad[0]['tail'],
                                       'verification_messages': sorted({r.get('fail_line') or '' for r in bad})[:4],
                                       'failing_gomaxprocs': sorted({r['gomaxprocs'] for r in bad})}, {}
        if len({functional(r) for r in runs}) > 1:
            o = next(r for r in par if functional(r) != functional(ref))
            return runs, 'violation', {'what': 'functional results differ between the serial and the parallel engine', 'cmd_a': ref['cmd'], 'cmd_b': o['cmd']}, {}
        return runs, 'ok', None, {}

    perts = PERT_THOROUGH if thorough else PERT_QUICK
    reps = spec.get('reps', len(perts))
    perts = [perts[i % len(perts)] for i in range(reps)]
    nu = spec.get('unsettled', 2) * (2 if thorough else 1)
    jobs = [dict(gmp=g, gogc=c, settle=True) for g, c in perts]
    jobs += [dict(gmp=[16, 2, 4, 1][i % 4]) for i in range(nu)]
    if spec.get('twice'):
        jobs.append(dict(gmp=1, gogc='off', settle=True, twice=True))
    res = list(pool.map(lambda a: sim_run(binary, spec, a[1].pop('gmp'), a[0], **a[1]), list(enumerate([dict(j) for j in jobs]))))
    S = [r for r in res if r['settle'] and not r['twice']]
    U = [r for r in res if not r['settle']]
    TW = [r for r in res if r['twice']]
    runs = list(res)
    notes = {}
    bad = [r for r in res if r['rc'] != 0]
    if bad:
        r = bad[0]
        return runs, 'violation', {'what': 'run failed (exit %s%s)' % (r['rc'], ', timeout' if r['rc'] == 124 else ''),
                                   'cmd': r['cmd'], 'tail': r['tail']}, notes
    ref = S[0]
    # S: settled repetitions must be identical
    for r in S[1:]:
        if observables(r, spec) != observables(ref, spec):
            return runs, 'violation', {'what': 'repetitions in fresh processes differ although the application waits for the engine to go '
                                               'idle after every drain (not the known hand-off race): depends on the Go runtime '
                                               '(GC / number of Ps / per-process seeds)',
                                       'cmd_a': ref['cmd'], 'cmd_b': r['cmd'], 'differing': row_diff(ref, r),
                                       'outcome_counts': sorted(collections.Counter(observables(x, spec) for x in S).values(), reverse=True)}, notes
    if spec.get('prefilled'):
        # every queue was filled before the first drain: nothing may run before it, so the commands picked up by the first
        # driver tick (and that tick's time) are the same in every repetition, whatever the host schedule
        sig = lambda r: (min([c[1] for c in commands(r)] or ['']), sum(1 for c in commands(r) if c[1] == min(x[1] for x in commands(r))))
        odd = [r for r in S + U if sig(r) != sig(ref)] or [r for r in S + U if sig(r)[1] < spec.get('queues', 0)]
        if odd:
            return runs, 'violation', {'what': 'commands enqueued before the first drain were not all picked up by the first driver tick '
                                               'in every repetition (first tick time, number of commands it started: %s vs %s; queues filled '
                                               'before the drain: %d)' % (sig(ref), sig(odd[0]), spec.get('queues', 0)),
                                       'cmd_a': ref['cmd'], 'cmd_b': odd[0]['cmd'], 'differing': row_diff(ref, odd[0])}, notes
    # T: second simulation in the same process
    for t in TW:
        second = t.get('second') or {}
        if not second.get('out'):
            return runs, 'violation', {'what': 'second simulation in the same process did not finish', 'cmd': t['cmd'], 'tail': t['tail']}, notes
        if observables(second, spec) != observables(t, spec):
            return runs, 'violation', {'what': 'a second simulation in the same process differs from the first (process-global state '
                                               'reaches the simulation)', 'cmd_a': t['cmd'], 'cmd_b': second['cmd'],
                                       'differing': row_diff(t, second)}, notes
        if observables(t, spec) != observables(ref, spec):
            return runs, 'violation', {'what': 'settled repetitions differ', 'cmd_a': ref['cmd'], 'cmd_b': t['cmd'], 'differing': row_diff(ref, t)}, notes
    # H: reporter runs while the engine goroutine is held after the last command
    if spec.get('hold'):
        n = (ref['out'] or {}).get('dequeues') or 0
        h = sim_run(binary, spec, 4, 900, hold=n)
        runs.append(h)
        if h['rc'] != 0 or not h['out']:
            return runs, 'violation', {'what': 'run failed (exit %s)' % h['rc'], 'cmd': h['cmd'], 'tail': h['tail']}, notes
        notes['hold_engaged'] = (h['out'] or {}).get('held')
        if observables(h, spec) != observables(ref, spec):
            ra, rb = ref['rows'] or [], h['rows'] or []
            diffrows = [(x, y) for x, y in zip(ra, rb) if x != y]
            known = (len(ra) == len(rb) and commands(ref) == commands(h) and functional(ref) == functional(h)
                     and ref['out']['final_time_bits'] == h['out']['final_time_bits']
                     and all(x[:2] == y[:2] and x[1] in KNOWN_CLOCK_ROWS for x, y in diffrows))
            if not known:
                bad_rows = [[x, y] for x, y in diffrows if not (x[:2] == y[:2] and x[1] in KNOWN_CLOCK_ROWS)][:4]
                return runs, 'violation', {'what': 'the report depends on whether the engine goroutine has finished its trailing events when '
                                                   'the application thread returns (slow-engine schedule vs settled schedule); rows other than '
                                                   'the known %s differ' % (KNOWN_CLOCK_ROWS,),
                                           'cmd_a': ref['cmd'], 'cmd_b': h['cmd'], 'differing': bad_rows + row_diff(ref, h)[-2:]}, notes
            notes['report_clock_rows'] = len(diffrows)
    # U: ordinary host scheduling
    dev = [r for r in U if observables(r, spec) != observables(ref, spec)]
    hard = [r for r in dev if not same_shape(ref, r)]
    if hard:
        return runs, 'violation', {'what': 'repetitions of the same simulation differ in functional result, metric rows or command kinds',
                                   'cmd_a': ref['cmd'], 'cmd_b': hard[0]['cmd'], 'differing': row_diff(ref, hard[0])}, notes
    if dev or notes.get('report_clock_rows'):
        d0 = dev[0] if dev else runs[-1]
        return runs, 'handoff', {'cmd_a': ref['cmd'], 'cmd_b': d0['cmd'], 'differing': row_diff(ref, d0), 'deviating_unsettled_runs': len(dev),
                                 'unsettled_runs': len(U), 'settled_runs_identical': len(S),
                                 'report_clock_rows': notes.get('report_clock_rows', 0)}, notes
    return runs, 'ok', None, notes


# ------------------------------------------------------------------ main

def main(argv):
    rep = vlib.Report(PROP, 'proof')
    rep.checker_cmd = ('gen_nondet -> coq/gen/MapRanges.v; make -C coq props/C05.vo && coqc props/C05.v (Print Assumptions) '
                       '&& coqc cases/C05/*.v (vm_compute mismatches, Check lemmas)')
    rep.trusted = ['Coq 8.16.1 kernel + vm_compute',
                   'hand-written model coq/sys/Engine.v of akita v4.9.0 sim/serialengine.go, sim/eventqueue.go and go1.25 container/heap '
                   '(validated by sampling, not verified)',
                   'hand-written loop models coq/sys/MapRange.v (fold over the entries of the map) and hand-off model coq/sys/Handoff.v',
                   'translator tools/gen/nondet (go/types; complete only for the syntactic classes it looks for and the packages it walks)',
                   'classification tools/checks/c05_sites.json: benign_by_inspection / order_relevant entries are human judgement',
                   'Go harness harness/cmd/c05']
    rep.assumptions = ['PARTIAL: the Go scheduler, GOMAXPROCS and the parallel engine are outside the kernel; repeated whole-simulation '
                       'runs are validation, not proof',
                       'application drives the simulator from one thread; default serial engine',
                       'float64 simulated time is modelled by N keys (only comparisons are used); harness uses integral times',
                       'akita library internals other than the event engine are not walked by the translator']
    thorough = vlib.tier() == 'thorough'
    seed = vlib.seed()
    replay = json.load(open(argv[argv.index('--replay') + 1])) if '--replay' in argv else None

    ok, log, binary = vlib.go_build('c05')
    rep.obligation('harness builds against the working tree', ok)
    okt, tlog, tbin = build_translator()
    rep.obligation('translator builds', okt)
    if not ok or not okt:
        rep.violation({'broken': 'go build failed', 'log': (log + tlog)[-4000:]}, nofail=True, text='harness/translator build failed')
        return rep.finish()

    # ---- (ii) translator: regenerate the site list from the current tree
    found, tlog = run_translator(tbin)
    rep.obligation('translator type-checks and walks the simulation packages', found is not None)
    if found is None:
        rep.violation({'broken': 'tools/gen/nondet failed on the current tree: the site list cannot be established', 'log': tlog[-4000:]},
                      nofail=True, text='translator failed')
        return rep.finish()
    lib, liblog = run_translator_library(tbin)
    rep.obligation('translator walks the akita packages on the simulation path (informational list)', lib is not None)
    classes = json.load(open(SITES))['sites']
    keys = [s['key'] for s in found['sites'] if s.get('scope', 'simulator') == 'simulator']
    sim_sites = [s for s in found['sites'] if s.get('scope', 'simulator') == 'simulator']
    workload_sites = [s for s in found['sites'] if s.get('scope') == 'workload']
    new_sites = [s for s in sim_sites if s['key'] not in classes]
    stale = sorted(k for k in classes if k not in keys)
    rep.obligation('every nondeterminism site of the source tree is classified (%d sites)' % len(keys), not new_sites)

    # ---- Coq: models and proofs first, then the statements (which include every_site_accounted)
    okm, mlog = vlib.coq_build(['sys/EngineProofs.vo', 'sys/EngineConserve.vo', 'sys/EngineOrder.vo', 'sys/MapRangeProofs.vo', 'sys/Handoff.vo', 'gen/MapRanges.vo'])
    if not okm:
        rep.obligation('coq build (models, proofs)', False)
        rep.violation({'broken': 'Coq development for C05 does not compile', 'log': mlog[-4000:]}, nofail=True)
        return rep.finish()
    okp, plog = vlib.coq_build(['props/C05.vo'])
    okc, clog, thms = vlib.coq_check_props(PROP) if okp else (False, plog, [])
    coq_props_ok = okp and okc
    if coq_props_ok:
        for name, axioms in thms:
            rep.obligation('theorem ' + name + (' [axioms: %s]' % ', '.join(axioms) if axioms else ' [closed under the global context]'), True)
    else:
        rep.obligation('coq props/C05.v', False)

    # cited lemmas exist (proved_order_irrelevant must name a real lemma)
    lemmas = sorted({c['lemma'] for c in classes.values() if c['class'] == 'proved_order_irrelevant'})
    acc_ok, acc_fail, acc_log = vlib.eval_cases(
        PROP + 'L', 'From VSys Require Import MapRangeProofs.\nFrom Coq Require Import List NArith.\nImport ListNotations.\n' +
        ''.join('Check %s.\n' % l for l in lemmas) + 'Definition mismatches (l : list N) : list (N * N) := [].\n', ['0%N'], ty='N')
    rep.obligation('lemmas cited by the classification exist: %s' % ', '.join(lemmas), acc_ok)

    # ---- (i) engine correspondence
    n = 1500 if thorough else 300
    cases = []
    if replay and replay.get('kind') == 'engine':
        src = replay.get('case')
        cases, elog = engine_run(binary, cases=[strip(c) for c in (src if isinstance(src, list) else [src])])
        cases = cases or []
    elif not replay:
        cdir = os.path.join(vlib.ROOT, 'corpus', PROP)
        corpus = []
        for p in sorted(os.listdir(cdir)) if os.path.isdir(cdir) else []:
            if p.endswith('.json'):
                corpus += json.load(open(os.path.join(cdir, p)))
        if corpus:
            cs, elog = engine_run(binary, cases=[strip(c) for c in corpus])
            cases += cs or []
        gen, elog = engine_run(binary, seed=seed, n=n)
        if gen is None:
            rep.obligation('engine harness run', False)
            rep.violation({'broken': 'engine harness run failed', 'log': elog[-4000:]}, nofail=True)
            return rep.finish()
        cases += gen
    bad = [(i, engine_monitor(c)) for i, c in enumerate(cases)]
    bad = [(i, m) for i, m in bad if m]
    mism, okc2, clog2 = [], True, ''
    if cases:
        okc2, mism, clog2 = vlib.eval_cases(PROP, HEADER, [c['coq'] for c in cases], shard_size=40, ty='ecase')
        rep.obligation('engine correspondence: %d schedules handled identically by sim.SerialEngine and the model' % len(cases),
                       okc2 and not mism)

    if bad:
        i, msg = bad[0]
        c = cases[i]

        def fails(c2):
            out, _ = engine_run(binary, cases=[c2])
            return bool(out) and engine_monitor(out[0]) is not None
        s = strip(c)
        s['tops'] = vlib.ddmin(s['tops'], lambda t: fails(dict(s, tops=t)))
        s['tbl'] = vlib.ddmin(s['tbl'], lambda t: fails(dict(s, tbl=t))) if len(s['tbl']) > 1 else s['tbl']
        out, _ = engine_run(binary, cases=[s])
        rep.violation({'property': PROP, 'kind': 'engine', 'what': msg, 'case': out[0] if out else c,
                       'replay_cmd': './check C05 --replay <this file>'}, text=msg)
    elif mism or not okc2:
        # try harder to find a property failure before reporting a broken correspondence
        more_bad = None
        for k in range(1, 4):
            g, _ = engine_run(binary, seed=seed + 1000 * k, n=n)
            for c in g or []:
                if engine_monitor(c):
                    more_bad = c
                    break
            if more_bad:
                break
        if more_bad:
            rep.violation({'property': PROP, 'kind': 'engine', 'what': engine_monitor(more_bad), 'case': more_bad}, text=engine_monitor(more_bad))
        else:
            i, k = mism[0] if mism else (0, 0)
            rep.violation({'property': PROP, 'kind': 'engine',
                           'broken': 'correspondence between coq/sys/Engine.v and akita sim.SerialEngine / container/heap: '
                                     'schedule %d differs (code %d: k+1 = first differing handled position k, 1000000 = panic flag, '
                                     '1000001 = final time); theorem serial_engine_function no longer speaks about this code' % (i, k),
                           'case': cases[i] if cases else None, 'log': clog2[-2000:]}, nofail=True,
                          text='engine model/implementation mismatch at schedule %d (code %d); no nondeterminism exhibited' % (i, k))

    # ---- (iii) repeated whole simulations (validation)
    specs = workloads(thorough)
    sim_thorough = thorough
    if replay and replay.get('kind') == 'sim':
        specs = [replay['spec']]
        sim_thorough = True
    elif replay:
        specs = []
    sim_summary = []
    n_runs = 0
    handoff_seen = []
    witness = None
    gmps = sorted({g for g, _ in (PERT_THOROUGH if sim_thorough else PERT_QUICK)})
    t_sim = time.time()
    with ThreadPoolExecutor(max_workers=8) as pool:
        # several workloads at a time (each issues its own repetitions through `pool`)
        with ThreadPoolExecutor(max_workers=4) as outer:
            results = list(outer.map(lambda sp: compare_workload(binary, sp, sim_thorough, pool), specs))
        for spec, (runs, verdict, detail, notes) in zip(specs, results):
            n_runs += len(runs) + sum(1 for r in runs if r.get('twice'))
            sim_summary.append({'workload': spec['name'], 'flags': ' '.join(spec['flags']), 'runs': len(runs), 'verdict': verdict,
                                'settled': sum(1 for r in runs if r.get('settle')), 'unsettled': sum(1 for r in runs if not r.get('settle') and not r.get('hold')),
                                'second_in_process': bool(spec.get('twice')), 'slow_engine_schedule': bool(spec.get('hold')), **notes,
                                'metric_rows': len(runs[0]['rows'] or []), 'final_time': (runs[0]['out'] or {}).get('final_time'),
                                'timeouts_retried': sum(r.get('timeouts', 0) for r in runs)})
            if verdict == 'violation':
                rep.violation({'property': PROP, 'kind': 'sim', 'spec': spec, 'detail': detail,
                               'replay_cmd': './check C05 --replay <this file>'},
                              text='%s: %s' % (spec['name'], detail.get('what')))
            elif verdict == 'handoff':
                handoff_seen.append({'workload': spec['name'], **detail})
        rep.obligation('validation: %d workloads, each repeated in fresh processes under perturbed Go runtimes (GOMAXPROCS %s, GOGC off/1/20/default), '
                       'settled + ordinary + slow-engine schedules, second in-process run: final time, every mgpusim_metrics row, every driver '
                       'command start/end, functional result agree' % (len(specs), gmps),
                       not any(s['verdict'] == 'violation' for s in sim_summary))

        # ---- known finding: the hand-off witness is run every time
        if not replay or replay.get('kind') == 'handoff':
            wg = [16, 16, 16, 16, 16] if not thorough else [16] * 8 + [2, 2]
            wjobs = [dict(gmp=g) for g in wg] + [dict(gmp=16, settle=True), dict(gmp=16, gogc='1', settle=True)]
            wruns = list(pool.map(lambda a: sim_run(binary, WITNESS, a[1].pop('gmp'), a[0], **a[1]), list(enumerate([dict(j) for j in wjobs]))))
            n_runs += len(wruns)
            failed = [r for r in wruns if r['rc'] != 0]
            good = [r for r in wruns if r['rc'] == 0]
            cntw = collections.Counter(observables(r, WITNESS) for r in good)
            witness = {'runs': len(wruns), 'failed_runs': len(failed), 'timeouts_retried': sum(r.get('timeouts', 0) for r in wruns),
                       'final_times': dict(collections.Counter(str((r['out'] or {}).get('final_time')) for r in wruns)),
                       'reproduced': False}
            if failed and any(r['rc'] != 124 for r in failed):
                r = next(r for r in failed if r['rc'] != 124)
                rep.violation({'property': PROP, 'kind': 'sim', 'spec': WITNESS, 'detail': {'what': 'run failed', 'cmd': r['cmd'], 'tail': r['tail']}},
                              text='hand-off witness run failed: exit %s' % r['rc'])
            elif good:
                settled = [r for r in good if r['settle']]
                base = settled[0] if settled else good[0]
                base_obs = observables(base, WITNESS)
                witness['settled_runs_identical'] = len({observables(r, WITNESS) for r in settled}) <= 1
                dev = [r for r in good if observables(r, WITNESS) != base_obs]
                hard = [r for r in dev if not same_shape(base, r)]
                if not witness['settled_runs_identical']:
                    rep.violation({'property': PROP, 'kind': 'sim', 'spec': WITNESS,
                                   'detail': {'what': 'settled repetitions of the hand-off witness differ', 'cmd_a': settled[0]['cmd'],
                                              'cmd_b': settled[1]['cmd'], 'differing': row_diff(settled[0], settled[1])}},
                                  text='hand-off witness: settled repetitions differ')
                elif hard:
                    rep.violation({'property': PROP, 'kind': 'sim', 'spec': WITNESS,
                                   'detail': {'what': 'functional result or metric rows differ', 'cmd_a': base['cmd'], 'cmd_b': hard[0]['cmd'],
                                              'differing': row_diff(base, hard[0])}}, text='hand-off witness: functional result or metric rows differ')
                elif dev:
                    witness['reproduced'] = True
                    witness['deviating_runs_by_gomaxprocs'] = dict(collections.Counter(str(r['gomaxprocs']) for r in dev))
                    handoff_seen.append({'workload': WITNESS['name'], 'cmd_a': base['cmd'], 'cmd_b': dev[0]['cmd'],
                                         'differing': row_diff(base, dev[0]), 'deviating_runs': len(dev)})
            if failed:
                witness['note'] = 'runs that hit the timeout are the drain hang of property C12 (lost wake-up), not counted here'
    t_sim = time.time() - t_sim
    if handoff_seen:
        rep.known_finding('[handoff-race] ' + KNOWN_HANDOFF + '; observed in: ' + ', '.join(sorted({h['workload'] for h in handoff_seen})),
                          key='handoff-race',
                          replay_obj={'property': PROP, 'kind': 'handoff', 'what': KNOWN_HANDOFF, 'observations': handoff_seen[:3],
                                      'note': 'known finding C05/handoff-race is not listed (status open) in known_findings.json'})

    # ---- a site nobody classified: after trying to exhibit a difference, report it
    if new_sites and not rep.violations:
        rep.violation({'property': PROP, 'kind': 'site',
                       'broken': 'new source of nondeterminism in the Go sources without classification in tools/checks/c05_sites.json; '
                                 'theorem every_site_accounted (coq/props/C05.v) no longer holds for this tree',
                       'sites': new_sites, 'runs_compared': n_runs}, nofail=True,
                      text='unclassified nondeterminism site(s): ' + '; '.join('%s (%s:%d)' % (s['key'], s['file'], s['line']) for s in new_sites))
    elif not coq_props_ok and not rep.violations:
        rep.violation({'broken': 'coq/props/C05.v does not compile', 'log': (plog + clog)[-4000:]}, nofail=True)
    elif not acc_ok and not rep.violations:
        rep.violation({'broken': 'a lemma cited in tools/checks/c05_sites.json does not exist', 'lemmas': lemmas, 'log': acc_log[-3000:]}, nofail=True)

    by_class = collections.Counter(classes[k]['class'] for k in keys if k in classes)
    rep.coverage.update({
        'evaluations': len(cases) + n_runs,
        'distinct_nontrivial': len({vlib.case_hash(strip(c)) for c in cases if engine_nontrivial(c)}),
        'rule': 'engine: random schedules (4-63 events, deltas 0-4 cycles, ~25-50%% secondary events, up to 3 Schedule/Run rounds from '
                'outside, hostile stream with Schedule calls in the past); non-trivial = at least 4 handled events with at least one '
                'equal-time pair. simulations: each workload repeated in fresh processes under perturbed Go runtimes (GOMAXPROCS %s x GOGC off/1/20/default)' % gmps,
        'traces_validated_against_impl': len(cases),
        'engine_schedules': len(cases),
        'engine_events_handled': sum(len(c['handled']) for c in cases),
        'engine_equal_time_pairs': sum(sum(1 for a, b in zip(c['handled'], c['handled'][1:]) if a[1] == b[1]) for c in cases),
        'engine_kinds': dict(collections.Counter(c.get('kind', '') for c in cases)),
        'engine_panics': sum(1 for c in cases if c['crashed']),
        'engine_model_mismatches': len(mism), 'engine_monitor_failures': len(bad),
        'sites_found': len(keys), 'sites_by_kind': dict(collections.Counter(s['kind'] for s in sim_sites)),
        'workload_input_sites': [{'key': x['key'], 'kind': x['kind']} for x in workload_sites],
        'sites_by_class': dict(by_class), 'sites_unclassified': [s['key'] for s in new_sites], 'classification_stale_entries': stale,
        'packages_walked': found['packages'], 'files_walked': found['files'],
        'unmodelled_library_sites': [{'key': x['key'], 'kind': x['kind'], 'line': x['line']} for x in (lib or {}).get('sites', [])],
        'library_packages_walked': (lib or {}).get('packages'), 'library_files_walked': (lib or {}).get('files'),
        'order_relevant_sites_unmodelled': [k for k in keys if k in classes and classes[k]['class'] == 'order_relevant'],
        'simulation_runs': n_runs, 'simulation_wall_s': round(t_sim, 1), 'simulation_workloads': sim_summary,
        'handoff_witness': witness, 'handoff_observations': handoff_seen[:3],
        'validation_note': 'run-to-run comparison is validation, not proof',
    })
    rep.samples = [{'tops': c['tops'][:8], 'handled': c['handled'][:12]} for c in cases[:2]]
    return rep.finish()


if __name__ == '__main__':
    sys.exit(main(sys.argv[1:]))
