"""C11 — host-device copies.  Theorems: coq/props/C11.v over coq/lib/Chunks.v,
coq/drv/MemCopy.v, coq/cp/Dma.v, coq/mem/StorageAccessor.v.
Tie: (a) tick-exact correspondence of the real cp.DMAEngine with the Gallina
model; (b) a standalone driver.Driver (magic and default middleware, harness
plays the GPUs) and the emulator's storage accessor against the flat-memory
model; (c) samples of memRangeOverlap."""
import json, os, sys, collections
sys.path.insert(0, os.path.dirname(os.path.dirname(os.path.abspath(__file__))))
import vlib

PROP = 'C11'
HDR_DMA = 'From Coq Require Import List NArith.\nImport ListNotations.\nFrom VCp Require Import Dma.\nOpen Scope N_scope.\n'
HDR_SEQ = ('From Coq Require Import List NArith.\nImport ListNotations.\nFrom VMem Require Import StorageAccessor.\n'
           'From VDrv Require Import MemCopy CopySeq.\nOpen Scope N_scope.\n')
HDR_CPR = 'From Coq Require Import List NArith.\nImport ListNotations.\nFrom VCp Require Import CpRelay.\nOpen Scope N_scope.\n'
HDR_HIST = ('From Coq Require Import List NArith.\nImport ListNotations.\nFrom VDrv Require Import MemCopy FlushHist.\n'
            'Open Scope N_scope.\n')
HDR_DRV = ('From Coq Require Import List NArith.\nImport ListNotations.\nFrom VMem Require Import StorageAccessor.\n'
           'From VDrv Require Import MemCopy.\nOpen Scope N_scope.\n')
COQ_TARGETS = ['props/C11.vo']

# no open known findings: the two hang findings and the freed-buffer panic are repaired (see docs/C11.md)


# ------------------------------------------------------------------ monitors

def mon_ovl(c):
    if c['s1'] < c['e1'] and c['s2'] < c['e2']:
        want = max(c['s1'], c['s2']) < min(c['e1'], c['e2'])
        if c['got'] != want:
            return 'memRangeOverlap(%d,%d,%d,%d) = %s but the ranges %s' % (
                c['s1'], c['e1'], c['s2'], c['e2'], c['got'], 'intersect' if want else 'are disjoint')
    return None


def mon_dma(case):
    """Sound monitor on a DMA port trace (protocol-respecting memory only)."""
    ev = case['events']
    if any(e.get('crash') for e in ev):
        return None if case.get('hostile') else 'the DMA engine panicked on protocol-respecting traffic'
    if case.get('hostile'):
        return None
    unit = 1 << case['lg']
    # the memory must respect the protocol: one answer of the right kind per retrieved sub-request
    seen_sub, ans = {}, set()
    for e in ev:
        if e['e'] == 'rm' and e.get('sub'):
            seen_sub[e['sub']['id']] = e['sub']
        elif e['e'] == 'dm':
            r = e['rsp']
            q = seen_sub.get(r['to'])
            if q is None or r['to'] in ans or r['kind'] != ('RDone' if q['write'] else 'RData') or \
               (not q['write'] and len(r['data']) != q['size']):
                return None
            if e.get('acc'):
                ans.add(r['to'])
    for e in ev:
        if e['e'] == 'dcp' and (e['copy']['kind'] == 'COther' or e['copy']['id'] in
                                [x['copy']['id'] for x in ev if x is not e and x['e'] == 'dcp']):
            return None
    delivered = {}
    t_deliv = {}
    for i, e in enumerate(ev):
        if e['e'] == 'dcp' and e.get('acc'):
            delivered[e['copy']['id']] = e['copy']
            t_deliv[e['copy']['id']] = i
    subs = {}
    answered_at = {}
    done = {}
    for i, e in enumerate(ev):
        if e['e'] == 'rm' and e.get('sub'):
            s = e['sub']
            subs[s['id']] = s
            if not s['dst_ok']:
                return 'sub-request %d has wrong source/destination/type' % s['id']
            if s['size'] == 0 or (s['addr'] % unit) + s['size'] > unit:
                return 'sub-request %d [%d,+%d) is empty or crosses an access unit of %d bytes' % (s['id'], s['addr'], s['size'], unit)
            # every write carries bytes of some delivered H2D command, at the right address
            if s['write']:
                ok = False
                for c in delivered.values():
                    if c['kind'] == 'CH2D' and c['addr'] <= s['addr'] and s['addr'] + s['size'] <= c['addr'] + len(c['data']):
                        o = s['addr'] - c['addr']
                        if c['data'][o:o + s['size']] == s['data']:
                            ok = True
                            break
                if not ok:
                    return 'write sub-request %d [%d,+%d) does not carry the bytes of any copy command' % (s['id'], s['addr'], s['size'])
            else:
                if not any(c['kind'] == 'CD2H' and c['addr'] <= s['addr'] and s['addr'] + s['size'] <= c['addr'] + len(c['data'])
                           for c in delivered.values()):
                    return 'read sub-request %d [%d,+%d) lies outside every D2H command' % (s['id'], s['addr'], s['size'])
        elif e['e'] == 'dm' and e.get('acc'):
            answered_at.setdefault(e['rsp']['to'], i)
        elif e['e'] == 'rcp' and e.get('done'):
            d = e['done']
            if d['id'] not in delivered:
                return 'completion for a command that was never delivered (id %d)' % d['id']
            if d['id'] in done:
                return 'command %d completed twice' % d['id']
            done[d['id']] = i
            c = delivered[d['id']]
            if d['src'] != c['src'] or d['kind'] != c['kind'] or d['addr'] != c['addr']:
                return 'completion of command %d routed/typed wrongly' % d['id']
            # all bytes of the command must have been transferred by answered sub-requests before now
            n = len(c['data'])
            covered = [False] * n
            for sid, s in subs.items():
                if sid in answered_at and answered_at[sid] < i and s['write'] == (c['kind'] == 'CH2D'):
                    lo, hi = s['addr'] - c['addr'], s['addr'] - c['addr'] + s['size']
                    if lo >= 0 and hi <= n and (not s['write'] or c['data'][lo:hi] == s['data']):
                        for k in range(lo, hi):
                            covered[k] = True
            if not all(covered):
                return 'command %d completed before all of its bytes were transferred (first missing offset %d)' % (d['id'], covered.index(False))
            if c['kind'] == 'CD2H':
                # returned bytes = what the memory answered (skip bytes with competing writes in flight)
                lo_t = t_deliv[d['id']]
                dirty = set()
                for sid, s in subs.items():
                    if s['write'] and answered_at.get(sid, 1 << 60) >= lo_t:
                        dirty.update(range(s['addr'], s['addr'] + s['size']))
                memimg = {}
                for sid, s in subs.items():
                    if s['write'] and sid in answered_at and answered_at[sid] < lo_t:
                        memimg[sid] = s
                img = {}
                for sid in sorted(memimg, key=lambda x: answered_at[x]):
                    s = memimg[sid]
                    for k in range(s['size']):
                        img[s['addr'] + k] = s['data'][k]
                for k in range(n):
                    a = c['addr'] + k
                    if a in dirty:
                        continue
                    want = img.get(a, (a * 131 + 7) & 0xff)
                    if d['data'][k] != want:
                        return 'D2H command %d returned %d at offset %d, memory holds %d' % (d['id'], d['data'][k], k, want)
    if case.get('drained'):
        for cid, c in delivered.items():
            if cid not in done:
                return 'command %d never completed although every sub-request was answered' % cid
    return None


def mon_seq(case):
    """Batches of copies drained once, accessor accesses and page moves: flat reference over the physical memory,
    every access translated through the page table that is current when it executes."""
    ps = 1 << 12
    pt = {p['key']: p for p in case['pt']}
    pmem = {}

    def tr(va):
        p = pt.get(va - va % ps)
        return None if p is None else p['p'] + (va - p['v'])

    def mapped(a, n):
        return all(tr(x) is not None for x in ({a + i for i in range(0, n, ps)} | ({a + n - 1} if n else set())))

    for k, e in enumerate(case['events']):
        if e['e'] == 'batch':
            if e.get('crash'):
                if all(mapped(x['addr'], len(x['data'] or []) if not x['d2h'] else x['n']) for x in e['copies']):
                    return 'event %d: a batch of %d copies panicked although every page is mapped' % (k, len(e['copies']))
                return None
            if e.get('stuck'):
                return 'event %d: the batch of %d copies was not drained although every request was answered' % (k, len(e['copies']))
            # queue order; the queues work on their own buffers, so the enqueue order is a valid serialization
            for j, x in enumerate(e['copies']):
                if x['d2h']:
                    want = [pmem.get(tr(x['addr'] + i), 0) for i in range(x['n'])]
                    if x['out'] != want:
                        bad = next(i for i in range(max(len(want), len(x['out']))) if i >= len(want) or i >= len(x['out']) or want[i] != x['out'][i])
                        return ('event %d: device-to-host copy %d of the batch (queue %d, %#x +%d, %d copy commands in flight together) '
                                'returned bytes that its source range does not hold at its place in the queue order '
                                '(first difference at offset %d)' % (k, j, x['q'], x['addr'], x['n'], e.get('inflight', 0), bad))
                else:
                    for i, b in enumerate(x['data']):
                        pmem[tr(x['addr'] + i)] = b
        elif e['e'] == 'remap':
            if e.get('crash') or not e.get('page'):
                return None                  # the allocator's business (C10)
            pt[e['page']['key']] = e['page']
        elif e['e'] == 'accw':
            if e.get('crash'):
                return None if not mapped(e['addr'], len(e['data'])) else 'event %d: accessor write panicked on mapped pages' % k
            for i, b in enumerate(e['data']):
                pmem[tr(e['addr'] + i)] = b
        elif e['e'] == 'accr':
            if e.get('crash'):
                return None if not mapped(e['addr'], e['n']) else 'event %d: accessor read panicked on mapped pages' % k
            want = [pmem.get(tr(e['addr'] + i), 0) for i in range(e['n'])]
            if e['out'] != want:
                return ('event %d: accessor read %#x +%d does not return the bytes of the frames the page table currently maps '
                        '(stale translation?)' % (k, e['addr'], e['n']))
    for w in case['dump']:
        for i, b in enumerate(w['bytes']):
            if b != pmem.get(w['pa'] + i, 0):
                return 'storage byte %#x holds %d, the copies executed through the current page table leave %d there' % (
                    w['pa'] + i, b, pmem.get(w['pa'] + i, 0))
    return None


def mon_cpr(case):
    """The command processor between driver, DMA engine and caches (protocol-respecting environment only)."""
    ev = case['events']
    if case.get('hostile'):
        return None
    if any(e.get('panic') for e in ev):
        return 'the command processor panicked on protocol-respecting traffic'
    nc = sum(case['ncache'])
    reqs = {}          # id -> (kind, src, index of delivery)
    order = []         # accepted requests in port order
    for i, e in enumerate(ev):
        if e['e'] == 'ddrv' and e.get('acc'):
            reqs[e['req']['id']] = (e['req']['kind'], e['req']['src'], i)
            order.append(e['req']['id'])
    acks_at = []       # event indices of accepted cache acknowledgements
    dma_ans = {}       # clone id -> index of the accepted answer
    clone_of = {}      # clone id -> original
    seen_clone, seen_rsp = set(), set()
    for i, e in enumerate(ev):
        if e['e'] == 'dcache' and e.get('acc') and not e.get('bad'):
            acks_at.append(i)
        elif e['e'] == 'ddma' and e.get('acc') and e.get('rspto') is not None:
            dma_ans.setdefault(e['rspto'], i)
        elif e['e'] == 'rcache' and e.get('cache') is not None:
            if e['cache'] >= nc:
                return 'flush request sent to something that is not one of the %d caches' % nc
        elif e['e'] == 'rdma' and e.get('clone'):
            c = e['clone']
            if c['orig'] not in reqs or reqs[c['orig']][0] != c['kind'] or not c['dst_ok']:
                return 'event %d: the DMA engine received a request that is no copy of a driver request (%s)' % (i, c)
            if c['orig'] in seen_clone:
                return 'event %d: copy request %d forwarded to the DMA engine twice' % (i, c['orig'])
            seen_clone.add(c['orig'])
            clone_of[c['id']] = c['orig']
            # every flush ordered before this copy must be fully acknowledged before the copy can be forwarded
            before = [r for r in order if r == c['orig'] or reqs[r][2] < reqs[c['orig']][2]]
            nflush = sum(1 for r in before if reqs[r][0] == 'DFlush')
            have = sum(1 for t in acks_at if t < i)
            if have < nflush * nc:
                return ('event %d: %s copy %d reached the DMA port while cache flushes ordered before it were '
                        'unacknowledged (%d of %d acknowledgements delivered)' % (i, c['kind'], c['orig'], have, nflush * nc))
        elif e['e'] == 'rdrv' and e.get('rsp'):
            p = e['rsp']
            if p['orig'] not in reqs or reqs[p['orig']][0] != p['kind']:
                return 'event %d: response for a request the driver never sent (%s)' % (i, p)
            if p['orig'] in seen_rsp:
                return 'event %d: request %d answered twice' % (i, p['orig'])
            seen_rsp.add(p['orig'])
            kind, src, t0 = reqs[p['orig']]
            if p['dst'] != (1 if (kind == 'DFlush' and nc == 0) else src):
                return 'event %d: response to request %d routed to %d' % (i, p['orig'], p['dst'])
            if kind == 'DFlush':
                nflush = sum(1 for r in order if reqs[r][0] == 'DFlush' and reqs[r][2] <= t0)
                if sum(1 for t in acks_at if t < i) < nflush * nc:
                    return 'event %d: flush %d answered before all caches acknowledged' % (i, p['orig'])
            else:
                if not any(clone_of.get(cid) == p['orig'] and t < i for cid, t in dma_ans.items()):
                    return 'event %d: copy %d answered before the DMA engine completed it' % (i, p['orig'])
    if case.get('drained') and not case.get('cap'):
        for rid in order:
            if reqs[rid][0] != 'DOther' and rid not in seen_rsp:
                return 'request %d (%s) never answered although caches and DMA engine answered everything' % (rid, reqs[rid][0])
    return None


def zero_pos(addr, bufs):
    """Position of a zero-byte copy relative to the dirty buffers [(start, size)]: inside / start / end / outside."""
    if any(st < addr < st + sz for st, sz in bufs):
        return 'inside'
    if any(addr == st for st, sz in bufs):
        return 'start'
    if any(addr == st + sz for st, sz in bufs):
        return 'end'
    return 'outside'


def completion_fault(what, nflush, nreq, after, ends, crash_at, default_mw):
    """The rules every copy command obeys whatever its size: no panic while its requests are answered (each once), it
    leaves its queue exactly when the last answer - flush acknowledgements included - has been processed, and the
    driver reports it complete exactly once.  after = answers delivered when it left the queue (-1 never),
    crash_at = answers delivered when the driver panicked (-1 no panic).  The harness delivers the flush
    acknowledgements first unless told otherwise, so answer k < nflush is a flush acknowledgement."""
    if crash_at >= 0 and nreq == 0:
        return '%s: the driver panicked although the command waits for no request (reported complete %d times)' % (what, ends)
    if crash_at >= 0:
        early = (' after the command had already left its queue with %d of %d answers delivered (%d of them flush '
                 'acknowledgements outstanding)' % (after, nreq, max(0, nflush - after))) if 0 <= after < nreq else ''
        return '%s: the driver panicked while answer %d of %d was processed%s' % (what, crash_at + 1, nreq, early)
    if after < 0:
        return '%s never completed although all %d requests were answered' % (what, nreq)
    if after != nreq:
        return '%s returned after %d of %d answers (%d flush requests): it must wait for every one of its requests' % (
            what, after, nreq, nflush)
    if default_mw and ends != 1:
        return '%s was reported complete %d times' % (what, ends)
    return None


def mon_hist(case):
    """Multi-queue history of one context.  A copy whose range shares a byte with a buffer that existed when a
    kernel was launched, that kernel having completed since the last flush was issued, must flush."""
    running = {}            # queue -> number of buffers existing at launch
    need = []               # (prefix, queue) of kernels completed after the last flush
    nb = len(case.get('initb', []))
    bufs = [(b['start'], b['size']) for b in case.get('initb', [])]
    for k, e in enumerate(case['events']):
        if e.get('crash'):
            if e['e'] == 'copy' and 'nreq' in e:
                return 'event %d: %s' % (k, completion_fault(
                    '%s %#x +%d on queue %d' % ('D2H' if e.get('d2h') else 'H2D', e.get('addr', 0), e.get('n', 0), e['q']),
                    case['ngpu'] if e['flush'] else 0, e['nreq'], e.get('after', -1), e.get('ends', 0), e.get('crash_at', 0), True))
            return 'event %d (%s on queue %d) panicked' % (k, e['e'], e['q'])
        if e['e'] == 'alloc':
            bufs.append((e['ptr'], e['size']))
        elif e['e'] == 'launch' and e['done']:
            running[e['q']] = len(bufs)
        elif e['e'] == 'complete':
            if e['q'] in running:
                if not e['done']:
                    return 'event %d: the kernel of queue %d was answered but its command did not complete' % (k, e['q'])
                need.append((running.pop(e['q']), e['q']))
        elif e['e'] == 'copy' and (e['done'] or e['flush']):
            if e['flush']:
                need = []
            else:
                for m, q in need:
                    for (st, sz) in bufs[:m]:
                        if sz > 0 and max(st, e['addr']) < min(st + sz, e['addr'] + e.get('n', 0)):
                            return ('event %d: %s %#x +%d on queue %d skipped the cache flush although the kernel of queue %d '
                                    'completed since the last flush and may have written buffer [%#x,+%d)'
                                    % (k, 'D2H' if e.get('d2h') else 'H2D', e['addr'], e.get('n', 0), e['q'], q, st, sz))
            if not e['done']:
                return 'event %d: copy on queue %d did not complete after all responses' % (k, e['q'])
            if 'nreq' in e:
                m = completion_fault('%s %#x +%d on queue %d' % ('D2H' if e.get('d2h') else 'H2D', e['addr'], e.get('n', 0), e['q']),
                                     case['ngpu'] if e['flush'] else 0, e['nreq'], e['after'], e['ends'], -1, True)
                if m:
                    return 'event %d: %s' % (k, m)
    return None


def translate(case):
    ps = 1 << case['lg']
    pt = {p['key']: p for p in case['pt']}
    def tr(va):
        p = pt.get(va - va % ps)
        return None if p is None else p['p'] + (va - p['v'])
    return tr


def mon_drv(case):
    """Flat byte-array reference over virtual addresses.  Returns (violation, known)."""
    tr = translate(case)
    ps = 1 << case['lg']
    vmem = {}
    known = None
    injective = len({p['p'] for p in case['pt']}) == len(case['pt'])
    for k, op in enumerate(case['ops']):
        kind = op['op']
        if kind in ('dirty', 'setup', 'free'):
            if op['crash']:
                return 'setting the case up panicked', known
            continue
        n = len(op['data']) if kind in ('h2d', 'accw') else op['n']
        mapped = all(tr(a) is not None for a in ({op['addr'] + i for i in range(0, n, ps)} | ({op['addr'] + n - 1} if n else set())))
        if op['crash']:
            if mapped:
                if kind in ('h2d', 'd2h') and op.get('crash_at', -1) >= 0 and op.get('order'):
                    return 'operation %d: %s' % (k, completion_fault(
                        '%s %#x +%d' % (kind, op['addr'], n), op['nflush'], len(op['order']), op['completed_after'],
                        op.get('completions', 0), op['crash_at'], not case['magic'])), known
                return 'operation %d (%s %#x +%d) panicked although every page is mapped' % (k, kind, op['addr'], n), known
            return None, known            # nothing after a panic is judged
        if not mapped:
            return 'operation %d (%s %#x +%d) touched an unmapped page without failing' % (k, kind, op['addr'], n), known
        if kind in ('h2d', 'd2h'):
            if not op['completed']:
                return 'operation %d (%s) never completed although all %d requests were answered' % (k, kind, op['total']), known
            if op['completed_after'] != op['total'] and 'completions' not in op:
                return 'operation %d (%s) completed after %d of %d responses' % (k, kind, op['completed_after'], op['total']), known
            if 'completions' in op:
                m = completion_fault('%s %#x +%d' % (kind, op['addr'], n), op['nflush'], op['total'], op['completed_after'],
                                     op['completions'], -1, not case['magic'])
                if m:
                    return 'operation %d: %s' % (k, m), known
            need = any(b['dirty'] and max(b['start'], op['addr']) < min(b['start'] + b['size'], op['addr'] + n) for b in op['bufs'])
            if need and not op['flush'] and n > 0:
                return ('operation %d (%s %#x +%d) skipped the cache flush although it intersects a dirty buffer'
                        % (k, kind, op['addr'], n)), known
            if op['flush'] and op['nflush'] != case['ngpu']:
                return 'operation %d flushed %d of %d GPUs' % (k, op['nflush'], case['ngpu']), known
            if case['magic'] and op['reqs']:
                return 'operation %d: the global-storage middleware sent copy requests' % k, known
            # the requests move exactly the translated bytes, each once, each inside one page, to the owning GPU
            seen = {}
            for r in op['reqs']:
                if r['len'] == 0 or (r['pa'] % ps) + r['len'] > ps:
                    return 'operation %d: request [%#x,+%d) is empty or crosses a page' % (k, r['pa'], r['len']), known
                dev = [d['id'] for d in case['devs'] if d['lo'] <= r['pa'] < d['lo'] + d['size']]
                if dev != [r['dev']]:
                    return 'operation %d: request for %#x sent to GPU %d, owner is %s' % (k, r['pa'], r['dev'], dev), known
                for i in range(r['len']):
                    if r['pa'] + i in seen:
                        return 'operation %d: physical byte %#x transferred twice' % (k, r['pa'] + i), known
                    seen[r['pa'] + i] = r['data'][i] if kind == 'h2d' else None
            want = {tr(op['addr'] + i): (op['data'][i] if kind == 'h2d' else None) for i in range(n)}
            if injective and not case['magic'] and seen != want:
                return 'operation %d (%s %#x +%d): the requests do not move exactly the requested bytes' % (k, kind, op['addr'], n), known
        if kind in ('h2d', 'accw'):
            for i in range(n):
                vmem[op['addr'] + i] = op['data'][i]
        else:
            want = [vmem.get(op['addr'] + i, 0) for i in range(n)]
            if op['out'] != want:
                bad = next(i for i in range(max(len(want), len(op['out']))) if i >= len(want) or i >= len(op['out']) or want[i] != op['out'][i])
                return 'operation %d (%s %#x +%d) returned wrong bytes (first difference at offset %d)' % (k, kind, op['addr'], n, bad), known
    # frame: every dumped physical byte is the image of the reference or untouched (zero)
    if injective:
        img = {}
        for va, v in vmem.items():
            img[tr(va)] = v
        for w in case['dump']:
            for i, b in enumerate(w['bytes']):
                if b != img.get(w['pa'] + i, 0):
                    return 'storage byte %#x holds %d, expected %d (outside every copied range: must be untouched)' % (
                        w['pa'] + i, b, img.get(w['pa'] + i, 0)), known
    return None, known


# ------------------------------------------------------------------ plumbing

def strip(obj):
    """replay input: cases without observations"""
    out = {'dma': [], 'drv': [], 'ovl': [], 'hist': [], 'cpr': [], 'seq': []}
    for c in obj.get('dma', []):
        out['dma'].append({'lg': c['lg'], 'max': c.get('max', 4), 'hostile': c.get('hostile', False), 'drained': c.get('drained', False),
                           'events': [{k: e[k] for k in ('e', 'copy', 'rsp') if k in e} for e in c['events']]})
    for c in obj.get('drv', []):
        out['drv'].append({'lg': c['lg'], 'magic': c['magic'], 'ngpu': c['ngpu'],
                           'allocs': [{'size': a['size'], 'gpu': a['gpu'], 'remap': a.get('remap', []), 'unified': a.get('unified') or [],
                                       'distribute': a.get('distribute') or []} for a in c['allocs']],
                           'ops': [{'op': o['op'], 'addr': o['addr'], 'data': o.get('data', []), 'n': o.get('n', 0),
                                    'typ': o.get('typ', 'bytes'), 'flush_last': o.get('flush_last', False),
                                    'order': o.get('order') or []} for o in c['ops']]})
    for c in obj.get('ovl', []):
        out['ovl'].append({k: c[k] for k in ('s1', 'e1', 's2', 'e2')})
    for c in obj.get('seq', []):
        out['seq'].append({'magic': c['magic'], 'ngpu': c['ngpu'], 'nq': c['nq'], 'sizes': c['sizes'],
                           'events': [dict({k: e[k] for k in ('e', 'addr', 'gpu', 'data', 'n') if k in e},
                                           **({'copies': [{k: x.get(k) for k in ('q', 'd2h', 'addr', 'data', 'n')}
                                                          for x in e['copies']]} if e.get('copies') else {}))
                                      for e in c['events']]})
    for c in obj.get('cpr', []):
        out['cpr'].append({'ncache': c['ncache'], 'cap': c.get('cap', 0), 'hostile': c.get('hostile', False),
                           'drained': c.get('drained', False),
                           'events': [{k: e[k] for k in ('e', 'req', 'rspto', 'bad') if k in e} for e in c['events']]})
    for c in obj.get('hist', []):
        out['hist'].append({'ngpu': c['ngpu'], 'nq': c['nq'], 'init': c['init'],
                            'events': [{k: e[k] for k in ('e', 'q', 'size', 'd2h', 'addr', 'n') if k in e} for e in c['events']]})
    return out


def run_impl(binary, cases=None, seed=1, n=(60, 40, 200, 60, 80, 60)):
    tmp = os.path.join(vlib.BUILD, 'c11_%d.json' % os.getpid())
    scratch = os.path.join(vlib.BUILD, 'c11_scratch')
    os.makedirs(scratch, exist_ok=True)
    if cases is not None:
        inp = tmp + '.in'
        json.dump(cases, open(inp, 'w'))
        rc, log = vlib.run([binary, '--replay', inp, '--out', tmp], cwd=scratch, timeout=600)
        os.remove(inp)
    else:
        rc, log = vlib.run([binary, '--seed', str(seed), '--ndma', str(n[0]), '--ndrv', str(n[1]), '--novl', str(n[2]), '--nhist', str(n[3]), '--ncpr', str(n[4]), '--nseq', str(n[5]),
                            '--out', tmp], cwd=scratch, timeout=900)
    if rc != 0:
        return None, log
    out = json.load(open(tmp))
    os.remove(tmp)
    return out, log


PLATFORM_SAMPLES = [
    # (name, package, arguments): full timing platform (driver, command processor, DMA engine, caches, DRAM)
    ('memcopy-timing', './amd/samples/memcopy', ['-timing', '-verify']),
    ('relu-timing', './amd/samples/relu', ['-timing', '-verify']),      # copy - kernel - copy: the D2H needs the flush
    ('memcopy-emu', './amd/samples/memcopy', ['-verify']),
    ('relu-timing-2gpu', './amd/samples/relu', ['-timing', '-verify', '-gpus=1,2']),   # flushes go to both GPUs
    ('fir-timing-2gpu', './amd/samples/fir', ['-timing', '-verify', '-gpus=1,2']),
]


def platform_samples(only=None):
    """Sampled end-to-end validation: H2D / kernel / D2H on the real platforms.  Returns [(name, verdict, log)],
    verdict in ok / fail / build-failed."""
    out = []
    bdir = os.path.join(vlib.BUILD, 'c11_samples' + vlib._repo_tag())
    os.makedirs(bdir, exist_ok=True)
    env = vlib.go_env()
    env.pop('GOFLAGS_EXTRA', None)
    built = {}
    for name, pkg, args in PLATFORM_SAMPLES:
        if only and name != only:
            continue
        binp = os.path.join(bdir, os.path.basename(pkg))
        if pkg not in built:
            with vlib.Lock('gobuild' + vlib._repo_tag()):
                rc, log = vlib.run([vlib.go_bin(), 'build', '-o', binp, pkg], cwd=vlib.REPO, env=env, timeout=900)
            built[pkg] = (rc, log)
        rc, log = built[pkg]
        if rc != 0:
            out.append((name, 'build-failed', log[-1500:]))
            continue
        scratch = os.path.join(vlib.BUILD, 'c11_platform_%d' % os.getpid())
        os.makedirs(scratch, exist_ok=True)
        rc, log = vlib.run([binp] + args, cwd=scratch, timeout=300)
        import shutil
        shutil.rmtree(scratch, ignore_errors=True)
        out.append((name, 'ok' if rc == 0 and 'Passed!' in log else 'fail', log[-1500:]))
    return out


def merge(a, b):
    return {k: a.get(k, []) + b.get(k, []) for k in ('dma', 'drv', 'ovl', 'hist', 'cpr', 'seq')}


def dma_nontrivial(c):
    return sum(1 for e in c['events'] if e.get('done')) >= 2


def hist_nontrivial(c):
    fl = set()
    for e in c['events']:
        if e['e'] == 'launch' and e['done']:
            fl.add(e['q'])
        elif e['e'] == 'complete':
            fl.discard(e['q'])
        elif e['e'] == 'copy' and e['done'] and fl:
            return True
    return False


def drv_nontrivial(c):
    ps = 1 << c['lg']
    for o in c['ops']:
        n = len(o['data']) if o['op'] in ('h2d', 'accw') else o.get('n', 0)
        if o['op'] not in ('dirty', 'free') and n and (o['addr'] % ps) + n > ps:
            return True
    return False


def main(argv):
    rep = vlib.Report(PROP, 'proof')
    rep.checker_cmd = ('make -C coq props/C11.vo && coqc props/C11.v (Print Assumptions) && '
                       'coqc cases/C11dma|C11drv|C11ovl/s*.v (vm_compute mismatches)')
    rep.trusted = ['Coq 8.16.1 kernel + vm_compute',
                   'hand-written models coq/lib/Chunks.v, coq/drv/MemCopy.v, coq/cp/Dma.v, coq/mem/StorageAccessor.v of the Go code',
                   'Go harness harness/cmd/c11 (stub connection, ID renumbering, harness-side memory and GPUs)',
                   'add-only hook amd/driver/verif_c11_hook.go (build tag verif)',
                   'akita ports modelled as bounded FIFOs; uint64 arithmetic modelled in N (no wrap-around: addr+len < 2^64)']
    rep.assumptions = ['a completed cache flush makes DRAM current (akita write-back caches are not modelled); the check only '
                       'decides whether the flush is requested when a dirty buffer intersects the copy range',
                       'the 4096-entry ports of the command processor never fill: cpMiddleware ignores the result of ToDMA.Send / '
                       'ToDriver.Send; coq/cp/CpRelay.v shows the loss when full and the relay theorem carries outgoing_not_full',
                       'page tables are well formed (C10): page.VAddr is the aligned key, page.PageSize the configured size, frames disjoint',
                       'the memory answers each sub-request at most once with the matching response type (hostile answers: model and '
                       'implementation agree on the panic, no property is claimed)']
    thorough = vlib.tier() == 'thorough'
    n = (600, 300, 2000, 1500, 1500, 1200) if thorough else (50, 40, 300, 150, 150, 120)

    replay_file = None
    if '--replay' in argv:
        replay_file = argv[argv.index('--replay') + 1]

    ok, log, binary = vlib.go_build('c11')
    rep.obligation('harness builds against the repository working tree', ok)
    if not ok:
        rep.violation({'broken': 'go build of harness/cmd/c11 failed', 'log': log[-4000:]}, nofail=True, text='harness build failed')
        return rep.finish()

    ok, log = vlib.coq_build(COQ_TARGETS)
    okp, plog, thms = vlib.coq_check_props(PROP) if ok else (False, log, [])
    if not (ok and okp):
        rep.obligation('coq build', False)
        rep.violation({'broken': 'Coq development for C11 does not compile', 'log': (log + plog)[-4000:]}, nofail=True)
        return rep.finish()
    for name, axioms in thms:
        rep.obligation('theorem ' + name + (' [axioms: %s]' % ', '.join(axioms) if axioms else ' [closed under the global context]'), True)

    # ---- run the implementation
    if replay_file:
        obj = json.load(open(replay_file))
        src = obj.get('cases') or obj.get('case') or obj
        cases, log = run_impl(binary, cases=strip(src))
        if cases is None:
            rep.violation({'broken': 'harness replay failed', 'log': log[-4000:]}, nofail=True)
            return rep.finish()
    else:
        cases = {'dma': [], 'drv': [], 'ovl': [], 'hist': [], 'cpr': [], 'seq': []}
        cdir = os.path.join(vlib.ROOT, 'corpus', PROP)
        for p in sorted(os.listdir(cdir)) if os.path.isdir(cdir) else []:
            got, log = run_impl(binary, cases=strip(json.load(open(os.path.join(cdir, p)))))
            if got is None:
                rep.violation({'broken': 'harness failed on corpus file ' + p, 'log': log[-4000:]}, nofail=True)
                return rep.finish()
            cases = merge(cases, got)
        gen, log = run_impl(binary, seed=vlib.seed(), n=n)
        if gen is None:
            rep.obligation('harness run', False)
            rep.violation({'broken': 'harness run failed', 'log': log[-4000:]}, nofail=True)
            return rep.finish()
        cases = merge(cases, gen)

    # ---- monitors on what the implementation did
    bad = []
    for i, c in enumerate(cases['ovl']):
        m = mon_ovl(c)
        if m:
            bad.append(('ovl', i, m))
    for i, c in enumerate(cases['dma']):
        m = mon_dma(c)
        if m:
            bad.append(('dma', i, m))
    for i, c in enumerate(cases['hist']):
        m = mon_hist(c)
        if m:
            bad.append(('hist', i, m))
    for i, c in enumerate(cases['seq']):
        m = mon_seq(c)
        if m:
            bad.append(('seq', i, m))
    for i, c in enumerate(cases['cpr']):
        m = mon_cpr(c)
        if m:
            bad.append(('cpr', i, m))
    known_seen = set()
    for i, c in enumerate(cases['drv']):
        m, k = mon_drv(c)
        if k:
            known_seen.add(k)
        if m:
            bad.append(('drv', i, m))
    for k in sorted(known_seen):
        rep.known_finding(k, key=k[1:k.index(']')])

    # ---- correspondence with the models
    from concurrent.futures import ThreadPoolExecutor
    with ThreadPoolExecutor(max_workers=6) as ex:
        f1 = ex.submit(vlib.eval_cases, PROP + 'dma', HDR_DMA, [c['coq'] for c in cases['dma']], 6)
        f2 = ex.submit(vlib.eval_cases, PROP + 'drv', HDR_DRV, [c['coq'] for c in cases['drv']], 4, 'dmismatches')
        f3 = ex.submit(vlib.eval_cases, PROP + 'ovl', HDR_DRV, [c['coq'] for c in cases['ovl']], 400, 'omismatches')
        f6 = ex.submit(vlib.eval_cases, PROP + 'seq', HDR_SEQ, [c['coq'] for c in cases['seq']], 12, 'smismatches')
        ok6, mism6, log6 = f6.result()
        f5 = ex.submit(vlib.eval_cases, PROP + 'cpr', HDR_CPR, [c['coq'] for c in cases['cpr']], 30, 'cmismatches')
        ok5, mism5, log5 = f5.result()
        f4 = ex.submit(vlib.eval_cases, PROP + 'hist', HDR_HIST, [c['coq'] for c in cases['hist']], 40, 'hmismatches')
        ok4, mism4, log4 = f4.result()
        ok1, mism1, log1 = f1.result()
        ok2, mism2, log2 = f2.result()
        ok3, mism3, log3 = f3.result()
    rep.obligation('correspondence: %d DMA port histories evaluated by the model' % len(cases['dma']), ok1 and not mism1)
    rep.obligation('correspondence: %d driver/accessor cases evaluated by the model' % len(cases['drv']), ok2 and not mism2)
    rep.obligation('correspondence: %d memRangeOverlap samples evaluated by the model' % len(cases['ovl']), ok3 and not mism3)
    rep.obligation('correspondence: %d multi-queue flush histories evaluated by the model' % len(cases['hist']), ok4 and not mism4)
    rep.obligation('correspondence: %d command-processor relay histories evaluated by the model' % len(cases['cpr']), ok5 and not mism5)
    rep.obligation('correspondence: %d batch / remap sequences evaluated by the model' % len(cases['seq']), ok6 and not mism6)

    plat = []
    if not replay_file or 'platform' in json.load(open(replay_file)):
        only = json.load(open(replay_file)).get('platform') if replay_file else None
        plat = platform_samples(only)
        rep.obligation('sampled platform runs verify their data: ' + ', '.join('%s=%s' % (n_, v) for n_, v, _ in plat),
                       all(v == 'ok' for _, v, _ in plat))

    seq_after_remap = 0
    for c in cases['seq']:
        moved = set()
        for e in c['events']:
            if e['e'] == 'remap' and e.get('page'):
                moved.add(e['page']['key'])
            else:
                rng_ = [(e.get('addr', 0), len(e.get('data') or []) or e.get('n', 0))] if e['e'] != 'batch' else \
                       [(x['addr'], len(x.get('data') or []) or x.get('n', 0)) for x in e.get('copies', [])]
                seq_after_remap += sum(1 for a, n_ in rng_ if any(k_ <= a + n_ - 1 and a < k_ + 4096 for k_ in moved))
    hist_inflight = 0
    for c in cases['hist']:
        fl = set()
        for e in c['events']:
            if e['e'] == 'launch' and e['done']:
                fl.add(e['q'])
            elif e['e'] == 'complete':
                fl.discard(e['q'])
            elif e['e'] == 'copy' and e['done'] and fl:
                hist_inflight += 1
    hist = collections.Counter(e['e'] for c in cases['dma'] for e in c['events'])
    ophist = collections.Counter(o['op'] + ('/magic' if c['magic'] else '/default') for c in cases['drv'] for o in c['ops'])
    stripped = strip(cases)
    nt = {vlib.case_hash(s) for s, c in zip(stripped['dma'], cases['dma']) if dma_nontrivial(c)} | \
         {vlib.case_hash(s) for s, c in zip(stripped['drv'], cases['drv']) if drv_nontrivial(c)} | \
         {vlib.case_hash(s) for s, c in zip(stripped['hist'], cases['hist']) if hist_nontrivial(c)}
    rep.coverage.update({
        'evaluations': len(cases['dma']) + len(cases['drv']) + len(cases['ovl']) + len(cases['hist']) + len(cases['cpr']) + len(cases['seq']),
        'distinct_nontrivial': len(nt),
        'rule': 'DMA: random port histories (60-300 events + drain; access unit 4..64 bytes; up to 14 commands, lengths around unit '
                'boundaries; every 5th history hostile), non-trivial = at least two completions observed.  Driver: 1-4 GPUs, 1-4 buffers '
                'with pages spread over GPUs, page sizes 1-4 KiB, offsets/lengths around page boundaries, element types bytes/int32/'
                'float32/uint64/struct, magic and default middleware alternating, accessor reads/writes on the same storage; '
                'non-trivial = at least one operation crosses a page boundary.  Overlap: all orderings of 4 endpoints + random.  '
                'Flush histories: one context, 2-4 queues on 1-3 GPUs, 8-37 events (alloc / kernel launch / kernel completion / H2D / D2H) '
                'in random interleavings; non-trivial = a copy is processed while a kernel of another queue is in flight.  Zero-byte copies (both directions) strictly '
                'inside / at the start / at the end / outside L2-dirty buffers close 3 of 4 driver cases (hook) and are every 5th copy of the flush '
                'histories (after real kernel launches); the driver is ticked until idle before every acknowledgement is delivered.',
        'traces_validated_against_impl': len(cases['dma']) + len(cases['drv']),
        'dma_event_histogram': dict(hist),
        'dma_completions_observed': sum(1 for c in cases['dma'] for e in c['events'] if e.get('done')),
        'dma_hostile_cases': sum(1 for c in cases['dma'] if c.get('hostile')),
        'dma_crashes': sum(1 for c in cases['dma'] if any(e.get('crash') for e in c['events'])),
        'dma_port_full_refusals': sum(1 for c in cases['dma'] for e in c['events'] if e.get('acc') is False),
        'driver_op_histogram': dict(ophist),
        'driver_page_crossing_ops': sum(1 for c in cases['drv'] for o in c['ops'] if o['op'] not in ('dirty', 'free') and
                                        ((o['addr'] % (1 << c['lg'])) + (len(o['data']) if o['op'] in ('h2d', 'accw') else o['n']) > (1 << c['lg']))),
        'driver_multi_gpu_ops': sum(1 for c in cases['drv'] for o in c['ops'] if len({r['dev'] for r in o['reqs']}) > 1),
        'zero_byte_copies_by_position_relative_to_dirty_buffers (default middleware, driver cases)': dict(collections.Counter(
            zero_pos(o['addr'], [(b['start'], b['size']) for b in o['bufs'] if b['dirty']]) + ('/flush' if o['flush'] else '/no-flush')
            for c in cases['drv'] if not c['magic'] for o in c['ops']
            if o['op'] in ('h2d', 'd2h') and not (len(o['data']) if o['op'] == 'h2d' else o['n']))),
        'zero_byte_copies_in_flush_histories (flush acks, completions)': dict(collections.Counter(
            ('flush' if e['flush'] else 'no-flush') for c in cases['hist'] for e in c['events']
            if e['e'] == 'copy' and not e.get('n', 0) and (e['done'] or e['flush']))),
        'driver_flushes': sum(1 for c in cases['drv'] for o in c['ops'] if o['flush']),
        'driver_panics': sum(1 for c in cases['drv'] for o in c['ops'] if o['crash']),
        'overlap_samples': len(cases['ovl']),
        'sequences': len(cases['seq']),
        'sequence_events': dict(collections.Counter(e['e'] for c in cases['seq'] for e in c['events'])),
        'sequence_batches_with_copies_in_flight_together': sum(1 for c in cases['seq'] for e in c['events']
                                                              if e['e'] == 'batch' and e.get('inflight', 0) >= 2),
        'sequence_accesses_after_remap_of_their_page': seq_after_remap,
        'cp_relay_histories': len(cases['cpr']),
        'cp_relay_events': dict(collections.Counter(e['e'] for c in cases['cpr'] for e in c['events'])),
        'cp_relay_clones_observed': sum(1 for c in cases['cpr'] for e in c['events'] if e.get('clone')),
        'cp_relay_responses_observed': sum(1 for c in cases['cpr'] for e in c['events'] if e.get('rsp')),
        'cp_relay_hostile': sum(1 for c in cases['cpr'] if c.get('hostile')),
        'flush_histories': len(cases['hist']),
        'flush_history_events': dict(collections.Counter(e['e'] for c in cases['hist'] for e in c['events'])),
        'flush_history_copies_while_kernel_in_flight': hist_inflight,
        'flush_history_flushes': sum(1 for c in cases['hist'] for e in c['events'] if e['flush']),
        'platform_samples': {n_: v for n_, v, _ in plat},
        'model_mismatches': len(mism1) + len(mism2) + len(mism3) + len(mism4) + len(mism5) + len(mism6), 'monitor_failures': len(bad),
    })
    rep.samples = [{'kind': 'dma', 'lg': c['lg'], 'events': [e['e'] for e in c['events'][:30]]} for c in cases['dma'][:1]] + \
                  [{'kind': 'drv', 'lg': c['lg'], 'magic': c['magic'], 'ngpu': c['ngpu'],
                    'ops': [(o['op'], o['addr'], len(o['data']) or o['n'], o['typ']) for o in c['ops']]} for c in cases['drv'][:2]]

    platbad = [(n_, v, l) for n_, v, l in plat if v != 'ok']
    if platbad and not bad:
        n_, v, l = platbad[0]
        args = [a for nm, pk, a in PLATFORM_SAMPLES if nm == n_][0]
        msg = 'platform sample %s %s: %s' % (n_, ' '.join(args), 'did not verify / did not finish' if v == 'fail' else 'does not build')
        rep.violation({'property': PROP, 'what': msg, 'platform': n_, 'log': l, 'cases': {'dma': [], 'drv': [], 'ovl': [], 'hist': [], 'cpr': [], 'seq': []},
                       'replay_cmd': './check C11 --replay <this file>'}, text=msg, nofail=(v != 'fail'))
    if bad:
        kind, i, msg = bad[0]
        c = cases[kind][i]
        one = {'dma': [], 'drv': [], 'ovl': [], 'hist': [], 'cpr': [], 'seq': []}
        if kind == 'dma':
            def fails(evs):
                cc = dict(c); cc['events'] = evs; cc['drained'] = False
                out, _ = run_impl(binary, cases=strip({'dma': [cc]}))
                return bool(out) and (mon_dma(out['dma'][0]) or '')[:24] == msg[:24]
            small = vlib.ddmin(c['events'], fails, budget=120)
            cc = dict(c); cc['events'] = small
            out, _ = run_impl(binary, cases=strip({'dma': [cc]}))
            if out and mon_dma(out['dma'][0]):
                c, msg = out['dma'][0], mon_dma(out['dma'][0])
        elif kind == 'drv':
            def fails(ops):
                cc = dict(c); cc['ops'] = ops
                out, _ = run_impl(binary, cases=strip({'drv': [cc]}))
                return bool(out) and (mon_drv(out['drv'][0])[0] or '')[:12] == msg[:12]
            small = vlib.ddmin(c['ops'], fails, budget=40)
            cc = dict(c); cc['ops'] = small
            out, _ = run_impl(binary, cases=strip({'drv': [cc]}))
            if out and mon_drv(out['drv'][0])[0]:
                c, msg = out['drv'][0], mon_drv(out['drv'][0])[0]
        elif kind == 'seq':
            def fails(evs):
                cc = dict(c); cc['events'] = evs
                out, _ = run_impl(binary, cases=strip({'seq': [cc]}))
                m2 = mon_seq(out['seq'][0]) if out else None
                return bool(m2) and m2.split(':')[-1][:20] == msg.split(':')[-1][:20]
            small = vlib.ddmin(c['events'], fails, budget=60)
            cc = dict(c); cc['events'] = small
            out, _ = run_impl(binary, cases=strip({'seq': [cc]}))
            if out and mon_seq(out['seq'][0]):
                c, msg = out['seq'][0], mon_seq(out['seq'][0])
        elif kind == 'cpr':
            def fails(evs):
                cc = dict(c); cc['events'] = evs; cc['drained'] = False
                out, _ = run_impl(binary, cases=strip({'cpr': [cc]}))
                m2 = mon_cpr(out['cpr'][0]) if out else None
                return bool(m2) and m2.split(':')[-1][:25] == msg.split(':')[-1][:25]
            small = vlib.ddmin(c['events'], fails, budget=120)
            cc = dict(c); cc['events'] = small; cc['drained'] = False
            out, _ = run_impl(binary, cases=strip({'cpr': [cc]}))
            if out and mon_cpr(out['cpr'][0]):
                c, msg = out['cpr'][0], mon_cpr(out['cpr'][0])
        elif kind == 'hist':
            def fails(evs):
                cc = dict(c); cc['events'] = evs
                out, _ = run_impl(binary, cases=strip({'hist': [cc]}))
                m2 = mon_hist(out['hist'][0]) if out else None
                return bool(m2) and ('skipped' in m2) == ('skipped' in msg)
            small = vlib.ddmin(c['events'], fails, budget=80)
            cc = dict(c); cc['events'] = small
            out, _ = run_impl(binary, cases=strip({'hist': [cc]}))
            if out and mon_hist(out['hist'][0]):
                c, msg = out['hist'][0], mon_hist(out['hist'][0])
        c = {k: v for k, v in c.items() if k not in ('coq', 'dump')}
        one[kind] = [c]
        rep.violation({'property': PROP, 'what': msg, 'kind': kind, 'cases': one,
                       'replay_cmd': './check C11 --replay <this file>'}, text=msg)
    elif mism1 or mism2 or mism3 or mism4 or mism5 or mism6 or not (ok1 and ok2 and ok3 and ok4 and ok5 and ok6):
        if mism1 or not ok1:
            kind, (i, k), clog, what = 'dma', (mism1[0] if mism1 else (0, 0)), log1, 'coq/cp/Dma.v and amd/timing/cp/dma.go'
        elif mism2 or not ok2:
            kind, (i, k), clog, what = 'drv', (mism2[0] if mism2 else (0, 0)), log2, \
                'coq/drv/MemCopy.v, coq/mem/StorageAccessor.v and amd/driver/memorycopy*.go, amd/emu/storageaccessor.go'
        elif mism6 or not ok6:
            kind, (i, k), clog, what = 'seq', (mism6[0] if mism6 else (0, 0)), log6, \
                'coq/drv/CopySeq.v and the copy paths / storage accessor under batches and page moves'
        elif mism5 or not ok5:
            kind, (i, k), clog, what = 'cpr', (mism5[0] if mism5 else (0, 0)), log5, \
                'coq/cp/CpRelay.v and amd/timing/cp (cpMiddleware.go, ctrlMiddleware.go, commandprocessor.go)'
        elif mism4 or not ok4:
            kind, (i, k), clog, what = 'hist', (mism4[0] if mism4 else (0, 0)), log4, \
                'coq/drv/FlushHist.v and the dirty marks / flush decisions of amd/driver (memorycopy.go, driver.go, api.go)'
        else:
            kind, (i, k), clog, what = 'ovl', (mism3[0] if mism3 else (0, 0)), log3, 'mem_range_overlap and driver.memRangeOverlap'
        c = cases[kind][i] if cases[kind] else None
        if c:
            c = {kk: v for kk, v in c.items() if kk not in ('coq', 'dump')}
        one = {'dma': [], 'drv': [], 'ovl': [], 'hist': [], 'cpr': [], 'seq': []}
        one[kind] = [c] if c else []
        rep.violation({'property': PROP, 'broken': 'correspondence between %s: observation %d of case %d differs; theorems of '
                       'props/C11.v no longer speak about this code' % (what, k, i),
                       'cases': one, 'first_diverging_observation': k, 'log': clog[-2000:]}, nofail=True,
                      text='model/implementation mismatch (%s) at case %d observation %d; no property violation found on %d cases'
                      % (kind, i, k, len(cases['dma']) + len(cases['drv']) + len(cases['ovl']) + len(cases['hist']) + len(cases['cpr']) + len(cases['seq'])))
    return rep.finish()


if __name__ == '__main__':
    sys.exit(main(sys.argv[1:]))
