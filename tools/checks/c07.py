"""C07 — architectural registers are independent cells with ISA-defined aliasing.
Theorems: coq/props/C07.v over coq/isa/RegSpec.v (flat cell array) and
coq/isa/RegModel.v (transcriptions of emu/wavefront.go and of
timing/cu/regfileaccessor.go + registerfile.go + timing/wavefront/wavefront.go).
Tie: random operand read/write histories issued by three co-resident
wavefronts are run on the real emu.Wavefront objects and on real timing
wavefronts over shared cu.SimpleRegisterFile storage; every returned value,
every panic and the final storage contents are compared (a) with a flat cell
replay in python (the property monitor) and (b) with the Gallina models
evaluated by vm_compute (correspondence)."""
import json, os, sys, collections
sys.path.insert(0, os.path.dirname(os.path.dirname(os.path.abspath(__file__))))
import vlib

PROP = 'C07'
HEADER = 'From Coq Require Import NArith List.\nImport ListNotations.\nFrom VIsa Require Import RegSpec RegModel.\nOpen Scope N_scope.\n'
COQ_TARGETS = ['props/C07.vo']
LANE_BYTES = 1024
S_FILE = 3200 * 4
V_FILE = 16384 * 4

# ---------------------------------------------------------------- initial fill (same formulas as harness and RegModel.v)

def pat(salt, a):
    return (a * 37 + salt * 101 + 11) % 251


def le(bs):
    return sum(b << (8 * i) for i, b in enumerate(bs))


SPECIAL0 = {
    'vcclo': lambda w: (0x1111111122222222 + w) & 0xffffffff, 'vcchi': lambda w: (0x1111111122222222 + w) >> 32,
    'execlo': lambda w: (0x3333333344444444 + w) & 0xffffffff, 'exechi': lambda w: (0x3333333344444444 + w) >> 32,
    'scc': lambda w: w & 1, 'm0': lambda w: 0x55555555 + w,
}


def init_cell(w, cell):
    if cell[0] == 's':
        return le([pat(w + 1, 4 * cell[1] + k) for k in range(4)])
    if cell[0] == 'v':
        a = cell[1] * LANE_BYTES + 4 * cell[2]
        return le([pat(w + 11, a + k) for k in range(4)])
    return SPECIAL0[cell[0]](w)


# ---------------------------------------------------------------- the flat cell model (specification)

def cells_of(reg, idx, cnt, lane, ns, nv):
    """Cells an operand designates, or None when the operand is outside the set
    the property speaks about."""
    wd = max(cnt, 1)
    if reg == 's':
        return [('s', idx + k) for k in range(wd)] if cnt <= 16 and idx + wd <= ns else None
    if reg == 'v':
        return [('v', lane, idx + k) for k in range(wd)] if cnt <= 16 and idx + wd <= nv and 0 <= lane < 64 else None
    pair = {'vcc': ['vcclo', 'vcchi'], 'exec': ['execlo', 'exechi']}
    if reg in pair:
        return [(c,) for c in pair[reg]] if cnt <= 1 else None
    if reg in ('vcclo', 'execlo'):
        if cnt <= 1:
            return [(reg,)]
        return [(reg,), (reg[:-2] + 'hi',)] if cnt == 2 else None
    if reg in ('vcchi', 'exechi', 'scc', 'm0'):
        return [(reg,)] if cnt <= 1 else None
    return None


def cell_bytes(cell):
    return 1 if cell[0] == 'scc' else 4


class Cells:
    def __init__(self, w, ns, nv):
        self.w, self.ns, self.nv, self.d = w, ns, nv, {}

    def get(self, c):
        return self.d[c] if c in self.d else init_cell(self.w, c)

    def set(self, c, v):
        self.d[c] = v

    def read_bytes(self, cells):
        out = []
        for c in cells:
            out += list(self.get(c).to_bytes(cell_bytes(c), 'little'))
        return out

    def write_bytes(self, cells, data):
        k = 0
        for c in cells:
            n = cell_bytes(c)
            self.set(c, le(data[k:k + n]))
            k += n

    def changed(self):
        return {c: v for c, v in self.d.items() if v != init_cell(self.w, c)}


def monitor(case):
    """Replays the history on the flat cell model and compares every answer of
    both implementations and their final storage with it.  Returns a
    description of the first violation or None.  Sound: histories containing an
    operand outside the property's operand set are not judged."""
    waves = case['waves']
    # a newly dispatched wavefront sees only its dispatch-initialised state, whatever the previous occupant left
    for i, f in [(-1, case.get('fresh0'))] + [(i, a.get('fresh')) for i, a in enumerate(case['accs']) if a['api'] == 'newgen']:
        m = fresh_violation(f, i)
        if m:
            return m
    m = None if case.get('hostile') else monitor_values(case)
    if case.get('decoder_count_drift'):
        return ((m + '; ' if m else '') + 'the disassembler attached a RegCount to an operand that its instruction does not have '
                '(operand objects shared between instructions?): %s' % case['decoder_count_drift'][0])
    return m


def monitor_values(case):
    waves = case['waves']
    spec = {'emu': [Cells(w, 102, 256) for w in range(len(waves))],
            'tim': [Cells(w, wv['nsgpr'], wv['nvgpr']) for w, wv in enumerate(waves)]}
    for i, a in enumerate(case['accs']):
        if a['api'] == 'newgen':    # new wavefronts, refilled by the harness with the initial pattern
            spec = {'emu': [Cells(w, 102, 256) for w in range(len(waves))],
                    'tim': [Cells(w, wv['nsgpr'], wv['nvgpr']) for w, wv in enumerate(waves)]}
            continue
        sides = [s for s in ('emu', 'tim') if a.get(s) is not None]
        if a['api'] == 'reset':
            sp = spec['tim'][a['w']]
            if a['tim'].get('panic'):
                return 'access %d: register release panicked' % i
            for k in range(sp.ns):
                sp.set(('s', k), 0)
            for l in range(64):
                for k in range(sp.nv):
                    sp.set(('v', l, k), 0)
            continue
        if a['api'] in ('sload', 'vload'):
            # load replies: written into the timing register files by the compute unit's reply handlers
            # (not through the wavefront's accessor); the emulator writes the same operand
            cnt = len(a['data']) // 4 if a['api'] == 'sload' else a['cnt']
            lanes = [0] if a['api'] == 'sload' else a['lanes']
            for side in sides:
                sp = spec[side][a['w']]
                if a[side].get('panic'):
                    return 'access %d: %s reply write-back (%s%d x%d) of wavefront %d panicked' % (i, a['api'], a['reg'], a['idx'], cnt, a['w'])
                for k, lane in enumerate(lanes):
                    cells = cells_of(a['reg'], a['idx'], cnt, lane, sp.ns, sp.nv)
                    if cells is None:
                        return None
                    sp.write_bytes(cells, a['data'][4 * cnt * k:4 * cnt * (k + 1)])
            continue
        for side in sides:
            sp = spec[side][a['w']]
            cells = cells_of(a['reg'], a['idx'], a['cnt'], a.get('lane', 0), sp.ns, sp.nv)
            if cells is None:
                return None
            width = sum(cell_bytes(c) for c in cells)
            obs = a[side]
            what = '%s %s(%s%s count %d lane %d) of wavefront %d' % (
                {'emu': 'emulator', 'tim': 'timing'}[side], a['api'], a['reg'], a['idx'] if a['reg'] in 'sv' else '', a['cnt'], a.get('lane', 0), a['w'])
            if a['api'] in ('wb', 'wu'):
                data = a.get('data', []) if a['api'] == 'wb' else list(a.get('val', 0).to_bytes(8, 'little'))[:width]
                if a['api'] == 'wu' and width > 8:
                    return None
                if len(data) < width:
                    return None
                if len(data) >= 8 and side == 'tim' and width == 4 and a['reg'] in ('vcclo', 'vcchi', 'execlo', 'exechi'):
                    return None     # timing writes the pair when a half is handed >= 8 bytes: outside the theorems
                data = data[:width]     # surplus bytes are ignored
                if obs.get('panic'):
                    return 'access %d: %s panicked' % (i, what)
                sp.write_bytes(cells, data)
            else:
                if obs.get('panic'):
                    return 'access %d: %s panicked' % (i, what)
                exp = sp.read_bytes(cells)
                if a['api'] == 'rb':
                    exp = exp[:a.get('bc', 0)]
                    got = obs.get('bytes', [])
                    if obs.get('mutated'):
                        return ('access %d: the bytes returned by %s (%s) changed to %s while the caller still held them '
                                '(the result aliases storage or another answer)' % (i, what, bytes(obs.get('first', [])).hex(), bytes(got).hex()))
                    if got != exp:
                        return 'access %d: %s returned %s, the cells hold %s' % (i, what, bytes(got).hex(), bytes(exp).hex())
                else:
                    e = le(exp[:8])
                    if obs.get('val') != e:
                        return 'access %d: %s returned 0x%x, the cells hold 0x%x' % (i, what, obs.get('val'), e)
    # final storage: exactly the cells written differ from the initial fill
    for w, d in enumerate(case.get('emu_end') or []):
        sp = spec['emu'][w]
        exp = sp.changed()
        n_exp = sum(1 for c in exp if c[0] in 'sv')
        if d.get('ns', len(d['s'])) + d.get('nv', len(d['v'])) != n_exp:
            return ('final state of emulator wavefront %d: %d scalar and %d vector registers differ from the initial fill, the cells say %d'
                    % (w, d.get('ns', len(d['s'])), d.get('nv', len(d['v'])), n_exp))
        truncated = d.get('ns', 0) > len(d['s']) or d.get('nv', 0) > len(d['v'])
        got = {('s', i): v for i, v in d['s']}
        got.update({('v', l, i): v for l, i, v in d['v']})
        for name, v in (('vcclo', d['vcc'] & 0xffffffff), ('vcchi', d['vcc'] >> 32), ('execlo', d['exec'] & 0xffffffff),
                        ('exechi', d['exec'] >> 32), ('scc', d['scc']), ('m0', d['m0'])):
            if v != init_cell(w, (name,)):
                got[(name,)] = v
        if truncated:   # the dump lists only the first cells: every listed one must be as the cells say (the totals agree)
            exp = {c: v for c, v in exp.items() if c in got or c[0] not in 'sv'}
        if got != exp:
            diff = sorted(set(got.items()) ^ set(exp.items()), key=str)[:4]
            return 'final state of emulator wavefront %d differs from the cells: %s' % (w, diff)
    t = case.get('tim_end')
    if t:
        exp_s, exp_v = {}, {}
        for w, wv in enumerate(waves):
            sp = spec['tim'][w]
            for c, v in sp.changed().items():
                if c[0] == 's':
                    for k in range(4):
                        b = (v >> (8 * k)) & 0xff
                        if b != pat(w + 1, 4 * c[1] + k):
                            exp_s[wv['soff'] + 4 * c[1] + k] = b
                elif c[0] == 'v':
                    for k in range(4):
                        b = (v >> (8 * k)) & 0xff
                        if b != pat(w + 11, c[1] * LANE_BYTES + 4 * c[2] + k):
                            exp_v[(wv['simd'], c[1] * LANE_BYTES + wv['voff'] + 4 * c[2] + k)] = b
            for name, v in (('vcclo', t['vcc'][w] & 0xffffffff), ('vcchi', t['vcc'][w] >> 32), ('execlo', t['exec'][w] & 0xffffffff),
                            ('exechi', t['exec'][w] >> 32), ('scc', t['scc'][w]), ('m0', t['m0'][w])):
                if v != sp.get((name,)):
                    return 'final %s of timing wavefront %d is 0x%x, the cell holds 0x%x' % (name, w, v, sp.get((name,)))
        ns, nv = t.get('ns', len(t['s'])), t.get('nv', len(t['v']))
        if ns != len(exp_s) or nv != len(exp_v):
            return ('final register files: %d bytes of the scalar file and %d bytes of the vector files differ from the initial fill, '
                    'the cells say %d and %d' % (ns, nv, len(exp_s), len(exp_v)))
        got_s = {a: b for a, b in t['s']}
        got_v = {(s, a): b for s, a, b in t['v']}
        if ns > len(got_s):     # truncated dump: the listed bytes must be as the cells say (the totals agree)
            exp_s = {a: b for a, b in exp_s.items() if a in got_s}
        if nv > len(got_v):
            exp_v = {a: b for a, b in exp_v.items() if a in got_v}
        if got_s != exp_s:
            diff = sorted(set(got_s.items()) ^ set(exp_s.items()))[:4]
            return 'final scalar register file differs from the cells at (byte address, byte) %s' % diff
        if got_v != exp_v:
            diff = sorted(set(got_v.items()) ^ set(exp_v.items()))[:4]
            return 'final vector register files differ from the cells at ((simd, byte address), byte) %s' % diff
    return None


def fresh_violation(f, i):
    if not f:
        return None
    where = 'the first work-group' if i < 0 else 'the work-group dispatched at access %d' % i
    for side, name in (('emu', 'emulator'), ('tim', 'timing')):
        for w, d in enumerate(f.get(side) or []):
            bad = []
            for k in ('vcc', 'scc', 'm0'):
                if d[k] != 0:
                    bad.append('%s = 0x%x' % (k, d[k]))
            if d['exec'] != 0xffffffffffffffff:
                bad.append('exec = 0x%x (dispatch sets all lanes)' % d['exec'])
            if d['ns']:
                bad.append('%d scalar registers non-zero, e.g. s%d = 0x%x' % (d['ns'], d['s'][0][0], d['s'][0][1]))
            if d['nv']:
                bad.append('%d vector registers non-zero, e.g. lane %d v%d = 0x%x' % (d['nv'], d['v'][0][0], d['v'][0][1], d['v'][0][2]))
            if not d['v0ok']:
                bad.append('v0 does not hold the work-item ids')
            if bad:
                return ('%s wavefront %d of %s does not start from the dispatch-initialised state (what the previous occupant '
                        'left is visible): %s' % (name, w, where, '; '.join(bad)))
    return None


# ---------------------------------------------------------------- plumbing

IN_KEYS = ('w', 'side', 'api', 'reg', 'idx', 'cnt', 'lane', 'bc', 'data', 'val', 'lanes')


def strip(case):
    return {'waves': case['waves'], 'hostile': case.get('hostile', False),
            'accs': [{k: a[k] for k in IN_KEYS if k in a} for a in case['accs']]}


def slim(case):
    c = dict(case)
    c.pop('coq', None)
    return c


def run_impl(binary, cases=None, seed=1, n=100):
    tmp = os.path.join(vlib.BUILD, 'c07_%d.json' % os.getpid())
    if cases is not None:
        inp = tmp + '.in'
        json.dump(cases, open(inp, 'w'))
        rc, log = vlib.run([binary, '--replay', inp, '--out', tmp])
        os.remove(inp)
    else:
        rc, log = vlib.run([binary, '--seed', str(seed), '--n', str(n), '--out', tmp])
    if rc != 0:
        return None, log
    out = json.load(open(tmp))
    os.remove(tmp)
    return out, log


def nontrivial(case):
    """a written cell is read back later (any width / API), in a judged history"""
    if case.get('hostile'):
        return False
    written = set()
    for a in case['accs']:
        if a['api'] == 'newgen':
            written = set()
            continue
        if a['api'] in ('reset', 'sload', 'vload'):
            continue
        cells = cells_of(a['reg'], a['idx'], a['cnt'], a.get('lane', 0), 102, 256)
        if cells is None:
            return False
        cells = {(a['w'],) + c for c in cells}
        if a['api'] in ('wb', 'wu'):
            written |= cells
        elif written & cells:
            return True
    return False


# expected classification of the (register, RegCount) shapes the disassembler produces
UNSUPPORTED = {'flatsratchlo', 'flatsratchhi', 'xnackmasklo', 'xnackmaskhi', 'tbalo', 'tbahi', 'tmalo', 'tmahi',
               'vccz', 'execz'} | {'timp%d' % i for i in range(11)}


def shape_covered(reg, cnt):
    return cells_of(reg, 0, cnt, 0, 102, 256) is not None


def check_shapes(binary, rep):
    tmp = os.path.join(vlib.BUILD, 'c07_shapes_%d.json' % os.getpid())
    rc, log = vlib.run([binary, '--shapes', '--out', tmp])
    if rc != 0:
        rep.obligation('decoder operand shapes computed from the real tables', False)
        return None, 'harness --shapes failed: ' + log[-1500:]
    d = json.load(open(tmp))
    os.remove(tmp)
    shapes = [(r, int(c)) for r, c in d['shapes']]
    check_shapes.aliasing = d.get('aliasing') or []
    want_sizes = {'s': 4, 'v': 4, 'vcc': 8, 'vcclo': 4, 'vcchi': 4, 'exec': 8, 'execlo': 4, 'exechi': 4, 'scc': 1, 'm0': 4}
    bad = [k for k, v in want_sizes.items() if d['bytesize'].get(k) != v]
    if bad:
        return None, 'register table: ByteSize of %s differs from the model (amd/insts/reg.go changed)' % bad
    unknown = [(r, c) for r, c in shapes if not shape_covered(r, c) and r not in UNSUPPORTED
               and r not in ('s', 'v', 'vcclo', 'vcchi', 'execlo', 'exechi', 'scc', 'm0')]
    if unknown:
        return None, 'the disassembler produces register operands unknown to the C07 models: %s' % unknown[:6]
    return shapes, None


REG_COQ = {'vcc': 'RVcc', 'vcclo': 'RVccLo', 'vcchi': 'RVccHi', 'exec': 'RExec', 'execlo': 'RExecLo', 'exechi': 'RExecHi',
           'scc': 'RScc', 'm0': 'RM0', 's': '(RS 0)', 'v': '(RV 0)'}


def main(argv):
    rep = vlib.Report(PROP, 'proof')
    rep.checker_cmd = ('make -C coq props/C07.vo && coqc props/C07.v (Print Assumptions) && '
                       'coqc cases/C07/s*.v (vm_compute mismatches of RegModel.check_case; shape_mismatches)')
    rep.trusted = ['Coq 8.16.1 kernel + vm_compute',
                   'hand transcription coq/isa/RegModel.v of amd/emu/wavefront.go, amd/timing/wavefront/wavefront.go, '
                   'amd/timing/cu/regfileaccessor.go, registerfile.go, scheduler.go:resetRegisterValue (checked by sampling, not verified)',
                   'Go harness harness/cmd/c07 (generator, initial fill, storage dump through SimpleRegisterFile.Read)',
                   'Go slices modelled as total byte maps with explicit length checks; encoding/binary little-endian conversions']
    rep.assumptions = ['theorems: operands satisfy wf_operand (register kinds S/V/VCC/EXEC pairs and halves/SCC/M0, 1-16 dwords, index + width '
                       'within the wavefront allocation), written data has the operand width, co-resident wavefronts have disjoint allocations '
                       'inside the register files; histories are arbitrary finite lists',
                       'sampled histories only decide whether the real code still behaves like the models']
    thorough = vlib.tier() == 'thorough'
    n = 4000 if thorough else 300

    replay_file = argv[argv.index('--replay') + 1] if '--replay' in argv else None

    ok, log, binary = vlib.go_build('c07')
    rep.obligation('harness builds against the repo working tree (incl. hook amd/timing/cu/verif_export.go)', ok)
    if not ok:
        rep.violation({'broken': 'go build of harness/cmd/c07 failed', 'log': log[-4000:]}, nofail=True, text='harness build failed')
        return rep.finish()

    ok, log = vlib.coq_build(COQ_TARGETS)
    okp, plog, thms = vlib.coq_check_props(PROP) if ok else (False, log, [])
    if not (ok and okp):
        rep.obligation('coq build', False)
        rep.violation({'broken': 'Coq development for C07 does not compile', 'log': (log + plog)[-4000:]}, nofail=True)
        return rep.finish()
    for name, axioms in thms:
        rep.obligation('theorem ' + name + (' [axioms: %s]' % ', '.join(axioms) if axioms else ' [closed under the global context]'), True)

    # ---- the operand shapes the real decoder produces
    shapes, err = check_shapes(binary, rep)
    if err:
        rep.obligation('decoder operand shapes match the classification of the models', False)
        rep.violation({'property': PROP, 'broken': err}, nofail=True, text=err)
        return rep.finish()
    aliasing = getattr(check_shapes, 'aliasing', [])
    rep.obligation('operand objects returned by the real disassembler are not aliased between instructions '
                   '(decode b32 / b64 / b32 of every special operand code, pointer identity, RegCount stability, mutation)', not aliasing)
    covered = [(r, c) for r, c in shapes if shape_covered(r, c)]
    oks, mism_s, slog = vlib.eval_cases(PROP + '_shapes', HEADER,
                                        ['[%s]' % '; '.join('(%s, %d)' % (REG_COQ.get(r, 'ROther'), c) for r, c in shapes)],
                                        checker='shape_mismatches')
    want_cov = len(covered)
    shape_ok = oks and len(mism_s) == 1 and mism_s[0][1] == want_cov
    rep.obligation('decoder operand shapes: %d (register, RegCount) pairs from the real disassembler, %d satisfy wf_shape in Coq '
                   '(same set as the monitor)' % (len(shapes), want_cov), shape_ok)

    # ---- run the implementation
    if replay_file:
        obj = json.load(open(replay_file))
        src = obj.get('case') or obj.get('cases') or obj
        src = src if isinstance(src, list) else [src]
        cases, log = run_impl(binary, cases=[strip(c) for c in src])
        cases = cases or []
    else:
        cases = []
        cdir = os.path.join(vlib.ROOT, 'corpus', PROP)
        corpus = []
        for p in sorted(os.listdir(cdir)) if os.path.isdir(cdir) else []:
            corpus += json.load(open(os.path.join(cdir, p)))
        if corpus:
            cases, log = run_impl(binary, cases=[strip(c) for c in corpus])
            cases = cases or []
        ncorpus = len(cases)
        gen, log = run_impl(binary, seed=vlib.seed(), n=n)
        if gen is None:
            rep.obligation('harness run', False)
            rep.violation({'broken': 'harness run failed', 'log': log[-4000:]}, nofail=True)
            return rep.finish()
        cases += gen

    bad = [(i, monitor(c)) for i, c in enumerate(cases)]
    bad = [(i, m) for i, m in bad if m]
    okc, mism, clog = vlib.eval_cases(PROP, HEADER, [t for c in cases for t in c['coq']], shard_size=max(20, (len(cases) + 15) // 16))
    rep.obligation('correspondence: %d histories (every answer of both register stores + final storage) evaluated by the models' % len(cases),
                   okc and not mism)

    hist = collections.Counter((a['api'], a.get('reg', '')) for c in cases for a in c['accs'])
    rep.coverage.update({
        'evaluations': len(cases),
        'distinct_nontrivial': len({vlib.case_hash(strip(c)) for c in cases if nontrivial(c)}),
        'rule': 'random histories of 10-60 operand accesses (ReadOperandBytes/WriteOperandBytes/ReadOperand/WriteOperand) by 3 co-resident '
                'wavefronts (disjoint, often adjacent allocations in a 3200-SGPR file and two 16384-VGPR SIMD files) on both register stores; '
                'registers s/v (RegCount 0-16, indices at the allocation edges), vcc/exec pairs and halves, scc, m0; 60% of reads target a recent '
                'write (same operand, a part, a neighbour, another lane or wavefront, the other half); every 8th history is hostile (unsupported '
                'registers, misfit widths, operands over the end of the file or the allocation; register release) and only checked against the models; '
                'non-trivial = judged history in which a written cell is read back later',
        'traces_validated_against_impl': len(cases),
        'accesses': sum(len(c['accs']) for c in cases),
        'api_histogram': {k: v for k, v in collections.Counter(a['api'] for c in cases for a in c['accs']).items()},
        'register_histogram': {k: v for k, v in collections.Counter(a.get('reg', '') for c in cases for a in c['accs'] if a['api'] not in ('reset', 'newgen')).items()},
        'regcount_histogram': {str(k): v for k, v in sorted(collections.Counter(a.get('cnt', 0) for c in cases for a in c['accs'] if a['api'] not in ('reset', 'newgen')).items())},
        'lanes_touched': len({a.get('lane', 0) for c in cases for a in c['accs'] if a.get('reg') == 'v'}),
        'panics_observed': sum(1 for c in cases for a in c['accs'] for s in ('emu', 'tim') if a.get(s) and a[s].get('panic')),
        'hostile_cases': sum(1 for c in cases if c.get('hostile')),
        'decoder_shapes': len(shapes), 'decoder_shapes_covered': want_cov,
        'decoder_shapes_excluded': sorted({r for r, c in shapes if not shape_covered(r, c)}),
        'model_mismatches': len(mism), 'monitor_failures': len(bad),
    })
    rep.samples = [{'waves': c['waves'], 'accs': [(a['w'], a['api'], a['reg'], a['idx'], a['cnt'], a.get('lane', 0)) for a in c['accs'][:12]]}
                   for c in cases[-2:]]

    def fails_monitor(accs, base):
        c = strip(base)
        c['accs'] = accs
        out, _ = run_impl(binary, cases=[c])
        return bool(out) and monitor(out[0]) is not None

    if not bad and (mism or not okc) and not replay_file:
        # the models no longer describe the code: look harder for an input on which the code itself violates the property
        for extra in range(1, 4):
            more, _ = run_impl(binary, seed=vlib.seed() + 7919 * extra, n=4 * n)
            hits = [(k, monitor(c)) for k, c in enumerate(more or [])]
            hits = [(k, m) for k, m in hits if m]
            if hits:
                cases = more
                bad = hits
                break
        rep.coverage['extra_search_histories'] = 4 * n * extra

    if bad:
        i, msg = bad[0]
        c = cases[i]
        small = vlib.ddmin(strip(c)['accs'], lambda accs: fails_monitor(accs, c))
        c2 = strip(c)
        c2['accs'] = small
        out, _ = run_impl(binary, cases=[c2])
        if out:
            out[0].pop('coq', None)
        rep.violation({'property': PROP, 'what': monitor(out[0]) if out else msg, 'case': out[0] if out else strip(c),
                       'monitor_failures_in_run': len(bad), 'replay_cmd': './check C07 --replay <this file>'},
                      text=(monitor(out[0]) if out else msg) + ' (%d of %d histories fail)' % (len(bad), len(cases)))
    elif aliasing:
        rep.violation({'property': PROP, 'what': 'operand objects returned by the disassembler are aliased between instructions',
                       'input': 'decode s_mov_b32 <reg>, 0 (0xBE800080 | code << 16); s_mov_b64 <reg>, 0 (0xBE800180 | code << 16); s_mov_b32 <reg>, 0 again',
                       'findings': aliasing}, text='decoder operand aliasing: ' + aliasing[0])
    elif mism or not okc or not shape_ok:
        if mism or not okc:
            i, k = mism[0] if mism else (0, 0)
            owner = [ci for ci, cc in enumerate(cases) for _ in cc['coq']]    # model terms are per wavefront generation
            i = owner[i] if i < len(owner) else 0
            c = dict(cases[i]) if cases else None
            if c:
                c.pop('coq', None)
            rep.violation({'property': PROP, 'broken': 'correspondence between coq/isa/RegModel.v and the register stores of /repo: '
                           'observation %d of history %d differs (1000000 = final storage); theorems of props/C07.v no longer speak about this code' % (k, i),
                           'case': c, 'first_diverging_access': k, 'log': clog[-2000:]}, nofail=True,
                          text='model/implementation mismatch at history %d access %d; no property violation found on %d histories' % (i, k, len(cases)))
        else:
            rep.violation({'property': PROP, 'broken': 'wf_shape (Coq) and the monitor disagree about the decoder operand shapes, or the shard failed',
                           'log': slog[-2000:], 'coq_covered': mism_s}, nofail=True, text='decoder shape classification mismatch')
    return rep.finish()


if __name__ == '__main__':
    sys.exit(main(sys.argv[1:]))
