// gen_nondet — translator of property C05.
//
// Walks the packages of the repository (VERIF_REPO, default /repo) that lie on
// simulation paths and lists every syntactic source of run-to-run
// nondeterminism:
//
//	maprange   `range` over an expression whose type is a map (go/types), and
//	           iteration helpers over maps (maps.Keys/Values/All, reflect MapKeys/MapRange)
//	select     `select` statements with two or more communication cases
//	wallclock  time.Now / time.Since / time.Until / time.After / time.Tick / time.NewTimer / time.NewTicker
//	random     math/rand and math/rand/v2 package-level functions (process-random
//	           seed), rand.Seed, rand.NewSource/New with a non-constant seed, crypto/rand
//	randomid   github.com/rs/xid, github.com/google/uuid, os.Getpid, os.Hostname
//	gostmt     `go` statements (a second thread of control)
//	syncpool   sync.Pool literals and Get/Put (object identity depends on GC and on the P)
//	hashseed   hash/maphash (seed drawn per process)
//	ptrorder   uintptr(unsafe.Pointer(..)) (addresses as numbers)
//	sharedobj  platform builders (emusystem, timingconfig): a reference-typed object created before a loop and passed
//	           into every iteration, or a closure that memoises into a captured variable (one mutable object handed
//	           to several components)
//
// Types are resolved exactly: `go list -export -deps -json` provides the export
// data of every dependency (compiled by the same toolchain), the listed packages
// themselves are parsed and type-checked from source.  Nothing is guessed: a
// package that does not type-check is a fatal error (the obligation "site list is
// complete" would be broken).
//
// Output: a JSON file (sites with line numbers, for people) and coq/gen/MapRanges.v
// (line-independent keys, for the kernel) that also contains the classification
// table read from tools/checks/c05_sites.json, so that
// `Theorem every_site_accounted` in coq/props/C05.v is re-checked against the
// current source tree on every run.
package main

import (
	"bytes"
	"encoding/json"
	"flag"
	"fmt"
	"go/ast"
	"go/constant"
	"go/importer"
	"go/parser"
	"go/printer"
	"go/token"
	"go/types"
	"io"
	"os"
	"os/exec"
	"path/filepath"
	"sort"
	"strings"
)

type listedPkg struct {
	ImportPath string
	Dir        string
	Export     string
	GoFiles    []string
	CgoFiles   []string
	Standard   bool
	DepOnly    bool
	Error      *struct{ Err string }
}

type Site struct {
	Key  string `json:"key"`
	Kind string `json:"kind"`
	Pkg  string `json:"pkg"`
	File string `json:"file"`
	Func string `json:"func"`
	Expr string `json:"expr"`
	Type string `json:"type,omitempty"`
	Line int    `json:"line"`
	// Scope: "simulator" (must be classified) or "workload" (benchmarks, sample mains, tests: the
	// application's own input generation -- listed, not classified)
	Scope string `json:"scope"`
}

type Class struct {
	Class  string `json:"class"`
	Lemma  string `json:"lemma,omitempty"`
	Reason string `json:"reason,omitempty"`
}

var defaultPatterns = []string{
	"./amd/...",
}

// scopeOf: everything under amd/ is part of the simulator except the workloads themselves.
func scopeOf(file string) string {
	if strings.HasPrefix(file, "amd/benchmarks/") || strings.HasPrefix(file, "amd/tests/") {
		return "workload"
	}
	if strings.HasPrefix(file, "amd/samples/") && !strings.HasPrefix(file, "amd/samples/runner/") {
		return "workload"
	}
	return "simulator"
}

func fatal(f string, a ...any) {
	fmt.Fprintf(os.Stderr, "gen_nondet: "+f+"\n", a...)
	os.Exit(2)
}

func main() {
	repo := flag.String("repo", envOr("VERIF_REPO", "/repo"), "repository root")
	outJSON := flag.String("json", "", "output JSON file")
	outCoq := flag.String("coq", "", "output Coq file (MapRanges.v)")
	classes := flag.String("classes", "", "classification file (tools/checks/c05_sites.json)")
	goBin := flag.String("go", "go", "go binary used for `go list`")
	libPrefix := flag.String("libprefix", "", "library mode: instead of the listed packages walk their DEPENDENCIES whose import path "+
		"starts with this prefix (e.g. github.com/sarchlab/akita/v4/), read-only from the module cache")
	flag.Parse()
	patterns := flag.Args()
	if len(patterns) == 0 {
		patterns = defaultPatterns
	}

	pkgs := goList(*goBin, *repo, patterns)
	exports := map[string]string{}
	for _, p := range pkgs {
		if p.Export != "" {
			exports[p.ImportPath] = p.Export
		}
	}
	fset := token.NewFileSet()
	imp := importer.ForCompiler(fset, "gc", func(path string) (io.ReadCloser, error) {
		e, ok := exports[path]
		if !ok {
			return nil, fmt.Errorf("no export data for %s", path)
		}
		return os.Open(e)
	})

	var sites []Site
	npk, nfiles := 0, 0
	for _, p := range pkgs {
		if p.Standard {
			continue
		}
		if *libPrefix == "" && p.DepOnly {
			continue
		}
		if *libPrefix != "" && !(p.DepOnly && strings.HasPrefix(p.ImportPath, *libPrefix)) {
			continue
		}
		if p.Error != nil {
			fatal("package %s: %s", p.ImportPath, p.Error.Err)
		}
		npk++
		var files []*ast.File
		for _, f := range append(append([]string{}, p.GoFiles...), p.CgoFiles...) {
			af, err := parser.ParseFile(fset, filepath.Join(p.Dir, f), nil, parser.SkipObjectResolution)
			if err != nil {
				fatal("parse %s: %v", f, err)
			}
			files = append(files, af)
			nfiles++
		}
		info := &types.Info{Types: map[ast.Expr]types.TypeAndValue{}, Uses: map[*ast.Ident]types.Object{},
			Selections: map[*ast.SelectorExpr]*types.Selection{}}
		conf := types.Config{Importer: imp, Error: nil}
		if _, err := conf.Check(p.ImportPath, fset, files, info); err != nil {
			fatal("type-check %s: %v", p.ImportPath, err)
		}
		rel, err := filepath.Rel(*repo, p.Dir)
		if err != nil || strings.HasPrefix(rel, "..") {
			rel = p.ImportPath // a package outside the repository (module cache)
		}
		for _, af := range files {
			sites = append(sites, walkFile(fset, info, filepath.ToSlash(rel), af)...)
		}
	}
	// line-independent keys: pkgdir/file:func:kind:expr, disambiguated by occurrence
	sort.SliceStable(sites, func(i, j int) bool {
		if sites[i].File != sites[j].File {
			return sites[i].File < sites[j].File
		}
		return sites[i].Line < sites[j].Line
	})
	seen := map[string]int{}
	for i := range sites {
		s := &sites[i]
		base := s.File + ":" + s.Func + ":" + s.Kind + ":" + s.Expr
		seen[base]++
		if seen[base] > 1 {
			base = fmt.Sprintf("%s#%d", base, seen[base])
		}
		s.Key = base
		s.Scope = scopeOf(s.File)
	}

	cls := map[string]Class{}
	if *classes != "" {
		b, err := os.ReadFile(*classes)
		if err != nil {
			fatal("%v", err)
		}
		var doc struct {
			Sites map[string]Class `json:"sites"`
		}
		if err := json.Unmarshal(b, &doc); err != nil {
			fatal("%s: %v", *classes, err)
		}
		cls = doc.Sites
	}

	if *outJSON != "" {
		b, _ := json.MarshalIndent(map[string]any{"repo": *repo, "patterns": patterns, "packages": npk, "files": nfiles,
			"sites": sites}, "", " ")
		if err := os.WriteFile(*outJSON, b, 0o644); err != nil {
			fatal("%v", err)
		}
	}
	if *outCoq != "" {
		var simSites []Site
		for _, x := range sites {
			if x.Scope == "simulator" {
				simSites = append(simSites, x)
			}
		}
		writeIfChanged(*outCoq, coqFile(simSites, cls, npk, nfiles))
	}
	fmt.Printf("gen_nondet: %d packages, %d files, %d sites\n", npk, nfiles, len(sites))
}

func envOr(k, d string) string {
	if v := os.Getenv(k); v != "" {
		return v
	}
	return d
}

func goList(goBin, repo string, patterns []string) []listedPkg {
	args := append([]string{"list", "-e", "-export", "-deps", "-json=ImportPath,Dir,Export,GoFiles,CgoFiles,Standard,DepOnly,Error"}, patterns...)
	cmd := exec.Command(goBin, args...)
	cmd.Dir = repo
	var stderr bytes.Buffer
	cmd.Stderr = &stderr
	out, err := cmd.Output()
	if err != nil {
		fatal("go list failed: %v\n%s", err, stderr.String())
	}
	dec := json.NewDecoder(bytes.NewReader(out))
	var res []listedPkg
	for dec.More() {
		var p listedPkg
		if err := dec.Decode(&p); err != nil {
			fatal("go list output: %v", err)
		}
		res = append(res, p)
	}
	return res
}

func exprText(fset *token.FileSet, e ast.Node) string {
	var b bytes.Buffer
	_ = printer.Fprint(&b, fset, e)
	s := strings.Join(strings.Fields(b.String()), " ")
	if len(s) > 80 {
		s = s[:80]
	}
	return s
}

func funcName(fd *ast.FuncDecl) string {
	if fd.Recv != nil && len(fd.Recv.List) > 0 {
		t := fd.Recv.List[0].Type
		if st, ok := t.(*ast.StarExpr); ok {
			t = st.X
		}
		if ix, ok := t.(*ast.IndexExpr); ok {
			t = ix.X
		}
		if id, ok := t.(*ast.Ident); ok {
			return id.Name + "." + fd.Name.Name
		}
	}
	return fd.Name.Name
}

var wallclock = map[string]bool{"Now": true, "Since": true, "Until": true, "After": true, "Tick": true,
	"NewTimer": true, "NewTicker": true, "AfterFunc": true, "Sleep": true}
var randCtor = map[string]bool{"New": true, "NewSource": true, "NewPCG": true, "NewChaCha8": true, "NewZipf": true}

func walkFile(fset *token.FileSet, info *types.Info, dir string, af *ast.File) []Site {
	var out []Site
	fname := dir + "/" + filepath.Base(fset.Position(af.Pos()).Filename)
	add := func(kind, fn string, n ast.Node, expr, typ string) {
		out = append(out, Site{Kind: kind, Pkg: dir, File: fname, Func: fn, Expr: expr, Type: typ,
			Line: fset.Position(n.Pos()).Line})
	}
	builderPkg := strings.HasPrefix(dir, "amd/samples/runner/emusystem") || strings.HasPrefix(dir, "amd/samples/runner/timingconfig")
	refLike := func(t types.Type) bool {
		if t == nil {
			return false
		}
		switch t.Underlying().(type) {
		case *types.Pointer, *types.Interface, *types.Map, *types.Signature, *types.Chan:
			return true
		}
		return false
	}
	// sharedobj (platform builders only):
	//  (a) a reference-typed object that exists before a loop and is passed as a call argument in every iteration
	//      (one object handed to several components);
	//  (b) a function literal that assigns to a variable it captures (memoisation: later calls hand out the same object).
	sharedInLoop := func(fn string, body *ast.BlockStmt, loop ast.Node) {
		seen := map[string]bool{}
		ast.Inspect(body, func(n ast.Node) bool {
			call, ok := n.(*ast.CallExpr)
			if !ok {
				return true
			}
			for _, a := range call.Args {
				var root *ast.Ident
				switch e := a.(type) {
				case *ast.Ident:
					root = e
				case *ast.SelectorExpr:
					r := e.X
					for {
						if se, ok := r.(*ast.SelectorExpr); ok {
							r = se.X
							continue
						}
						break
					}
					root, _ = r.(*ast.Ident)
				}
				if root == nil {
					continue
				}
				tv, ok := info.Types[a]
				if !ok || !refLike(tv.Type) || tv.IsNil() {
					continue
				}
				obj := info.Uses[root]
				if obj == nil || obj.Pkg() == nil {
					continue
				}
				if _, isVar := obj.(*types.Var); !isVar {
					continue
				}
				if obj.Pos() >= loop.Pos() && obj.Pos() <= loop.End() {
					continue // declared inside the loop: one per iteration
				}
				txt := exprText(fset, a)
				if seen[txt] {
					continue
				}
				seen[txt] = true
				add("sharedobj", fn, a, "loop passes "+txt, tv.Type.String())
			}
			return true
		})
	}
	visit := func(fn string, root ast.Node) {
		ast.Inspect(root, func(n ast.Node) bool {
			if builderPkg {
				switch x := n.(type) {
				case *ast.ForStmt:
					sharedInLoop(fn, x.Body, x)
				case *ast.RangeStmt:
					sharedInLoop(fn, x.Body, x)
				case *ast.FuncLit:
					ast.Inspect(x.Body, func(m ast.Node) bool {
						as, ok := m.(*ast.AssignStmt)
						if !ok || as.Tok != token.ASSIGN {
							return true
						}
						for _, l := range as.Lhs {
							id, ok := l.(*ast.Ident)
							if !ok {
								continue
							}
							obj, _ := info.Uses[id].(*types.Var)
							if obj == nil || obj.IsField() || obj.Pkg() == nil {
								continue
							}
							if obj.Pos() < x.Pos() || obj.Pos() > x.End() {
								add("sharedobj", fn, as, "closure assigns captured "+id.Name, obj.Type().String())
							}
						}
						return true
					})
				}
			}
			switch x := n.(type) {
			case *ast.RangeStmt:
				if tv, ok := info.Types[x.X]; ok && tv.Type != nil {
					if _, isMap := tv.Type.Underlying().(*types.Map); isMap {
						add("maprange", fn, x, exprText(fset, x.X), tv.Type.String())
					}
				}
			case *ast.SelectStmt:
				k := 0
				for _, c := range x.Body.List {
					if cc, ok := c.(*ast.CommClause); ok && cc.Comm != nil {
						k++
					}
				}
				if k >= 2 {
					var cs []string
					for _, c := range x.Body.List {
						if cc, ok := c.(*ast.CommClause); ok && cc.Comm != nil {
							cs = append(cs, exprText(fset, cc.Comm))
						}
					}
					add("select", fn, x, strings.Join(cs, " | "), "")
				}
			case *ast.GoStmt:
				if _, lit := x.Call.Fun.(*ast.FuncLit); lit {
					add("gostmt", fn, x, "func-literal", "")
				} else {
					add("gostmt", fn, x, exprText(fset, x.Call.Fun), "")
				}
			case *ast.CompositeLit:
				if tv, ok := info.Types[x]; ok && tv.Type != nil && isNamed(tv.Type, "sync", "Pool") {
					add("syncpool", fn, x, "sync.Pool literal", "")
				}
			case *ast.CallExpr:
				if kind, what := classifyCall(info, x); kind != "" {
					add(kind, fn, x, what, "")
				}
				// uintptr(unsafe.Pointer(..)): an address becomes a number that can be compared or hashed
				if tv, ok := info.Types[x.Fun]; ok && tv.IsType() && len(x.Args) == 1 {
					if b, ok := tv.Type.Underlying().(*types.Basic); ok && b.Kind() == types.Uintptr {
						if at, ok := info.Types[x.Args[0]]; ok && at.Type != nil {
							if ab, ok := at.Type.Underlying().(*types.Basic); ok && ab.Kind() == types.UnsafePointer {
								add("ptrorder", fn, x, "uintptr(unsafe.Pointer)", "")
							}
						}
					}
				}
			}
			return true
		})
	}
	for _, d := range af.Decls {
		switch fd := d.(type) {
		case *ast.FuncDecl:
			visit(funcName(fd), fd)
		case *ast.GenDecl:
			visit("<package-level>", fd)
		}
	}
	return out
}

// classifyCall recognises calls into nondeterministic library functions by the
// *resolved* callee (package path + name), not by the spelling of the import.
func classifyCall(info *types.Info, call *ast.CallExpr) (string, string) {
	var id *ast.Ident
	switch f := call.Fun.(type) {
	case *ast.SelectorExpr:
		id = f.Sel
	case *ast.Ident:
		id = f
	default:
		return "", ""
	}
	obj, ok := info.Uses[id].(*types.Func)
	if !ok || obj.Pkg() == nil {
		return "", ""
	}
	pkg, name := obj.Pkg().Path(), obj.Name()
	sig, _ := obj.Type().(*types.Signature)
	isMethod := sig != nil && sig.Recv() != nil
	full := pkg + "." + name
	if isMethod {
		full = pkg + ".(" + recvName(sig) + ")." + name
	}
	switch pkg {
	case "time":
		if !isMethod && wallclock[name] {
			return "wallclock", full
		}
	case "math/rand", "math/rand/v2":
		if isMethod {
			return "", "" // methods of an explicit *rand.Rand: the constructor is the site
		}
		if randCtor[name] {
			// fixed seed iff every argument is a compile-time constant or itself a constructor call
			for _, a := range call.Args {
				if tv, ok := info.Types[a]; ok && tv.Value != nil && tv.Value.Kind() != constant.Unknown {
					continue
				}
				if c, ok := a.(*ast.CallExpr); ok {
					if k, _ := classifyCall(info, c); k == "" {
						if _, isC := calleeIn(info, c, "math/rand", "math/rand/v2"); isC {
							continue
						}
					}
				}
				return "random", full + "(non-constant seed)"
			}
			return "", ""
		}
		return "random", full
	case "crypto/rand":
		return "random", full
	case "hash/maphash":
		return "hashseed", full // per-process random seed of the runtime's hash functions
	case "sync":
		if isMethod && recvName(sig) == "Pool" {
			return "syncpool", full // which object Get returns depends on GC and on the P
		}
	case "runtime":
		if !isMethod && (name == "NumCPU" || name == "GOMAXPROCS" || name == "NumGoroutine") {
			return "randomid", full
		}
	case "reflect2":
	case "github.com/rs/xid", "github.com/google/uuid":
		if !isMethod && strings.HasPrefix(name, "New") {
			return "randomid", full
		}
	case "os":
		if !isMethod && (name == "Getpid" || name == "Hostname" || name == "Getppid") {
			return "randomid", full
		}
	case "maps":
		if name == "Keys" || name == "Values" || name == "All" {
			return "maprange", full
		}
	case "reflect":
		if isMethod && (name == "MapKeys" || name == "MapRange") {
			return "maprange", full
		}
	}
	return "", ""
}

func isNamed(t types.Type, pkg, name string) bool {
	if p, ok := t.(*types.Pointer); ok {
		t = p.Elem()
	}
	n, ok := t.(*types.Named)
	return ok && n.Obj().Pkg() != nil && n.Obj().Pkg().Path() == pkg && n.Obj().Name() == name
}

func calleeIn(info *types.Info, call *ast.CallExpr, pkgs ...string) (string, bool) {
	var id *ast.Ident
	switch f := call.Fun.(type) {
	case *ast.SelectorExpr:
		id = f.Sel
	case *ast.Ident:
		id = f
	default:
		return "", false
	}
	obj, ok := info.Uses[id].(*types.Func)
	if !ok || obj.Pkg() == nil {
		return "", false
	}
	for _, p := range pkgs {
		if obj.Pkg().Path() == p {
			return obj.Name(), true
		}
	}
	return "", false
}

func recvName(sig *types.Signature) string {
	t := sig.Recv().Type()
	if p, ok := t.(*types.Pointer); ok {
		t = p.Elem()
	}
	if n, ok := t.(*types.Named); ok {
		return n.Obj().Name()
	}
	return t.String()
}

func coqStr(s string) string { return "\"" + strings.ReplaceAll(s, "\"", "\"\"") + "\"" }

func coqFile(sites []Site, cls map[string]Class, npk, nfiles int) []byte {
	var b bytes.Buffer
	b.WriteString("(** GENERATED by tools/gen/nondet from the Go sources of the repository -- do not edit.\n")
	b.WriteString("    Regenerated by every run of ./check C05.  [sites]: every syntactic source of\n")
	b.WriteString("    run-to-run nondeterminism found in the walked packages (line-independent keys);\n")
	b.WriteString("    [classes]: the checked-in classification tools/checks/c05_sites.json. *)\n")
	b.WriteString("From Coq Require Import String List.\nFrom VSys Require Import SiteTypes.\nImport ListNotations.\nOpen Scope string_scope.\n\n")
	fmt.Fprintf(&b, "Definition walked_packages : nat := %d.\nDefinition walked_files : nat := %d.\n\n", npk, nfiles)
	b.WriteString("Definition sites : list site := [\n")
	for i, s := range sites {
		sep := ";"
		if i == len(sites)-1 {
			sep = ""
		}
		fmt.Fprintf(&b, "  mk_site %s %s %s %s %s%s\n", kindCtor(s.Kind), coqStr(s.Key), coqStr(s.File), coqStr(s.Func), coqStr(s.Expr), sep)
	}
	b.WriteString("].\n\nDefinition classes : list (string * site_class) := [\n")
	keys := make([]string, 0, len(cls))
	for k := range cls {
		keys = append(keys, k)
	}
	sort.Strings(keys)
	for i, k := range keys {
		sep := ";"
		if i == len(keys)-1 {
			sep = ""
		}
		c := cls[k]
		var t string
		switch c.Class {
		case "proved_order_irrelevant":
			t = "ProvedOrderIrrelevant " + coqStr(c.Lemma)
		case "benign_by_inspection":
			t = "BenignByInspection " + coqStr(c.Reason)
		case "order_relevant":
			t = "OrderRelevant " + coqStr(c.Reason)
		default:
			fatal("classification of %s: unknown class %q", k, c.Class)
		}
		fmt.Fprintf(&b, "  (%s, %s)%s\n", coqStr(k), t, sep)
	}
	b.WriteString("].\n")
	return b.Bytes()
}

func kindCtor(k string) string {
	switch k {
	case "maprange":
		return "KMapRange"
	case "select":
		return "KSelect"
	case "wallclock":
		return "KWallClock"
	case "random":
		return "KRandom"
	case "randomid":
		return "KRandomId"
	case "gostmt":
		return "KGoStmt"
	case "syncpool":
		return "KSyncPool"
	case "hashseed":
		return "KHashSeed"
	case "ptrorder":
		return "KPtrOrder"
	case "sharedobj":
		return "KSharedObj"
	}
	fatal("unknown kind %s", k)
	return ""
}

func writeIfChanged(path string, data []byte) {
	old, err := os.ReadFile(path)
	if err == nil && bytes.Equal(old, data) {
		return
	}
	if err := os.WriteFile(path, data, 0o644); err != nil {
		fatal("%v", err)
	}
}
