// gen_tables regenerates coq/gen/FormatTable.v, coq/gen/DecodeTable.v and
// coq/gen/RegTable.v from the Go sources of amd/insts (format.go,
// decodetable.go, inst.go, reg.go).  Only go/parser + go/ast are used.  Any
// statement or expression that is not of a shape understood here is refused
// (exit status 2, "REFUSED: ..."), never guessed.
//
// usage: gen_tables -repo /repo -out /verif/coq/gen
package main

import (
	"flag"
	"fmt"
	"go/ast"
	"go/parser"
	"go/token"
	"os"
	"path/filepath"
	"sort"
	"strconv"
	"strings"
)

var fset = token.NewFileSet()

func refuse(n ast.Node, format string, a ...any) {
	pos := ""
	if n != nil {
		pos = fset.Position(n.Pos()).String() + ": "
	}
	fmt.Fprintf(os.Stderr, "REFUSED: %s%s\n", pos, fmt.Sprintf(format, a...))
	os.Exit(2)
}

func parse(path string) *ast.File {
	f, err := parser.ParseFile(fset, path, nil, 0)
	if err != nil {
		fmt.Fprintf(os.Stderr, "REFUSED: cannot parse %s: %v\n", path, err)
		os.Exit(2)
	}
	return f
}

// iotaBlock returns the identifiers of the const block whose first spec has
// the value `iota` and (if typeName != "") the given type, in order.
func iotaBlock(f *ast.File, typeName string, first string) []string {
	for _, d := range f.Decls {
		g, ok := d.(*ast.GenDecl)
		if !ok || g.Tok != token.CONST || len(g.Specs) == 0 {
			continue
		}
		vs := g.Specs[0].(*ast.ValueSpec)
		if len(vs.Names) != 1 || vs.Names[0].Name != first {
			continue
		}
		if len(vs.Values) != 1 {
			refuse(vs, "const block %s: first value is not iota", first)
		}
		if id, ok := vs.Values[0].(*ast.Ident); !ok || id.Name != "iota" {
			refuse(vs, "const block %s: first value is not iota", first)
		}
		if typeName != "" {
			if id, ok := vs.Type.(*ast.Ident); !ok || id.Name != typeName {
				refuse(vs, "const block %s: type is not %s", first, typeName)
			}
		}
		var names []string
		for _, s := range g.Specs {
			v := s.(*ast.ValueSpec)
			if len(v.Names) != 1 {
				refuse(v, "const block %s: more than one name in a spec", first)
			}
			if s != g.Specs[0] && (len(v.Values) != 0 || v.Type != nil) {
				refuse(v, "const block %s: explicit value/type after the first spec", first)
			}
			names = append(names, v.Names[0].Name)
		}
		return names
	}
	refuse(nil, "const block starting with %s not found", first)
	return nil
}

func findFunc(f *ast.File, name string) *ast.FuncDecl {
	for _, d := range f.Decls {
		if fd, ok := d.(*ast.FuncDecl); ok && fd.Name.Name == name {
			return fd
		}
	}
	refuse(nil, "function %s not found", name)
	return nil
}

// constInt folds an integer constant expression made of literals, + - * and
// parentheses, and conversions T(x) to one of the listed type names.
func constInt(e ast.Expr, convs map[string]bool) int64 {
	switch x := e.(type) {
	case *ast.BasicLit:
		if x.Kind != token.INT {
			refuse(e, "not an integer literal: %s", x.Value)
		}
		v, err := strconv.ParseInt(x.Value, 0, 64)
		if err != nil {
			refuse(e, "bad integer literal %s", x.Value)
		}
		return v
	case *ast.ParenExpr:
		return constInt(x.X, convs)
	case *ast.BinaryExpr:
		a, b := constInt(x.X, convs), constInt(x.Y, convs)
		switch x.Op {
		case token.ADD:
			return a + b
		case token.SUB:
			return a - b
		case token.MUL:
			return a * b
		}
		refuse(e, "operator %s not understood in a constant", x.Op)
	case *ast.CallExpr:
		if id, ok := x.Fun.(*ast.Ident); ok && convs[id.Name] && len(x.Args) == 1 {
			return constInt(x.Args[0], convs)
		}
	}
	refuse(e, "constant expression of a shape not understood")
	return 0
}

func strLit(e ast.Expr) string {
	x, ok := e.(*ast.BasicLit)
	if !ok || x.Kind != token.STRING {
		refuse(e, "not a string literal")
	}
	s, err := strconv.Unquote(x.Value)
	if err != nil {
		refuse(e, "bad string literal")
	}
	for _, c := range s {
		if c < 32 || c > 126 || c == '"' {
			refuse(e, "string literal with a character outside printable ASCII")
		}
	}
	return s
}

func ident(e ast.Expr) string {
	x, ok := e.(*ast.Ident)
	if !ok {
		refuse(e, "not an identifier")
	}
	return x.Name
}

// indexOf recognises  <table>[<Ident>]  and returns Ident.
func indexOf(e ast.Expr, table string) string {
	x, ok := e.(*ast.IndexExpr)
	if !ok {
		refuse(e, "not an index expression %s[...]", table)
	}
	if ident(x.X) != table {
		refuse(e, "index into %s, expected %s", ident(x.X), table)
	}
	return ident(x.Index)
}

func unkeyedLit(e ast.Expr, typ string, n int) []ast.Expr {
	if u, ok := e.(*ast.UnaryExpr); ok && u.Op == token.AND {
		e = u.X
	} else {
		refuse(e, "expected &%s{...}", typ)
	}
	cl, ok := e.(*ast.CompositeLit)
	if !ok || ident(cl.Type) != typ {
		refuse(e, "expected composite literal of type %s", typ)
	}
	if len(cl.Elts) != n {
		refuse(e, "%s literal with %d elements, expected %d", typ, len(cl.Elts), n)
	}
	for _, el := range cl.Elts {
		if _, ok := el.(*ast.KeyValueExpr); ok {
			refuse(el, "keyed %s literal not understood", typ)
		}
	}
	return cl.Elts
}

// ---------------------------------------------------------------- format.go

type format struct {
	typ, name       string
	enc, mask, size int64
	lo, hi          int64
}

func readFormats(repo string) ([]string, []format) {
	f := parse(filepath.Join(repo, "amd/insts/format.go"))
	types := iotaBlock(f, "FormatType", "SOP2")
	if types[len(types)-1] != "formatTypeCount" {
		refuse(nil, "FormatType block does not end with formatTypeCount")
	}
	types = types[:len(types)-1]
	known := map[string]bool{}
	for _, t := range types {
		known[t] = true
	}
	fd := findFunc(f, "initFormatTable")
	var res []format
	seen := map[string]bool{}
	for i, st := range fd.Body.List {
		as, ok := st.(*ast.AssignStmt)
		if !ok || as.Tok != token.ASSIGN || len(as.Lhs) != 1 || len(as.Rhs) != 1 {
			refuse(st, "initFormatTable: statement is not a simple assignment")
		}
		if i == 0 {
			if id, ok := as.Lhs[0].(*ast.Ident); ok && id.Name == "FormatTable" {
				if c, ok := as.Rhs[0].(*ast.CallExpr); ok && ident(c.Fun) == "make" {
					continue
				}
			}
			refuse(st, "initFormatTable: first statement is not FormatTable = make(...)")
		}
		key := indexOf(as.Lhs[0], "FormatTable")
		el := unkeyedLit(as.Rhs[0], "Format", 7)
		if ident(el[0]) != key {
			refuse(st, "FormatTable[%s] holds a Format of type %s", key, ident(el[0]))
		}
		if !known[key] {
			refuse(st, "unknown format type %s", key)
		}
		if seen[key] {
			refuse(st, "FormatTable[%s] assigned twice", key)
		}
		seen[key] = true
		fm := format{typ: key, name: strLit(el[1]), enc: constInt(el[2], nil), mask: constInt(el[3], nil),
			size: constInt(el[4], nil), lo: constInt(el[5], nil), hi: constInt(el[6], nil)}
		if fm.enc < 0 || fm.enc > 0xffffffff || fm.mask < 0 || fm.mask > 0xffffffff ||
			fm.lo < 0 || fm.hi > 31 || fm.lo > fm.hi || fm.size < 0 {
			refuse(st, "format %s: field out of range", key)
		}
		res = append(res, fm)
	}
	idx := map[string]int{}
	for i, t := range types {
		idx[t] = i
	}
	sort.Slice(res, func(i, j int) bool { return idx[res[i].typ] < idx[res[j].typ] })
	return types, res
}

// ---------------------------------------------------------------- decodetable.go

type row struct {
	name                       string
	opcode                     int64
	format                     string
	unit                       string
	dst, src0, src1, src2, sds int64
}

func rowFromLit(el []ast.Expr, fmts map[string]bool, units map[string]bool) row {
	r := row{name: strLit(el[0]), opcode: constInt(el[1], map[string]bool{"Opcode": true}),
		format: indexOf(el[2], "FormatTable"), unit: ident(el[4]),
		dst: constInt(el[5], nil), src0: constInt(el[6], nil), src1: constInt(el[7], nil),
		src2: constInt(el[8], nil), sds: constInt(el[9], nil)}
	_ = constInt(el[3], nil) // ID: overwritten by addInstType
	if !fmts[r.format] {
		refuse(el[2], "unknown format %s", r.format)
	}
	if !units[r.unit] {
		refuse(el[4], "unknown execution unit %s", r.unit)
	}
	if r.opcode < 0 || r.opcode > 0xffff {
		refuse(el[1], "opcode %d does not fit Opcode (uint16)", r.opcode)
	}
	for _, w := range []int64{r.dst, r.src0, r.src1, r.src2, r.sds} {
		if w < 0 || w > 4096 {
			refuse(el[5], "operand width %d out of range", w)
		}
	}
	return r
}

func isAddInstType(e ast.Expr) (*ast.CallExpr, bool) {
	c, ok := e.(*ast.CallExpr)
	if !ok || len(c.Args) != 1 {
		return nil, false
	}
	s, ok := c.Fun.(*ast.SelectorExpr)
	if !ok || s.Sel.Name != "addInstType" {
		return nil, false
	}
	if id, ok := s.X.(*ast.Ident); !ok || id.Name != "d" {
		return nil, false
	}
	return c, true
}

type key struct {
	format string
	opcode int64
}

func readRows(repo string, fmtNames []string) ([]string, []row, int) {
	fi := parse(filepath.Join(repo, "amd/insts/inst.go"))
	unitNames := iotaBlock(fi, "ExeUnit", "ExeUnitVALU")
	units := map[string]bool{}
	for _, u := range unitNames {
		units[u] = true
	}
	fmts := map[string]bool{}
	for _, n := range fmtNames {
		fmts[n] = true
	}
	f := parse(filepath.Join(repo, "amd/insts/decodetable.go"))
	fd := findFunc(f, "initializeDecodeTable")
	if fd.Recv == nil || len(fd.Recv.List) != 1 || len(fd.Recv.List[0].Names) != 1 || fd.Recv.List[0].Names[0].Name != "d" {
		refuse(fd, "initializeDecodeTable: receiver is not named d")
	}
	table := map[key]row{}
	calls := 0
	for i, st := range fd.Body.List {
		switch s := st.(type) {
		case *ast.AssignStmt:
			if i == 0 && len(s.Lhs) == 1 && len(s.Rhs) == 1 {
				if sel, ok := s.Lhs[0].(*ast.SelectorExpr); ok && ident(sel.X) == "d" && sel.Sel.Name == "decodeTables" {
					if c, ok := s.Rhs[0].(*ast.CallExpr); ok && ident(c.Fun) == "make" {
						continue
					}
				}
			}
			refuse(st, "initializeDecodeTable: assignment not understood")
		case *ast.ExprStmt:
			c, ok := isAddInstType(s.X)
			if !ok {
				refuse(st, "initializeDecodeTable: statement is not d.addInstType(...)")
			}
			r := rowFromLit(unkeyedLit(c.Args[0], "InstType", 10), fmts, units)
			table[key{r.format, r.opcode}] = r
			calls++
		case *ast.RangeStmt:
			// for _, instType := range d.decodeTables[F].insts {
			//   d.addInstType(&InstType{instType.InstName, instType.Opcode + Opcode(K), FormatTable[G], ...consts})
			// }
			if s.Tok != token.DEFINE || s.Key == nil || ident(s.Key) != "_" || s.Value == nil {
				refuse(st, "range loop: expected for _, v := range ...")
			}
			v := ident(s.Value)
			sel, ok := s.X.(*ast.SelectorExpr)
			if !ok || sel.Sel.Name != "insts" {
				refuse(st, "range loop: not over d.decodeTables[F].insts")
			}
			ix, ok := sel.X.(*ast.IndexExpr)
			if !ok {
				refuse(st, "range loop: not over d.decodeTables[F].insts")
			}
			if s2, ok := ix.X.(*ast.SelectorExpr); !ok || ident(s2.X) != "d" || s2.Sel.Name != "decodeTables" {
				refuse(st, "range loop: not over d.decodeTables[F].insts")
			}
			from := ident(ix.Index)
			if !fmts[from] {
				refuse(st, "range loop: unknown format %s", from)
			}
			if len(s.Body.List) != 1 {
				refuse(st, "range loop: body is not a single statement")
			}
			es, ok := s.Body.List[0].(*ast.ExprStmt)
			if !ok {
				refuse(st, "range loop: body is not d.addInstType(...)")
			}
			c, ok := isAddInstType(es.X)
			if !ok {
				refuse(st, "range loop: body is not d.addInstType(...)")
			}
			el := unkeyedLit(c.Args[0], "InstType", 10)
			// name: v.InstName
			if ns, ok := el[0].(*ast.SelectorExpr); !ok || ident(ns.X) != v || ns.Sel.Name != "InstName" {
				refuse(el[0], "range loop: name is not %s.InstName", v)
			}
			be, ok := el[1].(*ast.BinaryExpr)
			if !ok || be.Op != token.ADD {
				refuse(el[1], "range loop: opcode is not %s.Opcode + const", v)
			}
			if os_, ok := be.X.(*ast.SelectorExpr); !ok || ident(os_.X) != v || os_.Sel.Name != "Opcode" {
				refuse(el[1], "range loop: opcode is not %s.Opcode + const", v)
			}
			delta := constInt(be.Y, map[string]bool{"Opcode": true})
			tmpl := []ast.Expr{&ast.BasicLit{Kind: token.STRING, Value: `"x"`}, &ast.BasicLit{Kind: token.INT, Value: "0"}}
			tmpl = append(tmpl, el[2:]...)
			proto := rowFromLit(tmpl, fmts, units)
			if proto.format == from {
				refuse(st, "range loop adds rows to the table it ranges over")
			}
			var src []row
			for k, r := range table {
				if k.format == from {
					src = append(src, r)
				}
			}
			// the loop ranges over a Go map: the order only determines InstType.ID
			// (never read); distinct source opcodes give distinct target keys.
			for _, r := range src {
				n := proto
				n.name = r.name
				n.opcode = (r.opcode + delta) & 0xffff
				table[key{n.format, n.opcode}] = n
				calls++
			}
		default:
			refuse(st, "initializeDecodeTable: statement kind not understood")
		}
	}
	fidx := map[string]int{}
	for i, n := range fmtNames {
		fidx[n] = i
	}
	var rows []row
	for _, r := range table {
		rows = append(rows, r)
	}
	sort.Slice(rows, func(i, j int) bool {
		if fidx[rows[i].format] != fidx[rows[j].format] {
			return fidx[rows[i].format] < fidx[rows[j].format]
		}
		return rows[i].opcode < rows[j].opcode
	})
	return unitNames, rows, calls
}

// ---------------------------------------------------------------- reg.go

type reg struct {
	name   string
	pname  string
	size   int64
	isBool bool
}

func readRegs(repo string) ([]string, []reg) {
	f := parse(filepath.Join(repo, "amd/insts/reg.go"))
	names := iotaBlock(f, "", "InvalidRegType")
	known := map[string]bool{}
	for _, n := range names {
		known[n] = true
	}
	for _, d := range f.Decls {
		g, ok := d.(*ast.GenDecl)
		if !ok || g.Tok != token.VAR {
			continue
		}
		for _, sp := range g.Specs {
			vs := sp.(*ast.ValueSpec)
			if len(vs.Names) != 1 || vs.Names[0].Name != "Regs" {
				continue
			}
			if len(vs.Values) != 1 {
				refuse(vs, "Regs: not a single initialiser")
			}
			cl, ok := vs.Values[0].(*ast.CompositeLit)
			if !ok {
				refuse(vs, "Regs: initialiser is not a composite literal")
			}
			if mt, ok := cl.Type.(*ast.MapType); !ok || ident(mt.Key) != "RegType" {
				refuse(vs, "Regs: not a map[RegType]...")
			}
			var regs []reg
			seen := map[string]bool{}
			for _, e := range cl.Elts {
				kv, ok := e.(*ast.KeyValueExpr)
				if !ok {
					refuse(e, "Regs: element is not key: value")
				}
				k := ident(kv.Key)
				if !known[k] || seen[k] {
					refuse(e, "Regs: unknown or duplicate key %s", k)
				}
				seen[k] = true
				v, ok := kv.Value.(*ast.CompositeLit)
				if !ok || v.Type != nil || len(v.Elts) != 4 {
					refuse(e, "Regs[%s]: value is not {type, name, size, isBool}", k)
				}
				if ident(v.Elts[0]) != k {
					refuse(e, "Regs[%s] holds a register of type %s", k, ident(v.Elts[0]))
				}
				b := ident(v.Elts[3])
				if b != "true" && b != "false" {
					refuse(e, "Regs[%s]: IsBool is not a boolean literal", k)
				}
				regs = append(regs, reg{k, strLit(v.Elts[1]), constInt(v.Elts[2], nil), b == "true"})
			}
			return names, regs
		}
	}
	refuse(nil, "var Regs not found")
	return nil, nil
}

// ---------------------------------------------------------------- output

func writeIfChanged(path, content string) {
	old, err := os.ReadFile(path)
	if err == nil && string(old) == content {
		return
	}
	if err := os.MkdirAll(filepath.Dir(path), 0o755); err != nil {
		fmt.Fprintln(os.Stderr, err)
		os.Exit(1)
	}
	tmp := path + ".tmp"
	if err := os.WriteFile(tmp, []byte(content), 0o644); err != nil {
		fmt.Fprintln(os.Stderr, err)
		os.Exit(1)
	}
	if err := os.Rename(tmp, path); err != nil {
		fmt.Fprintln(os.Stderr, err)
		os.Exit(1)
	}
	fmt.Println("updated", path)
}

const banner = "(* GENERATED by tools/gen/gen_tables from %s -- do not edit.\n   Regenerated on every check run from the current source tree. *)\n"

func main() {
	repo := flag.String("repo", "/repo", "root of the mgpusim source tree")
	out := flag.String("out", "/verif/coq/gen", "output directory")
	flag.Parse()

	// read everything first: nothing is written when any source is refused
	fmtNames, formats := readFormats(*repo)
	unitNames, rows, calls := readRows(*repo, fmtNames)
	regNames, regs := readRegs(*repo)
	var b strings.Builder
	fmt.Fprintf(&b, banner, "amd/insts/format.go")
	b.WriteString("From Coq Require Import NArith List String.\nFrom VIsa Require Import InstTypes.\nImport ListNotations.\nOpen Scope N_scope.\nOpen Scope string_scope.\n\n")
	b.WriteString("(* numeric value of each FormatType constant (iota order) *)\nDefinition format_type_ids : list (fmt * N) := [\n")
	for i, n := range fmtNames {
		sep := ";"
		if i == len(fmtNames)-1 {
			sep = ""
		}
		fmt.Fprintf(&b, "  (%s, %d)%s\n", n, i, sep)
	}
	b.WriteString("].\n\n(* FormatTable: type, name, encoding, mask, byte size without literal, opcode bits lo..hi *)\nDefinition format_table : list format := [\n")
	for i, f := range formats {
		sep := ";"
		if i == len(formats)-1 {
			sep = ""
		}
		fmt.Fprintf(&b, "  mkFormat %s \"%s\" %d %d %d %d %d%s\n", f.typ, f.name, f.enc, f.mask, f.size, f.lo, f.hi, sep)
	}
	b.WriteString("].\n")
	writeIfChanged(filepath.Join(*out, "FormatTable.v"), b.String())

	uidx := map[string]int{}
	for i, u := range unitNames {
		uidx[u] = i
	}
	b.Reset()
	fmt.Fprintf(&b, banner, "amd/insts/decodetable.go (and inst.go for the ExeUnit constants)")
	b.WriteString("From Coq Require Import NArith List String.\nFrom VIsa Require Import InstTypes.\nImport ListNotations.\nOpen Scope N_scope.\nOpen Scope string_scope.\n\n")
	b.WriteString("(* ExeUnit constants in iota order *)\nDefinition exe_unit_names : list (string * N) := [\n")
	for i, u := range unitNames {
		sep := ";"
		if i == len(unitNames)-1 {
			sep = ""
		}
		fmt.Fprintf(&b, "  (\"%s\", %d)%s\n", u, i, sep)
	}
	fmt.Fprintf(&b, "].\n\n(* %d addInstType calls (loop expanded), %d distinct (format, opcode) keys; last call wins;\n   sorted by (format, opcode).  Columns: name opcode format exe-unit dst src0 src1 src2 sdst widths *)\n", calls, len(rows))
	fmt.Fprintf(&b, "Definition add_inst_type_calls : N := %d.\n", calls)
	b.WriteString("Definition decode_table : list row := [\n")
	for i, r := range rows {
		sep := ";"
		if i == len(rows)-1 {
			sep = ""
		}
		fmt.Fprintf(&b, "  mkRow \"%s\" %d %s %d %d %d %d %d %d%s\n", r.name, r.opcode, r.format, uidx[r.unit],
			r.dst, r.src0, r.src1, r.src2, r.sds, sep)
	}
	b.WriteString("].\n")
	writeIfChanged(filepath.Join(*out, "DecodeTable.v"), b.String())

	ridx := map[string]int{}
	for i, n := range regNames {
		ridx[n] = i
	}
	b.Reset()
	fmt.Fprintf(&b, banner, "amd/insts/reg.go")
	b.WriteString("From Coq Require Import NArith List String.\nImport ListNotations.\nOpen Scope N_scope.\nOpen Scope string_scope.\n\n")
	b.WriteString("(* RegType constants (iota order) that the decoder model refers to *)\n")
	for _, n := range []string{"V0", "V255", "S0", "S101", "EXEC", "EXECLO", "EXECHI", "EXECZ", "VCC", "VCCLO", "VCCHI", "VCCZ", "SCC",
		"FlatSratchLo", "FlatSratchHi", "XnackMaskLo", "XnackMaskHi", "M0", "TbaLo", "TbaHi", "TmaLo", "TmaHi", "Timp0", "Timp11", "LGKMCNT"} {
		i, ok := ridx[n]
		if !ok {
			refuse(nil, "register constant %s not found in reg.go", n)
		}
		fmt.Fprintf(&b, "Definition R_%s : N := %d.\n", n, i)
	}
	fmt.Fprintf(&b, "Definition reg_type_count : N := %d.\n\n", len(regNames))
	b.WriteString("(* the Regs map: RegType id, name, byte size, IsBool; a RegType that is not a key yields a nil *Reg *)\nDefinition reg_table : list (N * string * N * bool) := [\n")
	sort.Slice(regs, func(i, j int) bool { return ridx[regs[i].name] < ridx[regs[j].name] })
	for i, r := range regs {
		sep := ";"
		if i == len(regs)-1 {
			sep = ""
		}
		fmt.Fprintf(&b, "  (%d, \"%s\", %d, %v)%s\n", ridx[r.name], r.pname, r.size, r.isBool, sep)
	}
	b.WriteString("].\n")
	writeIfChanged(filepath.Join(*out, "RegTable.v"), b.String())
}
