module verifgen

go 1.23
