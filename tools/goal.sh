#!/bin/bash
# usage: goal.sh file.v LINE  -- shows the goal after LINE lines (run from /verif/coq)
f=$1; n=$2
args=$(grep -E '^-Q' _CoqProject | tr '\n' ' ')
(head -n $n $f; echo; echo "Show.") | timeout 120 coqtop $args 2>&1 | tail -n ${3:-40}
