#!/bin/bash
# usage: tools/seedconfirm.sh <worktree> <seed dir (with patch.diff + *_test.go)> <pkg path> [extra file to copy into pkg]
# Confirms: package tests pass with the patch; demo fails with it; demo passes without it.
wt=$1; sd=$2; pkg=$3; extra=$4
G=/root/go/pkg/mod/golang.org/toolchain@v0.0.1-go1.25.0.linux-amd64/bin/go
export GOFLAGS=-mod=mod GOPROXY=off GOTOOLCHAIN=local
cd $wt || exit 2
git checkout -q -- . ; git clean -fdq
[ -n "$extra" ] && cp $extra $pkg/
git apply $sd/patch.diff || { echo "PATCH-DOES-NOT-APPLY"; exit 2; }
$G build ./amd/... ./nvidia/... >/dev/null 2>&1 && echo "build-with-patch: ok" || echo "build-with-patch: FAIL"
$G test -count=1 ./$pkg/ >/tmp/sc.$$.log 2>&1 && echo "pkg-tests-with-patch: pass" || { echo "pkg-tests-with-patch: FAIL"; tail -5 /tmp/sc.$$.log; }
cp $sd/*_test.go $pkg/
$G test -count=1 ./$pkg/ -run 'TestSeed' >/tmp/sc.$$.log 2>&1 && echo "demo-with-patch: PASS (bad)" || echo "demo-with-patch: fails (good)"
git apply -R $sd/patch.diff
$G test -count=1 ./$pkg/ -run 'TestSeed' >/tmp/sc.$$.log 2>&1 && echo "demo-without-patch: pass (good)" || { echo "demo-without-patch: FAILS (bad)"; tail -5 /tmp/sc.$$.log; }
git checkout -q -- . ; git clean -fdq; rm -f /tmp/sc.$$.log
