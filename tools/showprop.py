#!/usr/bin/env python3
import json, sys
for l in open('/verif/properties.jsonl'):
    p = json.loads(l)
    if p['id'] == sys.argv[1]:
        print(json.dumps(p, indent=1))
