"""Shared machinery of the /verif checks: building the Go harness against
/repo's working tree, building the Coq development, evaluating recorded cases
inside Coq, verdicts, evidence files."""
import fcntl, glob, hashlib, json, os, re, subprocess, sys, time, shutil
from concurrent.futures import ThreadPoolExecutor

ROOT = os.path.dirname(os.path.dirname(os.path.abspath(__file__)))
COQ = os.path.join(ROOT, 'coq')
HARNESS = os.path.join(ROOT, 'harness')
BUILD = os.path.join(ROOT, 'build')
REPO = os.environ.get('VERIF_REPO', '/repo')
GO_CANDIDATES = [
    '/root/go/pkg/mod/golang.org/toolchain@v0.0.1-go1.25.0.linux-amd64/bin/go',
    '/opt/veriftools/go1.26.8/bin/go',
    '/usr/local/bin/go1.26.8',
]
COQ_DIRS = ['lib', 'gen', 'mem', 'grid', 'isa', 'cp', 'drv', 'cu', 'hsaco', 'nv', 'sys', 'props']
COQ_NAMES = {'lib': 'VLib', 'gen': 'VGen', 'mem': 'VMem', 'grid': 'VGrid', 'isa': 'VIsa', 'cp': 'VCp',
             'drv': 'VDrv', 'cu': 'VCu', 'hsaco': 'VHsaco', 'nv': 'VNv', 'sys': 'VSys', 'props': 'VProps'}


def tier():
    return os.environ.get('VERIF_TIER', 'quick')


def seed():
    try:
        return int(os.environ.get('VERIF_SEED', '1'))
    except ValueError:
        return 1


def go_bin():
    for g in GO_CANDIDATES:
        if os.path.exists(g):
            return g
    return 'go'


def go_env():
    e = dict(os.environ)
    e.update(GOFLAGS='-mod=mod', GOPROXY='off', GOTOOLCHAIN='local', GONOSUMDB='*', GONOSUMCHECK='1',
             GOFLAGS_EXTRA='')
    e.pop('GOSUMDB', None)
    e['GOSUMDB'] = 'off'
    return e


class Lock:
    def __init__(self, name):
        os.makedirs(BUILD, exist_ok=True)
        self.path = os.path.join(BUILD, name + '.lock')

    def __enter__(self):
        self.f = open(self.path, 'w')
        fcntl.flock(self.f, fcntl.LOCK_EX)

    def __exit__(self, *a):
        fcntl.flock(self.f, fcntl.LOCK_UN)
        self.f.close()


def _limit_mem(gb):
    def f():
        import resource
        lim = int(gb * (1 << 30))
        resource.setrlimit(resource.RLIMIT_AS, (lim, lim))
    return f


def run(cmd, cwd=None, env=None, timeout=1200, input=None, mem_gb=None):
    try:
        p = subprocess.run(cmd, cwd=cwd, env=env, timeout=timeout, input=input,
                           stdout=subprocess.PIPE, stderr=subprocess.STDOUT, text=True,
                           preexec_fn=_limit_mem(mem_gb) if mem_gb else None)
        return p.returncode, p.stdout
    except subprocess.TimeoutExpired as ex:
        out = ex.stdout or ''
        if isinstance(out, bytes):
            out = out.decode(errors='replace')
        return 124, out + '\n[timeout after %ss]' % timeout


# ---------------------------------------------------------------- Go harness

def _repo_tag():
    return '' if REPO == '/repo' else '-' + hashlib.sha1(REPO.encode()).hexdigest()[:8]


def go_prepare():
    """(Re)create the harness go.mod/go.sum (kept outside the source tree, one per
    VERIF_REPO) from the template and /repo's current go.sum."""
    d = os.path.join(BUILD, 'gomod' + _repo_tag())
    os.makedirs(d, exist_ok=True)
    gm = os.path.join(d, 'go.mod')
    tmpl = open(os.path.join(HARNESS, 'go.mod.tmpl')).read().replace('=> /repo', '=> ' + REPO)
    if not os.path.exists(gm) or ('=> ' + REPO + '\n') not in open(gm).read():
        open(gm, 'w').write(tmpl)
    shutil.copyfile(os.path.join(REPO, 'go.sum'), os.path.join(d, 'go.sum'))
    return gm


def go_build(cmd, tags='verif'):
    """Build harness command `cmd` against the current working tree of REPO
    (default /repo; override with env VERIF_REPO).  Returns (ok, log, binary)."""
    out = os.path.join(BUILD, 'bin' + _repo_tag(), cmd)
    os.makedirs(os.path.dirname(out), exist_ok=True)
    with Lock('gobuild' + _repo_tag()):
        gm = go_prepare()
        rc, log = run([go_bin(), 'build', '-modfile=' + gm, '-tags', tags, '-o', out, './cmd/' + cmd],
                      cwd=HARNESS, env=go_env(), timeout=1500)
    return rc == 0, log, out


# ---------------------------------------------------------------- Coq

def coq_q_args():
    args = []
    for d in COQ_DIRS:
        if os.path.isdir(os.path.join(COQ, d)):
            args += ['-Q', d, COQ_NAMES[d]]
    return args


def regen_coqproject():
    lines = []
    qa = coq_q_args()
    for i in range(0, len(qa), 3):
        lines.append(' '.join(qa[i:i + 3]))
    files = []
    for d in COQ_DIRS:
        files += sorted(glob.glob(os.path.join(COQ, d, '*.v')))
    lines += [os.path.relpath(f, COQ) for f in files]
    text = '\n'.join(lines) + '\n'
    p = os.path.join(COQ, '_CoqProject')
    changed = not os.path.exists(p) or open(p).read() != text
    if changed:
        open(p, 'w').write(text)
    if changed or not os.path.exists(os.path.join(COQ, 'Makefile')):
        run(['coq_makefile', '-f', '_CoqProject', '-o', 'Makefile'], cwd=COQ)


def coq_build(targets=None, timeout=3000):
    """Full .vo build (never -vos) of the given targets (paths relative to coq/, .vo)."""
    with Lock('coq'):
        regen_coqproject()
        cmd = ['make', '-j16'] + (targets or [])
        rc, log = run(cmd, cwd=COQ, timeout=timeout)
    return rc == 0, log


def coq_check_props(prop, timeout=900):
    """Re-compile props/<prop>.v and return [(theorem, [axioms])]. The .vo files
    it depends on must be current (coq_build)."""
    src = os.path.join('props', prop + '.v')
    rc, log = run(['coqc'] + coq_q_args() + [src], cwd=COQ, timeout=timeout)
    if rc != 0:
        return False, log, []
    names = re.findall(r'^\s*Print Assumptions\s+([A-Za-z0-9_\.\']+)\s*\.', open(os.path.join(COQ, src)).read(), re.M)
    blocks = []
    cur = None
    for line in log.split('\n'):
        if line.startswith('Closed under the global context'):
            blocks.append([])
            cur = None
        elif line.startswith('Axioms:'):
            cur = []
            blocks.append(cur)
        elif cur is not None:
            m = re.match(r'^([A-Za-z0-9_\.\']+)\s*:', line)
            if m:
                cur.append(m.group(1))
    res = []
    for i, n in enumerate(names):
        res.append((n, blocks[i] if i < len(blocks) else ['<unparsed>']))
    return True, log, res


def _coqc_shard(args):
    path, timeout = args
    t0 = time.time()
    # a shard that needs more than 6 GB is a defect of the check (or a runaway evaluation): fail it, do not
    # take the machine down
    rc, log = run(['coqc'] + coq_q_args() + [path], cwd=COQ, timeout=timeout, mem_gb=6)
    return path, rc, log, time.time() - t0


def eval_cases(prop, header, case_terms, shard_size=60, checker='mismatches', timeout=900, ty=None):
    """Write shards cases/<prop>/s<k>.v containing `Definition cases := [...]` and
    `Definition M := Eval vm_compute in (<checker> cases). Print M.`; run coqc on
    them in parallel.  Returns (ok, failures, log) where failures is a list of
    (global_case_index, detail_int)."""
    d = os.path.join(COQ, 'cases', prop)
    shutil.rmtree(d, ignore_errors=True)
    os.makedirs(d)
    shards = []
    for k in range(0, len(case_terms), shard_size):
        chunk = case_terms[k:k + shard_size]
        path = os.path.join(d, 's%04d.v' % (k // shard_size))
        with open(path, 'w') as f:
            f.write(header + '\n')
            f.write('Definition cases%s := [\n' % ((' : list ' + ty) if ty else ''))
            f.write(';\n'.join('(' + c + ')' for c in chunk))
            f.write('\n].\n')
            f.write('Definition M := Eval vm_compute in (%s cases).\nPrint M.\n' % checker)
        shards.append((os.path.relpath(path, COQ), k))
    failures = []
    logs = []
    ok = True
    with ThreadPoolExecutor(max_workers=int(os.environ.get('VERIF_COQ_JOBS', '10'))) as ex:
        results = list(ex.map(_coqc_shard, [(p, timeout) for p, _ in shards]))
    for (p, base), (_, rc, log, dt) in zip(shards, results):
        if rc != 0:
            ok = False
            logs.append('%s: coqc failed\n%s' % (p, log[-3000:]))
            continue
        m = re.search(r'M\s*=\s*(.*?)\n\s*:\s', log, re.S)
        body = m.group(1) if m else log
        if m is None:
            ok = False
            logs.append('%s: could not parse output\n%s' % (p, log[-2000:]))
            continue
        for a, b in re.findall(r'\(\s*(\d+)(?:%\w+)?\s*,\s*(\d+)(?:%\w+)?\s*\)', body):
            failures.append((base + int(a), int(b)))
        stripped = re.sub(r'\s+', '', body)
        if stripped not in ('[]', 'nil') and not re.search(r'\(\s*\d+(?:%\w+)?\s*,', body):
            ok = False
            logs.append('%s: non-empty result that could not be parsed: %s' % (p, body[:500]))
    shutil.rmtree(d, ignore_errors=True)
    return ok, failures, '\n'.join(logs)


# ---------------------------------------------------------------- findings / verdict

def load_known():
    out = []
    p = os.path.join(ROOT, 'known_findings.json')
    if os.path.exists(p):
        out += json.load(open(p)).get('findings', [])
    # entries proposed by a property's builder, merged into known_findings.json at integration
    for q in sorted(glob.glob(os.path.join(ROOT, 'tools', 'checks', 'c[0-9][0-9]_known.json'))):
        try:
            out += json.load(open(q)).get('findings', [])
        except Exception:
            pass
    return out


def write_replay(prop, obj):
    d = os.path.join(ROOT, 'replay')
    os.makedirs(d, exist_ok=True)
    data = json.dumps(obj, indent=1, sort_keys=True)
    h = hashlib.sha1(data.encode()).hexdigest()[:10]
    p = os.path.join(d, '%s-%s.json' % (prop, h))
    open(p, 'w').write(data)
    return p


def case_hash(obj):
    return hashlib.sha1(json.dumps(obj, sort_keys=True).encode()).hexdigest()


def ddmin(items, failing, budget=200):
    """Delta-debugging on a list; `failing(sublist)` -> bool. Returns a smaller failing list."""
    n = 2
    cur = list(items)
    calls = 0
    _raw = failing

    def failing(cand):
        # shrinking is best effort: a candidate on which the judge itself trips is simply not taken
        try:
            return bool(_raw(cand))
        except Exception:
            return False
    while len(cur) >= 2 and calls < budget:
        chunk = max(1, len(cur) // n)
        reduced = False
        for i in range(0, len(cur), chunk):
            cand = cur[:i] + cur[i + chunk:]
            calls += 1
            if cand and failing(cand):
                cur = cand
                n = max(n - 1, 2)
                reduced = True
                break
            if calls >= budget:
                break
        if not reduced:
            if chunk == 1:
                break
            n = min(len(cur), n * 2)
    return cur


class Report:
    """Collects what a check run did and turns it into verdict + evidence."""

    def __init__(self, prop, level='proof'):
        self.prop = prop
        self.level = level
        self.t0 = time.time()
        self.violations = []      # (replay_path, nofail:bool, text)
        self.known = []           # text
        self.obligations = []     # (name, discharged:bool)
        self.coverage = {}
        self.assumptions = []
        self.trusted = []
        self.samples = []
        self.checker_cmd = ''

    def obligation(self, name, ok):
        self.obligations.append((name, bool(ok)))

    def violation(self, replay_obj, nofail=False, text=''):
        path = write_replay(self.prop, replay_obj)
        self.violations.append((path, nofail, text))

    def known_finding(self, text, key=None, replay_obj=None):
        """Report a finding that is listed (status open) in known_findings.json for
        this property; anything not listed there is a violation."""
        for k in load_known():
            if k.get('property') == self.prop and k.get('status', 'open') == 'open':
                kk = k.get('key', '')
                if (key is not None and key == kk) or (key is None and kk and kk in text):
                    self.known.append(text if kk in text else '[%s] %s' % (kk, text))
                    return True
        self.violation(replay_obj or {'property': self.prop, 'what': text,
                                      'note': 'reported as known by the check but not listed in known_findings.json'}, text=text)
        return False

    def finish(self):
        # consistency between verdict and obligations: with exit 0 every obligation must be discharged.
        # An obligation that failed only through a listed known finding holds "except for that finding";
        # any other undischarged obligation without a reported violation is itself reported.
        pending = [n for n, ok in self.obligations if not ok]
        if pending and not self.violations:
            if self.known:
                self.obligations = [(n if ok else n + ' - holds except for the listed known finding(s) reported by this run', True)
                                    for n, ok in self.obligations]
            else:
                self.violation({'property': self.prop, 'broken': 'obligation(s) not discharged although no violation was reported',
                                'obligations': pending}, nofail=True, text='undischarged: ' + '; '.join(pending)[:500])
        cov = dict(self.coverage)
        cov['obligations'] = len(self.obligations)
        cov['discharged'] = sum(1 for _, ok in self.obligations if ok)
        cov['obligation_list'] = [{'name': n, 'discharged': ok} for n, ok in self.obligations]
        cov['checker_cmd'] = self.checker_cmd
        cov['trusted_base'] = self.trusted
        if self.samples:
            cov['samples'] = self.samples[:5]
        cov.setdefault('known_findings_reported', self.known)
        ev = {
            'property_id': self.prop, 'tier': tier() if tier() in ('quick', 'thorough') else 'quick',
            'seed': seed(), 'level': self.level, 'coverage': cov,
            'assumptions': self.assumptions, 'wall_s': round(time.time() - self.t0, 2),
            'violations': len(self.violations),
        }
        os.makedirs(os.path.join(ROOT, 'evidence'), exist_ok=True)
        with open(os.path.join(ROOT, 'evidence', self.prop + '.json'), 'w') as f:
            json.dump(ev, f, indent=1)
        for k in self.known:
            print('KNOWN-FINDING: property=%s %s' % (self.prop, k))
        for path, nofail, text in self.violations:
            if text:
                print('# ' + text.replace('\n', '\n# '))
            print('VIOLATION property=%s replay=%s%s' % (self.prop, path, ' no-failing-input-found' if nofail else ''))
        sys.stdout.flush()
        return 1 if self.violations else 0
