#!/usr/bin/env python3
"""Entry point used by ./check: runs tools/checks/<cxx>.py main() and makes sure that an unexpected failure of
the check driver itself is never silent: it is reported as a broken obligation (exit 1, VIOLATION line with
no-failing-input-found and the traceback in the replay file)."""
import importlib.util, os, sys, traceback
here = os.path.dirname(os.path.abspath(__file__))
sys.path.insert(0, here)
sys.path.insert(0, os.path.join(here, 'checks'))
import vlib

prop, lc, args = sys.argv[1], sys.argv[2], sys.argv[3:]
spec = importlib.util.spec_from_file_location('check_' + lc, os.path.join(here, 'checks', lc + '.py'))
mod = importlib.util.module_from_spec(spec)
try:
    spec.loader.exec_module(mod)
    rc = mod.main(args)
    sys.exit(rc if isinstance(rc, int) else 0)
except SystemExit:
    raise
except BaseException:
    tb = traceback.format_exc()
    sys.stderr.write(tb)
    path = vlib.write_replay(prop, {'property': prop, 'broken': 'the check driver itself failed; the property is not shown to hold on this tree',
                                    'traceback': tb[-4000:]})
    print('VIOLATION property=%s replay=%s no-failing-input-found' % (prop, path))
    sys.exit(1)
