#!/bin/bash
# Stranger's audit of the Coq development: forbidden declarations, kernel-check switches, quick-compilation leftovers.
cd "$(dirname "$0")/../coq"
echo "== forbidden words (must be empty)"
grep -rnE '\b(Admitted|admit|Axiom|Axioms|Parameter|Parameters|Conjecture|Admit Obligations)\b|Unset Guard|bypass_check|type-in-type|impredicative-set|Unset Universe Checking|Unset Positivity' --include='*.v' . | grep -v '^./cases/' 
echo "== Variable/Hypothesis outside sections (manual review list)"
grep -rnE '^\s*(Variable|Variables|Hypothesis|Hypotheses|Context)\b' --include='*.v' . | grep -v '^./cases/' | head -40
echo "== Print Assumptions per props file"
for f in props/C*.v; do n=$(grep -c "Print Assumptions" $f); echo "$f: $n theorems"; done
