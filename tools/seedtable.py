#!/usr/bin/env python3
"""Print the markdown table of seeded changes from seeded/*/meta.json."""
import glob, json, os, re
root = os.path.dirname(os.path.dirname(os.path.abspath(__file__)))
rows = []
for p in sorted(glob.glob(os.path.join(root, 'seeded', 'C*', 'meta.json'))):
    m = json.load(open(p))
    res = m.get('check_result') or ''
    out = []
    for part in [x.strip() for x in res.split(';') if x.strip()]:
        mm = re.match(r'(C\d+) exit=(\d+)\s*(.*)', part)
        if not mm:
            continue
        prop, rc, line = mm.groups()
        if rc == '0':
            out.append('%s: **missed**' % prop)
        elif 'no-failing-input-found' in line:
            out.append('%s: exit 1, model/implementation divergence (no-failing-input-found)' % prop)
        else:
            out.append('%s: exit 1, concrete failing input' % prop)
    rows.append('| %s | %s | %s |' % (m['id'], m['needs_to_manifest'].replace('|', '/'), '; '.join(out) or 'not run'))
print('| seeded change | what it is / needs in order to manifest | verdict of `./check` (last run) |')
print('|---|---|---|')
print('\n'.join(rows))
