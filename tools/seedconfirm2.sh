#!/bin/bash
# usage: seedconfirm2.sh <worktree> <seed dir> <copy-dest-dir-in-worktree> <pkg-tests-to-run> <demo command...>
# copies every non-patch, non-notes file/dir of the seed dir into <copy-dest>, then checks both directions.
wt=$1; sd=$2; dest=$3; pkgs=$4; shift 4
G=/root/go/pkg/mod/golang.org/toolchain@v0.0.1-go1.25.0.linux-amd64/bin/go
export GOFLAGS=-mod=mod GOPROXY=off GOTOOLCHAIN=local PATH=$(dirname $G):$PATH
cd $wt || exit 2
git checkout -q -- . ; git clean -fdq
git apply $sd/patch.diff || { echo "PATCH-DOES-NOT-APPLY"; exit 2; }
go build ./amd/... ./nvidia/... >/dev/null 2>&1 && echo "build-with-patch: ok" || echo "build-with-patch: FAIL"
go test -count=1 $pkgs >/tmp/sc.$$.log 2>&1 && echo "pinned-pkg-tests-with-patch: pass" || { echo "pinned-pkg-tests-with-patch: FAIL"; grep -E "^(FAIL|---)" /tmp/sc.$$.log | head -5; }
mkdir -p $dest; for f in $sd/*; do b=$(basename $f); case $b in patch.diff|notes.md|meta.json) ;; *) cp -r $f $dest/;; esac; done
timeout 600 "$@" >/tmp/sc.$$.log 2>&1 && echo "demo-with-patch: PASS (bad)" || echo "demo-with-patch: fails (good)"
git apply -R $sd/patch.diff
timeout 600 "$@" >/tmp/sc.$$.log 2>&1 && echo "demo-without-patch: pass (good)" || { echo "demo-without-patch: FAILS (bad)"; tail -5 /tmp/sc.$$.log; }
git checkout -q -- . ; git clean -fdq; rm -f /tmp/sc.$$.log
