#!/bin/bash
# usage: tools/seedtest.sh <patch.diff> <Cxx> [more props]  -- apply a seeded change to /repo, run checks, undo it.
patch=$1; shift
cd /verif
if ! git -C /repo diff --quiet; then echo "/repo has uncommitted changes"; exit 2; fi
git -C /repo apply "$patch" || { echo "patch does not apply"; exit 2; }
for p in "$@"; do
  ./check $p > /tmp/seedtest.$$.log 2>&1; rc=$?
  echo "== $p exit=$rc"; grep -E "^(VIOLATION|KNOWN-FINDING|#)" /tmp/seedtest.$$.log | head -5
done
git -C /repo checkout -- . ; git -C /repo clean -fdq
rm -f /tmp/seedtest.$$.log
