// Command c04 drives the real insts.Disassembler (amd/insts) on generated,
// random, mutated and shipped instruction words and records everything it
// observes: every field of the decoded insts.Inst, errors, panics, whether a
// second decoder instance agrees, whether bytes beyond the reported size
// matter, and whether each shipped kernel is consumed exactly by sequential
// decoding.
package main

import (
	"encoding/json"
	"fmt"
	"math"
	"strings"

	"github.com/sarchlab/mgpusim/v4/amd/insts"

	"verifharness/vh"
)

// ---------------------------------------------------------------- descriptions

type Opnd struct {
	K string `json:"k"` // s v sp int float lit
	V int64  `json:"v"`
}

type Desc struct {
	F  string `json:"f"` // Coq constructor suffix: Sop2 Sopk ... Flat
	Op int    `json:"op"`
	// operands
	Dst, S0, S1, S2 *Opnd `json:",omitempty"`
	// plain fields
	N map[string]int64 `json:"n,omitempty"`
	B map[string]bool  `json:"b,omitempty"`
}

func (o *Opnd) code() uint32 {
	switch o.K {
	case "s":
		return uint32(o.V)
	case "v":
		return uint32(256 + o.V)
	case "sp", "float":
		return uint32(o.V)
	case "int":
		if o.V >= 0 {
			return uint32(128 + o.V)
		}
		return uint32(192 - o.V)
	case "lit":
		return 255
	}
	panic("bad operand kind")
}

func (o *Opnd) coq() string {
	switch o.K {
	case "s":
		return fmt.Sprintf("(PS %d)", o.V)
	case "v":
		return fmt.Sprintf("(PV %d)", o.V)
	case "sp":
		return fmt.Sprintf("(PSpecial %d)", o.V)
	case "float":
		return fmt.Sprintf("(PFloat %d)", o.V)
	case "int":
		return fmt.Sprintf("(PInt (%d)%%Z)", o.V)
	case "lit":
		return fmt.Sprintf("(PLit %d)", o.V)
	}
	panic("bad operand kind")
}

type field struct {
	v uint32
	w uint
}

func pack(fs ...field) uint32 {
	var r uint32
	var pos uint
	for _, f := range fs {
		r |= (f.v & ((1 << f.w) - 1)) << pos
		pos += f.w
	}
	if pos != 32 {
		panic("pack: fields do not add up to 32 bits")
	}
	return r
}

func b2u(b bool) uint32 {
	if b {
		return 1
	}
	return 0
}

func isMadk(op int) bool { return op == 23 || op == 36 || op == 24 || op == 37 }

var fmtCoq = map[string]string{"Sop2": "SOP2", "Sopk": "SOPK", "Sop1": "SOP1", "Sopc": "SOPC", "Sopp": "SOPP", "Smem": "SMEM",
	"Vop1": "VOP1", "Vop2": "VOP2", "Vop2Sdwa": "VOP2", "Vopc": "VOPC", "Vop3a": "VOP3a", "Vop3b": "VOP3b", "Ds": "DS", "Flat": "FLAT"}

// words is the harness' own byte emitter (written from the ISA layouts, like
// coq/isa/Encode.v; the Coq side checks that both agree on every case).
func (d *Desc) words() (uint32, *uint32) {
	n := func(k string) uint32 { return uint32(d.N[k]) }
	b := func(k string) uint32 { return b2u(d.B[k]) }
	op := uint32(d.Op)
	lit := func(os ...*Opnd) *uint32 {
		for _, o := range os {
			if o != nil && o.K == "lit" {
				v := uint32(o.V)
				return &v
			}
		}
		return nil
	}
	some := func(v uint32) *uint32 { return &v }
	switch d.F {
	case "Sop2":
		return pack(field{d.S0.code(), 8}, field{d.S1.code(), 8}, field{d.Dst.code(), 7}, field{op, 7}, field{2, 2}), lit(d.S0, d.S1)
	case "Sopk":
		return pack(field{n("simm"), 16}, field{d.Dst.code(), 7}, field{op, 5}, field{11, 4}), nil
	case "Sop1":
		return pack(field{d.S0.code(), 8}, field{op, 8}, field{d.Dst.code(), 7}, field{381, 9}), lit(d.S0)
	case "Sopc":
		return pack(field{d.S0.code(), 8}, field{d.S1.code(), 8}, field{op, 7}, field{382, 9}), lit(d.S0, d.S1)
	case "Sopp":
		return pack(field{n("simm"), 16}, field{op, 7}, field{383, 9}), nil
	case "Smem":
		return pack(field{n("sbase"), 6}, field{d.Dst.code(), 7}, field{0, 3}, field{b("glc"), 1}, field{b("imm"), 1}, field{op, 8}, field{48, 6}),
			some(pack(field{n("offset"), 20}, field{0, 12}))
	case "Vop1":
		return pack(field{d.S0.code(), 9}, field{op, 8}, field{n("vdst"), 8}, field{63, 7}), lit(d.S0)
	case "Vop2":
		w1 := lit(d.S0)
		if w1 == nil && isMadk(d.Op) {
			w1 = some(n("k"))
		}
		return pack(field{d.S0.code(), 9}, field{n("vsrc1"), 8}, field{n("vdst"), 8}, field{op, 6}, field{0, 1}), w1
	case "Vop2Sdwa":
		return pack(field{249, 9}, field{n("vsrc1"), 8}, field{n("vdst"), 8}, field{op, 6}, field{0, 1}),
			some(pack(field{n("vsrc0"), 8}, field{n("dst_sel"), 3}, field{n("dst_unused"), 2}, field{0, 3}, field{n("src0_sel"), 3},
				field{0, 4}, field{b("s0"), 1}, field{n("src1_sel"), 3}, field{0, 4}, field{b("s1"), 1}))
	case "Vopc":
		return pack(field{d.S0.code(), 9}, field{n("vsrc1"), 8}, field{op, 8}, field{62, 7}), lit(d.S0)
	case "Vop3a":
		return pack(field{n("vdst"), 8}, field{n("abs"), 3}, field{n("opsel"), 4}, field{b("clamp"), 1}, field{op, 10}, field{52, 6}),
			some(pack(field{d.S0.code(), 9}, field{d.S1.code(), 9}, field{d.S2.code(), 9}, field{n("omod"), 2}, field{n("neg"), 3}))
	case "Vop3b":
		return pack(field{n("vdst"), 8}, field{n("sdst"), 7}, field{b("clamp"), 1}, field{op, 10}, field{52, 6}),
			some(pack(field{d.S0.code(), 9}, field{d.S1.code(), 9}, field{d.S2.code(), 9}, field{n("omod"), 2}, field{n("neg"), 3}))
	case "Ds":
		return pack(field{n("offset0"), 8}, field{n("offset1"), 8}, field{b("gds"), 1}, field{op, 8}, field{0, 1}, field{54, 6}),
			some(pack(field{n("addr"), 8}, field{n("data0"), 8}, field{n("data1"), 8}, field{n("vdst"), 8}))
	case "Flat":
		return pack(field{n("offset"), 13}, field{0, 3}, field{b("glc"), 1}, field{b("slc"), 1}, field{op, 7}, field{0, 1}, field{55, 6}),
			some(pack(field{n("addr"), 8}, field{n("data"), 8}, field{n("saddr"), 7}, field{b("tfe"), 1}, field{n("vdst"), 8}))
	}
	panic("bad format " + d.F)
}

func (d *Desc) bytes() []byte {
	w0, w1 := d.words()
	out := insts.Uint32ToBytes(w0)
	if w1 != nil {
		out = append(out, insts.Uint32ToBytes(*w1)...)
	}
	return out
}

func (d *Desc) coq() string {
	r := fmt.Sprintf("(row_of %s %d)", fmtCoq[d.F], d.Op)
	n := func(k string) string { return fmt.Sprintf("%d", d.N[k]) }
	b := func(k string) string { return vh.CoqBool(d.B[k]) }
	j := func(xs ...string) string { return "(D" + d.F + " " + r + " " + strings.Join(xs, " ") + ")" }
	switch d.F {
	case "Sop2":
		return j(d.Dst.coq(), d.S0.coq(), d.S1.coq())
	case "Sopk":
		return j(d.Dst.coq(), n("simm"))
	case "Sop1":
		return j(d.Dst.coq(), d.S0.coq())
	case "Sopc":
		return j(d.S0.coq(), d.S1.coq())
	case "Sopp":
		return j(n("simm"))
	case "Smem":
		return j(d.Dst.coq(), n("sbase"), b("glc"), b("imm"), n("offset"))
	case "Vop1":
		return j(n("vdst"), d.S0.coq())
	case "Vop2":
		return j(n("vdst"), d.S0.coq(), n("vsrc1"), n("k"))
	case "Vop2Sdwa":
		return j(n("vdst"), n("vsrc0"), n("vsrc1"), n("dst_sel"), n("dst_unused"), n("src0_sel"), n("src1_sel"), b("s0"), b("s1"))
	case "Vopc":
		return j(d.S0.coq(), n("vsrc1"))
	case "Vop3a":
		return j(n("vdst"), n("abs"), n("opsel"), b("clamp"), d.S0.coq(), d.S1.coq(), d.S2.coq(), n("omod"), n("neg"))
	case "Vop3b":
		return j(n("vdst"), n("sdst"), b("clamp"), d.S0.coq(), d.S1.coq(), d.S2.coq(), n("omod"), n("neg"))
	case "Ds":
		return j(n("offset0"), n("offset1"), b("gds"), n("addr"), n("data0"), n("data1"), n("vdst"))
	case "Flat":
		return j(n("offset"), b("glc"), b("slc"), n("addr"), n("data"), n("saddr"), b("tfe"), n("vdst"))
	}
	panic("bad format")
}

// ---------------------------------------------------------------- observation

type Obs struct {
	Outcome  string          `json:"outcome"` // ok err notimpl fault
	Msg      string          `json:"msg,omitempty"`
	FName    string          `json:"fname,omitempty"`
	Name     string          `json:"name,omitempty"`
	Size     int             `json:"size,omitempty"`
	Flat     json.RawMessage `json:"flat,omitempty"`
	Print    string          `json:"print,omitempty"`
	Agree    bool            `json:"agree"`     // a second, independently built decoder gives the same result
	PrefixOK bool            `json:"prefix_ok"` // re-decoding buf[:size] ++ other bytes gives the same result
	Round    string          `json:"round,omitempty"`
	flat     []string
}

type Case struct {
	Kind  string `json:"kind"` // enc hostile trunc rand guided mut short kernelword corpus | kernel
	CDNA3 bool   `json:"cdna3"`
	Bytes string `json:"bytes,omitempty"` // hex
	Desc  *Desc  `json:"desc,omitempty"`
	Valid bool   `json:"valid,omitempty"` // the description is meant to be well-formed
	// kernel cases
	File   string `json:"file,omitempty"`
	Kernel string `json:"kernel,omitempty"`
	NWords int    `json:"nwords,omitempty"`
	Count  int    `json:"count,omitempty"`
	Status int    `json:"status,omitempty"`
	ErrPos int    `json:"errpos,omitempty"`
	ErrW   string `json:"errword,omitempty"`
	ErrFmt string `json:"errfmt,omitempty"`
	ErrOp  int    `json:"errop,omitempty"`
	// listing cases: what the vendor disassembly listing says about these bytes
	Want     string `json:"want,omitempty"`
	WantSize int    `json:"wantsize,omitempty"`
	Source   string `json:"source,omitempty"`

	Obs *Obs   `json:"obs,omitempty"`
	Coq string `json:"coq"`
}

func flatOperand(o *insts.Operand) []string {
	if o == nil {
		return []string{"0", "0", "0", "0", "0", "0", "0", "0"}
	}
	reg := "-1"
	if o.Register != nil {
		reg = fmt.Sprint(int(o.Register.RegType))
	}
	return []string{"1", fmt.Sprint(o.Code), fmt.Sprint(int(o.OperandType)), reg, fmt.Sprint(o.RegCount),
		fmt.Sprint(math.Float64bits(o.FloatValue)), fmt.Sprint(o.IntValue), fmt.Sprint(o.LiteralConstant)}
}

func bi(b bool) string {
	if b {
		return "1"
	}
	return "0"
}

func flatInst(i *insts.Inst) []string {
	f, t := i.Format, i.InstType
	out := []string{fmt.Sprint(int(f.FormatType)), fmt.Sprint(f.Encoding), fmt.Sprint(f.Mask), fmt.Sprint(f.ByteSizeExLiteral),
		fmt.Sprint(f.OpcodeLow), fmt.Sprint(f.OpcodeHigh),
		fmt.Sprint(t.Opcode), fmt.Sprint(int(t.Format.FormatType)), fmt.Sprint(int(t.ExeUnit)), fmt.Sprint(t.DSTWidth), fmt.Sprint(t.SRC0Width),
		fmt.Sprint(t.SRC1Width), fmt.Sprint(t.SRC2Width), fmt.Sprint(t.SDSTWidth), fmt.Sprint(i.ByteSize)}
	for _, o := range []*insts.Operand{i.Src0, i.Src1, i.Src2, i.Dst, i.SDst, i.Addr, i.Data, i.Data1, i.Base, i.Offset, i.SImm16, i.SAddr} {
		out = append(out, flatOperand(o)...)
	}
	out = append(out, fmt.Sprint(i.Abs), fmt.Sprint(i.Omod), fmt.Sprint(i.Neg), fmt.Sprint(i.OpSel), fmt.Sprint(i.OpSelHi),
		fmt.Sprint(i.Offset0), fmt.Sprint(i.Offset1), bi(i.SystemLevelCoherent), bi(i.GlobalLevelCoherent), bi(i.TextureFailEnable), bi(i.Imm),
		bi(i.Clamp), bi(i.GDS), fmt.Sprint(i.VMCNT), fmt.Sprint(i.LKGMCNT), bi(i.IsSdwa),
		fmt.Sprint(uint32(i.DstSel)), fmt.Sprint(uint8(i.DstUnused)), fmt.Sprint(uint32(i.Src0Sel)), bi(i.Src0Sext),
		bi(i.Src0Neg), bi(i.Src0Abs), fmt.Sprint(uint32(i.Src1Sel)), bi(i.Src1Sext),
		bi(i.Src1Neg), bi(i.Src1Abs), bi(i.Src2Neg), bi(i.Src2Abs))
	return out
}

// exact returns a copy whose capacity equals its length, so that out-of-range
// slicing in the decoder cannot silently read spare capacity.
func exact(b []byte) []byte {
	c := make([]byte, len(b), len(b))
	copy(c, b)
	return c
}

func decodeOnce(d *insts.Disassembler, buf []byte) (o Obs, inst *insts.Inst) {
	defer func() {
		if r := recover(); r != nil {
			msg := fmt.Sprint(r)
			o = Obs{Outcome: "fault", Msg: msg}
			if strings.Contains(msg, "not implemented") {
				o.Outcome = "notimpl"
			}
			inst = nil
		}
	}()
	i, err := d.Decode(exact(buf))
	if err != nil {
		if i != nil {
			return Obs{Outcome: "fault", Msg: "both an instruction and an error were returned"}, nil
		}
		return Obs{Outcome: "err", Msg: err.Error()}, nil
	}
	if i == nil {
		return Obs{Outcome: "fault", Msg: "neither an instruction nor an error was returned"}, nil
	}
	if i.Format == nil || i.InstType == nil || i.InstType.Format == nil {
		return Obs{Outcome: "fault", Msg: "instruction without format or type"}, nil
	}
	o = Obs{Outcome: "ok", FName: i.FormatName, Name: i.InstName, Size: i.ByteSize, flat: flatInst(i)}
	return o, i
}

func safePrint(i *insts.Inst) (s string) {
	defer func() {
		if r := recover(); r != nil {
			s = "<print panics: " + fmt.Sprint(r) + ">"
		}
	}()
	return insts.NewInstPrinter(nil).Print(i)
}

func sameObs(a, b Obs) bool {
	if a.Outcome != b.Outcome || a.Name != b.Name || a.FName != b.FName || a.Size != b.Size || len(a.flat) != len(b.flat) {
		return false
	}
	for k := range a.flat {
		if a.flat[k] != b.flat[k] {
			return false
		}
	}
	return true
}

type env struct {
	d1 [2]*insts.Disassembler    // index: cdna3
	d2 [2][]*insts.Disassembler // further, independently built instances
}

func newEnv() *env {
	e := &env{}
	for k := 0; k < 2; k++ {
		e.d1[k] = insts.NewDisassembler()
		e.d1[k].IsCDNA3 = k == 1
		for j := 0; j < 6; j++ {
			d := insts.NewDisassembler()
			d.IsCDNA3 = k == 1
			e.d2[k] = append(e.d2[k], d)
		}
	}
	return e
}

func (e *env) observe(buf []byte, cdna3 bool, rng *vh.Rng) *Obs {
	k := 0
	if cdna3 {
		k = 1
	}
	o, inst := decodeOnce(e.d1[k], buf)
	// an independently constructed decoder (its formatList and decode tables are
	// filled by ranging over Go maps) must agree
	o2, _ := decodeOnce(e.d2[k][rng.Intn(len(e.d2[k]))], buf)
	o.Agree = sameObs(o, o2)
	o.PrefixOK = true
	if o.Outcome == "ok" && o.Size <= len(buf) {
		for t := 0; t < 2; t++ {
			nb := append([]byte{}, buf[:o.Size]...)
			for x := rng.Intn(9); x > 0; x-- {
				nb = append(nb, byte(rng.U64()))
			}
			o3, _ := decodeOnce(e.d1[k], nb)
			if !sameObs(o, o3) {
				o.PrefixOK = false
			}
		}
	}
	if inst != nil {
		o.Print = safePrint(inst)
		o.Flat = json.RawMessage("[" + strings.Join(o.flat, ",") + "]")
	}
	return &o
}

func (o *Obs) coq() string {
	switch o.Outcome {
	case "ok":
		zs := make([]string, len(o.flat))
		for i, s := range o.flat {
			if strings.HasPrefix(s, "-") {
				zs[i] = "(" + s + ")"
			} else {
				zs[i] = s
			}
		}
		return fmt.Sprintf("(XOk \"%s\" \"%s\" [%s]%%Z)", o.FName, o.Name, strings.Join(zs, "; "))
	case "err":
		return "XErr"
	case "notimpl":
		return "XNotImpl"
	}
	return "XFault"
}

func wordCoq(c *Case, buf []byte) string {
	d := "None"
	if c.Desc != nil {
		d = "(Some " + c.Desc.coq() + ")"
	}
	return fmt.Sprintf("CWord %s %s %s %s", vh.CoqBool(c.CDNA3), vh.CoqBytes(buf), d, c.Obs.coq())
}
