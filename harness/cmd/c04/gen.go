package main

import (
	"debug/elf"
	"encoding/binary"
	"encoding/hex"
	"encoding/json"
	"flag"
	"fmt"
	"math"
	"os"
	"path/filepath"
	"regexp"
	"sort"
	"strings"

	"github.com/sarchlab/mgpusim/v4/amd/insts"

	"verifharness/vh"
)

// ---------------------------------------------------------------- rows (found through the public API)

type rowInfo struct {
	op                        int
	name                      string
	dstw, s0w, s1w, s2w, sdsw int
}

type fmtInfo struct {
	coq      string
	typ      insts.FormatType
	descs    []string
	rows     []rowInfo
	enc      uint32
	lo, hi   uint8
	size     int
	hasTable bool
}

// probeRows finds the rows of the decode tables by decoding, for every format
// and every value of its opcode field, the word "encoding | opcode << lo" with
// all other fields zero (s0 / v0 operands).
func probeRows() map[string]*fmtInfo {
	d := insts.NewDisassembler()
	res := map[string]*fmtInfo{}
	names := map[insts.FormatType][]string{insts.SOP2: {"Sop2"}, insts.SOPK: {"Sopk"}, insts.SOP1: {"Sop1"}, insts.SOPC: {"Sopc"},
		insts.SOPP: {"Sopp"}, insts.SMEM: {"Smem"}, insts.VOP1: {"Vop1"}, insts.VOP2: {"Vop2", "Vop2Sdwa"}, insts.VOPC: {"Vopc"},
		insts.VOP3a: {"Vop3a"}, insts.VOP3b: {"Vop3b"}, insts.DS: {"Ds"}, insts.FLAT: {"Flat"}}
	for t, ds := range names {
		f := insts.FormatTable[t]
		if f == nil {
			continue
		}
		fi := &fmtInfo{coq: fmtCoq[ds[0]], typ: t, descs: ds, enc: f.Encoding, lo: f.OpcodeLow, hi: f.OpcodeHigh, size: f.ByteSizeExLiteral}
		for op := 0; op < 1<<(f.OpcodeHigh-f.OpcodeLow+1); op++ {
			w := f.Encoding | uint32(op)<<f.OpcodeLow
			buf := append(insts.Uint32ToBytes(w), 0, 0, 0, 0)
			o, i := decodeOnce(d, buf)
			if o.Outcome == "ok" && i.FormatType == t && int(i.Opcode) == op {
				fi.rows = append(fi.rows, rowInfo{op, i.InstName, i.DSTWidth, i.SRC0Width, i.SRC1Width, i.SRC2Width, i.SDSTWidth})
			}
		}
		for _, dn := range ds {
			res[dn] = fi
		}
	}
	return res
}

// ---------------------------------------------------------------- generators

var specials = []int64{102, 103, 104, 105, 106, 107, 108, 109, 110, 111, 112, 113, 114, 115, 116, 117, 118, 119, 120, 121, 122, 124, 126, 127, 251, 252, 253}

func genOpnd(r *vh.Rng, scalarOnly, dst, allowLit bool) *Opnd {
	for {
		switch r.Pick(6, 6, 3, 3, 2, 3) {
		case 0:
			return (&Opnd{K: "s"}).fix(r, "s")
		case 1:
			if scalarOnly || dst {
				continue
			}
			return (&Opnd{K: "v"}).fix(r, "v")
		case 2:
			sp := specials[r.Intn(len(specials))]
			if dst && sp > 127 {
				continue
			}
			return &Opnd{K: "sp", V: sp}
		case 3:
			if dst {
				continue
			}
			return &Opnd{K: "int", V: int64(r.Intn(81)) - 16}
		case 4:
			if dst {
				continue
			}
			return &Opnd{K: "float", V: int64(240 + r.Intn(9))}
		case 5:
			if dst || !allowLit {
				continue
			}
			v := int64(uint32(r.U64()))
			switch r.Intn(4) {
			case 0:
				v = 0
			case 1:
				v = 0xffffffff
			}
			return &Opnd{K: "lit", V: v}
		}
	}
}

func (o *Opnd) fix(r *vh.Rng, k string) *Opnd {
	o.K = k
	max := 101
	if k == "v" {
		max = 255
	}
	switch r.Intn(4) {
	case 0:
		o.V = 0
	case 1:
		o.V = int64(max)
	default:
		o.V = int64(r.Intn(max + 1))
	}
	return o
}

func edge(r *vh.Rng, bits uint) int64 {
	switch r.Intn(5) {
	case 0:
		return 0
	case 1:
		return int64(1)<<bits - 1
	case 2:
		return int64(1) << uint(r.Intn(int(bits)))
	}
	return int64(r.U64() & (uint64(1)<<bits - 1))
}

// genDesc produces a description of format f.  valid: every field inside
// the range the ISA allows (the description is then expected to satisfy wf in
// Coq where wf is defined for the format).
func genDesc(r *vh.Rng, fn string, fi *fmtInfo, valid bool) *Desc {
	return genDescRow(r, fn, fi, valid, -1)
}

// genDescRow: as genDesc, for row number rowIdx of the format (-1: a random row).
func genDescRow(r *vh.Rng, fn string, fi *fmtInfo, valid bool, rowIdx int) *Desc {
	row := fi.rows[r.Intn(len(fi.rows))]
	if rowIdx >= 0 {
		row = fi.rows[rowIdx]
	}
	d := &Desc{F: fn, Op: row.op, N: map[string]int64{}, B: map[string]bool{}}
	anyOp := func() *Opnd { return &Opnd{K: "sp", V: int64(r.Intn(512))} }
	src := func(scalar, lit bool) *Opnd {
		if !valid && r.Intn(3) == 0 {
			o := anyOp()
			if scalar {
				o.V &= 255
			}
			return o
		}
		return genOpnd(r, scalar, false, lit)
	}
	dst := func() *Opnd {
		if !valid && r.Intn(3) == 0 {
			return &Opnd{K: "sp", V: int64(r.Intn(128))}
		}
		return genOpnd(r, true, true, false)
	}
	switch fn {
	case "Sop2":
		d.Dst, d.S0 = dst(), src(true, true)
		d.S1 = src(true, d.S0.K != "lit" || !valid)
		if valid && r.Intn(6) == 0 { // both sources refer to the one literal dword
			v := int64(uint32(r.U64()) | 1)
			d.S0, d.S1 = &Opnd{K: "lit", V: v}, &Opnd{K: "lit", V: v}
		}
	case "Sopk":
		d.Dst = dst()
		d.N["simm"] = edge(r, 16)
	case "Sop1":
		d.Dst, d.S0 = dst(), src(true, true)
	case "Sopc":
		d.S0 = src(true, true)
		d.S1 = src(true, d.S0.K != "lit" || !valid)
		if valid && r.Intn(6) == 0 {
			v := int64(uint32(r.U64()) | 1)
			d.S0, d.S1 = &Opnd{K: "lit", V: v}, &Opnd{K: "lit", V: v}
		}
	case "Sopp":
		d.N["simm"] = edge(r, 16)
	case "Smem":
		d.Dst = dst()
		d.B["glc"], d.B["imm"] = r.Bool(), r.Intn(3) != 0
		d.N["sbase"] = int64(r.Intn(51))
		if d.B["imm"] {
			d.N["offset"] = edge(r, 20)
		} else {
			d.N["offset"] = int64(r.Intn(102))
		}
		if !valid {
			d.N["sbase"] = int64(r.Intn(64))
			d.N["offset"] = edge(r, 20)
		}
	case "Vop1":
		d.S0 = src(false, true)
		d.N["vdst"] = edge(r, 8)
		if valid && row.op == 2 {
			d.N["vdst"] = int64(r.Intn(102))
		}
	case "Vop2":
		d.S0 = src(false, !(valid && isMadk(row.op)))
		d.N["vdst"], d.N["vsrc1"] = edge(r, 8), edge(r, 8)
		if isMadk(row.op) {
			d.N["k"] = edge(r, 32)
		}
	case "Vop2Sdwa":
		d.N["vdst"], d.N["vsrc1"], d.N["vsrc0"] = edge(r, 8), edge(r, 8), edge(r, 8)
		d.N["dst_sel"], d.N["src0_sel"], d.N["src1_sel"] = int64(r.Intn(7)), int64(r.Intn(7)), int64(r.Intn(7))
		d.N["dst_unused"] = int64(r.Intn(3))
		d.B["s0"], d.B["s1"] = r.Intn(4) == 0, r.Intn(4) == 0
		if !valid {
			d.N["dst_sel"], d.N["src1_sel"], d.N["dst_unused"] = int64(r.Intn(8)), int64(r.Intn(8)), int64(r.Intn(4))
		}
	case "Vopc":
		d.S0 = src(false, true)
		d.N["vsrc1"] = edge(r, 8)
	case "Vop3a", "Vop3b":
		d.S0, d.S1, d.S2 = src(false, false), src(false, false), src(false, false)
		if row.s2w == 0 && valid {
			d.S2 = &Opnd{K: "s", V: 0}
		}
		d.N["vdst"] = edge(r, 8)
		d.N["omod"], d.N["neg"] = int64(r.Intn(4)), int64(r.Intn(8))
		d.B["clamp"] = r.Bool()
		if fn == "Vop3a" {
			d.N["abs"] = int64(r.Intn(8))
			if row.op >= 944 && row.op <= 946 || !valid {
				d.N["opsel"] = int64(r.Intn(16))
			}
			if row.op <= 255 && valid {
				d.N["vdst"] = int64(r.Intn(102))
			}
		} else {
			d.N["sdst"] = int64(r.Intn(102))
			if !valid {
				d.N["sdst"] = int64(r.Intn(128))
			}
		}
	case "Ds":
		if rowIdx < 0 && r.Intn(3) == 0 { // the dual-offset families, which the shipped kernels hardly use
			var dual []rowInfo
			for _, x := range fi.rows {
				if dsDualOffset(x.op) {
					dual = append(dual, x)
				}
			}
			if len(dual) > 0 {
				row = dual[r.Intn(len(dual))]
				d.Op = row.op
			}
		}
		d.N["offset0"], d.N["offset1"] = edge(r, 8), 1+int64(r.Intn(255))
		if r.Intn(4) == 0 {
			d.N["offset1"] = 0
		}
		d.B["gds"] = r.Bool()
		d.N["addr"], d.N["data0"], d.N["data1"], d.N["vdst"] = edge(r, 8), edge(r, 8), edge(r, 8), edge(r, 8)
	case "Flat":
		d.N["offset"] = edge(r, 13)
		d.B["glc"], d.B["slc"], d.B["tfe"] = r.Bool(), r.Bool(), r.Bool()
		d.N["addr"], d.N["data"], d.N["vdst"] = edge(r, 8), edge(r, 8), edge(r, 8)
		d.N["saddr"] = []int64{0x7f, 0, int64(r.Intn(102)), edge(r, 7)}[r.Intn(4)]
	}
	return d
}

// ---------------------------------------------------------------- round trip (monitor for decode_encode on the implementation)

func opndMatches(want *Opnd, got *insts.Operand, lit *uint32) string {
	if got == nil {
		return "operand missing"
	}
	switch want.K {
	case "s":
		if got.OperandType != insts.RegOperand || got.Register == nil || got.Register.RegType != insts.S0+insts.RegType(want.V) {
			return fmt.Sprintf("expected s%d", want.V)
		}
	case "v":
		if got.OperandType != insts.RegOperand || got.Register == nil || got.Register.RegType != insts.V0+insts.RegType(want.V) {
			return fmt.Sprintf("expected v%d", want.V)
		}
	case "sp":
		if got.OperandType != insts.RegOperand || got.Register == nil || got.Code != int(want.V) {
			return fmt.Sprintf("expected special register code %d", want.V)
		}
	case "int":
		if got.OperandType != insts.IntOperand || got.IntValue != want.V {
			return fmt.Sprintf("expected integer %d", want.V)
		}
	case "float":
		vals := []float64{0.5, -0.5, 1, -1, 2, -2, 4, -4, 1.0 / (2.0 * math.Pi)}
		if got.OperandType != insts.FloatOperand || got.FloatValue != vals[want.V-240] {
			return fmt.Sprintf("expected float constant %d", want.V)
		}
	case "lit":
		if got.OperandType != insts.LiteralConstant || (lit != nil && got.LiteralConstant != uint32(want.V)) {
			return fmt.Sprintf("expected literal %#x, decoded literal value %#x", want.V, got.LiteralConstant)
		}
	}
	return ""
}

// dsDualOffset: DS opcodes with two separate 8-bit offsets (GCN3 ISA, LDS/GDS
// instruction table): ds_write2[st64]_b32/b64, ds_wrxchg2[st64]_rtn_b32/b64,
// ds_read2[st64]_b32/b64.
func dsDualOffset(op int) bool {
	switch op {
	case 14, 15, 46, 47, 55, 56, 78, 79, 110, 111, 119, 120:
		return true
	}
	return false
}

func vgprIs(got *insts.Operand, idx int64) bool {
	return got != nil && got.OperandType == insts.RegOperand && got.Register != nil && got.Register.RegType == insts.V0+insts.RegType(idx)
}

// roundTrip compares what was decoded with what was encoded (for valid
// descriptions): mnemonic row, byte size, every operand, every modifier.
func roundTrip(d *Desc, fi *fmtInfo, i *insts.Inst) string {
	if i.FormatType != fi.typ && !(d.F == "Vop3b" || d.F == "Vop3a") {
		return "format differs"
	}
	if int(i.Opcode) != d.Op {
		return fmt.Sprintf("opcode %d decoded, %d encoded", i.Opcode, d.Op)
	}
	w0, w1 := d.words()
	_ = w0
	want := 4
	if w1 != nil {
		want = 8
	}
	if i.ByteSize != want {
		return fmt.Sprintf("byte size %d, encoded %d bytes", i.ByteSize, want)
	}
	chk := func(what string, want *Opnd, got *insts.Operand) string {
		if want == nil {
			return ""
		}
		if m := opndMatches(want, got, w1); m != "" {
			return what + ": " + m
		}
		return ""
	}
	var msgs []string
	add := func(s string) {
		if s != "" {
			msgs = append(msgs, s)
		}
	}
	n := func(k string) int64 { return d.N[k] }
	switch d.F {
	case "Sop2", "Sop1":
		add(chk("dst", d.Dst, i.Dst))
		add(chk("src0", d.S0, i.Src0))
		add(chk("src1", d.S1, i.Src1))
	case "Sopc":
		add(chk("src0", d.S0, i.Src0))
		add(chk("src1", d.S1, i.Src1))
	case "Sopk":
		add(chk("dst", d.Dst, i.Dst))
		if i.SImm16 == nil || i.SImm16.IntValue != n("simm") {
			add("simm16 differs")
		}
	case "Sopp":
		if i.SImm16 == nil || i.SImm16.IntValue != n("simm") {
			add("simm16 differs")
		}
	case "Smem":
		add(chk("data", d.Dst, i.Data))
		if i.Base == nil || i.Base.Register == nil || i.Base.Register.RegType != insts.S0+insts.RegType(2*n("sbase")) || i.Base.RegCount != 2 {
			add("base differs")
		}
		if i.Imm != d.B["imm"] || i.GlobalLevelCoherent != d.B["glc"] {
			add("imm/glc differ")
		}
		if d.B["imm"] {
			if i.Offset == nil || i.Offset.OperandType != insts.IntOperand || i.Offset.IntValue != n("offset") {
				add("offset differs")
			}
		} else if i.Offset == nil || i.Offset.OperandType != insts.RegOperand || i.Offset.Register == nil ||
			i.Offset.Register.RegType != insts.S0+insts.RegType(n("offset")) {
			add("offset register differs")
		} else if i.Offset.RegCount != 1 {
			add(fmt.Sprintf("offset register s%d: register count %d, expected 1", n("offset"), i.Offset.RegCount))
		}
	case "Vop1":
		add(chk("src0", d.S0, i.Src0))
		if d.Op == 2 {
			add(chk("dst", &Opnd{"s", n("vdst")}, i.Dst))
		} else if !vgprIs(i.Dst, n("vdst")) {
			add("vdst differs")
		}
	case "Vop2":
		add(chk("src0", d.S0, i.Src0))
		if !vgprIs(i.Src1, n("vsrc1")) || !vgprIs(i.Dst, n("vdst")) {
			add("vsrc1/vdst differ")
		}
		if isMadk(d.Op) && (i.Src2 == nil || i.Src2.OperandType != insts.LiteralConstant || int64(i.Src2.LiteralConstant) != n("k")) {
			add("madmk/madak constant differs")
		}
	case "Vop2Sdwa":
		sel := []uint32{0xff, 0xff00, 0xff0000, 0xff000000, 0xffff, 0xffff0000, 0xffffffff}
		if !i.IsSdwa || !vgprIs(i.Dst, n("vdst")) {
			add("sdwa flag / vdst differ")
		}
		if uint32(i.DstSel) != sel[n("dst_sel")] || uint32(i.Src0Sel) != sel[n("src0_sel")] || uint32(i.Src1Sel) != sel[n("src1_sel")] ||
			int64(i.DstUnused) != n("dst_unused") {
			add("sdwa selectors differ")
		}
		if !d.B["s0"] && !vgprIs(i.Src0, n("vsrc0")) {
			add("sdwa src0 differs")
		}
		if !d.B["s1"] && !vgprIs(i.Src1, n("vsrc1")) {
			add("sdwa src1 differs")
		}
	case "Vopc":
		add(chk("src0", d.S0, i.Src0))
		if !vgprIs(i.Src1, n("vsrc1")) {
			add("vsrc1 differs")
		}
	case "Vop3a", "Vop3b":
		add(chk("src0", d.S0, i.Src0))
		add(chk("src1", d.S1, i.Src1))
		if i.SRC2Width != 0 {
			add(chk("src2", d.S2, i.Src2))
		}
		if int64(i.Omod) != n("omod") || int64(i.Neg) != n("neg") || i.Clamp != d.B["clamp"] {
			add("omod/neg/clamp differ")
		}
		if d.F == "Vop3a" {
			if int64(i.Abs) != n("abs") {
				add("abs differs")
			}
			if d.Op > 255 && !vgprIs(i.Dst, n("vdst")) {
				add("vdst differs")
			}
			if d.Op <= 255 {
				add(chk("sdst", &Opnd{"s", n("vdst")}, i.Dst))
			}
		} else {
			if !vgprIs(i.Dst, n("vdst")) {
				add("vdst differs")
			}
			add(chk("sdst", &Opnd{"s", n("sdst")}, i.SDst))
		}
	case "Ds":
		if i.GDS != d.B["gds"] {
			add("gds differs")
		}
		if !vgprIs(i.Addr, n("addr")) {
			add("addr differs")
		}
		if i.SRC0Width > 0 && !vgprIs(i.Data, n("data0")) || i.SRC1Width > 0 && !vgprIs(i.Data1, n("data1")) || i.DSTWidth > 0 && !vgprIs(i.Dst, n("vdst")) {
			add("data0/data1/vdst differ")
		}
		// ISA: the read2/write2/wrxchg2 families (incl. st64) address two locations
		// with two 8-bit offsets; every other DS instruction has one 16-bit offset
		// offset1:offset0
		wantOff0 := uint32(n("offset0") + n("offset1")<<8)
		if dsDualOffset(d.Op) {
			wantOff0 = uint32(n("offset0"))
		}
		if i.Offset1 != uint32(n("offset1")) || i.Offset0 != wantOff0 {
			add(fmt.Sprintf("offsets differ: offset0:%d offset1:%d decoded as Offset0 %d Offset1 %d", n("offset0"), n("offset1"), i.Offset0, i.Offset1))
		}
	case "Flat":
		if i.GlobalLevelCoherent != d.B["glc"] || i.SystemLevelCoherent != d.B["slc"] || i.TextureFailEnable != d.B["tfe"] {
			add("glc/slc/tfe differ")
		}
		if !vgprIs(i.Addr, n("addr")) || !vgprIs(i.Data, n("data")) || !vgprIs(i.Dst, n("vdst")) {
			add("addr/data/vdst differ")
		}
		if i.SAddr == nil || i.SAddr.IntValue != n("saddr") {
			add("saddr differs")
		}
		wantOff := uint32(n("offset"))
		if wantOff >= 4096 { // 13-bit signed offset, sign-extended to 32 bits
			wantOff |= 0xFFFFE000
		}
		if i.Offset0 != wantOff {
			add(fmt.Sprintf("offset differs: encoded %d, decoded %#x", n("offset"), i.Offset0))
		}
	}
	// register counts (operand widths)
	cnt := func(what string, o *insts.Operand, want int) {
		if o != nil && o.OperandType == insts.RegOperand && o.RegCount != want {
			add(fmt.Sprintf("%s: register count %d, expected %d", what, o.RegCount, want))
		}
	}
	w64 := func(w int) int {
		if w == 64 {
			return 2
		}
		return 0
	}
	dsw := func(w int) int {
		switch w {
		case 64:
			return 2
		case 96:
			return 3
		case 128:
			return 4
		}
		return 1
	}
	switch d.F {
	case "Sop2":
		c := 0
		if strings.Contains(i.InstName, "64") {
			c = 2
		}
		cnt("dst", i.Dst, c)
		cnt("src0", i.Src0, c)
		cnt("src1", i.Src1, c)
	case "Sop1":
		cnt("dst", i.Dst, w64(i.DSTWidth))
		cnt("src0", i.Src0, w64(i.SRC0Width))
	case "Vop1":
		cd, c0 := w64(i.DSTWidth), w64(i.SRC0Width)
		if d.Op == 4 || d.Op == 16 { // v_cvt_f64_i32, v_cvt_f64_f32
			cd = 2
		}
		if d.Op == 15 { // v_cvt_f32_f64
			c0 = 2
		}
		cnt("dst", i.Dst, cd)
		cnt("src0", i.Src0, c0)
	case "Vopc": // 64-bit compares take register pairs
		cnt("src0", i.Src0, w64(i.SRC0Width))
		cnt("vsrc1", i.Src1, w64(i.SRC1Width))
	case "Vop3a":
		cnt("dst", i.Dst, w64(i.DSTWidth))
		cnt("src0", i.Src0, w64(i.SRC0Width))
		cnt("src1", i.Src1, w64(i.SRC1Width))
		cnt("src2", i.Src2, w64(i.SRC2Width))
	case "Vop3b":
		cnt("sdst", i.SDst, w64(i.SDSTWidth))
		cnt("src0", i.Src0, w64(i.SRC0Width))
		cnt("src1", i.Src1, w64(i.SRC1Width))
		cnt("src2", i.Src2, w64(i.SRC2Width))
	case "Ds":
		cnt("addr", i.Addr, 1)
		cnt("data0", i.Data, dsw(i.SRC0Width))
		cnt("data1", i.Data1, dsw(i.SRC1Width))
		cnt("vdst", i.Dst, dsw(i.DSTWidth))
	case "Smem":
		cnt("base", i.Base, 2)
		// s_load_dword[xN] / s_buffer_load_dword[xN] / s_store_dword[xN] / s_buffer_store_dword[xN]
		c := 0
		switch d.Op {
		case 0:
			c = 1
		case 1, 9, 17, 25:
			c = 2
		case 2, 10, 18, 26:
			c = 4
		case 3, 11, 19, 27:
			c = 8
		case 4, 12, 20, 28:
			c = 16
		}
		cnt("data", i.Data, c)
	case "Flat":
		// dwordx2 and the 64-bit atomics: pairs; dwordx3: 3; dwordx4: 4; everything else (byte, short,
		// dword, 32-bit atomics) a single register, which the decoder represents as count 0
		c := 0
		switch {
		case d.Op == 21 || d.Op == 29 || d.Op >= 80 && d.Op <= 93:
			c = 2
		case d.Op == 22 || d.Op == 30:
			c = 3
		case d.Op == 23 || d.Op == 31:
			c = 4
		}
		cnt("data", i.Data, c)
		cnt("vdst", i.Dst, c)
	case "Sopc":
		cnt("src0", i.Src0, 0)
		cnt("src1", i.Src1, 0)
	case "Sopk":
		cnt("dst", i.Dst, 0)
	case "Vop2", "Vop2Sdwa":
		cnt("src0", i.Src0, 0)
		cnt("vsrc1", i.Src1, 0)
		cnt("vdst", i.Dst, 0)
	}
	return strings.Join(msgs, "; ")
}

// ---------------------------------------------------------------- shipped kernels

type kernel struct {
	file, name string
	cdna3      bool
	data       []byte
}

func shippedKernels(repo string) []kernel {
	var files []string
	for _, sub := range []string{"amd/benchmarks", "amd/samples", "amd/driver", "amd/tests"} {
		filepath.Walk(filepath.Join(repo, sub), func(p string, info os.FileInfo, err error) error {
			if err == nil && !info.IsDir() && strings.HasSuffix(p, ".hsaco") {
				files = append(files, p)
			}
			return nil
		})
	}
	sort.Strings(files)
	var ks []kernel
	for _, p := range files {
		ef, err := elf.Open(p)
		if err != nil {
			continue
		}
		syms, err := ef.Symbols()
		names := []string{}
		if err == nil {
			for _, s := range syms {
				if s.Section == elf.SHN_UNDEF || int(s.Section) >= len(ef.Sections) {
					continue
				}
				if ef.Sections[s.Section].Name == ".text" && s.Size > 0 {
					names = append(names, s.Name)
				}
			}
		}
		sort.Strings(names)
		if len(names) == 0 {
			names = []string{""}
		}
		rel, _ := filepath.Rel(repo, p)
		for _, n := range names {
			func() {
				defer func() { recover() }()
				co := insts.LoadKernelCodeObjectFromELF(ef, n)
				if co == nil {
					return
				}
				ks = append(ks, kernel{rel, n, strings.Contains(rel, "gfx942"), co.InstructionData()})
			}()
		}
		ef.Close()
	}
	return ks
}

// seqDecode decodes from the entry until the end of the code.  status: 0 the
// code was consumed exactly, 1 an instruction was not decodable, 2 a reported
// size ran past the end (or is not a positive multiple of four).
func seqDecode(d *insts.Disassembler, data []byte, visit func(pos int, buf []byte, o Obs)) (count, status, pos int) {
	for pos < len(data) {
		o, _ := decodeOnce(d, data[pos:])
		if visit != nil {
			visit(pos, data[pos:], o)
		}
		if o.Outcome != "ok" {
			return count, 1, pos
		}
		if o.Size <= 0 || o.Size%4 != 0 || o.Size > len(data)-pos {
			return count, 2, pos
		}
		pos += o.Size
		count++
	}
	return count, 0, pos
}

func (e *env) kernelCase(k kernel) *Case {
	c := &Case{Kind: "kernel", CDNA3: k.cdna3, File: k.file, Kernel: k.name}
	ci := 0
	if k.cdna3 {
		ci = 1
	}
	data := k.data[:len(k.data)/4*4]
	c.NWords = len(data) / 4
	c.Count, c.Status, c.ErrPos = seqDecode(e.d1[ci], data, nil)
	if c.Status != 0 && c.ErrPos+4 <= len(data) {
		w := binary.LittleEndian.Uint32(data[c.ErrPos:])
		c.ErrW = fmt.Sprintf("%08X", w)
		for t, f := range insts.FormatTable {
			if t != insts.VOP3b && (w^f.Encoding)&f.Mask == 0 && (c.ErrFmt == "" || f.Mask > insts.FormatTable[fmtByName(c.ErrFmt)].Mask) {
				c.ErrFmt = f.FormatName
				c.ErrOp = int((w >> f.OpcodeLow) & (1<<(f.OpcodeHigh-f.OpcodeLow+1) - 1))
			}
		}
	}
	ws := make([]uint64, c.NWords)
	for i := range ws {
		ws[i] = uint64(binary.LittleEndian.Uint32(data[4*i:]))
	}
	c.Coq = fmt.Sprintf("CKernel %s %s %d %d", vh.CoqBool(k.cdna3), vh.CoqNList(ws), c.Count, c.Status)
	return c
}

func fmtByName(n string) insts.FormatType {
	for t, f := range insts.FormatTable {
		if f.FormatName == n {
			return t
		}
	}
	return insts.SOP2
}

// ---------------------------------------------------------------- special operand codes

type codeField struct {
	second bool // field lies in the second dword
	lo, w  uint
}

// operand-code fields per format (ISA layouts)
var codeFields = map[string][]codeField{
	"Sop2":  {{false, 0, 8}, {false, 8, 8}, {false, 16, 7}},
	"Sopk":  {{false, 16, 7}},
	"Sop1":  {{false, 0, 8}, {false, 16, 7}},
	"Sopc":  {{false, 0, 8}, {false, 8, 8}},
	"Smem":  {{false, 6, 7}, {false, 0, 6}},
	"Vop1":  {{false, 0, 9}, {false, 17, 8}},
	"Vop2":  {{false, 0, 9}},
	"Vopc":  {{false, 0, 9}},
	"Vop3a": {{true, 0, 9}, {true, 9, 9}, {true, 18, 9}, {false, 0, 8}},
	"Vop3b": {{true, 0, 9}, {true, 9, 9}, {true, 18, 9}, {false, 8, 7}},
	"Flat":  {{true, 16, 7}},
}

var specialCodes = []uint32{0, 1, 100, 101, 102, 103, 106, 107, 111, 112, 122, 123, 124, 125, 126, 127, 128, 129, 192, 193, 208,
	209, 239, 240, 247, 248, 249, 250, 251, 252, 253, 254, 255, 256, 257, 510, 511}

// specialCases enumerates, for every format and every operand-code field, every
// special code that fits the field: three rows each, once with a second dword
// and (for 4-byte formats) once as a bare 4-byte buffer.
func specialCases(r *vh.Rng, fis map[string]*fmtInfo) [][]byte {
	var out [][]byte
	names := make([]string, 0, len(codeFields))
	for n := range codeFields {
		names = append(names, n)
	}
	sort.Strings(names)
	for _, fn := range names {
		fi := fis[fn]
		if fi == nil || len(fi.rows) == 0 {
			continue
		}
		f := insts.FormatTable[fi.typ]
		opm := uint32(1<<(fi.hi-fi.lo+1)-1) << fi.lo
		for _, cf := range codeFields[fn] {
			for _, code := range specialCodes {
				if code >= 1<<cf.w {
					continue
				}
				for k := 0; k < 3; k++ {
					w0 := uint32(r.U64())
					w1 := uint32(r.U64())
					if k == 0 { // keep the SDWA / VOP3 modifier bits clear once
						w1 &= 0x00ff07ff
					}
					w0 = w0&^f.Mask | f.Encoding
					w0 = w0&^opm | uint32(fi.rows[r.Intn(len(fi.rows))].op)<<fi.lo
					fm := uint32(1<<cf.w-1) << cf.lo
					if cf.second {
						w1 = w1&^fm | code<<cf.lo
					} else {
						w0 = w0&^fm | code<<cf.lo
					}
					buf := append(insts.Uint32ToBytes(w0), insts.Uint32ToBytes(w1)...)
					out = append(out, buf)
					if k == 2 && fi.size == 4 {
						out = append(out, insts.Uint32ToBytes(w0))
					}
				}
			}
		}
	}
	return out
}

// ---------------------------------------------------------------- vendor disassembly listings

var listingLine = regexp.MustCompile(`^\s+(\S+)\s*(.*?)\s*//\s*([0-9A-Fa-f]+):\s+([0-9A-Fa-f]{8})(?:\s+([0-9A-Fa-f]{8}))?\s*(?:<.*>)?\s*$`)

type listingEntry struct {
	mnemonic, source string
	buf              []byte
}

// listings reads the llvm-objdump listings shipped next to the native (gfx942)
// kernels: every line gives a mnemonic and the one or two dwords it was
// disassembled from - a reference that is independent of the decode table.
func listings(repo string) []listingEntry {
	var files []string
	filepath.Walk(filepath.Join(repo, "amd/benchmarks"), func(p string, info os.FileInfo, err error) error {
		if err == nil && !info.IsDir() && strings.HasSuffix(p, ".disasm") {
			files = append(files, p)
		}
		return nil
	})
	sort.Strings(files)
	seen := map[string]bool{}
	var out []listingEntry
	for _, p := range files {
		raw, err := os.ReadFile(p)
		if err != nil {
			continue
		}
		rel, _ := filepath.Rel(repo, p)
		for _, line := range strings.Split(string(raw), "\n") {
			m := listingLine.FindStringSubmatch(line)
			if m == nil {
				continue
			}
			var w0, w1 uint32
			fmt.Sscanf(m[4], "%x", &w0)
			buf := insts.Uint32ToBytes(w0)
			if m[5] != "" {
				fmt.Sscanf(m[5], "%x", &w1)
				buf = append(buf, insts.Uint32ToBytes(w1)...)
			}
			key := m[1] + " " + hex.EncodeToString(buf)
			if seen[key] {
				continue
			}
			seen[key] = true
			out = append(out, listingEntry{m[1], rel, buf})
		}
	}
	return out
}

// ---------------------------------------------------------------- main

func (e *env) wordCase(kind string, cdna3 bool, buf []byte, d *Desc, valid bool, fis map[string]*fmtInfo, rng *vh.Rng) *Case {
	c := &Case{Kind: kind, CDNA3: cdna3, Bytes: hex.EncodeToString(buf), Desc: d, Valid: valid}
	c.Obs = e.observe(buf, cdna3, rng)
	if d != nil && valid && c.Obs.Outcome == "ok" {
		ci := 0
		if cdna3 {
			ci = 1
		}
		_, inst := decodeOnce(e.d1[ci], buf)
		c.Obs.Round = roundTrip(d, fis[d.F], inst)
	}
	c.Coq = wordCoq(c, buf)
	return c
}

func main() {
	seed := flag.Uint64("seed", 1, "seed")
	n := flag.Int("n", 1000, "number of generated word cases")
	kwords := flag.Int("kwords", 1500, "number of distinct shipped instruction words to decode field by field (0 = all)")
	out := flag.String("out", "", "output file")
	replay := flag.String("replay", "", "cases to re-run")
	repo := flag.String("repo", "/repo", "source tree holding the shipped kernels")
	noKernels := flag.Bool("nokernels", false, "skip the shipped kernels")
	flag.Parse()

	e := newEnv()
	fis := probeRows()
	var cases []*Case
	rng := vh.NewRng(*seed)

	if *replay != "" {
		raw, err := os.ReadFile(*replay)
		if err != nil {
			fmt.Fprintln(os.Stderr, err)
			os.Exit(2)
		}
		var in []*Case
		if err := json.Unmarshal(raw, &in); err != nil {
			fmt.Fprintln(os.Stderr, err)
			os.Exit(2)
		}
		var ks []kernel
		for _, c := range in {
			if c.Kind == "kernel" {
				if ks == nil {
					ks = shippedKernels(*repo)
				}
				for _, k := range ks {
					if k.file == c.File && k.name == c.Kernel {
						cases = append(cases, e.kernelCase(k))
					}
				}
				continue
			}
			buf, _ := hex.DecodeString(c.Bytes)
			nc := e.wordCase(c.Kind, c.CDNA3, buf, c.Desc, c.Valid, fis, rng.Fork())
			nc.Want, nc.WantSize, nc.Source = c.Want, c.WantSize, c.Source
			cases = append(cases, nc)
		}
	} else {
		descNames := []string{"Sop2", "Sopk", "Sop1", "Sopc", "Sopp", "Smem", "Vop1", "Vop2", "Vop2Sdwa", "Vopc", "Vop3a", "Vop3b", "Ds", "Flat"}
		var lastValid [][]byte
		for k := 0; k < *n; k++ {
			r := rng.Fork()
			cdna3 := r.Bool()
			var c *Case
			switch r.Pick(50, 10, 5, 8, 12, 12, 3) {
			case 0, 1: // encoder-made: valid / hostile fields
				valid := k%6 != 5
				fn := descNames[r.Intn(len(descNames))]
				if len(fis[fn].rows) == 0 {
					continue
				}
				d := genDesc(r, fn, fis[fn], valid)
				buf := d.bytes()
				if valid {
					lastValid = append(lastValid, buf)
				}
				switch r.Intn(3) { // literal / second dword at the very end of the buffer, or followed by other bytes
				case 0:
				default:
					for x := 1 + r.Intn(8); x > 0; x-- {
						buf = append(buf, byte(r.U64()))
					}
				}
				kind := "enc"
				if !valid {
					kind = "hostile"
				}
				c = e.wordCase(kind, cdna3, buf, d, valid, fis, r)
			case 2: // truncated encodings
				fn := descNames[r.Intn(len(descNames))]
				if len(fis[fn].rows) == 0 {
					continue
				}
				buf := genDesc(r, fn, fis[fn], true).bytes()
				buf = buf[:r.Intn(len(buf))]
				c = e.wordCase("trunc", cdna3, buf, nil, false, fis, r)
			case 3: // uniformly random words
				buf := make([]byte, 4*(1+r.Intn(3)))
				for i := range buf {
					buf[i] = byte(r.U64())
				}
				c = e.wordCase("rand", cdna3, buf, nil, false, fis, r)
			case 4: // random fields under a real format encoding and a real opcode
				fn := descNames[r.Intn(len(descNames))]
				fi := fis[fn]
				if len(fi.rows) == 0 {
					continue
				}
				f := insts.FormatTable[fi.typ]
				w := uint32(r.U64())
				w = w&^f.Mask | f.Encoding
				if r.Intn(4) != 0 {
					opm := uint32(1<<(fi.hi-fi.lo+1)-1) << fi.lo
					w = w&^opm | uint32(fi.rows[r.Intn(len(fi.rows))].op)<<fi.lo
				}
				buf := insts.Uint32ToBytes(w)
				if r.Intn(5) != 0 {
					buf = append(buf, insts.Uint32ToBytes(uint32(r.U64()))...)
				}
				c = e.wordCase("guided", cdna3, buf, nil, false, fis, r)
			case 5: // bit flips of a valid encoding
				if len(lastValid) == 0 {
					continue
				}
				buf := append([]byte{}, lastValid[r.Intn(len(lastValid))]...)
				for x := 1 + r.Intn(3); x > 0; x-- {
					b := r.Intn(8 * len(buf))
					buf[b/8] ^= 1 << uint(b%8)
				}
				c = e.wordCase("mut", cdna3, buf, nil, false, fis, r)
			case 6: // short buffers
				buf := make([]byte, r.Intn(8))
				for i := range buf {
					buf[i] = byte(r.U64())
				}
				c = e.wordCase("short", cdna3, buf, nil, false, fis, r)
			}
			cases = append(cases, c)
		}
		// deterministic core: every special value of every operand-code field of
		// every format (literal 255, SDWA 249, DPP 250, inline-constant edges, first
		// and last SGPR/VGPR codes, special registers, reserved codes), under a real
		// encoding and real opcodes, all other fields random
		for _, sc := range specialCases(rng.Fork(), fis) {
			r := rng.Fork()
			cases = append(cases, e.wordCase("special", r.Bool(), sc, nil, false, fis, r))
		}
		// one valid description for every row of every decode table
		for _, fn := range descNames {
			for ri := range fis[fn].rows {
				r := rng.Fork()
				d := genDescRow(r, fn, fis[fn], true, ri)
				buf := d.bytes()
				if r.Bool() {
					buf = append(buf, byte(r.U64()), byte(r.U64()))
				}
				cases = append(cases, e.wordCase("encrow", r.Bool(), buf, d, true, fis, r))
				if fn == "Smem" { // the other offset form (immediate / SGPR) of the same row
					d2 := genDescRow(r, fn, fis[fn], true, ri)
					d2.B["imm"] = !d.B["imm"]
					if !d2.B["imm"] {
						d2.N["offset"] = int64(r.Intn(102))
					}
					cases = append(cases, e.wordCase("encrow", r.Bool(), d2.bytes(), d2, true, fis, r))
				}
			}
		}
		if !*noKernels {
			ks := shippedKernels(*repo)
			type kw struct {
				buf   []byte
				cdna3 bool
			}
			seen := map[string]bool{}
			var words []kw
			for _, k := range ks {
				cases = append(cases, e.kernelCase(k))
				ci := 0
				if k.cdna3 {
					ci = 1
				}
				data := k.data[:len(k.data)/4*4]
				seqDecode(e.d1[ci], data, func(pos int, buf []byte, o Obs) {
					l := 8
					if len(buf) < 8 {
						l = len(buf)
					}
					key := hex.EncodeToString(buf[:4])
					if o.Outcome != "ok" || o.Size > 4 {
						key = hex.EncodeToString(buf[:l])
					}
					if k.cdna3 {
						key += "c"
					}
					if !seen[key] {
						seen[key] = true
						words = append(words, kw{append([]byte{}, buf[:l]...), k.cdna3})
					}
				})
			}
			r := rng.Fork()
			if *kwords > 0 && len(words) > *kwords {
				for i := len(words) - 1; i > 0; i-- {
					j := r.Intn(i + 1)
					words[i], words[j] = words[j], words[i]
				}
				words = words[:*kwords]
			}
			for _, w := range words {
				cases = append(cases, e.wordCase("kernelword", w.cdna3, w.buf, nil, false, fis, r.Fork()))
			}
			for _, l := range listings(*repo) {
				c := e.wordCase("listing", true, l.buf, nil, false, fis, r.Fork())
				c.Want, c.WantSize, c.Source = l.mnemonic, len(l.buf), l.source
				cases = append(cases, c)
			}
		}
	}
	f := os.Stdout
	if *out != "" {
		var err error
		f, err = os.Create(*out)
		if err != nil {
			fmt.Fprintln(os.Stderr, err)
			os.Exit(2)
		}
		defer f.Close()
	}
	enc := json.NewEncoder(f)
	if err := enc.Encode(cases); err != nil {
		fmt.Fprintln(os.Stderr, err)
		os.Exit(2)
	}
}
