// Command c08 drives the real grid builder (kernels.NewGridBuilder) on
// generated or replayed dispatch geometries, and initialises every produced
// wavefront with the emulator's initWfRegs (through the verif hook
// emu.VerifC08InitWfRegs) and with the timing compute unit's wavefront
// dispatcher (cu.WfDispatcherImpl.DispatchWf).  It records, per work-group,
// the IDs and current sizes, and per wavefront FirstWiFlatID, InitExecMask,
// the EXEC register and the work-item-ID VGPRs / work-group-ID SGPRs of both
// modes.
package main

import (
	"encoding/json"
	"flag"
	"fmt"
	"os"
	"strings"

	"github.com/sarchlab/mgpusim/v4/amd/emu"
	"github.com/sarchlab/mgpusim/v4/amd/insts"
	"github.com/sarchlab/mgpusim/v4/amd/kernels"
	"github.com/sarchlab/mgpusim/v4/amd/protocol"
	"github.com/sarchlab/mgpusim/v4/amd/timing/cu"
	"github.com/sarchlab/mgpusim/v4/amd/timing/wavefront"

	"verifharness/vh"
)

// Unwritten is the pattern registers are pre-filled with, so that "never
// written" is distinguishable from "written with 0".
const Unwritten = 0xEEEEEEEE

// Filter is a work-group filter in replayable form.
//
//	nil   : no filter installed
//	all   : a filter that accepts everything
//	mod   : ((A*i + B*j + C*k + D) mod M) < T
//	range : D <= k*nx*ny + j*nx + i < T       (the shape the driver installs)
//	full  : only work-groups whose current size equals the nominal size
//	        (looks at CurrSize*, which countWG leaves zero)
type Filter struct {
	Kind string `json:"kind"`
	A    int    `json:"a"`
	B    int    `json:"b"`
	C    int    `json:"c"`
	D    int    `json:"d"`
	M    int    `json:"m"`
	T    int    `json:"t"`
}

type WfObs struct {
	First   int      `json:"first"`
	Exec    uint64   `json:"exec"`
	NItems  int      `json:"nitems"`
	EmuExec uint64   `json:"emu_exec"`
	TimExec uint64   `json:"tim_exec"`
	EmuS    []uint32 `json:"emu_s"` // s0..s23
	TimS    []uint32 `json:"tim_s"`
	Emu     []uint32 `json:"emu"` // 64 x (v0,v1,v2)
	Tim     []uint32 `json:"tim"`
}

type WGObs struct {
	ID     [3]int  `json:"id"`
	Cur    [3]int  `json:"cur"`
	Size   [3]int  `json:"size"`
	NItems int     `json:"nitems"`
	Wfs    []WfObs `json:"wfs"`
}

type Case struct {
	G      [3]int `json:"g"`
	S      [3]int `json:"s"`
	Filter Filter `json:"filter"`
	Ver    int    `json:"ver"`  // code object version 3 or 5
	Vgpr   int    `json:"vgpr"` // EnableVgprWorkItemID 0..2
	// Sgpr: independent user/system SGPR enables, bit 0 private segment buffer,
	// 1 dispatch ptr, 2 queue ptr, 3 kernarg segment ptr, 4 dispatch id,
	// 5 flat scratch init, 6 private segment size, 7/8/9 grid work-group count
	// X/Y/Z, 10/11/12 work-group ID X/Y/Z. Absent = kernarg ptr + the three IDs.
	Sgpr *int `json:"sgpr,omitempty"`
	Skip   int    `json:"skip"` // GridBuilder.Skip(n) before enumerating
	Sample [][2]int `json:"sample,omitempty"` // (wg index, wf index) whose lanes go to Coq

	NumWG     int     `json:"numwg"`
	WGs       []WGObs `json:"wgs"`
	NilStable bool    `json:"nil_stable"`
	Crash     string  `json:"crash,omitempty"`
	Coq       string  `json:"coq"`
}

func (f Filter) fn(c *Case) kernels.WGFilterFunc {
	switch f.Kind {
	case "nil":
		return nil
	case "all":
		return func(*kernels.HsaKernelDispatchPacket, *kernels.WorkGroup) bool { return true }
	case "mod":
		return func(_ *kernels.HsaKernelDispatchPacket, wg *kernels.WorkGroup) bool {
			return (f.A*wg.IDX+f.B*wg.IDY+f.C*wg.IDZ+f.D)%f.M < f.T
		}
	case "range":
		return func(pkt *kernels.HsaKernelDispatchPacket, wg *kernels.WorkGroup) bool {
			nx := (int(pkt.GridSizeX)-1)/int(pkt.WorkgroupSizeX) + 1
			ny := (int(pkt.GridSizeY)-1)/int(pkt.WorkgroupSizeY) + 1
			flat := wg.IDZ*nx*ny + wg.IDY*nx + wg.IDX
			return flat >= f.D && flat < f.T
		}
	case "full":
		return func(pkt *kernels.HsaKernelDispatchPacket, wg *kernels.WorkGroup) bool {
			return wg.CurrSizeX == int(pkt.WorkgroupSizeX) &&
				wg.CurrSizeY == int(pkt.WorkgroupSizeY) &&
				wg.CurrSizeZ == int(pkt.WorkgroupSizeZ)
		}
	}
	panic("bad filter kind " + f.Kind)
}

func (f Filter) coq() string {
	switch f.Kind {
	case "nil":
		return "FNil"
	case "all":
		return "FAll"
	case "mod":
		return fmt.Sprintf("FMod %d %d %d %d %d %d", f.A, f.B, f.C, f.D, f.M, f.T)
	case "range":
		return fmt.Sprintf("FRange %d %d", f.D, f.T)
	case "full":
		return "FFull"
	}
	panic("bad filter kind")
}

// NSReg is the number of SGPR dwords observed per wavefront.
const NSReg = 24

// DefaultSgpr: kernarg segment pointer + work-group ID X, Y, Z.
const DefaultSgpr = 1<<3 | 1<<10 | 1<<11 | 1<<12

const (
	packetAddr  = 0x100004000
	kernargAddr = 0x201234500
)

func codeObject(ver, vgpr, sgpr int) *insts.KernelCodeObject {
	co := &insts.KernelCodeObject{KernelCodeObjectMeta: &insts.KernelCodeObjectMeta{}}
	co.Version = insts.CodeObjectVersion(ver)
	bit := func(k int) bool { return sgpr>>k&1 == 1 }
	co.EnableSgprPrivateSegmentBuffer = bit(0)
	co.EnableSgprDispatchPtr = bit(1)
	co.EnableSgprQueuePtr = bit(2)
	co.EnableSgprKernargSegmentPtr = bit(3)
	co.EnableSgprDispatchID = bit(4)
	co.EnableSgprFlatScratchInit = bit(5)
	co.EnableSgprPrivateSegmentSize = bit(6)
	co.EnableSgprGridWorkgroupCountX = bit(7)
	co.EnableSgprGridWorkgroupCountY = bit(8)
	co.EnableSgprGridWorkgroupCountZ = bit(9)
	co.ComputePgmRsrc2 = uint32(sgpr>>10&7)<<7 | uint32(vgpr)<<11
	co.KernelCodeEntryByteOffset = 256
	return co
}

func emuRegs(raw *kernels.Wavefront, o *WfObs) {
	wf := emu.NewWavefront(raw)
	for i := range wf.VRegFile {
		wf.VRegFile[i] = 0xEE
	}
	for i := range wf.SRegFile {
		wf.SRegFile[i] = 0xEE
	}
	emu.VerifC08InitWfRegs(wf)
	o.EmuExec = wf.EXEC()
	o.EmuS = make([]uint32, NSReg)
	for r := 0; r < NSReg; r++ {
		o.EmuS[r] = wf.SRegValue(r)
	}
	o.Emu = make([]uint32, 0, 192)
	for lane := 0; lane < 64; lane++ {
		for r := 0; r < 3; r++ {
			o.Emu = append(o.Emu, wf.VRegValue(lane, r))
		}
	}
}

type timingRig struct {
	cu *cu.ComputeUnit
	d  *cu.WfDispatcherImpl
}

func newTimingRig() *timingRig {
	c := cu.NewComputeUnit("CU", nil)
	c.SRegFile = cu.NewSimpleRegisterFile(uint64(3200*4), 0)
	for i := 0; i < 4; i++ {
		c.VRegFile = append(c.VRegFile, cu.NewSimpleRegisterFile(uint64(16384*4), 1024))
	}
	return &timingRig{cu: c, d: cu.NewWfDispatcher(c)}
}

func (t *timingRig) regs(raw *kernels.Wavefront, simd int, o *WfObs) {
	sentinel := insts.Uint32ToBytes(Unwritten)
	const sOff, vOff = 64, 32
	for r := 0; r < NSReg; r++ {
		t.cu.SRegFile.Write(cu.RegisterAccess{Reg: insts.SReg(r), RegCount: 1, WaveOffset: sOff, Data: sentinel})
	}
	for lane := 0; lane < 64; lane++ {
		for r := 0; r < 3; r++ {
			t.cu.VRegFile[simd].Write(cu.RegisterAccess{Reg: insts.VReg(r), RegCount: 1, LaneID: lane,
				WaveOffset: vOff, Data: sentinel})
		}
	}
	wf := wavefront.NewWavefront(raw)
	wf.WG = wavefront.NewWorkGroup(raw.WG, nil)
	t.d.DispatchWf(wf, protocol.WfDispatchLocation{Wavefront: raw, SIMDID: simd, VGPROffset: vOff, SGPROffset: sOff})
	o.TimExec = wf.EXEC()
	rd := func(f cu.RegisterFile, reg *insts.Reg, lane, off int) uint32 {
		buf := make([]byte, 4)
		f.Read(cu.RegisterAccess{Reg: reg, RegCount: 1, LaneID: lane, WaveOffset: off, Data: buf})
		return insts.BytesToUint32(buf)
	}
	o.TimS = make([]uint32, NSReg)
	for r := 0; r < NSReg; r++ {
		o.TimS[r] = rd(t.cu.SRegFile, insts.SReg(r), 0, sOff)
	}
	o.Tim = make([]uint32, 0, 192)
	for lane := 0; lane < 64; lane++ {
		for r := 0; r < 3; r++ {
			o.Tim = append(o.Tim, rd(t.cu.VRegFile[simd], insts.VReg(r), lane, vOff))
		}
	}
}

// run executes one case on the implementation and fills in the observations.
func run(c *Case, rig *timingRig) {
	defer func() {
		if x := recover(); x != nil {
			c.Crash = fmt.Sprint(x)
		}
	}()
	c.WGs = []WGObs{}
	c.Crash = ""
	pkt := &kernels.HsaKernelDispatchPacket{
		WorkgroupSizeX: uint16(c.S[0]), WorkgroupSizeY: uint16(c.S[1]), WorkgroupSizeZ: uint16(c.S[2]),
		GridSizeX: uint32(c.G[0]), GridSizeY: uint32(c.G[1]), GridSizeZ: uint32(c.G[2]),
		KernelObject: 65536, KernargAddress: kernargAddr,
	}
	if c.Sgpr == nil {
		d := DefaultSgpr
		c.Sgpr = &d
	}
	co := codeObject(c.Ver, c.Vgpr, *c.Sgpr)
	b := kernels.NewGridBuilder()
	b.SetKernel(kernels.KernelLaunchInfo{CodeObject: co, Packet: pkt, PacketAddr: packetAddr, WGFilter: c.Filter.fn(c)})
	c.NumWG = b.NumWG()
	if c.Skip > 0 {
		b.Skip(c.Skip)
	}
	simd := 0
	for {
		wg := b.NextWG()
		if wg == nil {
			break
		}
		o := WGObs{ID: [3]int{wg.IDX, wg.IDY, wg.IDZ}, Cur: [3]int{wg.CurrSizeX, wg.CurrSizeY, wg.CurrSizeZ},
			Size: [3]int{wg.SizeX, wg.SizeY, wg.SizeZ}, NItems: len(wg.WorkItems), Wfs: []WfObs{}}
		for _, wf := range wg.Wavefronts {
			w := WfObs{First: wf.FirstWiFlatID, Exec: wf.InitExecMask, NItems: len(wf.WorkItems)}
			emuRegs(wf, &w)
			rig.regs(wf, simd, &w)
			simd = (simd + 1) % 4
			o.Wfs = append(o.Wfs, w)
		}
		c.WGs = append(c.WGs, o)
	}
	c.NilStable = b.NextWG() == nil && b.NextWG() == nil
}

func tri(a []uint32, lane int) string {
	return fmt.Sprintf("(%d, %d, %d)", a[lane*3], a[lane*3+1], a[lane*3+2])
}

func lanes(a []uint32) string {
	s := make([]string, 64)
	for l := 0; l < 64; l++ {
		s[l] = tri(a, l)
	}
	return vh.CoqList(s)
}

func u32list(a []uint32) string {
	s := make([]string, len(a))
	for i, x := range a {
		s[i] = fmt.Sprint(x)
	}
	return vh.CoqList(s)
}

// coq renders input + observation as a term of type VGrid.Grid.ccase (Z_scope).
func (c *Case) coq() string {
	var wgs []string
	for _, w := range c.WGs {
		var wfs []string
		for _, f := range w.Wfs {
			wfs = append(wfs, fmt.Sprintf("(%d, %d, %d)", f.First, f.Exec, f.NItems))
		}
		wgs = append(wgs, fmt.Sprintf("((%d, %d, %d), (%d, %d, %d), %d, %s)", w.ID[0], w.ID[1], w.ID[2],
			w.Cur[0], w.Cur[1], w.Cur[2], w.NItems, vh.CoqList(wfs)))
	}
	var smp []string
	for _, s := range c.Sample {
		if s[0] < len(c.WGs) && s[1] < len(c.WGs[s[0]].Wfs) {
			f := c.WGs[s[0]].Wfs[s[1]]
			smp = append(smp, fmt.Sprintf("(%d%%nat, %d%%nat, %s, %s, %d, %d, %s, %s)", s[0], s[1],
				u32list(f.EmuS), u32list(f.TimS), f.EmuExec, f.TimExec, lanes(f.Emu), lanes(f.Tim)))
		}
	}
	crash := "false"
	if c.Crash != "" {
		crash = "true"
	}
	return fmt.Sprintf("mkCase (mkGeom %d %d %d %d %d %d) (%s) %d %d %d %d%%nat %d %s %s %s %s",
		c.G[0], c.G[1], c.G[2], c.S[0], c.S[1], c.S[2], c.Filter.coq(), c.Ver, c.Vgpr, *c.Sgpr, c.Skip,
		c.NumWG, vh.CoqList(wgs), vh.CoqBool(c.NilStable), crash, vh.CoqList(smp))
}

// ---------------------------------------------------------------- generator

var oneD = []int{1, 2, 3, 7, 10, 16, 32, 48, 63, 64, 65, 96, 100, 128, 192, 250, 256, 333, 512, 1000, 1024}

var largeShapes = [][3]int{
	{1024, 1, 1}, {1, 1024, 1}, {1, 1, 1024}, {2, 1, 300}, {1, 300, 2}, {3, 1, 341}, {1, 257, 1}, {1, 1, 257},
	{512, 1, 1}, {513, 1, 1}, {1, 512, 1}, {1, 513, 1}, {1, 1, 512}, {1, 1, 513}, {300, 2, 1}, {2, 300, 1},
	{1, 2, 511}, {1, 3, 256}, {2, 2, 256}, {1, 1, 1000},
}

func extent(r *vh.Rng, s, maxGroups int) int {
	m := r.Intn(maxGroups + 1)
	var g int
	switch r.Pick(3, 2, 2, 3) {
	case 0:
		g = m * s
	case 1:
		g = m*s - 1
	case 2:
		g = m*s + 1
	default:
		g = m*s + r.Intn(s)
	}
	if g < 1 {
		g = 1 + r.Intn(s)
	}
	return g
}

func genFilter(r *vh.Rng, n [3]int) Filter {
	total := n[0] * n[1] * n[2]
	switch r.Pick(4, 1, 3, 4, 1) {
	case 0:
		return Filter{Kind: "nil"}
	case 1:
		return Filter{Kind: "all"}
	case 2:
		m := 1 + r.Intn(7)
		return Filter{Kind: "mod", A: r.Intn(5), B: r.Intn(5), C: r.Intn(5), D: r.Intn(7), M: m, T: r.Intn(m + 1)}
	case 3:
		// a slice of the flattened range as the driver hands to one of 1-4 GPUs
		gpus := 1 + r.Intn(4)
		k := r.Intn(gpus)
		lo := total * k / gpus
		hi := total * (k + 1) / gpus
		if r.Intn(6) == 0 {
			lo, hi = r.Intn(total+1), r.Intn(total+2)
		}
		return Filter{Kind: "range", D: lo, T: hi}
	default:
		return Filter{Kind: "full"}
	}
}

func gen(r *vh.Rng) *Case {
	c := &Case{}
	dims := 1 + r.Pick(3, 4, 4)
	c.S = [3]int{1, 1, 1}
	c.G = [3]int{1, 1, 1}
	for {
		switch dims {
		case 1:
			c.S = [3]int{oneD[r.Intn(len(oneD))], 1, 1}
		case 2:
			if r.Intn(3) == 0 {
				c.S = [3]int{1 + r.Intn(64), 1 + r.Intn(16), 1}
			} else {
				c.S = [3]int{1 + r.Intn(16), 1 + r.Intn(16), 1}
			}
		default:
			c.S = [3]int{1 + r.Intn(16), 1 + r.Intn(16), 1 + r.Intn(16)}
		}
		if r.Intn(8) == 0 { // permute the axes: flat extents in y or z only
			p := r.Intn(3)
			c.S[0], c.S[p] = c.S[p], c.S[0]
		}
		if c.S[0]*c.S[1]*c.S[2] <= 1024 {
			break
		}
	}
	for tries := 0; ; tries++ {
		maxg := 4
		if tries > 20 {
			maxg = 2
		}
		for d := 0; d < 3; d++ {
			c.G[d] = 1
			if d < dims || c.S[d] > 1 {
				c.G[d] = extent(r, c.S[d], maxg)
			}
		}
		if c.G[0]*c.G[1]*c.G[2] <= 3000 || tries > 60 {
			break
		}
	}
	if c.G[0]*c.G[1]*c.G[2] > 3000 {
		c.G = [3]int{c.S[0] + 1, c.S[1], 1}
	}
	if r.Intn(6) == 0 {
		// one large dimension in each position (IDs up to 1023 in x, y or z),
		// full and partial last work-groups
		c.S = largeShapes[r.Intn(len(largeShapes))]
		for d := 0; d < 3; d++ {
			c.G[d] = c.S[d]
			if c.S[d] > 16 {
				switch r.Intn(4) {
				case 0:
					c.G[d] = c.S[d] + 1
				case 1:
					c.G[d] = c.S[d] + 1 + r.Intn(c.S[d])
				case 2:
					c.G[d] = c.S[d] - r.Intn(c.S[d]/4+1)
				}
			}
		}
	} else if r.Intn(4) == 0 {
		// more than one work-group in every dimension
		for d := 0; d < 3; d++ {
			c.S[d] = 1 + r.Intn(5)
			c.G[d] = c.S[d] + 1 + r.Intn(2*c.S[d])
		}
	}
	n := [3]int{}
	for d := 0; d < 3; d++ {
		n[d] = (c.G[d]-1)/c.S[d] + 1
	}
	c.Filter = genFilter(r, n)
	c.Ver = 3
	if r.Intn(3) == 0 {
		c.Ver = 5
	}
	c.Vgpr = []int{2, 2, 2, 1, 0}[r.Intn(5)]
	// SGPR enables: all 8 work-group-ID combinations; half of the cases with
	// all other enables drawn independently as well
	sg := 1<<3 | r.Intn(8)<<10
	switch r.Pick(3, 4, 1) {
	case 0:
		sg = DefaultSgpr
	case 1:
		sg = r.Intn(1 << 13)
	}
	c.Sgpr = &sg
	if r.Intn(6) == 0 {
		c.Skip = r.Intn(n[0]*n[1]*n[2] + 2)
	}
	// wavefronts whose lane registers are compared inside Coq
	for i := 0; i < 3; i++ {
		c.Sample = append(c.Sample, [2]int{r.Intn(n[0] * n[1] * n[2]), r.Intn(1 + (c.S[0]*c.S[1]*c.S[2]-1)/64)})
	}
	return c
}

func main() {
	seed := flag.Uint64("seed", 1, "generator seed")
	n := flag.Int("n", 100, "number of generated cases")
	out := flag.String("out", "", "output file (JSON list of cases)")
	replay := flag.String("replay", "", "JSON list of case inputs to run instead of generating")
	launches := flag.Bool("launches", false, "run sequences of unified multi-GPU launches through the driver")
	flag.Parse()

	if *launches {
		mainLaunches(*seed, *n, *out, *replay)
		return
	}

	var cases []*Case
	if *replay != "" {
		data, err := os.ReadFile(*replay)
		if err != nil {
			fmt.Fprintln(os.Stderr, err)
			os.Exit(2)
		}
		if err := json.Unmarshal(data, &cases); err != nil {
			fmt.Fprintln(os.Stderr, err)
			os.Exit(2)
		}
	} else {
		r := vh.NewRng(*seed)
		for i := 0; i < *n; i++ {
			cases = append(cases, gen(r.Fork()))
		}
	}
	rig := newTimingRig()
	for _, c := range cases {
		if len(c.Sample) == 0 {
			c.Sample = [][2]int{{0, 0}}
		}
		run(c, rig)
		c.Coq = c.coq()
	}
	data, _ := json.Marshal(cases)
	if *out == "" {
		fmt.Println(strings.TrimSpace(string(data)))
		return
	}
	if err := os.WriteFile(*out, data, 0o644); err != nil {
		fmt.Fprintln(os.Stderr, err)
		os.Exit(2)
	}
}

func mainLaunches(seed uint64, n int, out, replay string) {
	var cases []*LCase
	if replay != "" {
		data, err := os.ReadFile(replay)
		if err != nil {
			fmt.Fprintln(os.Stderr, err)
			os.Exit(2)
		}
		if err := json.Unmarshal(data, &cases); err != nil {
			fmt.Fprintln(os.Stderr, err)
			os.Exit(2)
		}
	} else {
		r := vh.NewRng(seed ^ 0x4c41554e4348)
		for i := 0; i < n; i++ {
			cases = append(cases, genLaunches(r.Fork()))
		}
	}
	for _, c := range cases {
		runLaunches(c)
		c.Coq = c.coq()
	}
	data, _ := json.Marshal(cases)
	if out == "" {
		fmt.Println(strings.TrimSpace(string(data)))
		return
	}
	if err := os.WriteFile(out, data, 0o644); err != nil {
		fmt.Fprintln(os.Stderr, err)
		os.Exit(2)
	}
}
