// Sequences of unified multi-GPU kernel launches through the real driver.
//
// The driver (public API only) gets 1-4 GPUs with individual CU counts, a
// unified device and two command queues. 2-3 LaunchUnifiedMultiGPUKernelCommands
// with different geometries are enqueued up front. The harness plays the
// GPUs: it collects the LaunchKernelReqs from the driver's GPU port and runs
// the real kernels.GridBuilder with every request's WGFilter -- SetKernel
// (countWG) and then NextWG work-group by work-group -- in a random interleaved
// order over all launches that are in flight. A launch is answered
// (LaunchKernelRsp) only after all its builders returned nil, which lets the
// next command of that queue start while the launch on the other queue is
// still being dispatched. Every filter evaluation therefore happens while its
// kernel is in flight, as on the real command processor.
package main

import (
	"fmt"


	"github.com/sarchlab/akita/v4/sim"
	"github.com/sarchlab/mgpusim/v4/amd/driver"
	"github.com/sarchlab/mgpusim/v4/amd/insts"
	"github.com/sarchlab/mgpusim/v4/amd/kernels"
	"github.com/sarchlab/mgpusim/v4/amd/protocol"

	"verifharness/vh"
)

type nopConn struct{ sim.HookableBase }

func (c *nopConn) Name() string             { return "NopConn" }
func (c *nopConn) PlugIn(sim.Port)          {}
func (c *nopConn) Unplug(sim.Port)          {}
func (c *nopConn) NotifyAvailable(sim.Port) {}
func (c *nopConn) NotifySend()              {}

// ReqObs is what one GPU of one launch was told and what its grid builder did.
type ReqObs struct {
	GPU      int      `json:"gpu"` // index into cus
	NumWG    int      `json:"numwg"`
	Produced [][3]int `json:"produced"`
}

type Launch struct {
	G     [3]int   `json:"g"`
	S     [3]int   `json:"s"`
	Queue int      `json:"queue"`
	Reqs  []ReqObs `json:"reqs"`
}

type LCase struct {
	CUs      []int    `json:"cus"`
	Launches []Launch `json:"launches"`
	Sched    uint64   `json:"sched"` // seed of the evaluation interleaving
	Crash    string   `json:"crash,omitempty"`
	Coq      string   `json:"coq"`
}

type liveReq struct {
	req     *protocol.LaunchKernelReq
	b       kernels.GridBuilder
	started bool
	done    bool
	obs     *ReqObs
}

type liveLaunch struct {
	idx      int
	cmd      *driver.LaunchUnifiedMultiGPUKernelCommand
	reqs     []*liveReq
	expected int // number of requests the driver created for it
	answered bool
}

func runLaunches(c *LCase) {
	defer func() {
		if x := recover(); x != nil {
			c.Crash = fmt.Sprint(x)
		}
	}()
	c.Crash = ""
	for i := range c.Launches {
		c.Launches[i].Reqs = []ReqObs{}
	}
	engine := sim.NewSerialEngine()
	d := driver.MakeBuilder().WithEngine(engine).WithLog2PageSize(12).Build("Driver")
	gpuPort := d.GetPortByName("GPU")
	gpuPort.SetConnection(&nopConn{})
	portIdx := map[sim.RemotePort]int{}
	gpuIDs := []int{}
	for i, cu := range c.CUs {
		p := sim.NewPort(nil, 1, 1, fmt.Sprintf("GPU%d.CP", i+1))
		portIdx[p.AsRemote()] = i
		d.RegisterGPU(p, driver.DeviceProperties{CUCount: cu, DRAMSize: 1 << 20})
		gpuIDs = append(gpuIDs, i+1)
	}
	ctx := d.Init()
	dev := d.CreateUnifiedGPU(ctx, gpuIDs)
	d.SelectGPU(ctx, dev)
	queues := []*driver.CommandQueue{d.CreateCommandQueue(ctx), d.CreateCommandQueue(ctx)}
	co := &insts.KernelCodeObject{KernelCodeObjectMeta: &insts.KernelCodeObjectMeta{}}

	lives := make([]*liveLaunch, len(c.Launches))
	byPacket := map[*kernels.HsaKernelDispatchPacket]*liveLaunch{}
	for i := range c.Launches {
		l := &c.Launches[i]
		cmd := &driver.LaunchUnifiedMultiGPUKernelCommand{
			ID:         sim.GetIDGenerator().Generate(),
			CodeObject: co,
			GridSize:   [3]uint32{uint32(l.G[0]), uint32(l.G[1]), uint32(l.G[2])},
			WGSize:     [3]uint16{uint16(l.S[0]), uint16(l.S[1]), uint16(l.S[2])},
		}
		lives[i] = &liveLaunch{idx: i, cmd: cmd}
		for g := range c.CUs {
			pkt := &kernels.HsaKernelDispatchPacket{
				WorkgroupSizeX: uint16(l.S[0]), WorkgroupSizeY: uint16(l.S[1]), WorkgroupSizeZ: uint16(l.S[2]),
				GridSizeX: uint32(l.G[0]), GridSizeY: uint32(l.G[1]), GridSizeZ: uint32(l.G[2]),
			}
			cmd.PacketArray = append(cmd.PacketArray, pkt)
			cmd.DPacketArray = append(cmd.DPacketArray, driver.Ptr(0x1000*(i+1)+0x100*g))
			byPacket[pkt] = lives[i]
		}
		d.Enqueue(queues[l.Queue%2], cmd)
	}

	pump := func() {
		for k := 0; k < 8; k++ {
			d.Tick()
			for {
				m := gpuPort.RetrieveOutgoing()
				if m == nil {
					break
				}
				req, ok := m.(*protocol.LaunchKernelReq)
				if !ok {
					panic(fmt.Sprintf("unexpected message %T on the GPU port", m))
				}
				ll := byPacket[req.Packet]
				if ll.expected == 0 {
					ll.expected = len(ll.cmd.Reqs)
				}
				c.Launches[ll.idx].Reqs = append(c.Launches[ll.idx].Reqs, ReqObs{GPU: portIdx[req.Dst], Produced: [][3]int{}})
				ll.reqs = append(ll.reqs, &liveReq{req: req})
			}
		}
		for _, ll := range lives { // observation slots are addressed after all appends
			for k, r := range ll.reqs {
				r.obs = &c.Launches[ll.idx].Reqs[k]
			}
		}
	}

	rng := vh.NewRng(c.Sched)
	pump()
	for step := 0; step < 1000000; step++ {
		// builders that can make a step: requests of launches whose requests have all arrived
		var cand []*liveReq
		for _, ll := range lives {
			if ll.answered || ll.expected == 0 || len(ll.reqs) < ll.expected {
				continue
			}
			for _, r := range ll.reqs {
				if !r.done {
					cand = append(cand, r)
				}
			}
		}
		if len(cand) > 0 {
			r := cand[rng.Intn(len(cand))]
			if !r.started {
				r.b = kernels.NewGridBuilder()
				r.b.SetKernel(kernels.KernelLaunchInfo{CodeObject: r.req.CodeObject, Packet: r.req.Packet,
					PacketAddr: r.req.PacketAddress, WGFilter: r.req.WGFilter})
				r.obs.NumWG = r.b.NumWG()
				r.started = true
				continue
			}
			wg := r.b.NextWG()
			if wg == nil {
				r.done = true
			} else {
				r.obs.Produced = append(r.obs.Produced, [3]int{wg.IDX, wg.IDY, wg.IDZ})
			}
			continue
		}
		// nothing to evaluate: answer the finished launches so that their queues go on
		progressed := false
		for _, ll := range lives {
			if ll.answered || ll.expected == 0 || len(ll.reqs) < ll.expected {
				continue
			}
			for _, r := range ll.reqs {
				rsp := protocol.NewLaunchKernelRsp(r.req.Dst, r.req.Src, r.req.ID)
				if err := gpuPort.Deliver(rsp); err != nil {
					panic("cannot deliver LaunchKernelRsp")
				}
				d.Tick()
			}
			ll.answered = true
			progressed = true
		}
		pump()
		if !progressed {
			break
		}
	}
}

func (c *LCase) coq() string {
	var ls []string
	for _, l := range c.Launches {
		var rs []string
		for _, r := range l.Reqs {
			ids := make([]string, len(r.Produced))
			for i, p := range r.Produced {
				ids[i] = fmt.Sprintf("(%d, %d, %d)", p[0], p[1], p[2])
			}
			rs = append(rs, fmt.Sprintf("(%d%%nat, %d, %s)", r.GPU, r.NumWG, vh.CoqList(ids)))
		}
		ls = append(ls, fmt.Sprintf("(mkGeom %d %d %d %d %d %d, %s)", l.G[0], l.G[1], l.G[2], l.S[0], l.S[1], l.S[2],
			vh.CoqList(rs)))
	}
	cus := make([]string, len(c.CUs))
	for i, x := range c.CUs {
		cus[i] = fmt.Sprint(x)
	}
	crash := "false"
	if c.Crash != "" {
		crash = "true"
	}
	return fmt.Sprintf("mkLCase %s %s %s", vh.CoqList(cus), vh.CoqList(ls), crash)
}

func genLaunches(r *vh.Rng) *LCase {
	c := &LCase{Sched: r.U64()}
	ng := 1 + r.Pick(1, 4, 4, 3)
	for i := 0; i < ng; i++ {
		c.CUs = append(c.CUs, []int{1, 1, 2, 3, 4, 4, 6, 8, 16}[r.Intn(9)])
	}
	nl := 2 + r.Intn(2)
	for i := 0; i < nl; i++ {
		var l Launch
		for {
			g := gen(r.Fork())
			l.G, l.S = g.G, g.S
			if nwgOf(l) <= 400 {
				break
			}
		}
		l.Queue = i % 2
		if r.Intn(4) == 0 {
			l.Queue = r.Intn(2)
		}
		c.Launches = append(c.Launches, l)
	}
	return c
}

func nwgOf(l Launch) int {
	n := 1
	for d := 0; d < 3; d++ {
		n *= (l.G[d]-1)/l.S[d] + 1
	}
	return n
}


