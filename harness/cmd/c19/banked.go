// Banked local memories: two real PageMigrationControllers whose MemCtrlFinder
// is a real mem.InterleavedAddressPortMapper over 2-4 banks.  The harness
// plays the banks (one byte array per bank, each with its own latency), the
// network and the command processors.  The monitor reads every address through
// the bank that OWNS it (owner computed here from the geometry, not by the
// mapper) and checks that every request the controller sent went to the port
// of the owner of its address.
package main

import (
	"fmt"

	"github.com/sarchlab/akita/v4/mem/mem"
	"github.com/sarchlab/akita/v4/sim"
	pmcpkg "github.com/sarchlab/mgpusim/v4/amd/timing/pagemigrationcontroller"

	"verifharness/vh"
)

type BReq struct {
	W    int    `json:"w"` // controller that pulls (destination side)
	Rd   uint64 `json:"rd"`
	Wr   uint64 `json:"wr"`
	Size uint64 `json:"size"`
}

type BCase struct {
	// inputs
	NBanks [2]int    `json:"nbanks"`
	Inter  [2]uint64 `json:"inter"` // interleaving granularity per side
	Lat    [2][]int  `json:"lat"`   // service latency of each bank in rounds
	Msize  int       `json:"msize"`
	Reqs   []BReq    `json:"reqs"`
	Sched  uint64    `json:"sched"` // seed of the schedule
	// observations
	Viol       string `json:"viol"`
	Relation   string `json:"relation"` // lt eq gt: interleaving vs page size (destination side of request 0)
	Completed  int    `json:"completed"`
	Writes     int    `json:"writes"`
	Reads      int    `json:"reads"`
	Rounds     int    `json:"rounds"`
	SpanBanks  int    `json:"spanbanks"`  // most banks one destination page is spread over
	OutOfOrder int    `json:"outoforder"` // bank replies that overtook an older request of the same controller
	Crashed    bool   `json:"crashed"`
}

type bpending struct {
	m     sim.Msg
	ready int
	seq   int
}

type brunner struct {
	c             *BCase
	pmc           [2]*pmcpkg.PageMigrationController
	rem, ctl, loc [2]sim.Port
	bankName      [2][]sim.RemotePort
	bank          [2][][]byte
	init          [2][][]byte
	exp           [2][]byte // expected contents seen through the owning banks
	initView      [2][]byte
	bq            [2][][]bpending
	mr            [2][]sim.Msg
	net           []sim.Msg
	issued, done  [2]int
	reqs          [2][]BReq
	seq           int
	lastServed    [2]int
}

func (r *brunner) owner(w int, a uint64) int {
	return int(a / r.c.Inter[w] % uint64(r.c.NBanks[w]))
}

func (r *brunner) flag(s string) {
	if r.c.Viol == "" {
		r.c.Viol = s
	}
}

func poison(a uint64, b int) byte { return byte(0xA5 ^ (a * 7) ^ uint64(b*29)) }

func newBRunner(c *BCase) *brunner {
	engine := sim.NewSerialEngine()
	r := &brunner{c: c}
	conn := &vh.StubConn{}
	for w := 0; w < 2; w++ {
		mapper := mem.NewInterleavedAddressPortMapper(c.Inter[w])
		for b := 0; b < c.NBanks[w]; b++ {
			n := sim.RemotePort(fmt.Sprintf("Mem%c.Bank%d", 'A'+w, b))
			r.bankName[w] = append(r.bankName[w], n)
			mapper.LowModules = append(mapper.LowModules, n)
		}
		p := pmcpkg.NewPageMigrationController(pmcNames[w], engine, mapper, nil)
		r.pmc[w] = p
		r.rem[w] = p.GetPortByName("Remote")
		r.ctl[w] = p.GetPortByName("Control")
		r.loc[w] = p.GetPortByName("LocalMem")
		conn.PlugIn(r.rem[w])
		conn.PlugIn(r.ctl[w])
		conn.PlugIn(r.loc[w])
		r.bank[w] = make([][]byte, c.NBanks[w])
		r.init[w] = make([][]byte, c.NBanks[w])
		r.bq[w] = make([][]bpending, c.NBanks[w])
		r.exp[w] = make([]byte, c.Msize)
		for b := range r.bank[w] {
			r.bank[w][b] = make([]byte, c.Msize)
		}
		for a := 0; a < c.Msize; a++ {
			o := r.owner(w, uint64(a))
			for b := range r.bank[w] {
				if b == o {
					r.bank[w][b][a] = genByte(uint64(a), uint64(3+2*w), uint64(11+w))
				} else {
					r.bank[w][b][a] = poison(uint64(a), b)
				}
			}
			r.exp[w][a] = r.bank[w][o][a]
		}
		for b := range r.bank[w] {
			r.init[w][b] = append([]byte{}, r.bank[w][b]...)
		}
		r.initView[w] = append([]byte{}, r.exp[w]...)
		r.lastServed[w] = -1
	}
	for _, q := range c.Reqs {
		r.reqs[q.W] = append(r.reqs[q.W], q)
	}
	return r
}

func (r *brunner) view(w int, a uint64) byte { return r.bank[w][r.owner(w, a)][a] }

// checkAll: through the owning banks the memory is the initial memory with the
// completed pages copied in order; cells a bank does not own never change.
func (r *brunner) checkAll(when string) {
	for w := 0; w < 2; w++ {
		for a := 0; a < r.c.Msize; a++ {
			o := r.owner(w, uint64(a))
			if got, want := r.bank[w][o][a], r.exp[w][a]; got != want {
				// a request that was accepted and whose completion has not been taken: inside its
				// destination a byte may already be the source byte
				if r.issued[w] > r.done[w] {
					q := r.reqs[w][r.done[w]]
					if uint64(a) >= q.Wr && uint64(a) < q.Wr+q.Size && got == r.initView[1-w][q.Rd+uint64(a)-q.Wr] {
						continue
					}
				}
				r.flag(fmt.Sprintf("%s: address %d of memory %d read through its owning bank %d is %d, expected %d (interleaving %d over %d banks)",
					when, a, w, o, got, want, r.c.Inter[w], r.c.NBanks[w]))
				return
			}
			for b := range r.bank[w] {
				if b != o && r.bank[w][b][a] != r.init[w][b][a] {
					r.flag(fmt.Sprintf("%s: bank %d of memory %d was written at address %d, which bank %d owns", when, b, w, a, o))
					return
				}
			}
		}
	}
}

func (r *brunner) bankIndex(w int, p sim.RemotePort) int {
	for b, n := range r.bankName[w] {
		if n == p {
			return b
		}
	}
	return -1
}

func (r *brunner) run() {
	c := r.c
	rng := vh.NewRng(c.Sched)
	defer func() {
		if x := recover(); x != nil {
			c.Crashed = true
			r.flag(fmt.Sprintf("a controller panicked: %v", x))
		}
	}()
	total := len(c.Reqs)
	const limit = 400000
	for round := 0; round < limit; round++ {
		c.Rounds = round
		if c.Completed == total && len(r.net) == 0 {
			break
		}
		for w := 0; w < 2; w++ {
			// command processor: one request in flight per controller
			if r.issued[w] < len(r.reqs[w]) && r.issued[w] == r.done[w] && rng.Intn(4) != 0 {
				q := r.reqs[w][r.issued[w]]
				m := pmcpkg.PageMigrationReqToPMCBuilder{}.WithSrc(sim.RemotePort(fmt.Sprintf("CP%d", 9+w))).
					WithDst(r.ctl[w].AsRemote()).WithReadFrom(q.Rd).WithWriteTo(q.Wr).WithPageSize(q.Size).
					WithPMCPortOfRemoteGPU(r.rem[1-w].AsRemote()).Build()
				if r.ctl[w].Deliver(m) == nil {
					r.issued[w]++
				}
			}
		}
		first := rng.Intn(2)
		for i := 0; i < 2; i++ {
			w := (first + i) % 2
			if rng.Intn(8) != 0 {
				r.pmc[w].Tick()
			}
			// remote port -> network
			if rng.Intn(5) != 0 {
				if m := r.rem[w].RetrieveOutgoing(); m != nil {
					r.net = append(r.net, m)
				}
			}
			// local port -> the bank the message is addressed to
			if rng.Intn(5) != 0 {
				if m := r.loc[w].RetrieveOutgoing(); m != nil {
					r.toBank(w, m, round)
				}
			}
			// banks serve what is due (FIFO per bank; banks differ in latency)
			for b := range r.bq[w] {
				for len(r.bq[w][b]) > 0 && r.bq[w][b][0].ready <= round {
					p := r.bq[w][b][0]
					r.bq[w][b] = r.bq[w][b][1:]
					r.serve(w, b, p)
				}
			}
			// replies -> local port (any pending reply; the port may refuse)
			if len(r.mr[w]) > 0 && rng.Intn(6) != 0 {
				k := 0
				if rng.Intn(3) == 0 {
					k = rng.Intn(len(r.mr[w]))
				}
				if r.loc[w].Deliver(r.mr[w][k]) == nil {
					r.mr[w] = removeAt(r.mr[w], k)
				}
			}
			// completions
			if rng.Intn(3) != 0 {
				if m := r.ctl[w].RetrieveOutgoing(); m != nil {
					r.completion(w, m)
				}
			}
		}
		// network: any pending message to its remote port
		if len(r.net) > 0 && rng.Intn(6) != 0 {
			k := 0
			if rng.Intn(3) == 0 {
				k = rng.Intn(len(r.net))
			}
			m := r.net[k]
			for w := 0; w < 2; w++ {
				if m.Meta().Dst == r.rem[w].AsRemote() && r.rem[w].Deliver(m) == nil {
					r.net = removeAt(r.net, k)
					break
				}
			}
		}
		if c.Viol != "" {
			return
		}
	}
	if c.Completed != total {
		r.flag(fmt.Sprintf("%d of %d migrations completed after %d rounds of a fair schedule", c.Completed, total, c.Rounds))
		return
	}
	// let everything still in flight land, then compare once more
	for w := 0; w < 2; w++ {
		for b := range r.bq[w] {
			for _, p := range r.bq[w][b] {
				r.serve(w, b, p)
			}
			r.bq[w][b] = nil
		}
	}
	r.checkAll("at the end")
}

func (r *brunner) toBank(w int, m sim.Msg, round int) {
	var addr uint64
	var kind string
	switch q := m.(type) {
	case *mem.ReadReq:
		addr, kind = q.Address, "read"
		r.c.Reads++
	case *mem.WriteReq:
		addr, kind = q.Address, "write"
		r.c.Writes++
	default:
		r.flag(fmt.Sprintf("controller %d sent a %T to its memory", w, m))
		return
	}
	b := r.bankIndex(w, m.Meta().Dst)
	o := r.owner(w, addr)
	if b < 0 {
		r.flag(fmt.Sprintf("controller %d sent a %s request for address %d to %q, which is not a bank", w, kind, addr, m.Meta().Dst))
		return
	}
	if b != o {
		r.flag(fmt.Sprintf("controller %d sent the %s request for address %d to bank %d; the address belongs to bank %d (interleaving %d over %d banks)",
			w, kind, addr, b, o, r.c.Inter[w], r.c.NBanks[w]))
		// keep going: the bank stores what it is given, the contents check shows the effect
	}
	r.bq[w][b] = append(r.bq[w][b], bpending{m: m, ready: round + r.c.Lat[w][b], seq: r.seq})
	r.seq++
}

func (r *brunner) serve(w, b int, p bpending) {
	var rsp sim.Msg
	switch q := p.m.(type) {
	case *mem.ReadReq:
		d := append([]byte{}, r.bank[w][b][q.Address:q.Address+q.AccessByteSize]...)
		rsp = mem.DataReadyRspBuilder{}.WithSrc(q.Dst).WithDst(q.Src).WithRspTo(q.ID).WithData(d).Build()
	case *mem.WriteReq:
		copy(r.bank[w][b][q.Address:], q.Data)
		rsp = mem.WriteDoneRspBuilder{}.WithSrc(q.Dst).WithDst(q.Src).WithRspTo(q.ID).Build()
	}
	if p.seq < r.lastServed[w] {
		r.c.OutOfOrder++
	} else {
		r.lastServed[w] = p.seq
	}
	r.mr[w] = append(r.mr[w], rsp)
}

func (r *brunner) completion(w int, m sim.Msg) {
	if _, ok := m.(*pmcpkg.PageMigrationRspFromPMC); !ok {
		r.flag(fmt.Sprintf("controller %d put a %T on its control port", w, m))
		return
	}
	if r.done[w] >= r.issued[w] {
		r.flag(fmt.Sprintf("controller %d reported a completion without an open request", w))
		return
	}
	q := r.reqs[w][r.done[w]]
	if want := sim.RemotePort(fmt.Sprintf("CP%d", 9+w)); m.Meta().Dst != want {
		r.flag(fmt.Sprintf("completion of controller %d addressed to %q, expected %q", w, m.Meta().Dst, want))
	}
	copy(r.exp[w][q.Wr:q.Wr+q.Size], r.initView[1-w][q.Rd:q.Rd+q.Size])
	r.done[w]++
	r.c.Completed++
	r.checkAll(fmt.Sprintf("at completion %d of controller %d (page of %d bytes at %d)", r.done[w]-1, w, q.Size, q.Wr))
}

func (c *BCase) classify() {
	c.Relation = "eq"
	if len(c.Reqs) == 0 {
		return
	}
	q := c.Reqs[0]
	if c.Inter[q.W] < q.Size {
		c.Relation = "lt"
	} else if c.Inter[q.W] > q.Size {
		c.Relation = "gt"
	}
	for _, q := range c.Reqs {
		seen := map[uint64]bool{}
		for a := q.Wr; a < q.Wr+q.Size; a += 64 {
			seen[a/c.Inter[q.W]%uint64(c.NBanks[q.W])] = true
		}
		if len(seen) > c.SpanBanks {
			c.SpanBanks = len(seen)
		}
	}
}

func runBanked(in BCase) BCase {
	c := BCase{NBanks: in.NBanks, Inter: in.Inter, Lat: in.Lat, Msize: in.Msize, Reqs: in.Reqs, Sched: in.Sched}
	c.classify()
	newBRunner(&c).run()
	return c
}

var bInter = []uint64{64, 128, 256, 1024, 4096, 8192, 16384}
var bPages = []uint64{256, 1024, 4096, 8192}

// genBanked: scenario idx%3 decides the relation between interleaving and page
// size (0: smaller, 1: equal, 2: larger) on the destination side of the first
// request; the other side and the remaining geometry are free.
func genBanked(rng *vh.Rng, idx int) BCase {
	c := BCase{Msize: 65536, Sched: rng.U64()}
	page := bPages[rng.Intn(len(bPages))]
	var rel []uint64
	for _, g := range bInter {
		if (idx%3 == 0 && g < page) || (idx%3 == 1 && g == page) || (idx%3 == 2 && g > page) {
			rel = append(rel, g)
		}
	}
	w0 := rng.Intn(2)
	c.Inter[w0] = rel[rng.Intn(len(rel))]
	c.Inter[1-w0] = bInter[rng.Intn(len(bInter))]
	for w := 0; w < 2; w++ {
		c.NBanks[w] = 2 + rng.Intn(3)
		for b := 0; b < c.NBanks[w]; b++ {
			c.Lat[w] = append(c.Lat[w], []int{0, 1, 3, 7, 20, 45}[rng.Intn(6)])
		}
	}
	half := uint64(c.Msize / 2)
	n := 1 + rng.Intn(3)
	for i := 0; i < n; i++ {
		q := BReq{W: w0, Size: page}
		if i > 0 && rng.Intn(3) == 0 {
			q.W = 1 - w0
		}
		if i > 0 && rng.Intn(3) == 0 {
			q.Size = bPages[rng.Intn(len(bPages))]
		}
		// destinations in the lower half, sources in the upper half: a source is never overwritten
		if rng.Intn(3) == 0 {
			q.Wr = uint64(rng.Intn(int((half-q.Size)/64)+1)) * 64
		} else {
			q.Wr = uint64(rng.Intn(int(half/q.Size))) * q.Size
		}
		if rng.Intn(3) == 0 {
			q.Rd = half + uint64(rng.Intn(int((half-q.Size)/64)+1))*64
		} else {
			q.Rd = half + uint64(rng.Intn(int(half/q.Size)))*q.Size
		}
		c.Reqs = append(c.Reqs, q)
	}
	return runBanked(c)
}
