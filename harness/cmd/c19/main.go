// Command c19 wires two real pagemigrationcontroller.PageMigrationControllers
// together.  The harness plays the connections, the network between the two
// remote ports and both local memories (byte arrays answering mem.ReadReq /
// mem.WriteReq), with generated (or replayed) schedules: arbitrary delays,
// reordering of network messages and memory replies, refusals.
package main

import (
	"encoding/json"
	"flag"
	"fmt"
	"io"
	"log"
	"os"
	"sort"
	"strings"

	"github.com/sarchlab/akita/v4/mem/mem"
	"github.com/sarchlab/akita/v4/mem/vm"
	"github.com/sarchlab/akita/v4/sim"
	"github.com/sarchlab/mgpusim/v4/amd/driver"
	"github.com/sarchlab/mgpusim/v4/amd/protocol"
	pmcpkg "github.com/sarchlab/mgpusim/v4/amd/timing/pagemigrationcontroller"

	"verifharness/vh"
)

// PM is a protocol message in canonical form (ports and IDs renumbered).
type PM struct {
	Kind   string    `json:"kind"` // MigReq MigRsp PullReq PullRsp RdReq WrReq DReady WDone
	ID     [2]uint64 `json:"id"`
	Src    uint64    `json:"src"`
	Dst    uint64    `json:"dst"`
	Addr   uint64    `json:"addr"`
	Size   uint64    `json:"size"`
	Rd     uint64    `json:"rd"`
	Wr     uint64    `json:"wr"`
	Remote uint64    `json:"remote"`
	Data   []int     `json:"data"`
}

func nlist(d []int) string {
	s := make([]string, len(d))
	for i, x := range d {
		s[i] = fmt.Sprintf("%d", x)
	}
	return "[" + strings.Join(s, ";") + "]"
}

func (m *PM) Coq() string {
	id := fmt.Sprintf("(%d,%d)", m.ID[0], m.ID[1])
	switch m.Kind {
	case "MigReq":
		return fmt.Sprintf("(MMigReq (mkMigReq %d %d %d %d %d %d))", m.Src, m.Dst, m.Rd, m.Wr, m.Remote, m.Size)
	case "MigRsp":
		return fmt.Sprintf("(MMigRsp (mkMigRsp %d %d))", m.Src, m.Dst)
	case "PullReq":
		return fmt.Sprintf("(MPullReq (mkPullReq %s %d %d %d %d))", id, m.Src, m.Dst, m.Addr, m.Size)
	case "PullRsp":
		return fmt.Sprintf("(MPullRsp (mkPullRsp %s %d %d %s))", id, m.Src, m.Dst, nlist(m.Data))
	case "RdReq":
		return fmt.Sprintf("(MRdReq (mkRdReq %s %d %d %d %d))", id, m.Src, m.Dst, m.Addr, m.Size)
	case "WrReq":
		return fmt.Sprintf("(MWrReq (mkWrReq %d %d %d %s))", m.Src, m.Dst, m.Addr, nlist(m.Data))
	case "DReady":
		return fmt.Sprintf("(MDReady (mkDReady %d %d %s %s))", m.Src, m.Dst, id, nlist(m.Data))
	case "WDone":
		return fmt.Sprintf("(MWDone (mkWDone %d %d))", m.Src, m.Dst)
	}
	panic("kind " + m.Kind)
}

func (m *PM) migCoq() string {
	return fmt.Sprintf("(mkMigReq %d %d %d %d %d %d)", m.Src, m.Dst, m.Rd, m.Wr, m.Remote, m.Size)
}

// Event: tick sr dr sl ms dl cr tc inj
type Event struct {
	E   string `json:"e"`
	W   int    `json:"w"`
	K   int    `json:"k"`
	Msg *PM    `json:"msg,omitempty"`
	// observation
	Acc      *bool `json:"acc,omitempty"`
	Progress *bool `json:"progress,omitempty"`
	Got      *PM   `json:"got,omitempty"`
	None     bool  `json:"none,omitempty"`
	Crash    bool  `json:"crash,omitempty"`
}

type Window struct {
	W   int    `json:"w"`
	Lo  uint64 `json:"lo"`
	Len int    `json:"len"`
	Sum uint64 `json:"sum"`
}

type Case struct {
	Ka     uint64   `json:"ka"`
	Ca     uint64   `json:"ca"`
	Kb     uint64   `json:"kb"`
	Cb     uint64   `json:"cb"`
	Msize  int      `json:"msize"`
	Class  string   `json:"class"` // uni bidir odd hostile
	Events []Event  `json:"events"`
	Final  []Window `json:"final"`
	Viol   string   `json:"viol"`
	Coq    string   `json:"coq"`
	// statistics
	Completed   [2]int `json:"completed"`
	Accepted    [2]int `json:"accepted"`
	Chunks      int    `json:"chunks"`
	Refusals    int    `json:"refusals"`
	Reordered   int    `json:"reordered"`
	Quiescent   bool   `json:"quiescent"`
	MaxPageSize uint64 `json:"maxpage"`
}

const (
	nRA, nCA, nLA, nMA = 1, 2, 3, 4
	nRB, nCB, nLB, nMB = 5, 6, 7, 8
	nThird             = 11
)

var pmcNames = [2]string{"PMCA", "PMCB"}
var memNames = [2]sim.RemotePort{"MemA", "MemB"}

type runner struct {
	pmc           [2]*pmcpkg.PageMigrationController
	rem, ctl, loc [2]sim.Port
	store         [2][]byte
	mq, mr        [2][]sim.Msg
	net           []sim.Msg
	ports         map[sim.RemotePort]uint64
	names         map[uint64]sim.RemotePort
	ids           map[string][2]uint64
	idctr         [2]uint64
	// monitor state
	class    string
	initial  [2][]byte
	exp      [2][]byte
	accepted [2][]PM
	done     [2]int
	viol     string
	refusals int
	reorder  int
}

func genByte(a, k, c uint64) byte { return byte(((a*k)%8191 + c) % 256) }

func newRunner(c *Case) *runner {
	engine := sim.NewSerialEngine()
	r := &runner{ports: map[sim.RemotePort]uint64{}, names: map[uint64]sim.RemotePort{},
		ids: map[string][2]uint64{}, class: c.Class}
	conn := &vh.StubConn{}
	for w := 0; w < 2; w++ {
		finder := &mem.SinglePortMapper{Port: memNames[w]}
		p := pmcpkg.NewPageMigrationController(pmcNames[w], engine, finder, nil)
		r.pmc[w] = p
		r.rem[w] = p.GetPortByName("Remote")
		r.ctl[w] = p.GetPortByName("Control")
		r.loc[w] = p.GetPortByName("LocalMem")
		conn.PlugIn(r.rem[w])
		conn.PlugIn(r.ctl[w])
		conn.PlugIn(r.loc[w])
		base := uint64(4 * w)
		r.setPort(r.rem[w].AsRemote(), base+1)
		r.setPort(r.ctl[w].AsRemote(), base+2)
		r.setPort(r.loc[w].AsRemote(), base+3)
		r.setPort(memNames[w], base+4)
		r.store[w] = make([]byte, c.Msize)
		k, cc := c.Ka, c.Ca
		if w == 1 {
			k, cc = c.Kb, c.Cb
		}
		for a := range r.store[w] {
			r.store[w][a] = genByte(uint64(a), k, cc)
		}
		r.initial[w] = append([]byte{}, r.store[w]...)
		r.exp[w] = append([]byte{}, r.store[w]...)
	}
	r.setPort("Third.RemotePort", nThird)
	return r
}

func (r *runner) setPort(p sim.RemotePort, n uint64) { r.ports[p] = n; r.names[n] = p }

func (r *runner) port(p sim.RemotePort) uint64 {
	if p == "" {
		return 0
	}
	if n, ok := r.ports[p]; ok {
		return n
	}
	// command-processor side names "CP<n>"
	var n uint64
	if _, err := fmt.Sscanf(string(p), "CP%d", &n); err == nil {
		return n
	}
	return 999999
}

func (r *runner) name(n uint64) sim.RemotePort {
	if n == 0 {
		return ""
	}
	if p, ok := r.names[n]; ok {
		return p
	}
	return sim.RemotePort(fmt.Sprintf("CP%d", n))
}

func (r *runner) id(goID string) [2]uint64 {
	if v, ok := r.ids[goID]; ok {
		return v
	}
	return [2]uint64{999999, 999999}
}

func ints(b []byte) []int {
	o := make([]int, len(b))
	for i, x := range b {
		o[i] = int(x)
	}
	return o
}

// canon converts a Go message; seenFrom >= 0 names the controller whose
// remote port the message is leaving (new pull requests get their number).
func (r *runner) canon(m sim.Msg, seenFrom int) *PM {
	out := &PM{Src: r.port(m.Meta().Src), Dst: r.port(m.Meta().Dst), Data: []int{}}
	switch x := m.(type) {
	case *pmcpkg.PageMigrationReqToPMC:
		out.Kind = "MigReq"
		out.Rd, out.Wr, out.Size = x.ToReadFromPhysicalAddress, x.ToWriteToPhysicalAddress, x.PageSize
		out.Remote = r.port(x.PMCPortOfRemoteGPU)
	case *pmcpkg.PageMigrationRspFromPMC:
		out.Kind = "MigRsp"
	case *pmcpkg.DataPullReq:
		out.Kind = "PullReq"
		if _, ok := r.ids[x.ID]; !ok && seenFrom >= 0 {
			r.ids[x.ID] = [2]uint64{uint64(4*seenFrom + 1), r.idctr[seenFrom]}
			r.idctr[seenFrom]++
		}
		out.ID = r.id(x.ID)
		out.Addr, out.Size = x.ToReadFromPhyAddress, x.DataTransferSize
	case *pmcpkg.DataPullRsp:
		out.Kind = "PullRsp"
		out.ID = r.id(x.ID)
		out.Data = ints(x.Data)
	case *mem.ReadReq:
		out.Kind = "RdReq"
		out.ID = r.id(x.ID)
		out.Addr, out.Size = x.Address, x.AccessByteSize
	case *mem.WriteReq:
		out.Kind = "WrReq"
		out.Addr = x.Address
		out.Data = ints(x.Data)
	case *mem.DataReadyRsp:
		out.Kind = "DReady"
		out.ID = r.id(x.RespondTo)
		out.Data = ints(x.Data)
	case *mem.WriteDoneRsp:
		out.Kind = "WDone"
	default:
		out.Kind = "Other"
	}
	return out
}

func bp(b bool) *bool { return &b }

func removeAt(l []sim.Msg, k int) []sim.Msg {
	o := make([]sim.Msg, 0, len(l))
	o = append(o, l[:k]...)
	return append(o, l[k+1:]...)
}

// apply runs one event on the implementation and fills in the observation.
func (r *runner) apply(e *Event) (crashed bool) {
	defer func() {
		if x := recover(); x != nil {
			e.Crash = true
			crashed = true
		}
	}()
	w := e.W
	switch e.E {
	case "tick":
		e.Progress = bp(r.pmc[w].Tick())
	case "sr":
		m := r.rem[w].RetrieveOutgoing()
		if m == nil {
			e.None = true
		} else {
			e.Got = r.canon(m, w)
			r.net = append(r.net, m)
		}
	case "dr":
		if e.K >= len(r.net) {
			e.Acc = bp(false)
			break
		}
		m := r.net[e.K]
		var target = -1
		if m.Meta().Dst == r.rem[0].AsRemote() {
			target = 0
		} else if m.Meta().Dst == r.rem[1].AsRemote() {
			target = 1
		}
		if target < 0 || r.rem[target].Deliver(m) != nil {
			e.Acc = bp(false)
			r.refusals++
			break
		}
		if e.K > 0 {
			r.reorder++
		}
		r.net = removeAt(r.net, e.K)
		e.Acc = bp(true)
	case "sl":
		m := r.loc[w].RetrieveOutgoing()
		if m == nil {
			e.None = true
		} else {
			e.Got = r.canon(m, -1)
			r.mq[w] = append(r.mq[w], m)
		}
	case "ms":
		if e.K >= len(r.mq[w]) {
			e.None = true
			break
		}
		var rsp sim.Msg
		switch q := r.mq[w][e.K].(type) {
		case *mem.ReadReq:
			d := append([]byte{}, r.store[w][q.Address:q.Address+q.AccessByteSize]...)
			rsp = mem.DataReadyRspBuilder{}.WithSrc(q.Dst).WithDst(q.Src).WithRspTo(q.ID).WithData(d).Build()
		case *mem.WriteReq:
			copy(r.store[w][q.Address:], q.Data)
			rsp = mem.WriteDoneRspBuilder{}.WithSrc(q.Dst).WithDst(q.Src).WithRspTo(q.ID).Build()
		}
		if rsp == nil {
			e.None = true
			break
		}
		if e.K > 0 {
			r.reorder++
		}
		r.mq[w] = removeAt(r.mq[w], e.K)
		r.mr[w] = append(r.mr[w], rsp)
		e.Got = r.canon(rsp, -1)
	case "dl":
		if e.K >= len(r.mr[w]) {
			e.Acc = bp(false)
			break
		}
		if r.loc[w].Deliver(r.mr[w][e.K]) != nil {
			e.Acc = bp(false)
			r.refusals++
			break
		}
		if e.K > 0 {
			r.reorder++
		}
		r.mr[w] = removeAt(r.mr[w], e.K)
		e.Acc = bp(true)
	case "cr":
		m := e.Msg
		q := pmcpkg.PageMigrationReqToPMCBuilder{}.WithSrc(r.name(m.Src)).WithDst(r.name(m.Dst)).
			WithReadFrom(m.Rd).WithWriteTo(m.Wr).WithPageSize(m.Size).
			WithPMCPortOfRemoteGPU(r.name(m.Remote)).Build()
		ok := r.ctl[w].Deliver(q) == nil
		e.Acc = bp(ok)
		if ok {
			r.accepted[w] = append(r.accepted[w], *m)
		} else {
			r.refusals++
		}
	case "tc":
		m := r.ctl[w].RetrieveOutgoing()
		if m == nil {
			e.None = true
		} else {
			e.Got = r.canon(m, -1)
			r.onCompletion(w, e.Got)
		}
	case "inj":
		m := e.Msg
		q := pmcpkg.DataPullReqBuilder{}.WithSrc(r.name(m.Src)).WithDst(r.name(m.Dst)).
			WithReadFromPhyAddress(m.Addr).WithDataTransferSize(m.Size).Build()
		r.ids[q.ID] = m.ID
		r.net = append(r.net, q)
		e.Acc = bp(true)
	}
	return false
}

// ---- property monitor on the implementation (independent of the model) ----

func (r *runner) flag(s string) {
	if r.viol == "" {
		r.viol = s
	}
}

func (r *runner) monitored() bool {
	return r.class == "uni" || r.class == "bidir" || r.class == "stall"
}

func (r *runner) onCompletion(w int, got *PM) {
	if got.Kind != "MigRsp" {
		r.flag(fmt.Sprintf("controller %d put a %s on its control port", w, got.Kind))
		return
	}
	if r.done[w] >= len(r.accepted[w]) {
		r.flag(fmt.Sprintf("controller %d reported a completion without an open request (%d requests, %d completions before)",
			w, len(r.accepted[w]), r.done[w]))
		return
	}
	q := r.accepted[w][r.done[w]]
	if got.Dst != q.Src || got.Src != uint64(4*w+2) {
		r.flag(fmt.Sprintf("completion %d of controller %d routed %d->%d, expected %d->%d", r.done[w], w, got.Src, got.Dst, 4*w+2, q.Src))
	}
	if r.monitored() {
		copy(r.exp[w][q.Wr:q.Wr+q.Size], r.initial[1-w][q.Rd:q.Rd+q.Size])
	}
	r.done[w]++
	r.checkStores(fmt.Sprintf("after completion %d of controller %d", r.done[w]-1, w))
}

// checkStores: every byte equals the sequential copies of the requests whose
// completion was TAKEN, except inside the destination of a request that was
// accepted and whose completion has not been taken yet (it may be waiting,
// in progress or finished with the response still in the control port):
// there a byte may also be that request's source byte.
func (r *runner) checkStores(when string) {
	if !r.monitored() {
		return
	}
	for w := 0; w < 2; w++ {
		open := r.accepted[w][r.done[w]:]
		for a := range r.store[w] {
			got, want := r.store[w][a], r.exp[w][a]
			if got == want {
				continue
			}
			ok := false
			for i := range open {
				q := &open[i]
				if uint64(a) >= q.Wr && uint64(a) < q.Wr+q.Size && got == r.initial[1-w][q.Rd+uint64(a)-q.Wr] {
					ok = true
				}
			}
			if ok {
				continue
			}
			r.flag(fmt.Sprintf("%s: byte %d of memory %d is %d, expected %d (completions taken: %d of %d requests)",
				when, a, w, got, want, r.done[w], len(r.accepted[w])))
			return
		}
	}
}

func (r *runner) quiescent() bool {
	if len(r.net) > 0 {
		return false
	}
	for w := 0; w < 2; w++ {
		if len(r.mq[w]) > 0 || len(r.mr[w]) > 0 {
			return false
		}
		for _, p := range []sim.Port{r.rem[w], r.ctl[w], r.loc[w]} {
			if p.PeekIncoming() != nil || p.PeekOutgoing() != nil {
				return false
			}
		}
	}
	return true
}

func (r *runner) deliverable(m sim.Msg) bool {
	for w := 0; w < 2; w++ {
		if m.Meta().Dst == r.rem[w].AsRemote() {
			return r.rem[w].PeekIncoming() == nil
		}
	}
	return false
}

func checksum(st []byte, lo uint64, n int) uint64 {
	var acc uint64
	for j := 0; j < n; j++ {
		acc = (acc*257 + uint64(st[lo+uint64(j)]) + 1) % 2147483647
	}
	return acc
}

func (r *runner) windows(c *Case) []Window {
	var ws []Window
	add := func(w int, lo, hi int64) {
		if lo < 0 {
			lo = 0
		}
		if hi > int64(c.Msize) {
			hi = int64(c.Msize)
		}
		if hi <= lo {
			return
		}
		ws = append(ws, Window{W: w, Lo: uint64(lo), Len: int(hi - lo), Sum: checksum(r.store[w], uint64(lo), int(hi-lo))})
	}
	if c.Msize <= 2048 {
		add(0, 0, int64(c.Msize))
		add(1, 0, int64(c.Msize))
		return ws
	}
	for w := 0; w < 2; w++ {
		for _, q := range r.accepted[w] {
			add(w, int64(q.Wr)-64, int64(q.Wr)+192)
			add(w, int64(q.Wr+q.Size)-192, int64(q.Wr+q.Size)+64)
			add(1-w, int64(q.Rd)-32, int64(q.Rd)+96)
		}
	}
	return ws
}

// ---- generation ----

type plan struct {
	w   int
	req PM
}

func (r *runner) run1(c *Case, e Event) (Event, bool) {
	crashed := r.apply(&e)
	c.Events = append(c.Events, e)
	return e, crashed
}

func generate(rng *vh.Rng, idx int) Case {
	c := Case{Ka: uint64(1 + 2*rng.Intn(4000)), Ca: uint64(rng.Intn(256)),
		Kb: uint64(1 + 2*rng.Intn(4000)), Cb: uint64(rng.Intn(256))}
	switch {
	case idx%10 == 9:
		c.Class = "hostile"
	case idx%10 == 4:
		c.Class = "odd"
	case idx%10 == 6:
		// 3-5 requests back to back to one controller while the command processor does
		// not take completions from the control port for a long stretch
		c.Class = "stall"
	case idx%3 == 1:
		c.Class = "bidir"
	default:
		c.Class = "uni"
	}
	chunkChoices := []int{1, 1, 2, 2, 3, 4, 5, 8, 16}
	maxChunks := chunkChoices[rng.Intn(len(chunkChoices))]
	if idx%10 == 3 {
		maxChunks = 64
	}
	if idx%50 == 7 {
		maxChunks = 256
	}
	if c.Class == "stall" {
		maxChunks = 1 + rng.Intn(3)
	}
	half := 1024
	for half < 2*64*maxChunks {
		half *= 2
	}
	c.Msize = 2 * half
	// planned requests
	var plans []plan
	nreq := 1 + rng.Intn(3)
	if maxChunks >= 64 {
		nreq = 1
	}
	if c.Class == "stall" {
		nreq = 3 + rng.Intn(3)
	}
	mk := func(w, j int) plan {
		chunks := maxChunks
		if j > 0 {
			chunks = 1 + rng.Intn(maxChunks)
		}
		size := uint64(64 * chunks)
		if c.Class == "odd" {
			switch rng.Intn(3) {
			case 0:
				size = uint64(rng.Intn(64))
			case 1:
				size += uint64(1 + rng.Intn(63))
			}
		}
		if size > c.MaxPageSize {
			c.MaxPageSize = size
		}
		c.Chunks += int(size / 64)
		var rd, wr uint64
		if c.Class == "bidir" {
			rd = uint64(rng.Intn(half - int(size) + 1))
			wr = uint64(half + rng.Intn(half-int(size)+1))
		} else {
			rd = uint64(rng.Intn(c.Msize - int(size) + 1))
			wr = uint64(rng.Intn(c.Msize - int(size) + 1))
		}
		if rng.Intn(3) > 0 {
			rd &^= 63
			wr &^= 63
		}
		if j > 0 && rng.Intn(3) == 0 && len(plans) > 0 {
			wr = plans[0].req.Wr // overlapping destinations: order of service matters
			if wr+size > uint64(c.Msize) {
				wr = uint64(c.Msize) - size
			}
		}
		return plan{w, PM{Kind: "MigReq", Src: uint64(100 + 10*w + j), Dst: uint64(4*w + 2), Rd: rd, Wr: wr,
			Remote: uint64(4*(1-w) + 1), Size: size, Data: []int{}}}
	}
	for j := 0; j < nreq; j++ {
		plans = append(plans, mk(0, j))
	}
	if c.Class == "bidir" {
		nb := 1 + rng.Intn(2)
		for j := 0; j < nb; j++ {
			plans = append(plans, mk(1, j))
		}
	}
	r := newRunner(&c)
	next := [2]int{}
	byW := [2][]PM{}
	for _, p := range plans {
		byW[p.w] = append(byW[p.w], p.req)
	}
	pick := []int{1, 3, 10}
	wt := make([]int, 9)
	for i := range wt {
		wt[i] = pick[rng.Intn(3)]
	}
	wt[8] = 0
	if c.Class == "hostile" {
		wt[8] = 1
	}
	if c.Class == "stall" {
		wt[6], wt[7] = 10, 0 // requests eagerly, completions never taken in the random phase
	}
	nrand := 60 + 45*c.Chunks
	if nrand > 9000 {
		nrand = 9000
	}
	crashed := false
	injected := 0
	idxOf := func(n int) int {
		if n == 0 {
			return 0
		}
		if rng.Intn(12) == 0 {
			return n // out of range: must be refused
		}
		return rng.Intn(n)
	}
	for i := 0; i < nrand && !crashed; i++ {
		w := rng.Intn(2)
		var e Event
		switch rng.Pick(wt...) {
		case 0:
			e = Event{E: "tick", W: w}
		case 1:
			e = Event{E: "sr", W: w}
		case 2:
			e = Event{E: "dr", K: idxOf(len(r.net))}
		case 3:
			e = Event{E: "sl", W: w}
		case 4:
			e = Event{E: "ms", W: w, K: idxOf(len(r.mq[w]))}
		case 5:
			e = Event{E: "dl", W: w, K: idxOf(len(r.mr[w]))}
		case 6:
			if next[w] < len(byW[w]) {
				m := byW[w][next[w]]
				e = Event{E: "cr", W: w, Msg: &m}
			} else {
				e = Event{E: "tick", W: w}
			}
		case 7:
			e = Event{E: "tc", W: w}
		case 8:
			if injected < 2 {
				injected++
				m := PM{Kind: "PullReq", ID: [2]uint64{nThird, uint64(injected)}, Src: nThird, Dst: uint64(4*w + 1),
					Addr: uint64(64 * rng.Intn(8)), Size: 64, Data: []int{}}
				e = Event{E: "inj", Msg: &m}
			} else {
				e = Event{E: "tick", W: w}
			}
		}
		var done Event
		done, crashed = r.run1(&c, e)
		if done.E == "cr" && done.Acc != nil && *done.Acc {
			next[w]++
		}
	}
	// fair drain: everything that is enabled is done, in a fixed order; with
	// takeCtrl=false the command processor leaves completions in the control port
	drain := func(takeCtrl bool) {
		c.Quiescent = false
		for round := 0; round < 40+30*c.Chunks && !crashed; round++ {
			busy := false
			do := func(e Event) Event {
				if crashed {
					return e
				}
				var d Event
				d, crashed = r.run1(&c, e)
				return d
			}
			for w := 0; w < 2 && !crashed; w++ {
				if next[w] < len(byW[w]) {
					m := byW[w][next[w]]
					if d := do(Event{E: "cr", W: w, Msg: &m}); d.Acc != nil && *d.Acc {
						next[w]++
						busy = true
					}
				}
				if d := do(Event{E: "tick", W: w}); d.Progress != nil && *d.Progress {
					busy = true
				}
				if d := do(Event{E: "sr", W: w}); d.Got != nil {
					busy = true
				}
				for k := 0; k < len(r.net) && !crashed; {
					if !r.deliverable(r.net[k]) {
						k++
						continue
					}
					if d := do(Event{E: "dr", K: k}); d.Acc != nil && *d.Acc {
						busy = true
					} else {
						k++
					}
				}
				if d := do(Event{E: "sl", W: w}); d.Got != nil {
					busy = true
				}
				for len(r.mq[w]) > 0 && !crashed {
					do(Event{E: "ms", W: w, K: 0})
					busy = true
				}
				if len(r.mr[w]) > 0 && r.loc[w].PeekIncoming() == nil {
					if d := do(Event{E: "dl", W: w, K: 0}); d.Acc != nil && *d.Acc {
						busy = true
					}
				}
				if takeCtrl {
					if d := do(Event{E: "tc", W: w}); d.Got != nil {
						busy = true
					}
				}
			}
			if !busy {
				c.Quiescent = true
				break
			}
		}
	}
	if c.Class == "stall" {
		drain(false)
	}
	drain(true)
	finish(&c, r, crashed)
	return c
}

func finish(c *Case, r *runner, crashed bool) {
	if crashed {
		if c.Class != "hostile" {
			r.flag("a controller panicked on protocol-respecting traffic")
		}
	} else {
		r.checkStores("at the end of the run")
		if c.Quiescent && r.monitored() {
			for w := 0; w < 2; w++ {
				if r.done[w] != len(r.accepted[w]) {
					r.flag(fmt.Sprintf("controller %d: %d requests accepted but %d completions after the system went quiet",
						w, len(r.accepted[w]), r.done[w]))
				}
			}
		}
		c.Final = r.windows(c)
	}
	if c.Final == nil {
		c.Final = []Window{}
	}
	c.Viol = r.viol
	c.Completed = r.done
	c.Accepted = [2]int{len(r.accepted[0]), len(r.accepted[1])}
	c.Refusals = r.refusals
	c.Reordered = r.reorder
	c.Coq = caseCoq(c)
}

// replay runs stored events (observations are recomputed).
func replay(in Case) Case {
	c := Case{Ka: in.Ka, Ca: in.Ca, Kb: in.Kb, Cb: in.Cb, Msize: in.Msize, Class: in.Class,
		Quiescent: in.Quiescent, Chunks: in.Chunks, MaxPageSize: in.MaxPageSize}
	r := newRunner(&c)
	crashed := false
	for _, e := range in.Events {
		ne := Event{E: e.E, W: e.W, K: e.K, Msg: e.Msg}
		if ne.Msg != nil && ne.Msg.Data == nil {
			ne.Msg.Data = []int{}
		}
		_, crashed = r.run1(&c, ne)
		if crashed {
			break
		}
	}
	if c.Quiescent && !r.quiescent() {
		c.Quiescent = false
	}
	finish(&c, r, crashed)
	return c
}

// ---- driver side: Driver.preparePageForMigration through the verif hook ----

type DPage struct {
	PID, PAddr, VAddr, Size, Device   uint64
	Valid, Unified, Migrating, Pinned bool
}

type DProbe struct {
	PID, VA uint64
	Found   bool
	Page    DPage
}

type DCase struct {
	Log2      uint64              `json:"log2"`
	PT        []DPage             `json:"pt"`
	Free      map[string][]uint64 `json:"free"`
	PID       uint64              `json:"pid"`
	VA        uint64              `json:"va"`
	GPU       uint64              `json:"gpu"`
	Panicked  bool                `json:"panicked"`
	New       DPage               `json:"new"`
	Old       uint64              `json:"old"`
	Probes    []DProbe            `json:"probes"`
	FreeAfter map[string][]uint64 `json:"free_after"`
	NGPU      int                 `json:"ngpu"`
	Viol      string              `json:"viol"`
	Coq       string              `json:"coq"`
}

func toDPage(p vm.Page) DPage {
	return DPage{uint64(p.PID), p.PAddr, p.VAddr, p.PageSize, p.DeviceID, p.Valid, p.Unified, p.IsMigrating, p.IsPinned}
}

func (p DPage) Coq() string {
	return fmt.Sprintf("(mkPage %d %d %d %d %s %d %s %s %s)", p.PID, p.PAddr, p.VAddr, p.Size, vh.CoqBool(p.Valid),
		p.Device, vh.CoqBool(p.Unified), vh.CoqBool(p.Migrating), vh.CoqBool(p.Pinned))
}

func freeCoq(ngpu int, f map[string][]uint64) string {
	var items []string
	for dev := 1; dev <= ngpu; dev++ {
		items = append(items, fmt.Sprintf("(%d, %s)", dev, vh.CoqNList(f[fmt.Sprint(dev)])))
	}
	return "[" + strings.Join(items, "; ") + "]"
}

func (c *DCase) coq() string {
	pt := make([]string, len(c.PT))
	for i, p := range c.PT {
		pt[i] = p.Coq()
	}
	res := "None"
	if !c.Panicked {
		res = fmt.Sprintf("(Some (%s, %d))", c.New.Coq(), c.Old)
	}
	pr := make([]string, len(c.Probes))
	for i, p := range c.Probes {
		v := "None"
		if p.Found {
			v = "(Some " + p.Page.Coq() + ")"
		}
		pr[i] = fmt.Sprintf("(%d, %d, %s)", p.PID, p.VA, v)
	}
	return fmt.Sprintf("mkMCase %d [%s] %s %d %d %d %s [%s] %s", c.Log2, strings.Join(pt, "; "), freeCoq(c.NGPU, c.Free),
		c.PID, c.VA, c.GPU, res, strings.Join(pr, "; "), freeCoq(c.NGPU, c.FreeAfter))
}

type known struct{ pid, va uint64 }

// genDriver builds a real driver, allocates memory and migrates pages; every
// call of preparePageForMigration becomes one case (state before, result,
// state after), checked here against the property and later against the model.
func genDriver(rng *vh.Rng) []DCase {
	const log2 = 12
	engine := sim.NewSerialEngine()
	pt := vm.NewPageTable(log2)
	d := driver.MakeBuilder().WithEngine(engine).WithPageTable(pt).WithLog2PageSize(log2).Build("Driver")
	ngpu := 2 + rng.Intn(3)
	for g := 0; g < ngpu; g++ {
		port := sim.NewPort(nil, 1, 1, fmt.Sprintf("GPU%d.CP", g+1))
		d.RegisterGPU(port, driver.DeviceProperties{CUCount: 4, DRAMSize: uint64(3+rng.Intn(10)) << log2})
	}
	ctxs := []*driver.Context{d.Init()}
	if rng.Bool() {
		ctxs = append(ctxs, d.Init())
	}
	var pages []known
	alloc := func() {
		defer func() { _ = recover() }() // a full device panics; the state stays usable for our purpose
		ctx := ctxs[rng.Intn(len(ctxs))]
		n := uint64(1 + rng.Intn(3))
		var ptr driver.Ptr
		if rng.Intn(3) == 0 {
			ptr = d.AllocateUnifiedMemory(ctx, n<<log2)
		} else {
			d.SelectGPU(ctx, 1+rng.Intn(ngpu))
			ptr = d.AllocateMemory(ctx, n<<log2)
		}
		for i := uint64(0); i < n; i++ {
			pages = append(pages, known{uint64(ctx.VerifPID()), uint64(ptr) + i<<log2})
		}
	}
	for i := 2 + rng.Intn(5); i > 0; i-- {
		alloc()
	}
	free := func() map[string][]uint64 {
		f := map[string][]uint64{}
		for dev := 1; dev <= ngpu; dev++ {
			l := d.VerifFreeList(dev)
			if l == nil {
				l = []uint64{}
			}
			f[fmt.Sprint(dev)] = l
		}
		return f
	}
	// an allocation that panics half way leaves pages behind: enumerate the
	// address range instead of trusting the bookkeeping above
	scan := func() []known {
		var l []known
		for _, x := range ctxs {
			for v := uint64(1); v < 48; v++ {
				if _, ok := pt.Find(x.VerifPID(), v<<log2); ok {
					l = append(l, known{uint64(x.VerifPID()), v << log2})
				}
			}
		}
		return l
	}
	var out []DCase
	for m := 1 + rng.Intn(4); m > 0; m-- {
		c := DCase{Log2: log2, NGPU: ngpu, PT: []DPage{}, Probes: []DProbe{}}
		pages = scan()
		for _, k := range pages {
			if p, ok := pt.Find(vm.PID(k.pid), k.va); ok {
				c.PT = append(c.PT, toDPage(p))
			}
		}
		c.Free = free()
		ctx := ctxs[rng.Intn(len(ctxs))]
		c.PID = uint64(ctx.VerifPID())
		c.VA = uint64(1+rng.Intn(12)) << log2 // may be unmapped
		if len(pages) > 0 && rng.Intn(6) > 0 {
			k := pages[rng.Intn(len(pages))]
			c.VA = k.va
			for _, x := range ctxs {
				if uint64(x.VerifPID()) == k.pid {
					ctx = x
					c.PID = k.pid
				}
			}
		}
		if rng.Intn(8) == 0 {
			c.VA += uint64(1 + rng.Intn(4000)) // not page aligned
		}
		c.GPU = uint64(rng.Intn(ngpu))
		if rng.Intn(12) == 0 {
			c.GPU = uint64(ngpu) // no such device
		}
		func() {
			defer func() {
				if recover() != nil {
					c.Panicked = true
				}
			}()
			np, old := d.VerifPreparePageForMigration(c.VA, ctx, c.GPU)
			c.New, c.Old = toDPage(np), old
		}()
		probes := append([]known{}, pages...)
		probes = append(probes, known{c.PID, c.VA}, known{c.PID, c.VA + 7}, known{c.PID + 1, c.VA}, known{c.PID, 99 << log2})
		for _, k := range probes {
			p, ok := pt.Find(vm.PID(k.pid), k.va)
			c.Probes = append(c.Probes, DProbe{PID: k.pid, VA: k.va, Found: ok, Page: toDPage(p)})
		}
		c.FreeAfter = free()
		c.Viol = c.monitor()
		c.Coq = c.coq()
		out = append(out, c)
		if c.Panicked {
			break
		}
	}
	return out
}

// monitor: C19's driver clause on what the real code did (aligned, mapped
// address, target with a free page): the page now maps to a fresh page of the
// target device and no other mapping changed.
func (c *DCase) monitor() string {
	mask := uint64(1)<<c.Log2 - 1
	var before *DPage
	for i := range c.PT {
		if c.PT[i].PID == c.PID && c.PT[i].VAddr == c.VA {
			before = &c.PT[i]
		}
	}
	target := c.Free[fmt.Sprint(c.GPU+1)]
	if c.VA&mask != 0 || before == nil || len(target) == 0 {
		return ""
	}
	if c.Panicked {
		return "preparePageForMigration panicked for a mapped page and a device with free pages"
	}
	if c.Old != before.PAddr {
		return fmt.Sprintf("old physical address %d, page table said %d", c.Old, before.PAddr)
	}
	if c.New.Device != c.GPU+1 || !c.New.Migrating || c.New.VAddr != c.VA || c.New.PID != c.PID || c.New.PAddr != target[0] {
		return fmt.Sprintf("new page %+v is not a fresh page of device %d", c.New, c.GPU+1)
	}
	for _, p := range c.Probes {
		same := p.PID == c.PID && p.VA&^mask == c.VA
		var was *DPage
		for i := range c.PT {
			if c.PT[i].PID == p.PID && c.PT[i].VAddr == p.VA&^mask {
				was = &c.PT[i]
			}
		}
		switch {
		case same && (!p.Found || p.Page != c.New):
			return fmt.Sprintf("lookup of the migrated page returns %+v", p.Page)
		case !same && p.Found != (was != nil), !same && was != nil && p.Page != *was:
			return fmt.Sprintf("mapping of (%d,%d) changed", p.PID, p.VA)
		}
	}
	for dev, l := range c.FreeAfter {
		b := c.Free[dev]
		if dev == fmt.Sprint(c.GPU+1) {
			b = b[1:]
		}
		if fmt.Sprint(l) != fmt.Sprint(b) {
			return "free list of device " + dev + " changed unexpectedly"
		}
	}
	return ""
}

// ---- driver handshake: drain - shootdown - migrate - restart ----

type HCmd struct {
	Kind   string   `json:"kind"` // Drain Shoot Mig Restart RdmaRestart
	G      uint64   `json:"g"`
	VAddrs []uint64 `json:"vaddrs"`
	PID    uint64   `json:"pid"`
	Host   uint64   `json:"host"`
	Size   uint64   `json:"size"`
	VAddr  uint64   `json:"vaddr"`
}

type HReq struct {
	Src       uint64     `json:"src"`
	Accessing []uint64   `json:"accessing"`
	Groups    [][]uint64 `json:"groups"` // [gpu, pages...]
	Host      uint64     `json:"host"`
	PID       uint64     `json:"pid"`
	PageSize  uint64     `json:"pagesize"`
	Top       bool       `json:"top"`
	Order     []uint64   `json:"order"`  // GPU numbers in the order the driver's map iteration served the groups (observed)
	ROrder    []uint64   `json:"rorder"` // the same for the second map iteration, which builds the answer to the MMU
}

type HEvent struct {
	E   string `json:"e"` // tick dm tm tg dg
	Req *HReq  `json:"req,omitempty"`
	Rsp string `json:"rsp,omitempty"` // Drain Shoot Mig Restart RdmaRestart
	G   uint64 `json:"g"`
	// observation
	Acc    *bool    `json:"acc,omitempty"`
	Cmd    *HCmd    `json:"cmd,omitempty"`
	None   bool     `json:"none,omitempty"`
	MDst   uint64   `json:"mdst"`
	MVAddr []uint64 `json:"mvaddr,omitempty"`
	MTop   bool     `json:"mtop"`
	MGot   bool     `json:"mgot"`
	Crash  bool     `json:"crash,omitempty"`
}

type HCase struct {
	NGPU       int      `json:"ngpu"`
	Events     []HEvent `json:"events"`
	Viol       string   `json:"viol"`
	Coq        string   `json:"coq"`
	Done       int      `json:"done"`
	Reqs       int      `json:"reqs"`
	Pages      int      `json:"pages"`
	Engine     bool     `json:"engine"`
	Late       bool     `json:"late"`       // completions taken from the MMU port 0-150 cycles late
	MaxLate    int      `json:"maxlate"`    // largest delay used
	Procs      int      `json:"procs"`      // processes (PIDs) with pages at the same virtual addresses
	ExtraCtx   int      `json:"extractx"`   // contexts made by InitWithExistingPID
	Checked    int      `json:"checked"`    // requests whose pages were compared after the last page acknowledgement
	MultiGroup int      `json:"multigroup"` // requests with >= 2 requesting GPUs
	MultiPage  int      `json:"multipage"`  // groups with >= 2 pages
}

func (c *HCmd) Coq() string {
	switch c.Kind {
	case "Drain":
		return fmt.Sprintf("(CDrain %d)", c.G)
	case "Shoot":
		return fmt.Sprintf("(CShoot %d %s %d)", c.G, vh.CoqNList(c.VAddrs), c.PID)
	case "Mig":
		return fmt.Sprintf("(CMig %d %d %d %d)", c.G, c.Host, c.Size, c.VAddr)
	case "Restart":
		return fmt.Sprintf("(CRestart %d)", c.G)
	case "RdmaRestart":
		return fmt.Sprintf("(CRdmaRestart %d)", c.G)
	}
	return "(CDrain 999999)"
}

func (q *HReq) Coq() string {
	gs := make([]string, len(q.Groups))
	for i, g := range q.Groups {
		gs[i] = fmt.Sprintf("(%d, %s)", g[0], vh.CoqNList(g[1:]))
	}
	return fmt.Sprintf("(mkMReq %d %s [%s] %d %d %d %s %s %s)", q.Src, vh.CoqNList(q.Accessing), strings.Join(gs, "; "),
		q.Host, q.PID, q.PageSize, vh.CoqBool(q.Top), vh.CoqNList(q.Order), vh.CoqNList(q.ROrder))
}

func (e *HEvent) Coq() string {
	var ev, ob string
	switch e.E {
	case "tick":
		ev, ob = "HTick", "HNone"
	case "dm":
		ev = "HDeliverMMU " + e.Req.Coq()
	case "tm":
		ev = "HTakeMMU"
		if e.MGot {
			ob = fmt.Sprintf("HRsp (Some (mkMRsp %d %s %s))", e.MDst, vh.CoqNList(e.MVAddr), vh.CoqBool(e.MTop))
		} else {
			ob = "HRsp None"
		}
	case "tg":
		ev = "HTakeGPU"
		if e.Cmd != nil {
			ob = "HCmd (Some " + e.Cmd.Coq() + ")"
		} else {
			ob = "HCmd None"
		}
	case "dg":
		ev = "HDeliverGPU R" + e.Rsp
	}
	if e.Acc != nil {
		ob = "HAcc " + vh.CoqBool(*e.Acc)
	}
	if e.Crash {
		ob = "HCrash"
	}
	return "(" + ev + ", " + ob + ")"
}

type hrunner struct {
	d       *driver.Driver
	pt      vm.PageTable
	gpuPort sim.Port
	mmuPort sim.Port
	cps     []sim.Port
	pmcs    []sim.Port
	ngpu    int
	// taken commands not yet answered, per kind
	outst map[string][]uint64
	// monitor
	accepted                                  []*HReq
	curIdx                                    int
	cur                                       *HReq
	nDrainR, nShootR, nMigR, nRestartR, nRdma int
	takenMig                                  int
	migAllDone                                int
	oldPAddr                                  map[uint64]uint64
	viol                                      string
	done                                      int
	// physical memory of all devices, one entry per physical page; the harness
	// executes every PageMigrationReqToCP as a page copy when it acknowledges it
	phys     map[uint64][]byte
	allVAs   []pkey
	snap     map[pkey]hsnap // state of every page when the current request could start
	migTaken []hmig         // page requests taken from the GPU port, not yet acknowledged
	migSeen  []hmig         // every page request of the current request
	checked  int
}

func addOnce(l []uint64, x uint64) []uint64 {
	for _, o := range l {
		if o == x {
			return l
		}
	}
	return append(l, x)
}

type pkey struct{ pid, va uint64 }

type hsnap struct {
	paddr, dev uint64
	data       []byte
}

type hmig struct {
	id          string
	read, write uint64
	size        uint64
	g           uint64
}

// page contents: distinct per virtual page; a page never written holds a pattern of its physical address
func (r *hrunner) page(pa uint64) []byte {
	if b, ok := r.phys[pa]; ok {
		return b
	}
	b := make([]byte, 4096)
	for i := range b {
		b[i] = genByte(pa>>12+uint64(i), 131, 77)
	}
	r.phys[pa] = b
	return b
}

func (r *hrunner) initMem(vas []pkey) {
	r.phys = map[uint64][]byte{}
	r.allVAs = vas
	for _, k := range vas {
		pg, _ := r.pt.Find(vm.PID(k.pid), k.va)
		b := make([]byte, 4096)
		for i := range b {
			b[i] = genByte(k.va>>12*4099+k.pid*977+uint64(i), 257, 3)
		}
		r.phys[pg.PAddr] = b
	}
}

// checkPages: the full observation of one migration request, once every page
// request was acknowledged (all copies executed, page table updated):
// every page of the request is mapped to its requesting GPU at a new physical
// page that holds the old contents; every other page keeps mapping and contents.
func (r *hrunner) checkPages() {
	q := r.cur
	r.checked++
	var bad []string
	moved := map[uint64]uint64{}
	newPA := map[uint64]uint64{}
	for _, g := range q.Groups {
		if g[0] < 1 || g[0] > uint64(r.ngpu) {
			continue
		}
		for _, va := range g[1:] {
			moved[va] = g[0]
		}
	}
	for _, k := range r.allVAs {
		va := k.va
		old := r.snap[k]
		pg, found := r.pt.Find(vm.PID(k.pid), va)
		if !found {
			bad = append(bad, fmt.Sprintf("page 0x%x of process %d lost its page-table entry", va, k.pid))
			continue
		}
		if dst, ok := moved[va]; ok && k.pid == q.PID {
			if pg.DeviceID != dst {
				bad = append(bad, fmt.Sprintf("page 0x%x requested by GPU %d is mapped to device %d", va, dst, pg.DeviceID))
			}
			if pg.PAddr == old.paddr {
				bad = append(bad, fmt.Sprintf("page 0x%x still at physical 0x%x", va, pg.PAddr))
			}
			if o, dup := newPA[pg.PAddr]; dup {
				bad = append(bad, fmt.Sprintf("pages 0x%x and 0x%x share physical page 0x%x", o, va, pg.PAddr))
			}
			newPA[pg.PAddr] = va
			if pg.VAddr != va || uint64(pg.PID) != k.pid || !pg.Valid {
				bad = append(bad, fmt.Sprintf("page 0x%x: entry has vaddr 0x%x pid %d valid %v", va, pg.VAddr, pg.PID, pg.Valid))
			}
			diff := 0
			now := r.page(pg.PAddr)
			for i := range now {
				if now[i] != old.data[i] {
					diff++
				}
			}
			if diff > 0 {
				bad = append(bad, fmt.Sprintf("page 0x%x (now at physical 0x%x on device %d): %d of 4096 bytes differ from the contents before the migration",
					va, pg.PAddr, pg.DeviceID, diff))
			}
		} else {
			if pg.PAddr != old.paddr || pg.DeviceID != old.dev {
				bad = append(bad, fmt.Sprintf("page 0x%x of process %d is not part of the request (process %d), its mapping changed from 0x%x/device %d to 0x%x/device %d",
					va, k.pid, q.PID, old.paddr, old.dev, pg.PAddr, pg.DeviceID))
			} else if string(r.page(pg.PAddr)) != string(old.data) {
				bad = append(bad, fmt.Sprintf("page 0x%x of process %d is not part of the request, its contents changed", va, k.pid))
			}
		}
	}
	ids, tgt := map[string]bool{}, map[uint64]bool{}
	for _, m := range r.migSeen {
		if ids[m.id] {
			bad = append(bad, "the same PageMigrationReqToCP message was sent twice")
		}
		if tgt[m.write] {
			bad = append(bad, fmt.Sprintf("physical page 0x%x is the target of two copies", m.write))
		}
		ids[m.id], tgt[m.write] = true, true
	}
	if len(r.migSeen) != len(moved) {
		bad = append(bad, fmt.Sprintf("%d page requests for %d pages", len(r.migSeen), len(moved)))
	}
	if len(bad) > 0 {
		r.flag(fmt.Sprintf("migration request %d (%d groups, %d pages): %s", r.curIdx, len(q.Groups), len(moved), strings.Join(bad, "; ")))
	}
}

// startReq: the driver can only begin the next accepted request once the
// previous handshake is complete; the page table is stable at that moment
func (r *hrunner) startReq() {
	r.cur = nil
	if r.curIdx >= len(r.accepted) {
		return
	}
	q := r.accepted[r.curIdx]
	r.cur = q
	r.nDrainR, r.nShootR, r.nMigR, r.nRestartR, r.nRdma, r.takenMig = 0, 0, 0, 0, 0, 0
	r.oldPAddr = map[uint64]uint64{}
	r.snap = map[pkey]hsnap{}
	r.migTaken, r.migSeen = nil, nil
	for _, k := range r.allVAs {
		if pg, found := r.pt.Find(vm.PID(k.pid), k.va); found {
			r.snap[k] = hsnap{pg.PAddr, pg.DeviceID, append([]byte{}, r.page(pg.PAddr)...)}
		}
	}
	for _, g := range q.Groups {
		for _, va := range g[1:] {
			if pg, found := r.pt.Find(vm.PID(q.PID), va); found {
				r.oldPAddr[va] = pg.PAddr
			}
		}
	}
}

func (r *hrunner) flag(s string) {
	if r.viol == "" {
		r.viol = s
	}
}

func (r *hrunner) gpuIndex(p sim.RemotePort) uint64 {
	for i, c := range r.cps {
		if c.AsRemote() == p {
			return uint64(i)
		}
	}
	return 999999
}

func (r *hrunner) canonCmd(m sim.Msg) *HCmd {
	c := &HCmd{G: r.gpuIndex(m.Meta().Dst), VAddrs: []uint64{}}
	switch x := m.(type) {
	case *protocol.RDMADrainCmdFromDriver:
		c.Kind = "Drain"
	case *protocol.ShootDownCommand:
		c.Kind = "Shoot"
		c.VAddrs = append([]uint64{}, x.VAddr...)
		c.PID = uint64(x.PID)
	case *protocol.PageMigrationReqToCP:
		c.Kind = "Mig"
		c.Size = x.PageSize
		c.Host = 999999
		for i, p := range r.pmcs {
			if p == x.DestinationPMCPort {
				c.Host = uint64(i + 1)
			}
		}
		mg := hmig{x.ID, x.ToReadFromPhysicalAddress, x.ToWriteToPhysicalAddress, x.PageSize, c.G}
		r.migTaken = append(r.migTaken, mg)
		r.migSeen = append(r.migSeen, mg)
		if r.cur != nil {
			seen := false
			for _, o := range r.cur.Order {
				seen = seen || o == c.G+1
			}
			if !seen {
				r.cur.Order = append(r.cur.Order, c.G+1)
			}
		}
		if pg, ok := r.pt.ReverseLookup(x.ToWriteToPhysicalAddress); ok {
			c.VAddr = pg.VAddr
			// monitor: addresses of the request
			if r.cur != nil && uint64(pg.PID) != r.cur.PID {
				r.flag(fmt.Sprintf("migration request for process %d writes to a page of process %d", r.cur.PID, pg.PID))
			}
			if pg.DeviceID != c.G+1 || !pg.IsMigrating {
				r.flag(fmt.Sprintf("migration request to GPU %d writes to a page of device %d (migrating=%v)", c.G, pg.DeviceID, pg.IsMigrating))
			}
			if old, ok := r.oldPAddr[pg.VAddr]; ok && old != x.ToReadFromPhysicalAddress {
				r.flag(fmt.Sprintf("migration request reads from %d, the page was at %d", x.ToReadFromPhysicalAddress, old))
			}
		} else {
			r.flag("migration request writes to an address the page table does not know")
		}
	case *protocol.GPURestartReq:
		c.Kind = "Restart"
	case *protocol.RDMARestartCmdFromDriver:
		c.Kind = "RdmaRestart"
	default:
		c.Kind = "Other"
	}
	return c
}

// monitor: the order clauses of C19's handshake, on what the real driver sent
func (r *hrunner) onCmd(c *HCmd) {
	if r.cur == nil {
		r.flag("the driver sent " + c.Kind + " without a migration request")
		return
	}
	k, m := len(r.cur.Accessing), 0
	for _, g := range r.cur.Groups {
		m += len(g) - 1
	}
	switch c.Kind {
	case "Shoot":
		if r.nDrainR != r.ngpu {
			r.flag(fmt.Sprintf("shootdown sent after %d of %d drain acknowledgements", r.nDrainR, r.ngpu))
		}
	case "Mig":
		if r.nDrainR != r.ngpu || r.nShootR != k {
			r.flag(fmt.Sprintf("page request sent after %d/%d drain and %d/%d shootdown acknowledgements", r.nDrainR, r.ngpu, r.nShootR, k))
		}
		r.takenMig++
		if r.takenMig-r.nMigR > 1 {
			r.flag("two page requests in flight")
		}
	case "Restart":
		if r.nMigR != m {
			r.flag(fmt.Sprintf("GPU restart sent after %d of %d page completions", r.nMigR, m))
		}
	case "RdmaRestart":
		if r.nRestartR != k {
			r.flag(fmt.Sprintf("RDMA restart sent after %d of %d GPU restart acknowledgements", r.nRestartR, k))
		}
	}
}

func (r *hrunner) apply(e *HEvent) (crashed bool) {
	defer func() {
		if x := recover(); x != nil {
			e.Crash = true
			crashed = true
		}
	}()
	switch e.E {
	case "tick":
		r.d.Tick()
	case "dm":
		q := e.Req
		m := vm.NewPageMigrationReqToDriver(sim.RemotePort(fmt.Sprintf("MMU%d", q.Src)), r.mmuPort.AsRemote())
		m.CurrAccessingGPUs = append([]uint64{}, q.Accessing...)
		m.MigrationInfo = &vm.PageMigrationInfo{GPUReqToVAddrMap: map[uint64][]uint64{}}
		for _, g := range q.Groups {
			m.MigrationInfo.GPUReqToVAddrMap[g[0]] = append([]uint64{}, g[1:]...)
		}
		m.PID, m.CurrPageHostGPU, m.PageSize, m.RespondToTop = vm.PID(q.PID), q.Host, q.PageSize, q.Top
		ok := r.mmuPort.Deliver(m) == nil
		e.Acc = bp(ok)
		if ok {
			r.accepted = append(r.accepted, q)
			if r.cur == nil {
				r.startReq()
			}
		}
	case "tm":
		m := r.mmuPort.RetrieveOutgoing()
		if m == nil {
			break
		}
		x := m.(*vm.PageMigrationRspFromDriver)
		e.MGot = true
		fmt.Sscanf(string(x.Dst), "MMU%d", &e.MDst)
		e.MVAddr = append([]uint64{}, x.VAddr...)
		e.MTop = x.RspToTop
		if r.done < len(r.accepted) {
			q := r.accepted[r.done]
			for _, va := range x.VAddr {
				for _, g := range q.Groups {
					for _, p := range g[1:] {
						if p == va {
							q.ROrder = addOnce(q.ROrder, g[0])
						}
					}
				}
			}
		}
		if r.done >= r.migAllDone {
			r.flag("the MMU was answered before every page of the request was migrated")
		}
		r.done++
	case "tg":
		m := r.gpuPort.RetrieveOutgoing()
		if m == nil {
			e.None = true
			break
		}
		e.Cmd = r.canonCmd(m)
		r.onCmd(e.Cmd)
		r.outst[e.Cmd.Kind] = append(r.outst[e.Cmd.Kind], e.Cmd.G)
	case "dg":
		src := r.cps[e.G]
		var m sim.Msg
		switch e.Rsp {
		case "Drain":
			m = protocol.NewRDMADrainRspToDriver(src, r.gpuPort)
			r.nDrainR++
		case "Shoot":
			m = protocol.NewShootdownCompleteRsp(src, r.gpuPort)
			r.nShootR++
		case "Mig":
			m = protocol.NewPageMigrationRspToDriver(src, r.gpuPort)
			r.nMigR++
			if len(r.migTaken) > 0 {
				// the command processor / the two PMCs did the copy
				mg := r.migTaken[0]
				r.migTaken = r.migTaken[1:]
				if mg.size == 4096 {
					data := append([]byte{}, r.page(mg.read)...)
					copy(r.page(mg.write), data)
				}
			}
			if r.cur != nil {
				mm := 0
				for _, g := range r.cur.Groups {
					mm += len(g) - 1
				}
				if r.nMigR == mm {
					r.migAllDone++
					r.checkPages()
				}
			}
		case "Restart":
			m = protocol.NewGPURestartRsp(src, r.gpuPort)
			r.nRestartR++
		case "RdmaRestart":
			m = protocol.NewRDMARestartRspToDriver(src, r.gpuPort)
			r.nRdma++
			if r.nRdma == r.ngpu {
				r.curIdx++
				r.startReq()
			}
		}
		e.Acc = bp(r.gpuPort.Deliver(m) == nil)
	}
	return false
}

type hproc struct {
	ctxs  []*driver.Context
	pid   uint64
	onDev map[int][]uint64
}

// genHandshake: late = the MMU side takes every completion 0-150 cycles late
// (back-pressure on the one-entry MMU port) while further requests are queued.
func genHandshake(rng *vh.Rng, late bool) HCase {
	const log2 = 12
	engine := sim.NewSerialEngine()
	pt := vm.NewPageTable(log2)
	d := driver.MakeBuilder().WithEngine(engine).WithPageTable(pt).WithLog2PageSize(log2).Build("Driver")
	ngpu := 2 + rng.Intn(3)
	r := &hrunner{d: d, pt: pt, ngpu: ngpu, outst: map[string][]uint64{}}
	conn := &vh.StubConn{}
	r.gpuPort = d.GetPortByName("GPU")
	r.mmuPort = d.GetPortByName("MMU")
	conn.PlugIn(r.gpuPort)
	conn.PlugIn(r.mmuPort)
	for g := 0; g < ngpu; g++ {
		cp := sim.NewPort(nil, 1, 1, fmt.Sprintf("GPU%d.CP", g+1))
		pmc := sim.NewPort(nil, 1, 1, fmt.Sprintf("GPU%d.PMC", g+1))
		r.cps, r.pmcs = append(r.cps, cp), append(r.pmcs, pmc)
		d.RegisterGPU(cp, driver.DeviceProperties{CUCount: 4, DRAMSize: 64 << log2})
		d.RemotePMCPorts = append(d.RemotePMCPorts, pmc)
	}
	c := HCase{NGPU: ngpu, Late: late}
	// 1-3 processes; every process starts its virtual addresses at the same
	// base, so pages of different processes share virtual addresses.  Extra
	// contexts of existing processes (InitWithExistingPID) are created between
	// the Inits, so the position of a context says nothing about its PID.
	nproc := 1 + rng.Intn(3)
	var procs []*hproc
	for p := 0; p < nproc; p++ {
		ctx := d.Init()
		procs = append(procs, &hproc{ctxs: []*driver.Context{ctx}, pid: uint64(ctx.VerifPID()), onDev: map[int][]uint64{}})
		for x := rng.Intn(3); x > 0; x-- {
			o := procs[rng.Intn(len(procs))]
			o.ctxs = append(o.ctxs, d.InitWithExistingPID(o.ctxs[rng.Intn(len(o.ctxs))]))
			c.ExtraCtx++
		}
	}
	c.Procs = nproc
	var allVAs []pkey
	for _, pr := range procs {
		for g := 1; g <= ngpu; g++ {
			ctx := pr.ctxs[rng.Intn(len(pr.ctxs))]
			d.SelectGPU(ctx, g)
			n := uint64(2 + rng.Intn(9))
			if nproc > 1 {
				n = uint64(2 + rng.Intn(4))
			}
			ptr := d.AllocateMemory(ctx, n<<log2)
			for i := uint64(0); i < n; i++ {
				pr.onDev[g] = append(pr.onDev[g], uint64(ptr)+i<<log2)
				allVAs = append(allVAs, pkey{pr.pid, uint64(ptr) + i<<log2})
			}
		}
	}
	r.initMem(allVAs)
	nreq := 1 + rng.Intn(3)
	if late {
		nreq = 2 + rng.Intn(2)
	}
	var reqs []*HReq
	for j := 0; j < nreq; j++ {
		pr := procs[rng.Intn(nproc)]
		onDev, pid := pr.onDev, pr.pid
		host := 1 + rng.Intn(ngpu)
		if len(onDev[host]) == 0 {
			continue
		}
		// one request: 1-3 requesting GPUs (all different from the host), 1, 2, 3 or 5 pages each,
		// the pages of the groups interleaved in the host's buffer
		var dests []int
		for g := 1; g <= ngpu; g++ {
			if g != host {
				dests = append(dests, g)
			}
		}
		for i := len(dests) - 1; i > 0; i-- {
			k := rng.Intn(i + 1)
			dests[i], dests[k] = dests[k], dests[i]
		}
		ng := 1 + rng.Intn(len(dests))
		if ng > 3 {
			ng = 3
		}
		dests = dests[:ng]
		sort.Ints(dests) // GPUReqToVAddrMap is a map; the model lists the groups by ascending GPU number
		avail := append([]uint64{}, onDev[host]...)
		for i := len(avail) - 1; i > 0; i-- {
			k := rng.Intn(i + 1)
			avail[i], avail[k] = avail[k], avail[i]
		}
		var groups [][]uint64
		np := 0
		for _, to := range dests {
			k := []int{1, 2, 3, 5, 2, 3}[rng.Intn(6)]
			if k > len(avail) {
				k = len(avail)
			}
			if k == 0 {
				break
			}
			pages := append([]uint64{}, avail[:k]...)
			avail = avail[k:]
			onDev[to] = append(onDev[to], pages...)
			groups = append(groups, append([]uint64{uint64(to)}, pages...))
			np += k
		}
		onDev[host] = avail
		var acc []uint64
		for g := 1; g <= ngpu; g++ {
			if rng.Intn(3) > 0 {
				acc = append(acc, uint64(g))
			}
		}
		if len(acc) == 0 {
			acc = []uint64{uint64(host)}
		}
		// the controller shuffles nothing: order as given
		if rng.Bool() {
			for i := len(acc) - 1; i > 0; i-- {
				k := rng.Intn(i + 1)
				acc[i], acc[k] = acc[k], acc[i]
			}
		}
		reqs = append(reqs, &HReq{Src: uint64(50 + j), Accessing: acc, Groups: groups,
			Host: uint64(host), PID: pid, PageSize: 1 << log2, Top: rng.Bool(), Order: []uint64{}, ROrder: []uint64{}})
		c.Pages += np
	}
	c.Reqs = len(reqs)
	next := 0
	crashed := false
	run := func(e HEvent) HEvent {
		if crashed {
			return e
		}
		crashed = r.apply(&e)
		c.Events = append(c.Events, e)
		return e
	}
	answer := func(kind string) bool {
		l := r.outst[kind]
		if len(l) == 0 {
			return false
		}
		k := rng.Intn(len(l))
		g := l[k]
		r.outst[kind] = append(append([]uint64{}, l[:k]...), l[k+1:]...)
		run(HEvent{E: "dg", Rsp: kind, G: g})
		return true
	}
	kinds := []string{"Drain", "Shoot", "Mig", "Restart", "RdmaRestart"}
	wt := []int{1 + rng.Intn(10), 1 + rng.Intn(5), 1 + rng.Intn(5), 1 + rng.Intn(10), 1 + rng.Intn(10)}
	if late {
		takeAt := -1
		pagesOf := func(q *HReq) int {
			m := 0
			for _, g := range q.Groups {
				m += len(g) - 1
			}
			return m
		}
		for round := 0; round < 2500 && !crashed; round++ {
			busy := false
			if next < len(reqs) && r.mmuPort.PeekIncoming() == nil {
				if e := run(HEvent{E: "dm", Req: reqs[next]}); e.Acc != nil && *e.Acc {
					next++
					busy = true
				}
			}
			if r.gpuPort.PeekIncoming() != nil || r.mmuPort.PeekIncoming() != nil {
				busy = true
			}
			run(HEvent{E: "tick"})
			for r.gpuPort.PeekOutgoing() != nil && !crashed {
				run(HEvent{E: "tg"})
				busy = true
			}
			for _, k := range kinds {
				for len(r.outst[k]) > 0 {
					// the driver has ONE slot for a completion that the port refused: a third pending
					// completion would overwrite it (documented limitation); the MMU side of these
					// scenarios is at most one whole migration late
					if k == "Mig" && r.cur != nil && r.nMigR+1 == pagesOf(r.cur) {
						for it := 0; it < 80 && r.migAllDone-r.done >= 2 && !crashed; it++ {
							if r.mmuPort.PeekOutgoing() != nil {
								run(HEvent{E: "tm"})
								takeAt = -1
							}
							run(HEvent{E: "tick"})
						}
					}
					answer(k)
					busy = true
				}
			}
			if r.mmuPort.PeekOutgoing() != nil {
				busy = true
				if takeAt < 0 {
					dl := rng.Intn(151)
					if rng.Intn(4) == 0 {
						dl = rng.Intn(6)
					}
					takeAt = round + dl
					if dl > c.MaxLate {
						c.MaxLate = dl
					}
				}
				if round >= takeAt {
					run(HEvent{E: "tm"})
					takeAt = -1
				}
			}
			if !busy {
				break
			}
		}
	}
	for i := 0; i < 150+80*c.Pages && !crashed && !late; i++ {
		switch rng.Pick(wt...) {
		case 0:
			run(HEvent{E: "tick"})
		case 1:
			if next < len(reqs) {
				if e := run(HEvent{E: "dm", Req: reqs[next]}); e.Acc != nil && *e.Acc {
					next++
				}
			}
		case 2:
			run(HEvent{E: "tm"})
		case 3:
			run(HEvent{E: "tg"})
		case 4:
			answer(kinds[rng.Intn(len(kinds))])
		}
	}
	// drain
	for round := 0; round < 400 && !crashed; round++ {
		busy := false
		if next < len(reqs) && r.mmuPort.PeekIncoming() == nil {
			if e := run(HEvent{E: "dm", Req: reqs[next]}); e.Acc != nil && *e.Acc {
				next++
				busy = true
			}
		}
		// Tick's return value is not a reliable progress signal
		// (processShootdownCompleteRsp reports false after consuming a message)
		if r.gpuPort.PeekIncoming() != nil || r.mmuPort.PeekIncoming() != nil {
			busy = true
		}
		if r.d.Tick() {
			busy = true
		}
		c.Events = append(c.Events, HEvent{E: "tick"})
		for r.gpuPort.PeekOutgoing() != nil && !crashed {
			run(HEvent{E: "tg"})
			busy = true
		}
		for _, k := range kinds {
			for answer(k) {
				busy = true
			}
		}
		if r.mmuPort.PeekOutgoing() != nil {
			run(HEvent{E: "tm"})
			busy = true
		}
		if !busy {
			break
		}
	}
	if crashed {
		r.flag("the driver panicked during a well-formed migration handshake")
	} else if r.done != len(reqs) {
		r.flag(fmt.Sprintf("%d migration requests, %d answers to the MMU after the system went quiet", len(reqs), r.done))
	}
	c.Done = r.done
	c.Viol = r.viol
	c.Checked = r.checked
	for _, q := range reqs {
		// groups the driver never got to: any order will do
		for _, g := range q.Groups {
			q.Order = addOnce(q.Order, g[0])
			q.ROrder = addOnce(q.ROrder, g[0])
		}
		if len(q.Groups) >= 2 {
			c.MultiGroup++
		}
		for _, g := range q.Groups {
			if len(g)-1 >= 2 {
				c.MultiPage++
			}
		}
	}
	items := make([]string, len(c.Events))
	for i := range c.Events {
		items[i] = c.Events[i].Coq()
	}
	var parts []string
	for i := 0; i < len(items); i += 300 {
		j := i + 300
		if j > len(items) {
			j = len(items)
		}
		parts = append(parts, "["+strings.Join(items[i:j], ";\n  ")+"]")
	}
	c.Coq = fmt.Sprintf("mkHCase %d (List.concat [%s])", ngpu, strings.Join(parts, ";\n "))
	return c
}

// genHandshakeEngine drives the same handshake, but the driver is ticked by the
// event engine (TickingComponent: another tick only after a tick that reports
// progress, or when a port notifies it), which is how it runs in a simulation.
// Acknowledgements are delivered in bursts, so that several wait in the port.
func genHandshakeEngine(rng *vh.Rng) HCase {
	const log2 = 12
	engine := sim.NewSerialEngine()
	pt := vm.NewPageTable(log2)
	d := driver.MakeBuilder().WithEngine(engine).WithPageTable(pt).WithLog2PageSize(log2).Build("Driver")
	ngpu := 2 + rng.Intn(3)
	r := &hrunner{d: d, pt: pt, ngpu: ngpu, outst: map[string][]uint64{}}
	conn := &vh.StubConn{}
	r.gpuPort = d.GetPortByName("GPU")
	r.mmuPort = d.GetPortByName("MMU")
	conn.PlugIn(r.gpuPort)
	conn.PlugIn(r.mmuPort)
	for g := 0; g < ngpu; g++ {
		cp := sim.NewPort(nil, 1, 1, fmt.Sprintf("GPU%d.CP", g+1))
		pmc := sim.NewPort(nil, 1, 1, fmt.Sprintf("GPU%d.PMC", g+1))
		r.cps, r.pmcs = append(r.cps, cp), append(r.pmcs, pmc)
		d.RegisterGPU(cp, driver.DeviceProperties{CUCount: 4, DRAMSize: 64 << log2})
		d.RemotePMCPorts = append(d.RemotePMCPorts, pmc)
	}
	ctx := d.Init()
	d.SelectGPU(ctx, 1)
	ptr := d.AllocateMemory(ctx, 2<<log2)
	var acc []uint64
	for g := 1; g <= ngpu; g++ {
		if g <= 2 || rng.Bool() {
			acc = append(acc, uint64(g))
		}
	}
	q := &HReq{Src: 50, Accessing: acc, Groups: [][]uint64{{2, uint64(ptr), uint64(ptr) + 1<<log2}}, Host: 1,
		PID: uint64(ctx.VerifPID()), PageSize: 1 << log2, Top: true, Order: []uint64{}, ROrder: []uint64{}}
	r.initMem([]pkey{{q.PID, uint64(ptr)}, {q.PID, uint64(ptr) + 1<<log2}})
	c := HCase{NGPU: ngpu, Reqs: 1, Pages: 2, Engine: true}
	crashed := false
	run := func(e HEvent) {
		if crashed {
			return
		}
		crashed = r.apply(&e)
		c.Events = append(c.Events, e)
	}
	run(HEvent{E: "dm", Req: q})
	kinds := []string{"Drain", "Shoot", "Mig", "Restart", "RdmaRestart"}
	for round := 0; round < 60 && !crashed; round++ {
		busy := false
		func() {
			defer func() {
				if recover() != nil {
					crashed = true
				}
			}()
			engine.Run() // every scheduled tick
		}()
		for r.gpuPort.PeekOutgoing() != nil && !crashed {
			run(HEvent{E: "tg"})
			busy = true
		}
		if r.mmuPort.PeekOutgoing() != nil {
			run(HEvent{E: "tm"})
			busy = true
		}
		// a burst: every outstanding command is answered before the driver runs again
		for _, k := range kinds {
			for len(r.outst[k]) > 0 {
				g := r.outst[k][0]
				r.outst[k] = r.outst[k][1:]
				run(HEvent{E: "dg", Rsp: k, G: g})
				busy = true
			}
		}
		if !busy {
			break
		}
	}
	if crashed {
		r.flag("the driver panicked during a well-formed migration handshake")
	} else if r.done != 1 {
		stuck := "nothing"
		if m := r.gpuPort.PeekIncoming(); m != nil {
			stuck = fmt.Sprintf("%T", m)
		}
		r.flag(fmt.Sprintf("engine-driven handshake went quiet without answering the MMU; waiting in the driver's GPU port: %s", stuck))
	}
	c.Done = r.done
	c.Viol = r.viol
	c.Checked = r.checked
	c.MultiPage = 1
	c.Coq = ""
	return c
}

func whoCoq(w int) string {
	if w == 0 {
		return "PA"
	}
	return "PB"
}

func evCoq(e *Event) string {
	var ev, ob string
	switch e.E {
	case "tick":
		ev = "ETick " + whoCoq(e.W)
	case "sr":
		ev = "ESendRemote " + whoCoq(e.W)
	case "dr":
		ev = fmt.Sprintf("EDeliverRemote %d%%nat", e.K)
	case "sl":
		ev = "ESendLocal " + whoCoq(e.W)
	case "ms":
		ev = fmt.Sprintf("EMemServe %s %d%%nat", whoCoq(e.W), e.K)
	case "dl":
		ev = fmt.Sprintf("EDeliverLocal %s %d%%nat", whoCoq(e.W), e.K)
	case "cr":
		ev = fmt.Sprintf("ECtrlReq %s %s", whoCoq(e.W), e.Msg.migCoq())
	case "tc":
		ev = "ETakeCtrl " + whoCoq(e.W)
	case "inj":
		ev = "EInject " + e.Msg.Coq()
	}
	switch {
	case e.Crash:
		ob = "OCrash"
	case e.Acc != nil:
		ob = "OAcc " + vh.CoqBool(*e.Acc)
	case e.Progress != nil:
		ob = "OTick " + vh.CoqBool(*e.Progress)
	case e.None:
		ob = "OMsg None"
	case e.Got != nil:
		ob = "OMsg (Some " + e.Got.Coq() + ")"
	}
	return "(" + ev + ", " + ob + ")"
}

func caseCoq(c *Case) string {
	items := make([]string, len(c.Events))
	for i := range c.Events {
		items[i] = evCoq(&c.Events[i])
	}
	ws := make([]string, len(c.Final))
	for i, w := range c.Final {
		ws[i] = fmt.Sprintf("mkWin %s %d %d%%nat %d", whoCoq(w.W), w.Lo, w.Len, w.Sum)
	}
	// long list literals overflow coqc's stack: emit the trace in pieces
	var parts []string
	for i := 0; i < len(items); i += 300 {
		j := i + 300
		if j > len(items) {
			j = len(items)
		}
		parts = append(parts, "["+strings.Join(items[i:j], ";\n  ")+"]")
	}
	return fmt.Sprintf("mkCase %d %d %d %d (List.concat [%s]) [%s]", c.Ka, c.Ca, c.Kb, c.Cb,
		strings.Join(parts, ";\n "), strings.Join(ws, "; "))
}

func main() {
	seed := flag.Uint64("seed", 1, "seed")
	n := flag.Int("n", 100, "number of schedules")
	out := flag.String("out", "", "output JSON file")
	rep := flag.String("replay", "", "JSON file with cases to replay")
	drvN := flag.Int("drv-n", 0, "number of driver scenarios (preparePageForMigration)")
	drvOut := flag.String("drv-out", "", "output JSON file for the driver cases")
	hsN := flag.Int("hs-n", 0, "number of driver handshake scenarios")
	hsOut := flag.String("hs-out", "", "output JSON file for the handshake cases")
	bankN := flag.Int("bank-n", 0, "number of banked-memory scenarios (interleaved MemCtrlFinder)")
	bankOut := flag.String("bank-out", "", "output JSON file for the banked-memory scenarios")
	bankRep := flag.String("bank-replay", "", "JSON file with banked-memory scenarios to run again")
	flag.Parse()
	log.SetOutput(io.Discard) // the controllers log before they panic

	if *bankOut != "" {
		bcs := []BCase{}
		if *bankRep != "" {
			data, err := os.ReadFile(*bankRep)
			if err != nil {
				panic(err)
			}
			var in []BCase
			if err := json.Unmarshal(data, &in); err != nil {
				panic(err)
			}
			for _, c := range in {
				bcs = append(bcs, runBanked(c))
			}
		} else {
			rng := vh.NewRng(*seed ^ 0xba9c)
			for i := 0; i < *bankN; i++ {
				bcs = append(bcs, genBanked(rng.Fork(), i))
			}
		}
		data, _ := json.Marshal(bcs)
		if err := os.WriteFile(*bankOut, data, 0o644); err != nil {
			panic(err)
		}
		return
	}

	if *hsOut != "" {
		rng := vh.NewRng(*seed ^ 0xabcd)
		hcs := []HCase{}
		for i := 0; i < *hsN; i++ {
			hcs = append(hcs, genHandshake(rng.Fork(), i%3 == 2))
			if i%8 == 0 {
				hcs = append(hcs, genHandshakeEngine(rng.Fork()))
			}
		}
		data, _ := json.Marshal(hcs)
		if err := os.WriteFile(*hsOut, data, 0o644); err != nil {
			panic(err)
		}
		return
	}
	if *drvOut != "" {
		rng := vh.NewRng(*seed ^ 0x5eed)
		dcs := []DCase{}
		for i := 0; i < *drvN; i++ {
			dcs = append(dcs, genDriver(rng.Fork())...)
		}
		data, _ := json.Marshal(dcs)
		if err := os.WriteFile(*drvOut, data, 0o644); err != nil {
			panic(err)
		}
		return
	}

	var cases []Case
	if *rep != "" {
		data, err := os.ReadFile(*rep)
		if err != nil {
			panic(err)
		}
		var in []Case
		if err := json.Unmarshal(data, &in); err != nil {
			panic(err)
		}
		for _, c := range in {
			cases = append(cases, replay(c))
		}
	} else {
		rng := vh.NewRng(*seed)
		for i := 0; i < *n; i++ {
			cases = append(cases, generate(rng.Fork(), i))
		}
	}
	data, _ := json.Marshal(cases)
	if *out == "" {
		os.Stdout.Write(data)
	} else if err := os.WriteFile(*out, data, 0o644); err != nil {
		panic(err)
	}
}
