// Command c14 assembles micro-programs (barrier ladders, early exits,
// load / wait-count / use sequences, 1..16 wavefronts per work-group), runs
// them on the real timing platform (an R9 Nano reduced to one compute unit so
// that all work-groups share one scheduler) and on the emulator, and records
// per compute-unit cycle what the scheduler did.
package main

import (
	"bufio"
	"encoding/json"
	"flag"
	"fmt"
	"os"
	"os/exec"
	"strings"
	"sync"
)

// Case is one program plus (after a run) what was observed.
type Case struct {
	Name  string `json:"name,omitempty"`
	NWf   int    `json:"nwf"` // wavefronts per work-group
	NWg   int    `json:"nwg"` // work-groups
	Prog  []Stmt `json:"prog"`
	Pen   int    `json:"pen,omitempty"`   // coalescing penalty of the vector memory unit (0 = R9 Nano, 3 = MI300A)
	GPU   string `json:"gpu,omitempty"`   // "" = R9 Nano / GCN3, "mi300a" = MI300A compute unit / CDNA3 ALU and emulator
	Flush []int  `json:"flush,omitempty"` // CU cycles (after the first work-group arrived) at which the harness, playing the command processor, sends CUPipelineFlushReq, then CUPipelineRestartReq
	Refuse int   `json:"refuse,omitempty"` // the dispatch port refuses the first Refuse Send attempts of every WGCompletionMsg
	Known bool   `json:"known,omitempty"` // member of the documented early-exit class (witness only)

	Words  []string   `json:"words,omitempty"`
	Timing *TimingObs `json:"timing,omitempty"`
	Emu    *EmuObs    `json:"emu,omitempty"`
	Coq    string     `json:"coq,omitempty"`
	CoqEmu string     `json:"coq_emu,omitempty"`
}

func strip(c Case) Case {
	return Case{Name: c.Name, NWf: c.NWf, NWg: c.NWg, Prog: c.Prog, Pen: c.Pen, GPU: c.GPU, Flush: c.Flush, Refuse: c.Refuse, Known: c.Known}
}

func runCase(c Case, timeoutMs int) Case {
	ws := assemble(c.Prog, 64*c.NWf)
	c.Words = nil
	for _, w := range ws {
		c.Words = append(c.Words, fmt.Sprintf("%08X", w))
	}
	c.Timing = runTiming(c, ws, timeoutMs)
	c.Emu = runEmu(c, ws, timeoutMs)
	c.Coq = coqTiming(c)
	c.CoqEmu = coqEmu(c)
	return c
}

func main() {
	seed := flag.Uint64("seed", 1, "seed")
	n := flag.Int("n", 50, "number of generated cases")
	replay := flag.String("replay", "", "JSON file with cases to run instead of generating")
	out := flag.String("out", "", "output file (JSON list)")
	child := flag.Bool("child", false, "internal: run cases from --in starting at --from, one JSON line per case on stdout")
	in := flag.String("in", "", "internal")
	from := flag.Int("from", 0, "internal")
	to := flag.Int("to", -1, "internal")
	par := flag.Int("par", 8, "worker processes")
	dis := flag.Bool("disasm", false, "print the disassembly of each case and exit")
	timeout := flag.Int("timeout", 4000, "per-run timeout in ms (a hang is an observation)")
	flag.Parse()

	if *child {
		var cases []Case
		mustReadJSON(*in, &cases)
		w := bufio.NewWriter(os.Stdout)
		hi := len(cases)
		if *to >= 0 && *to < hi {
			hi = *to
		}
		for i := *from; i < hi; i++ {
			c := runCase(cases[i], *timeout)
			b, _ := json.Marshal(c)
			fmt.Fprintf(w, "CASE %d %s\n", i, b)
			w.Flush()
		}
		return
	}

	var cases []Case
	if *replay != "" {
		mustReadJSON(*replay, &cases)
		for i := range cases {
			cases[i] = strip(cases[i])
		}
	} else {
		cases = generate(*seed, *n)
	}
	if *dis {
		for _, c := range cases {
			b, _ := json.Marshal(c.Prog)
			fmt.Printf("== %s nwf=%d nwg=%d %s\n", c.Name, c.NWf, c.NWg, b)
			for _, l := range disasm(assemble(c.Prog, 64*c.NWf)) {
				fmt.Println("  " + l)
			}
		}
		return
	}

	// scratch directory: the simulator writes sqlite files into cwd
	scratch, err := os.MkdirTemp("", "c14run")
	if err != nil {
		panic(err)
	}
	defer os.RemoveAll(scratch)
	inFile := scratch + "/in.json"
	b, _ := json.Marshal(cases)
	os.WriteFile(inFile, b, 0o644)
	self, _ := os.Executable()

	results := make([]Case, len(cases))
	var wg sync.WaitGroup
	chunk := (len(cases) + *par - 1) / *par
	if chunk < 1 {
		chunk = 1
	}
	for lo := 0; lo < len(cases); lo += chunk {
		hi := lo + chunk
		if hi > len(cases) {
			hi = len(cases)
		}
		wg.Add(1)
		go func(lo, hi int) {
			defer wg.Done()
			dir, _ := os.MkdirTemp(scratch, "w")
			runRange(self, dir, inFile, cases, results, lo, hi, *timeout)
		}(lo, hi)
	}
	wg.Wait()
	ob, _ := json.Marshal(results)
	if *out == "" {
		fmt.Println(string(ob))
	} else {
		os.WriteFile(*out, ob, 0o644)
	}
}

// runRange runs cases[lo:hi] in child processes; a child that dies (a Go
// panic inside the simulator happens on the engine's goroutine and cannot be
// recovered) yields the observation "crash" for the case it was running, and
// a new child continues with the next case.
func runRange(self, scratch, inFile string, cases, results []Case, lo, hi, timeout int) {
	next := lo
	for next < hi {
		cmd := exec.Command(self, "--child", "--in", inFile, "--from", fmt.Sprint(next), "--to", fmt.Sprint(hi), "--timeout", fmt.Sprint(timeout))
		cmd.Dir = scratch
		var stderr strings.Builder
		cmd.Stderr = &stderr
		stdout, _ := cmd.StdoutPipe()
		if err := cmd.Start(); err != nil {
			panic(err)
		}
		sc := bufio.NewScanner(stdout)
		sc.Buffer(make([]byte, 1<<20), 1<<28)
		for sc.Scan() {
			line := sc.Text()
			if !strings.HasPrefix(line, "CASE ") {
				continue
			}
			var idx int
			rest := line[5:]
			sp := strings.IndexByte(rest, ' ')
			fmt.Sscan(rest[:sp], &idx)
			var c Case
			if err := json.Unmarshal([]byte(rest[sp+1:]), &c); err != nil {
				panic(err)
			}
			results[idx] = c
			next = idx + 1
		}
		werr := cmd.Wait()
		if next < hi {
			c := cases[next]
			msg := panicLine(stderr.String())
			if werr == nil {
				msg = "child exited without finishing: " + msg
			}
			c.Timing = &TimingObs{Result: "crash", Panic: msg}
			c.Emu = &EmuObs{Result: "crash", Panic: msg}
			results[next] = crashSplit(self, scratch, c, timeout)
			next++
		}
	}
}

func panicLine(s string) string {
	for _, l := range strings.Split(s, "\n") {
		i := strings.Index(l, "anic: ")
		if i > 0 {
			l = l[i+6:]
			if len(l) > 200 {
				l = l[:200]
			}
			return strings.TrimSpace(l)
		}
	}
	if len(s) > 300 {
		s = s[len(s)-300:]
	}
	return strings.TrimSpace(s)
}

// crashSplit re-runs a crashing case with one platform at a time (env
// C14_ONLY) so that the other platform's observation is still recorded.
func crashSplit(self, scratch string, c Case, timeout int) Case {
	one := scratch + "/one.json"
	b, _ := json.Marshal([]Case{strip(c)})
	os.WriteFile(one, b, 0o644)
	res := c
	for _, only := range []string{"timing", "emu"} {
		cmd := exec.Command(self, "--child", "--in", one, "--from", "0", "--timeout", fmt.Sprint(timeout))
		cmd.Dir = scratch
		cmd.Env = append(os.Environ(), "C14_ONLY="+only)
		var stderr strings.Builder
		cmd.Stderr = &stderr
		outb, err := cmd.Output()
		var got *Case
		for _, line := range strings.Split(string(outb), "\n") {
			if strings.HasPrefix(line, "CASE 0 ") {
				var cc Case
				if json.Unmarshal([]byte(line[7:]), &cc) == nil {
					got = &cc
				}
			}
		}
		if only == "timing" {
			if got != nil && err == nil {
				res.Timing = got.Timing
				res.Coq = got.Coq
				res.Words = got.Words
			} else {
				res.Timing = &TimingObs{Result: "crash", Panic: panicLine(stderr.String())}
			}
		} else {
			if got != nil && err == nil {
				res.Emu = got.Emu
				res.CoqEmu = got.CoqEmu
			} else {
				res.Emu = &EmuObs{Result: "crash", Panic: panicLine(stderr.String())}
			}
		}
	}
	if res.Coq == "" {
		res.Coq = coqTiming(res)
	}
	if res.CoqEmu == "" {
		res.CoqEmu = coqEmu(res)
	}
	return res
}

func mustReadJSON(path string, v interface{}) {
	b, err := os.ReadFile(path)
	if err != nil {
		panic(err)
	}
	// accept {"case":..}/{"cases":[..]} wrappers of replay files
	var wrap map[string]json.RawMessage
	if json.Unmarshal(b, &wrap) == nil {
		if r, ok := wrap["cases"]; ok {
			b = r
		} else if r, ok := wrap["case"]; ok {
			b = []byte("[" + string(r) + "]")
		}
	}
	if err := json.Unmarshal(b, v); err != nil {
		panic(err)
	}
}
