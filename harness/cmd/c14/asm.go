package main

import (
	"encoding/binary"
	"fmt"

	"github.com/sarchlab/mgpusim/v4/amd/insts"
)

// Stmt is one statement of a micro-program. Every wavefront of every
// work-group runs the same code; G/K guard the statement by the wavefront's
// index inside its work-group (s4).
type Stmt struct {
	Op string `json:"op"`          // barrier endpgm waitcnt nop salu vmov sload fload floadu use fstore ldsw ldsr
	G  string `json:"g,omitempty"` // "", eq, ne, lt, gt : executed only if wfid <g> K
	K  int    `json:"k,omitempty"`
	GW string `json:"gw,omitempty"` // second guard, on the work-group id (s2): eq ne lt gt
	KW int    `json:"kw,omitempty"`
	A  int    `json:"a,omitempty"` // waitcnt: vmcnt
	B  int    `json:"b,omitempty"` // waitcnt: lgkmcnt
}

const (
	wBarrier = 0xBF8A0000
	wEndpgm  = 0xBF810000
	wNop     = 0xBF800000
)

func waitcntWord(vm, lgkm int) uint32 {
	return 0xBF8C0000 | uint32(vm&15) | 0x70 | uint32(lgkm&31)<<8
}

func stmtWords(s Stmt) []uint32 {
	switch s.Op {
	case "barrier":
		return []uint32{wBarrier}
	case "endpgm":
		return []uint32{wEndpgm}
	case "waitcnt":
		return []uint32{waitcntWord(s.A, s.B)}
	case "nop":
		return []uint32{wNop}
	case "salu": // s_add_u32 s6, s6, 1
		return []uint32{0x80068106}
	case "vmov": // v_mov_b32 v4, v0
		return []uint32{0x7E080300}
	case "sload": // s_load_dword s12, s[0:1], 0x0
		return []uint32{0xC0020300, 0x00000000}
	case "fload": // flat_load_dword v3, v[1:2]
		return []uint32{0xDC500000, 0x03000001}
	case "floadu": // flat_load_dword v3, v[11:12]  (v[1:2] + 48 bytes: lanes straddle cache lines unevenly)
		return []uint32{0xDC500000, 0x0300000B}
	case "gload": // global_load_dword v3, v[1:2], off   (FLAT encoding, SEG = global)
		return []uint32{0xDC508000, 0x037F0001}
	case "gstore": // global_store_dword v[8:9], v7, off
		return []uint32{0xDC708000, 0x007F0708}
	case "scload": // scratch SEG (=1) encoding of the same load; the simulator treats the address as flat
		return []uint32{0xDC504000, 0x037F0001}
	case "scstore":
		return []uint32{0xDC704000, 0x007F0708}
	case "floadg": // flat_load_dword v3, v[13:14]: in + gid*64, every lane in its own cache line
		return []uint32{0xDC500000, 0x0300000D}
	case "gloadg": // global_load_dword v3, v[13:14], off
		return []uint32{0xDC508000, 0x037F000D}
	case "sload2": // s_load_dword s13, s[0:1], 0x10   (the constant in the kernel arguments)
		return []uint32{0xC0020340, 0x00000010}
	case "suse": // v_add_u32 v7, vcc, s13, v7
		return []uint32{0x320E0E0D}
	// scalar loads from the input buffer (s[8:9], page aligned) whose byte range straddles a 64-byte line
	case "sx2": // s_load_dwordx2 s[16:17], s[8:9], 0x3c   (4 + 4 bytes)
		return []uint32{0xC0060404, 0x0000003C}
	case "sx4a": // s_load_dwordx4 s[16:19], s[8:9], 0x34  (12 + 4)
		return []uint32{0xC00A0404, 0x00000034}
	case "sx4b": // ... 0x38  (8 + 8)
		return []uint32{0xC00A0404, 0x00000038}
	case "sx4c": // ... 0x3c  (4 + 12)
		return []uint32{0xC00A0404, 0x0000003C}
	case "sx8": // s_load_dwordx8 s[16:23], s[8:9], 0x30  (16 + 16)
		return []uint32{0xC00E0404, 0x00000030}
	case "sx8b": // ... 0x7c (4 + 28, second and third line)
		return []uint32{0xC00E0404, 0x0000007C}
	case "sx4n": // s_load_dwordx4 s[16:19], s[8:9], 0x40  (aligned: one request)
		return []uint32{0xC00A0404, 0x00000040}
	case "sux2": // v_add_u32 v7, vcc, s17, v7   (a register of the second half)
		return []uint32{0x320E0E11}
	case "sux4": // v_add_u32 v7, vcc, s19, v7
		return []uint32{0x320E0E13}
	case "sux8": // v_add_u32 v7, vcc, s23, v7
		return []uint32{0x320E0E17}
	case "use": // v_add_u32 v7, vcc, v7, v3
		return []uint32{0x320E0707}
	case "fstore": // flat_store_dword v[8:9], v7
		return []uint32{0xDC700000, 0x00000708}
	case "ldsw": // ds_write_b32 v5, v7
		return []uint32{0xD81A0000, 0x00000705}
	case "ldsr": // ds_read_b32 v3, v6
		return []uint32{0xD86C0000, 0x03000006}
	}
	panic("unknown op " + s.Op)
}

var sopcOf = map[string]uint32{"eq": 6, "ne": 7, "gt": 8, "lt": 10}

func usesMem(prog []Stmt) bool {
	for _, s := range prog {
		switch s.Op {
		case "sload", "fload", "floadu", "use", "fstore", "ldsw", "ldsr",
			"gload", "gstore", "scload", "scstore", "floadg", "gloadg", "sload2", "suse",
			"sx2", "sx4a", "sx4b", "sx4c", "sx8", "sx8b", "sx4n", "sux2", "sux4", "sux8":
			return true
		}
	}
	return false
}

// assemble turns a program into machine words. wgSize is the number of
// work-items per work-group (64 * wavefronts).
func assemble(prog []Stmt, wgSize int) []uint32 {
	var w []uint32
	// s4 := index of this wavefront inside its work-group
	w = append(w, 0x7E080500) // v_readfirstlane_b32 s4, v0
	w = append(w, 0x8F048604) // s_lshr_b32 s4, s4, 6
	if usesMem(prog) {
		w = append(w,
			0xC00A0200, 0x00000000, // s_load_dwordx4 s[8:11], s[0:1], 0x0
			0x9205FF02, uint32(wgSize), // s_mul_i32 s5, s2, wgSize
			0x32140005, // v_add_u32 v10, vcc, s5, v0
			0x24141482, // v_lshlrev_b32 v10, 2, v10
			waitcntWord(15, 0),
			0x32021408, // v_add_u32 v1, vcc, s8, v10
			0x7E040209, // v_mov_b32 v2, s9
			0x38040480, // v_addc_u32 v2, vcc, 0, v2, vcc
			0x3210140A, // v_add_u32 v8, vcc, s10, v10
			0x7E12020B, // v_mov_b32 v9, s11
			0x38121280, // v_addc_u32 v9, vcc, 0, v9, vcc
			0x321602B0, // v_add_u32 v11, vcc, 48, v1
			0x38180480, // v_addc_u32 v12, vcc, 0, v2, vcc
			0x241A1484, // v_lshlrev_b32 v13, 4, v10      (gid * 64)
			0x321A1A08, // v_add_u32 v13, vcc, s8, v13
			0x7E1C0209, // v_mov_b32 v14, s9
			0x381C1C80, // v_addc_u32 v14, vcc, 0, v14, vcc
			0x7E0E0300, // v_mov_b32 v7, v0
			0x240A0082, // v_lshlrev_b32 v5, 2, v0
			0x2A0C0AFF, 0x00000100, // v_xor_b32 v6, 0x100, v5
		)
	}
	for _, s := range prog {
		body := stmtWords(s)
		if s.GW != "" {
			body = append([]uint32{
				0xBF000002 | sopcOf[s.GW]<<16 | uint32(128+s.KW)<<8, // s_cmp_<gw>_u32 s2, KW
				0xBF840000 | uint32(len(body)),                      // s_cbranch_scc0 +len
			}, body...)
		}
		if s.G != "" {
			w = append(w, 0xBF000004|sopcOf[s.G]<<16|uint32(128+s.K)<<8) // s_cmp_<g>_u32 s4, K
			w = append(w, 0xBF840000|uint32(len(body)))                  // s_cbranch_scc0 +len
		}
		w = append(w, body...)
	}
	return w
}

func wordsToBytes(ws []uint32) []byte {
	b := make([]byte, 4*len(ws))
	for i, x := range ws {
		binary.LittleEndian.PutUint32(b[4*i:], x)
	}
	return b
}

// disasm prints the program with the repository's own decoder (used to check
// the hand encodings).
func disasm(ws []uint32) []string {
	d := insts.NewDisassembler()
	buf := wordsToBytes(ws)
	buf = append(buf, 0, 0, 0, 0)
	var out []string
	pc := 0
	for pc < len(ws)*4 {
		inst, err := d.Decode(buf[pc:])
		if err != nil {
			out = append(out, fmt.Sprintf("%04x: <decode error %v>", pc, err))
			break
		}
		out = append(out, fmt.Sprintf("%04x: %s", pc, insts.NewInstPrinter(nil).Print(inst)))
		pc += inst.ByteSize
	}
	return out
}

func codeObject(ws []uint32, ldsBytes int) *insts.KernelCodeObject {
	co := &insts.KernelCodeObject{KernelCodeObjectMeta: &insts.KernelCodeObjectMeta{}}
	co.Data = wordsToBytes(ws)
	// pad so that the instruction fetch of the last line and the emulator's
	// 8-byte look-ahead stay inside the allocation
	co.Data = append(co.Data, make([]byte, 256)...)
	co.KernargSegmentByteSize = 24
	co.GroupSegmentByteSize = uint32(ldsBytes)
	co.EnableSgprKernargSegmentPtr = true
	co.ComputePgmRsrc2 = 1 << 7 // work-group id X in s2
	co.WFSgprCount = 32
	co.WIVgprCount = 16
	co.Version = insts.CodeObjectV3
	return co
}
