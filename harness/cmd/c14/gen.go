package main

import (
	"fmt"
	"strings"

	"verifharness/vh"
)

// ---------------------------------------------------------------- generator

var nwfChoices = []int{1, 2, 2, 2, 3, 3, 4, 4, 5, 7, 8, 12, 15, 16}

func guard(r *vh.Rng, nwf int, s Stmt) Stmt {
	s.G = []string{"eq", "ne", "lt", "gt"}[r.Intn(4)]
	s.K = r.Intn(nwf + 1)
	if s.K > 16 {
		s.K = 16
	}
	return s
}

// genProg builds a well-formed program: barriers are executed by every
// wavefront that is still alive (never guarded); s_endpgm may be guarded
// (early exit); a loaded register is read only after s_waitcnt vmcnt(0).
func genProg(r *vh.Rng, nwf int, mem bool) []Stmt {
	var p []Stmt
	pendingLoad, pendingStore := false, false
	pendingS, haveS := false, false // s13 (sload2): a load is outstanding / has been loaded on every path
	n := 3 + r.Intn(12)
	sync := func() {
		b := []int{0, 15, 1, 15}[r.Intn(4)]
		p = append(p, Stmt{Op: "waitcnt", A: 0, B: b})
		pendingLoad, pendingStore = false, false
		if b == 0 {
			pendingS = false
		}
	}
	isLoad := map[string]bool{"fload": true, "floadu": true, "gload": true, "scload": true, "floadg": true, "gloadg": true}
	isStore := map[string]bool{"fstore": true, "gstore": true, "scstore": true}
	for len(p) < n {
		var s Stmt
		x := r.Pick(14, 12, 8, 10, 6, 6, 4, 6)
		switch x {
		case 0: // plain / scheduler-handled filler
			s = Stmt{Op: []string{"nop", "salu", "vmov", "nop"}[r.Intn(4)]}
			if r.Intn(3) == 0 {
				s = guard(r, nwf, s)
			}
			p = append(p, s)
		case 1:
			p = append(p, Stmt{Op: "barrier"})
		case 2: // early exit
			p = append(p, guard(r, nwf, Stmt{Op: "endpgm"}))
		case 3: // memory traffic
			if !mem {
				continue
			}
			op := []string{"fload", "sload", "floadu", "fstore", "fload", "gload", "gstore", "scload", "scstore", "sload2", "sload2", "gloadg", "sx2", "sx4b", "sx8"}[r.Intn(15)]
			if isStore[op] && pendingStore {
				sync()
			}
			s = Stmt{Op: op}
			if op != "sload2" && r.Intn(3) == 0 {
				s = guard(r, nwf, s)
			}
			p = append(p, s)
			if isLoad[op] {
				pendingLoad = true
			}
			if isStore[op] {
				pendingStore = true
			}
			if op == "sload2" {
				pendingS, haveS = true, true
			}
		case 4: // wait count with arbitrary thresholds
			s = Stmt{Op: "waitcnt", A: []int{0, 1, 2, 7, 14, 15}[r.Intn(6)], B: []int{0, 1, 2, 3, 7, 14, 15, 16, 31}[r.Intn(9)]}
			if r.Intn(3) == 0 {
				s = guard(r, nwf, s)
			} else {
				if s.A == 0 {
					pendingLoad, pendingStore = false, false
				}
				if s.B == 0 {
					pendingS = false
				}
			}
			p = append(p, s)
		case 5: // use of the loaded value
			if !mem {
				continue
			}
			if haveS && r.Intn(2) == 0 {
				if pendingS {
					p = append(p, Stmt{Op: "waitcnt", A: 15, B: 0})
					pendingS = false
				}
				p = append(p, Stmt{Op: "suse"})
				continue
			}
			if pendingLoad {
				sync()
			}
			p = append(p, Stmt{Op: "use"})
		case 6: // LDS exchange between neighbouring wavefronts, fenced by barriers
			if !mem {
				continue
			}
			if pendingLoad {
				sync()
			}
			p = append(p, Stmt{Op: "ldsw"})
			if r.Intn(2) == 0 {
				p = append(p, Stmt{Op: "waitcnt", A: 15, B: 0})
			}
			p = append(p, Stmt{Op: "barrier"}, Stmt{Op: "ldsr"})
			if r.Intn(2) == 0 {
				p = append(p, Stmt{Op: "waitcnt", A: 15, B: 0})
			}
			p = append(p, Stmt{Op: "use"}, Stmt{Op: "barrier"})
		case 7: // a delay that only some wavefronts take (late arrival at the next barrier / exit)
			g := guard(r, nwf, Stmt{})
			k := 1 + r.Intn(4)
			for j := 0; j < k; j++ {
				op := "nop"
				if mem && r.Intn(2) == 0 {
					op = "sload"
				}
				p = append(p, Stmt{Op: op, G: g.G, K: g.K})
			}
		}
	}
	if mem {
		if pendingLoad || pendingStore {
			sync()
		}
		if haveS {
			if pendingS {
				p = append(p, Stmt{Op: "waitcnt", A: 15, B: 0})
			}
			p = append(p, Stmt{Op: "suse"})
		}
		p = append(p, Stmt{Op: "use"}, Stmt{Op: "fstore"})
	}
	p = append(p, Stmt{Op: "endpgm"})
	return p
}

// fixed shapes that aim at particular corners
func corner(r *vh.Rng, k int) Case {
	switch k % 15 {
	case 0: // many small groups on one CU: more waiting wavefronts than the barrier buffer holds
		return Case{Name: "full-barrier-buffer", NWf: 2, NWg: 20, Prog: []Stmt{
			{Op: "sload", G: "eq", K: 1}, {Op: "sload", G: "eq", K: 1}, {Op: "waitcnt", A: 15, B: 0, G: "eq", K: 1},
			{Op: "nop", G: "eq", K: 1}, {Op: "nop", G: "eq", K: 1},
			{Op: "barrier"}, {Op: "salu"}, {Op: "barrier"}, {Op: "endpgm"}}}
	case 1: // a wavefront ends while its partner is held in internalExecuting because the barrier buffer is full
		return Case{Name: "exit-while-partner-stuck", NWf: 3, NWg: 13, Prog: stuckProg()}
	case 2: // barrier ladder
		n := nwfChoices[r.Intn(len(nwfChoices))]
		var p []Stmt
		for i := 0; i < 2+r.Intn(5); i++ {
			p = append(p, guard(r, n, Stmt{Op: "nop"}), Stmt{Op: "barrier"})
		}
		p = append(p, Stmt{Op: "endpgm"})
		return Case{Name: "ladder", NWf: n, NWg: 1 + r.Intn(3), Prog: p}
	case 3: // staggered exits: wavefront i leaves after i barriers
		n := 2 + r.Intn(6)
		var p []Stmt
		for i := 0; i < n; i++ {
			p = append(p, Stmt{Op: "endpgm", G: "eq", K: i}, Stmt{Op: "barrier"})
		}
		p = append(p, Stmt{Op: "endpgm"})
		return Case{Name: "staggered-exit", NWf: n, NWg: 1 + r.Intn(2), Prog: p}
	case 4: // load / wait / use with several loads in flight
		return Case{Name: "load-wait-use", NWf: 1 + r.Intn(4), NWg: 1 + r.Intn(3), Prog: []Stmt{
			{Op: "fload"}, {Op: "sload"}, {Op: "fload"}, {Op: "sload"}, {Op: "waitcnt", A: 1, B: 15},
			{Op: "waitcnt", A: 15, B: 2}, {Op: "waitcnt", A: 0, B: 0}, {Op: "use"}, {Op: "fstore"}, {Op: "endpgm"}}}
	case 5: // a slow wavefront ends as the LAST event of barrier 1 (the others wait), then more barriers with a late arrival
		n := 2 + r.Intn(5)
		x := r.Intn(n) // the one that leaves
		late := (x + 1 + r.Intn(n-1)) % n
		var p []Stmt
		for i := 0; i < 3+r.Intn(3); i++ {
			p = append(p, Stmt{Op: "sload", G: "eq", K: x}, Stmt{Op: "waitcnt", A: 15, B: 0, G: "eq", K: x})
		}
		p = append(p, Stmt{Op: "endpgm", G: "eq", K: x}, Stmt{Op: "barrier"})
		for b := 0; b < 1+r.Intn(3); b++ {
			for i := 0; i < 2+r.Intn(3); i++ {
				p = append(p, Stmt{Op: "sload", G: "eq", K: late}, Stmt{Op: "waitcnt", A: 15, B: 0, G: "eq", K: late})
			}
			p = append(p, Stmt{Op: "nop", G: "eq", K: late}, Stmt{Op: "barrier"})
		}
		p = append(p, Stmt{Op: "salu"}, Stmt{Op: "endpgm"})
		return Case{Name: "slow-exit-last-then-barriers", NWf: n, NWg: 1 + r.Intn(3), Prog: p}
	case 6: // unevenly straddling loads on a compute unit with a coalescing penalty, wait, dependent store
		var p []Stmt
		for i := 0; i < 1+r.Intn(3); i++ {
			p = append(p, Stmt{Op: "floadu"}, Stmt{Op: "waitcnt", A: 0, B: 15}, Stmt{Op: "use"})
			if r.Intn(2) == 0 {
				p = append(p, Stmt{Op: "fload"}, Stmt{Op: "floadu"}, Stmt{Op: "waitcnt", A: 0, B: 15}, Stmt{Op: "use"})
			}
		}
		p = append(p, Stmt{Op: "fstore"}, Stmt{Op: "endpgm"})
		return Case{Name: "straddling-load-wait-use", NWf: 1 + r.Intn(4), NWg: 1 + r.Intn(3), Pen: 3, Prog: p}
	case 7: // store -> acknowledgement -> scalar load -> s_waitcnt lgkmcnt(0) -> use of the scalar, with flat / global / scratch encodings
		var p []Stmt
		for i := 0; i < 1+r.Intn(3); i++ {
			st := []string{"gstore", "scstore", "fstore", "gstore"}[r.Intn(4)]
			p = append(p, Stmt{Op: st}, Stmt{Op: "waitcnt", A: 0, B: 15}, Stmt{Op: "nop"},
				Stmt{Op: "sload2"}, Stmt{Op: "waitcnt", A: 15, B: 0}, Stmt{Op: "suse"})
			if r.Intn(2) == 0 {
				p = append(p, Stmt{Op: []string{"gload", "scload"}[r.Intn(2)]}, Stmt{Op: "waitcnt", A: 0, B: 15}, Stmt{Op: "use"})
			}
		}
		p = append(p, Stmt{Op: "gstore"}, Stmt{Op: "endpgm"})
		return Case{Name: "store-ack-sload-wait-use", NWf: 1 + r.Intn(4), NWg: 1 + r.Intn(3), Prog: p}
	case 8: // >= 9 wavefronts gather 64 cache lines each at once: the table of in-flight accesses (512) fills up
		shape := [][2]int{{12, 1}, {16, 1}, {4, 3}, {5, 2}, {3, 4}, {16, 2}, {10, 1}}[r.Intn(7)]
		var p []Stmt
		for i := 0; i < 1+r.Intn(2); i++ {
			p = append(p, Stmt{Op: []string{"floadg", "gloadg"}[r.Intn(2)]}, Stmt{Op: "waitcnt", A: 0, B: 15}, Stmt{Op: "use"})
		}
		p = append(p, Stmt{Op: "fstore"}, Stmt{Op: "endpgm"})
		return Case{Name: "gather-storm", NWf: shape[0], NWg: shape[1], Prog: p}
	case 9: // wait-count thresholds as a grid, with 17-40 loads in flight per wavefront
		var p []Stmt
		n := 17 + r.Intn(24)
		scalarHeavy := r.Intn(3) == 0
		for i := 0; i < n; i++ {
			op := []string{"fload", "floadu", "gload", "scload"}[r.Intn(4)]
			if scalarHeavy || r.Intn(5) == 0 {
				op = "sload"
			}
			p = append(p, Stmt{Op: op})
		}
		as := []int{0, 1, 2, 7, 14, 15, 15, 15}
		bs := []int{0, 1, 2, 7, 14, 15, 15, 16, 31}
		for i := 0; i < 1+r.Intn(3); i++ {
			p = append(p, Stmt{Op: "waitcnt", A: as[r.Intn(len(as))], B: bs[r.Intn(len(bs))]}, Stmt{Op: "vmov"})
		}
		p = append(p, Stmt{Op: "waitcnt", A: 0, B: 0}, Stmt{Op: "use"}, Stmt{Op: "fstore"}, Stmt{Op: "endpgm"})
		return Case{Name: "waitcnt-grid", NWf: 1 + r.Intn(3), NWg: 1 + r.Intn(2), Prog: p}
	case 10: // more work-groups than emulation compute units (64): some units finish two groups in one batch; the dispatcher port refuses
		p := []Stmt{{Op: "nop"}, {Op: "endpgm"}}
		if r.Intn(2) == 0 {
			p = []Stmt{{Op: "salu"}, {Op: "barrier"}, {Op: "endpgm"}}
		}
		return Case{Name: "emu-batch-with-refusing-dispatcher", NWf: 1, NWg: 66 + r.Intn(30), Refuse: 1 + r.Intn(3), Prog: p}
	case 11: // pipeline flush + restart while wavefronts wait in s_waitcnt / s_endpgm / at a barrier with memory in flight
		var p []Stmt
		for i := 0; i < 1+r.Intn(3); i++ {
			p = append(p, Stmt{Op: []string{"fload", "floadg", "gload", "floadu"}[r.Intn(4)]}, Stmt{Op: "sload"},
				Stmt{Op: "waitcnt", A: 0, B: []int{0, 15}[r.Intn(2)]}, Stmt{Op: "use"})
			if r.Intn(2) == 0 {
				p = append(p, Stmt{Op: "barrier"})
			}
		}
		p = append(p, Stmt{Op: "fstore"}, Stmt{Op: "endpgm"})
		fl := []int{20 + r.Intn(120)}
		if r.Intn(2) == 0 {
			fl = append(fl, fl[0]+60+r.Intn(200))
		}
		return Case{Name: "flush-restart-with-memory-in-flight", NWf: 1 + r.Intn(4), NWg: 1 + r.Intn(3), Flush: fl, Prog: p}
	case 12: // a wavefront leaves with loads/stores in flight and NO s_waitcnt before s_endpgm while all its siblings wait at the barrier
		n := 2 + r.Intn(5)
		x := r.Intn(n)
		var p []Stmt
		for i := 0; i < 1+r.Intn(3); i++ { // slow accesses: 64 lines per wavefront
			p = append(p, Stmt{Op: []string{"floadg", "gloadg", "floadg", "sx8b", "gstore"}[r.Intn(5)], G: "eq", K: x})
		}
		p = append(p, Stmt{Op: "endpgm", G: "eq", K: x}, Stmt{Op: "barrier"}, Stmt{Op: "salu"})
		if r.Intn(2) == 0 {
			p = append(p, Stmt{Op: "barrier"})
		}
		p = append(p, Stmt{Op: "endpgm"})
		return Case{Name: "exit-with-memory-in-flight-while-siblings-wait", NWf: n, NWg: 1 + r.Intn(3), Prog: p}
	case 13: // scalar loads of every width whose byte range straddles a 64-byte line
		var p []Stmt
		pairs := [][2]string{{"sx2", "sux2"}, {"sx4a", "sux4"}, {"sx4b", "sux4"}, {"sx4c", "sux4"}, {"sx8", "sux8"}, {"sx8b", "sux8"}, {"sx4n", "sux4"}}
		for i := 0; i < 2+r.Intn(4); i++ {
			q := pairs[r.Intn(len(pairs))]
			p = append(p, Stmt{Op: q[0]}, Stmt{Op: "waitcnt", A: 15, B: []int{0, 0, 0, 1}[r.Intn(4)]})
			if p[len(p)-1].B == 0 {
				p = append(p, Stmt{Op: q[1]})
			}
		}
		last := pairs[r.Intn(6)]
		if r.Intn(2) == 0 { // end right after a straddling load: s_endpgm has to wait for both halves
			p = append(p, Stmt{Op: "waitcnt", A: 15, B: 0}, Stmt{Op: "gstore"}, Stmt{Op: last[0]}, Stmt{Op: "endpgm"})
		} else {
			p = append(p, Stmt{Op: "waitcnt", A: 15, B: 0}, Stmt{Op: "gstore"}, Stmt{Op: "endpgm"})
		}
		return Case{Name: "straddling-scalar-loads", NWf: 1 + r.Intn(3), NWg: 1 + r.Intn(3), Prog: p}
	default: // exit with memory still in flight
		return Case{Name: "exit-with-mem-in-flight", NWf: 1 + r.Intn(3), NWg: 1 + r.Intn(2), Prog: []Stmt{
			{Op: "fload"}, {Op: "sload"}, {Op: "vmov"}, {Op: "fstore"}, {Op: "sload"}, {Op: "endpgm"}}}
	}
}

// stuckProg (3 wavefronts x 13 groups on one CU): wavefronts 0 and 1 of every
// group go to the barrier; those of groups 0..7 fill the barrier buffer (16),
// those of groups 8..12 are kept in internalExecuting. Wavefront 2 never
// reaches the barrier: it ends, first in groups 9..12 (groups 0..8 make it
// wait longer), i.e. while its partners are held in internalExecuting.
func stuckProg() []Stmt {
	var p []Stmt
	for i := 0; i < 10; i++ {
		p = append(p, Stmt{Op: "nop", G: "eq", K: 2, GW: "lt", KW: 9})
	}
	for i := 0; i < 3; i++ {
		p = append(p, Stmt{Op: "nop", G: "eq", K: 2})
	}
	p = append(p, Stmt{Op: "endpgm", G: "eq", K: 2}, Stmt{Op: "barrier"}, Stmt{Op: "salu"}, Stmt{Op: "endpgm"})
	return p
}

func generate(seed uint64, n int) []Case {
	r := vh.NewRng(seed)
	var cs []Case
	for i := 0; i < n; i++ {
		cr := r.Fork()
		if i%5 == 4 {
			c := corner(cr, i/5)
			if cr.Intn(3) == 0 && c.NWf*c.NWg <= 32 {
				c.GPU = "mi300a"
			}
			cs = append(cs, c)
			continue
		}
		nwf := nwfChoices[cr.Intn(len(nwfChoices))]
		maxWg := 40 / nwf
		if maxWg > 6 {
			maxWg = 6
		}
		nwg := 1 + cr.Intn(maxWg)
		if cr.Intn(8) == 0 && nwf <= 4 {
			nwg = 10 + cr.Intn(12)
		}
		mem := cr.Intn(3) != 0
		pen := 0
		if mem && cr.Intn(3) == 0 {
			pen = 3
		}
		refuse := []int{0, 0, 1, 2, 3}[cr.Intn(5)]
		gpu := ""
		if cr.Intn(4) == 0 { // MI300A compute unit: 8 wavefronts per SIMD, register scoreboard, coalescing penalty 3
			gpu = "mi300a"
			pen = 0
			for nwf*nwg > 32 {
				nwg--
			}
		}
		var flush []int
		if cr.Intn(4) == 0 {
			flush = []int{20 + cr.Intn(250)}
			if cr.Intn(3) == 0 {
				flush = append(flush, flush[0]+50+cr.Intn(300))
			}
		}
		cs = append(cs, Case{Name: fmt.Sprintf("rnd%d", i), NWf: nwf, NWg: nwg, Pen: pen, GPU: gpu, Refuse: refuse, Flush: flush, Prog: genProg(cr, nwf, mem)})
	}
	return cs
}

// ---------------------------------------------------------------- Coq terms

func natList(xs []int) string {
	s := make([]string, len(xs))
	for i, x := range xs {
		s[i] = fmt.Sprintf("%d%%nat", x)
	}
	return "[" + strings.Join(s, ";") + "]"
}

func nonNeg(x int) int {
	if x < 0 {
		return 999999 // a negative counter of the implementation can never match the model
	}
	return x
}

func nList(xs []int) string {
	s := make([]string, len(xs))
	for i, x := range xs {
		s[i] = fmt.Sprint(nonNeg(x))
	}
	return "[" + strings.Join(s, ";") + "]"
}

var kindCoq = map[string]string{"end": "KEnd", "bar": "KBar", "spec": "KSpec", "plain": "KPlain", "sload": "KSLoad", "flat": "KFlat"}

func coqTiming(c Case) string {
	if c.Timing == nil {
		return ""
	}
	var sb strings.Builder
	sb.WriteString("mkTCase [")
	var lst, lsc, lvc []int // values at the last check point
	var last *Ev
	first := true
	for _, e := range c.Timing.Evs {
		if e.E == "t" || e.E == "sdone" || e.E == "mfin" {
			continue
		}
		if e.E == "flush" || e.E == "restart" {
			if !first {
				sb.WriteString(";")
			}
			first = false
			sb.WriteString(map[string]string{"flush": "ef", "restart": "es"}[e.E])
			continue
		}
		if !first {
			sb.WriteString(";")
		}
		first = false
		switch e.E {
		case "map":
			fmt.Fprintf(&sb, "em %d %d", e.G, e.N)
		case "done":
			fmt.Fprintf(&sb, "ed %d", e.W)
		case "eval":
			fmt.Fprintf(&sb, "ee %d", e.G)
		case "issue":
			if e.K == "wait" {
				fmt.Fprintf(&sb, "ei %d (KWait %d %d)", e.W, e.A, e.B)
			} else {
				fmt.Fprintf(&sb, "ei %d %s", e.W, kindCoq[e.K])
			}
		case "rsp":
			fmt.Fprintf(&sb, "er %d %s", e.W, vh.CoqBool(e.K == "f"))
		case "chk":
			var d []string
			for j := range e.St {
				if j >= len(lst) || lst[j] != e.St[j] || lsc[j] != e.Sc[j] || lvc[j] != e.Vc[j] {
					d = append(d, fmt.Sprintf("(%d%%nat,%d,%d,%d)", j, e.St[j], nonNeg(e.Sc[j]), nonNeg(e.Vc[j])))
				}
			}
			lst, lsc, lvc = e.St, e.Sc, e.Vc
			ee := e
			last = &ee
			fmt.Fprintf(&sb, "\nck [%s] %s %s", strings.Join(d, ";"), natList(e.Int), natList(e.Bar))
		}
	}
	if last != nil { // the final state in full
		fmt.Fprintf(&sb, ";\nTChk (mkSnap %s %s %s %s %s)", nList(last.St), nList(last.Sc), nList(last.Vc), natList(last.Int), natList(last.Bar))
	}
	sb.WriteString("] ")
	var sent []int
	for _, d := range c.Timing.Done {
		sent = append(sent, d.G)
	}
	sb.WriteString(natList(sent))
	return sb.String()
}

// segsOf is the list of ways wavefront i's run-until-barrier segments end,
// computed from the program text (not from what the emulator did).
func cmpGuard(g string, x, k int) bool {
	switch g {
	case "eq":
		return x == k
	case "ne":
		return x != k
	case "lt":
		return x < k
	case "gt":
		return x > k
	}
	return true
}

func segsOf(prog []Stmt, i int) []string {
	var out []string
	for _, s := range prog {
		take := cmpGuard(s.GW, 0, s.KW) // the emulator log of work-group 0 is compared
		switch s.G {
		case "eq":
			take = i == s.K
		case "ne":
			take = i != s.K
		case "lt":
			take = i < s.K
		case "gt":
			take = i > s.K
		}
		if !take || !cmpGuard(s.GW, 0, s.KW) {
			continue
		}
		if s.Op == "barrier" {
			out = append(out, "SBar")
		}
		if s.Op == "endpgm" {
			out = append(out, "SEnd")
			break
		}
	}
	return out
}

func coqEmu(c Case) string {
	if c.Emu == nil {
		return ""
	}
	var progs []string
	for i := 0; i < c.NWf; i++ {
		progs = append(progs, "["+strings.Join(segsOf(c.Prog, i), ";")+"]")
	}
	res := 0
	if c.Emu.Result != "ok" {
		res = 1
	}
	// the log of work-group 0 (all work-groups run the same program)
	var lg []string
	for _, e := range c.Emu.Evs {
		if e.G != 0 {
			continue
		}
		if e.K == "bar" {
			lg = append(lg, fmt.Sprintf("LBar %d", e.I))
		} else {
			lg = append(lg, fmt.Sprintf("LEnd %d", e.I))
		}
	}
	return fmt.Sprintf("mkECase [%s] %d [%s]", strings.Join(progs, ";"), res, strings.Join(lg, ";"))
}
