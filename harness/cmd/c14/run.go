package main

import (
	"fmt"
	"os"
	"sort"
	"time"

	"github.com/sarchlab/akita/v4/mem/mem"
	"github.com/sarchlab/akita/v4/sim"
	"github.com/sarchlab/akita/v4/simulation"
	"github.com/sarchlab/akita/v4/tracing"
	"github.com/sarchlab/mgpusim/v4/amd/arch"
	"github.com/sarchlab/mgpusim/v4/amd/driver"
	"github.com/sarchlab/mgpusim/v4/amd/emu"
	"github.com/sarchlab/mgpusim/v4/amd/insts"
	"github.com/sarchlab/mgpusim/v4/amd/protocol"
	"github.com/sarchlab/mgpusim/v4/amd/samples/runner/emusystem"
	"github.com/sarchlab/mgpusim/v4/amd/samples/runner/timingconfig"
	"github.com/sarchlab/mgpusim/v4/amd/timing/cu"
	"github.com/sarchlab/mgpusim/v4/amd/timing/wavefront"
)

// (JSON event kinds flush / restart: the pipeline flush and the end of the replay after a restart)
//
// Ev is one step of the scheduler's environment, or a check point, in the
// order in which the code executes them inside a compute-unit cycle:
// unit completions, the EvaluateInternalInst pass, issues, memory responses,
// newly mapped work-groups, then the snapshot.
type Ev struct {
	E string `json:"e"` // map done eval issue rsp chk; JSON only: t (cycle start), sdone (a scheduler-handled instruction completed), mfin (no transaction of a memory instruction is in flight any more)
	W int    `json:"w,omitempty"`
	G int    `json:"g,omitempty"` // map: work-group; eval: send budget
	N int    `json:"n,omitempty"` // map: number of wavefronts
	K string `json:"k,omitempty"` // issue: end bar wait spec plain sload flat ; rsp: s f
	A int    `json:"a,omitempty"`
	B int    `json:"b,omitempty"`
	// chk
	St  []int `json:"st,omitempty"` // per wavefront: wavefront.WfState
	Sc  []int `json:"sc,omitempty"` // OutstandingScalarMemAccess
	Vc  []int `json:"vc,omitempty"` // OutstandingVectorMemAccess
	Int []int `json:"int,omitempty"`
	Bar []int `json:"bar,omitempty"`
	T   int   `json:"t,omitempty"` // cycle number
}

// TimingObs is what one run on the timing platform showed.
type TimingObs struct {
	Result string   `json:"result"` // ok hang crash
	Panic  string   `json:"panic,omitempty"`
	WgOf   []int    `json:"wg_of"`  // wavefront -> work-group (IDX)
	IdxOf  []int    `json:"idx_of"` // wavefront -> index inside its work-group
	Evs    []Ev     `json:"evs"`
	Done   []DoneRec `json:"done"` // work-group completion messages seen on the CU's dispatch port
	Out    []uint32 `json:"out,omitempty"`
	Cycles int      `json:"cycles"`
	Refused int     `json:"refused"` // Send attempts of completion messages that the dispatch port refused
	Flushes int     `json:"flushes"` // pipeline flushes that took place
	SReqs   []SReq  `json:"sreqs"`   // read requests of scalar loads as they left the scalar-memory port
}

// SReq is one read request of a scalar load: instruction (serial number),
// wavefront, address, size, and the flag that tells the reply handler that
// this is not the request whose reply closes the instruction.
type SReq struct {
	I  int    `json:"i"`
	W  int    `json:"w"`
	A  uint64 `json:"a"`
	N  uint64 `json:"n"`
	CW bool   `json:"cw"`
}

// scalarPortHook counts, per scalar instruction, the requests that left the
// port and the replies that were taken from it (independently of the CU's
// wait counters and of its in-flight table).
type scalarPortHook struct{ r *recorder }

func (h scalarPortHook) Func(ctx sim.HookCtx) {
	r := h.r
	if r.stopped {
		return
	}
	switch m := ctx.Item.(type) {
	case *mem.ReadReq:
		if ctx.Pos != sim.HookPosPortMsgSend {
			return
		}
		for _, info := range r.cu.InFlightScalarMemAccess {
			if info.Req == m {
				id := info.Inst.ID
				r.sreqInst[m.ID] = id
				r.sreqOpen[id]++
				if !r.sreqSeen[m] { // (a replayed request is the same object with a new ID)
					r.sreqSeen[m] = true
					n, ok := r.sinstNo[id]
					if !ok {
						n = len(r.sinstNo)
						r.sinstNo[id] = n
					}
					r.obs.SReqs = append(r.obs.SReqs, SReq{I: n, W: r.ids[info.Wavefront], A: m.Address, N: m.AccessByteSize, CW: m.CanWaitForCoalesce})
				}
				return
			}
		}
	case *mem.DataReadyRsp:
		if ctx.Pos != sim.HookPosPortMsgRetrieveIncoming {
			return
		}
		if id, ok := r.sreqInst[m.RespondTo]; ok {
			delete(r.sreqInst, m.RespondTo)
			r.sreqOpen[id]--
		}
	}
}

// DoneRec is one WGCompletionMsg: work-group and the cycle it was sent in.
type DoneRec struct {
	G int `json:"g"`
	T int `json:"t"`
}

type kernArgs struct {
	In    driver.Ptr
	Out   driver.Ptr
	Magic uint32 // read by sload2
	Pad   uint32
}

func ldsBytesFor(c Case) int { return (c.NWf + 2) * 256 }

func inputData(n int) []uint32 {
	d := make([]uint32, n)
	for i := range d {
		d[i] = uint32(i*7 + 3)
	}
	return d
}

// launch runs the kernel through the driver; returns false on timeout.
func launch(d *driver.Driver, c Case, ws []uint32, timeoutMs int, v5 bool, stop func()) (ok bool, out []uint32) {
	n := 64 * c.NWf * c.NWg
	done := make(chan []uint32, 1)
	go func() {
		ctx := d.Init()
		co := codeObject(ws, ldsBytesFor(c))
		if v5 {
			co.Version = insts.CodeObjectV5
		}
		gIn := d.AllocateMemory(ctx, uint64(4*(16*n+64)))
		gOut := d.AllocateMemory(ctx, uint64(4*n))
		d.MemCopyH2D(ctx, gIn, inputData(16*n+64))
		d.MemCopyH2D(ctx, gOut, make([]uint32, n))
		args := kernArgs{In: gIn, Out: gOut, Magic: 0xBEEF}
		d.LaunchKernel(ctx, co, [3]uint32{uint32(n), 1, 1}, [3]uint16{uint16(64 * c.NWf), 1, 1}, &args)
		if stop != nil {
			stop()
		}
		res := make([]uint32, n)
		d.MemCopyD2H(ctx, res, gOut)
		done <- res
	}()
	select {
	case r := <-done:
		return true, r
	case <-time.After(time.Duration(timeoutMs) * time.Millisecond):
		return false, nil
	}
}

// ---------------------------------------------------------------- timing

type recorder struct {
	cu      *cu.ComputeUnit
	ids     map[*wavefront.Wavefront]int
	wfs     []*wavefront.Wavefront
	wgIdx   map[*wavefront.WorkGroup]int
	wgs     []*wavefront.WorkGroup
	mapReq  map[string]int // MapWGReq ID -> work-group index
	prevSt  []wavefront.WfState
	prevIn  []*wavefront.Inst
	prevPC  []uint64
	wasPaused  bool
	firstMap   int // cycle in which the first work-group arrived (-1: none yet)
	flushes    []int
	nextFlush  int
	flushBusy  bool
	ctrl       *ctrlPort
	engine     sim.Engine
	flushCount int
	instOf  map[string][2]int // memory instruction ID -> wavefront, kind (0 scalar, 1 flat)
	issues  []Ev
	rsps    []Ev
	sends   int
	obs     *TimingObs
	cycle   int
	stopped bool
	paused  bool
	lastChk *Ev
	pendFin map[string][2]int // memory instructions whose counters were decremented: ID -> wavefront, kind
	sreqInst map[string]string      // scalar request ID -> instruction ID
	sreqOpen map[string]int         // instruction ID -> requests sent and not yet answered
	sreqSeen map[*mem.ReadReq]bool
	sinstNo  map[string]int
	lastInt int

	pendingMaps []Ev
}

func kindOf(inst *insts.Inst) (string, int, int) {
	if inst.ExeUnit == insts.ExeUnitSpecial {
		switch inst.Opcode {
		case 1:
			return "end", 0, 0
		case 10:
			return "bar", 0, 0
		case 12:
			return "wait", inst.VMCNT, inst.LKGMCNT
		}
		return "spec", 0, 0
	}
	if inst.FormatType == insts.SMEM {
		return "sload", 0, 0
	}
	if inst.ExeUnit == insts.ExeUnitVMem {
		return "flat", 0, 0
	}
	return "plain", 0, 0
}

// tracer callbacks (the CU reports every issued instruction as a task of
// kind "inst"; the task of a memory instruction ends when its last response
// arrives)
func (r *recorder) StartTask(t tracing.Task) {
	if r.stopped || t.Kind != "inst" {
		return
	}
	m, ok := t.Detail.(map[string]interface{})
	if !ok {
		return
	}
	wf := m["wf"].(*wavefront.Wavefront)
	di := m["inst"].(*wavefront.Inst)
	r.learn(wf)
	k, a, b := kindOf(di.Inst)
	r.issues = append(r.issues, Ev{E: "issue", W: r.ids[wf], K: k, A: a, B: b})
	if k == "sload" {
		r.instOf[di.ID] = [2]int{r.ids[wf], 0}
	} else if k == "flat" {
		r.instOf[di.ID] = [2]int{r.ids[wf], 1}
	}
}
func (r *recorder) StepTask(t tracing.Task)           {}
func (r *recorder) AddMilestone(m tracing.Milestone) {}
func (r *recorder) EndTask(t tracing.Task) {
	if r.stopped {
		return
	}
	if x, ok := r.instOf[t.ID]; ok {
		delete(r.instOf, t.ID)
		r.rsps = append(r.rsps, Ev{E: "rsp", W: x[0], K: []string{"s", "f"}[x[1]]})
		r.pendFin[t.ID] = x
	}
}

func (r *recorder) learn(wf *wavefront.Wavefront) {
	if _, ok := r.ids[wf]; ok {
		return
	}
	wg := wf.WG
	g := len(r.wgs)
	r.wgIdx[wg] = g
	r.wgs = append(r.wgs, wg)
	r.mapReq[wg.MapReq.ID] = g
	for i, w := range wg.Wfs {
		r.ids[w] = len(r.wfs)
		r.wfs = append(r.wfs, w)
		r.prevSt = append(r.prevSt, wavefront.WfReady)
		r.prevIn = append(r.prevIn, nil)
		r.prevPC = append(r.prevPC, w.PC())
		r.obs.WgOf = append(r.obs.WgOf, wg.IDX)
		r.obs.IdxOf = append(r.obs.IdxOf, i)
	}
	r.pendingMaps = append(r.pendingMaps, Ev{E: "map", G: g, N: len(wg.Wfs)})
}

// Func is the engine hook: called before and after every event.
func (r *recorder) Func(ctx sim.HookCtx) {
	if r.stopped {
		return
	}
	evt, ok := ctx.Item.(sim.Event)
	if !ok || evt.Handler() != sim.Handler(r.cu.TickingComponent) {
		return
	}
	if _, isTick := evt.(sim.TickEvent); !isTick {
		return
	}
	if ctx.Pos == sim.HookPosBeforeEvent {
		r.paused = r.cu.VerifSchedState().Paused
		return
	}
	if ctx.Pos != sim.HookPosAfterEvent {
		return
	}
	r.cycle++
	known := len(r.wfs)
	for _, wf := range r.cu.VerifWavefronts() {
		r.learn(wf)
	}
	var evs []Ev
	// unit completions: a wavefront that was running a non-scheduler
	// instruction and is not running that same instruction any more
	for i := 0; i < known; i++ {
		wf := r.wfs[i]
		// (a pipeline flush also makes a Running wavefront Ready, but without moving its PC)
		if r.prevSt[i] == wavefront.WfRunning && r.prevIn[i] != nil &&
			r.prevIn[i].ExeUnit != insts.ExeUnitSpecial &&
			(wf.PC() != r.prevPC[i] || wf.DynamicInst() != r.prevIn[i]) {
			evs = append(evs, Ev{E: "done", W: i})
		}
	}
	// a pass over an empty internalExecuting list does nothing
	if !r.paused && (r.lastInt > 0 || r.sends > 0) {
		evs = append(evs, Ev{E: "eval", G: r.sends})
	}
	// scheduler-handled instructions that completed in this pass (monitor only)
	for i := 0; i < known; i++ {
		wf := r.wfs[i]
		busy := func(s wavefront.WfState) bool { return s == wavefront.WfRunning || s == wavefront.WfAtBarrier }
		if busy(r.prevSt[i]) && r.prevIn[i] != nil && r.prevIn[i].ExeUnit == insts.ExeUnitSpecial &&
			(wf.PC() != r.prevPC[i] || wf.State == wavefront.WfCompleted || wf.DynamicInst() != r.prevIn[i]) {
			k, a, b := kindOf(r.prevIn[i].Inst)
			evs = append(evs, Ev{E: "sdone", W: i, K: k, A: a, B: b})
		}
	}
	evs = append(evs, r.issues...)
	evs = append(evs, r.rsps...)
	evs = append(evs, r.pendingMaps...)
	if len(r.pendingMaps) > 0 && r.firstMap < 0 {
		r.firstMap = r.cycle
	}
	r.issues, r.rsps, r.pendingMaps, r.sends = nil, nil, nil, 0
	nowPaused := r.cu.VerifSchedState().Paused
	if nowPaused && !r.wasPaused {
		evs = append(evs, Ev{E: "flush"}) // doFlush runs at the end of the cycle
		r.flushCount++
		r.sreqInst, r.sreqOpen = map[string]string{}, map[string]int{} // every outstanding request is sent again after the restart
	}
	if !nowPaused && r.wasPaused {
		evs = append(evs, Ev{E: "restart"})
	}
	r.wasPaused = nowPaused
	r.maybeFlush()
	// a memory instruction is really finished when none of its transactions
	// is in flight any more (monitor only)
	if len(r.pendFin) > 0 {
		busy := map[string]bool{}
		for _, info := range r.cu.InFlightVectorMemAccess {
			busy[info.Inst.ID] = true
		}
		for _, info := range r.cu.InFlightScalarMemAccess {
			busy[info.Inst.ID] = true
		}
		for id, n := range r.sreqOpen { // requests on the port that nobody answered yet
			if n > 0 {
				busy[id] = true
			}
		}
		ids := make([]string, 0, len(r.pendFin))
		for id := range r.pendFin {
			ids = append(ids, id)
		}
		sort.Strings(ids)
		for _, id := range ids {
			x := r.pendFin[id]
			wf := r.wfs[x[0]]
			stillIssuing := wf.State == wavefront.WfRunning && wf.DynamicInst() != nil && wf.DynamicInst().ID == id
			if !busy[id] && !stillIssuing {
				evs = append(evs, Ev{E: "mfin", W: x[0], K: []string{"s", "f"}[x[1]]})
				delete(r.pendFin, id)
			}
		}
	}
	chk := Ev{E: "chk", T: r.cycle, Int: []int{}, Bar: []int{}}
	for i, wf := range r.wfs {
		chk.St = append(chk.St, int(wf.State))
		chk.Sc = append(chk.Sc, wf.OutstandingScalarMemAccess)
		chk.Vc = append(chk.Vc, wf.OutstandingVectorMemAccess)
		r.prevSt[i] = wf.State
		r.prevIn[i] = wf.DynamicInst()
		r.prevPC[i] = wf.PC()
	}
	ss := r.cu.VerifSchedState()
	for _, wf := range ss.InternalExecuting {
		chk.Int = append(chk.Int, r.ids[wf])
	}
	for _, wf := range ss.BarrierBuffer {
		chk.Bar = append(chk.Bar, r.ids[wf])
	}
	r.lastInt = len(chk.Int)
	// the snapshot is recorded only when it differs from the last recorded one
	if r.lastChk == nil || !sameChk(*r.lastChk, chk) {
		evs = append(evs, chk)
		r.lastChk = &chk
	}
	if len(evs) > 0 {
		r.obs.Evs = append(r.obs.Evs, Ev{E: "t", T: r.cycle})
	}
	r.obs.Evs = append(r.obs.Evs, evs...)
}

// ---- the harness as command processor: pipeline flush and restart

// ctrlPort stands in for the CU's control port: it feeds the requests of the
// harness to the CU and keeps the CU's answers to them away from the real
// command processor; everything else goes through the real port.
type ctrlPort struct {
	sim.Port
	inject []sim.Msg
	onRsp  func(sim.Msg)
}

const verifCP = sim.RemotePort("VerifCP")

func (p *ctrlPort) RetrieveIncoming() sim.Msg {
	if len(p.inject) > 0 {
		m := p.inject[0]
		p.inject = p.inject[1:]
		return m
	}
	return p.Port.RetrieveIncoming()
}

func (p *ctrlPort) Send(m sim.Msg) *sim.SendError {
	if m.Meta().Dst == verifCP {
		p.onRsp(m)
		return nil
	}
	return p.Port.Send(m)
}

type restartEvent struct{ *sim.EventBase }

// Handle delivers the restart request some cycles after the flush response.
func (r *recorder) Handle(e sim.Event) error {
	if r.stopped {
		return nil
	}
	r.ctrl.inject = append(r.ctrl.inject, protocol.CUPipelineRestartReqBuilder{}.
		WithSrc(verifCP).WithDst(r.ctrl.Port.AsRemote()).Build())
	r.cu.TickLater()
	return nil
}

func (r *recorder) onCtrlRsp(m sim.Msg) {
	switch m.(type) {
	case *protocol.CUPipelineFlushRsp:
		d := 3 + (r.flushes[r.nextFlush]*7)%23
		t := r.cu.Freq.NCyclesLater(d, r.engine.CurrentTime())
		r.engine.Schedule(restartEvent{sim.NewEventBase(t, r)})
	case *protocol.CUPipelineRestartRsp:
		r.nextFlush++
		r.flushBusy = false
	}
}

// maybeFlush sends the next flush request when its cycle has come; it prefers
// a moment at which some wavefront has memory accesses outstanding.
func (r *recorder) maybeFlush() {
	if r.ctrl == nil || r.flushBusy || r.nextFlush >= len(r.flushes) || r.firstMap < 0 || r.wasPaused {
		return
	}
	due := r.firstMap + r.flushes[r.nextFlush]
	if r.cycle < due {
		return
	}
	inFlight, alive := false, false
	for _, wf := range r.wfs {
		if wf.State != wavefront.WfCompleted {
			alive = true
		}
		if wf.OutstandingScalarMemAccess > 0 || wf.OutstandingVectorMemAccess > 0 {
			inFlight = true
		}
	}
	if !alive || (!inFlight && r.cycle < due+120) {
		return
	}
	r.flushBusy = true
	r.ctrl.inject = append(r.ctrl.inject, protocol.CUPipelineFlushReqBuilder{}.
		WithSrc(verifCP).WithDst(r.ctrl.Port.AsRemote()).Build())
	r.cu.TickLater()
}

func sameInts(a, b []int) bool {
	if len(a) != len(b) {
		return false
	}
	for i := range a {
		if a[i] != b[i] {
			return false
		}
	}
	return true
}

func sameChk(a, b Ev) bool {
	return sameInts(a.St, b.St) && sameInts(a.Sc, b.Sc) && sameInts(a.Vc, b.Vc) && sameInts(a.Int, b.Int) && sameInts(a.Bar, b.Bar)
}

type portHook struct{ r *recorder }

func (h portHook) Func(ctx sim.HookCtx) {
	if ctx.Pos != sim.HookPosPortMsgSend || h.r.stopped {
		return
	}
	if m, ok := ctx.Item.(*protocol.WGCompletionMsg); ok {
		h.r.sends++
		for _, id := range m.RspTo {
			g, ok := h.r.mapReq[id]
			if !ok {
				g = -1
			}
			h.r.obs.Done = append(h.r.obs.Done, DoneRec{G: g, T: h.r.cycle + 1})
		}
	}
}

// refusingPort stands in for the CU's dispatch port: it refuses the first k
// Send attempts of every work-group completion message (as a port whose
// outgoing buffer is full does) and forwards everything else to the real port.
type refusingPort struct {
	sim.Port
	k       int
	tries   map[string]int
	refused *int
	wake    func() // what NotifyPortFree does when a full port drains: tick the component again
	cycle   func() int
	fullIn  int // cycle in which a Send was refused: like a full buffer, the port refuses for the rest of that cycle
}

func (p *refusingPort) Send(msg sim.Msg) *sim.SendError {
	if m, ok := msg.(*protocol.WGCompletionMsg); ok && len(m.RspTo) > 0 {
		id := m.RspTo[0]
		if p.tries[id] < p.k || p.fullIn == p.cycle() {
			p.fullIn = p.cycle()
			p.tries[id]++
			*p.refused++
			p.wake()
			return sim.NewSendError()
		}
	}
	return p.Port.Send(msg)
}

func only(p string) bool {
	o := os.Getenv("C14_ONLY")
	return o == "" || o == p
}

func runTiming(c Case, ws []uint32, timeoutMs int) *TimingObs {
	if !only("timing") {
		return nil
	}
	s := simulation.MakeBuilder().WithoutMonitoring().Build()
	if c.GPU == "mi300a" {
		timingconfig.MakeBuilder().WithSimulation(s).WithNumGPUs(1).WithGPUType("mi300a").VerifBuildShapeOf(1, 1)
	} else {
		timingconfig.MakeBuilder().WithSimulation(s).WithNumGPUs(1).VerifBuildWithShape(1, 1)
	}
	obs := &TimingObs{WgOf: []int{}, IdxOf: []int{}, Evs: []Ev{}, Done: []DoneRec{}, SReqs: []SReq{}}
	var theCU *cu.ComputeUnit
	for _, comp := range s.Components() {
		if x, ok := comp.(*cu.ComputeUnit); ok {
			theCU = x
		}
	}
	if theCU == nil {
		obs.Result = "crash"
		obs.Panic = "no compute unit found"
		return obs
	}
	r := &recorder{cu: theCU, ids: map[*wavefront.Wavefront]int{}, wgIdx: map[*wavefront.WorkGroup]int{},
		mapReq: map[string]int{}, instOf: map[string][2]int{}, pendFin: map[string][2]int{}, obs: obs,
		sreqInst: map[string]string{}, sreqOpen: map[string]int{}, sreqSeen: map[*mem.ReadReq]bool{}, sinstNo: map[string]int{},
		firstMap: -1, flushes: c.Flush, engine: s.GetEngine()}
	if len(c.Flush) > 0 {
		r.ctrl = &ctrlPort{Port: theCU.ToCP, onRsp: r.onCtrlRsp}
		theCU.ToCP = r.ctrl
	}
	if c.Pen > 0 {
		theCU.VerifSetMaxCoalescingPenalty(c.Pen)
	}
	tracing.CollectTrace(theCU, r)
	s.GetEngine().AcceptHook(r)
	theCU.ToACE.AcceptHook(portHook{r})
	theCU.ToScalarMem.AcceptHook(scalarPortHook{r})
	if c.Refuse > 0 {
		theCU.ToACE = &refusingPort{Port: theCU.ToACE, k: c.Refuse, tries: map[string]int{}, refused: &obs.Refused, wake: theCU.TickLater,
			cycle: func() int { return r.cycle }, fullIn: -1}
	}
	d := s.GetComponentByName("Driver").(*driver.Driver)
	d.Run()
	ok, out := launch(d, c, ws, timeoutMs, c.GPU == "mi300a", func() { r.stopped = true })
	obs.Cycles = r.cycle
	obs.Flushes = r.flushCount
	if !ok {
		r.stopped = true
		obs.Result = "hang"
		return obs
	}
	obs.Result = "ok"
	obs.Out = out
	d.Terminate()
	s.Terminate()
	return obs
}

// ---------------------------------------------------------------- emulator

// EmuEv is one barrier or end-of-program instruction logged by the emulator's
// compute unit, in execution order.
type EmuEv struct {
	G int    `json:"g"` // work-group IDX
	I int    `json:"i"` // wavefront index in the work-group
	K string `json:"k"` // bar end
}

type EmuObs struct {
	Result string   `json:"result"` // ok hang crash
	Panic  string   `json:"panic,omitempty"`
	Evs    []EmuEv  `json:"evs"`
	NInst  int      `json:"ninst"`
	Out    []uint32 `json:"out,omitempty"`
	// completion reporting: work-group (IDX) of every MapWGReq ID listed in a
	// WGCompletionMsg that left a compute unit, in order; sizes of the messages
	Done    []int `json:"done"`
	Batches []int `json:"batches"`
	Refused int   `json:"refused"`
}

// emuPortHook watches the dispatcher port of an emulation compute unit.
type emuPortHook struct {
	obs   *EmuObs
	reqWG map[string]int
}

func (h emuPortHook) Func(ctx sim.HookCtx) {
	switch m := ctx.Item.(type) {
	case *protocol.MapWGReq:
		if ctx.Pos == sim.HookPosPortMsgRecvd {
			h.reqWG[m.ID] = m.WorkGroup.IDX
		}
	case *protocol.WGCompletionMsg:
		if ctx.Pos == sim.HookPosPortMsgSend {
			h.obs.Batches = append(h.obs.Batches, len(m.RspTo))
			for _, id := range m.RspTo {
				g, ok := h.reqWG[id]
				if !ok {
					g = -1
				}
				h.obs.Done = append(h.obs.Done, g)
			}
		}
	}
}

type emuHook struct{ obs *EmuObs }

func (h emuHook) Func(ctx sim.HookCtx) {
	wf, ok := ctx.Item.(*emu.Wavefront)
	if !ok {
		return
	}
	inst, ok := ctx.Detail.(*insts.Inst)
	if !ok {
		return
	}
	h.obs.NInst++
	if inst.FormatType == insts.SOPP && (inst.Opcode == 10 || inst.Opcode == 1) {
		k := "bar"
		if inst.Opcode == 1 {
			k = "end"
		}
		h.obs.Evs = append(h.obs.Evs, EmuEv{G: wf.WG.IDX, I: wf.FirstWiFlatID / 64, K: k})
	}
}

func runEmu(c Case, ws []uint32, timeoutMs int) *EmuObs {
	if !only("emu") {
		return nil
	}
	s := simulation.MakeBuilder().WithoutMonitoring().Build()
	// The programs are GCN3-encoded. The scalar/VOP1 subset used by programs
	// without memory instructions is encoded identically for CDNA3, so those
	// run on the CDNA3 emulator when the timing side is an MI300A; programs
	// with memory instructions keep the GCN3 emulator as reference.
	a := arch.GCN3
	if c.GPU == "mi300a" && !usesMem(c.Prog) {
		a = arch.CDNA3
	}
	emusystem.MakeBuilder().WithSimulation(s).WithNumGPUs(1).WithArchitecture(a).Build()
	obs := &EmuObs{Evs: []EmuEv{}, Done: []int{}, Batches: []int{}}
	reqWG := map[string]int{}
	for _, comp := range s.Components() {
		if x, ok := comp.(*emu.ComputeUnit); ok {
			x.AcceptHook(emuHook{obs})
			x.ToDispatcher.AcceptHook(emuPortHook{obs, reqWG})
			if c.Refuse > 0 {
				// the emulation CU retries by itself one cycle later: no wake-up needed
				tick := 0 // every attempt is its own cycle (the retry event comes one cycle later)
				x.ToDispatcher = &refusingPort{Port: x.ToDispatcher, k: c.Refuse, tries: map[string]int{},
					refused: &obs.Refused, wake: func() {}, cycle: func() int { tick++; return tick }, fullIn: -1}
			}
		}
	}
	d := s.GetComponentByName("Driver").(*driver.Driver)
	d.Run()
	ok, out := launch(d, c, ws, timeoutMs, a == arch.CDNA3, nil)
	if !ok {
		obs.Result = "hang"
		return obs
	}
	obs.Result = "ok"
	obs.Out = out
	d.Terminate()
	s.Terminate()
	return obs
}

var _ = fmt.Sprint
