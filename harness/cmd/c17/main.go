// Command c17 drives the real simplebankedmemory.Comp (built through its public
// builder) through its Top port with generated (or replayed) environment
// histories and records what it observes.
package main

import (
	"encoding/json"
	"flag"
	"fmt"
	"os"
	"strings"

	"github.com/sarchlab/akita/v4/mem/mem"
	"github.com/sarchlab/akita/v4/sim"
	"github.com/sarchlab/mgpusim/v4/amd/timing/mem/simplebankedmemory"

	"verifharness/vh"
)

const pTop = 1

// Ilv mirrors mem.InterleavingConverter.
type Ilv struct {
	Size   uint64 `json:"size"`
	Total  uint64 `json:"total"`
	Index  uint64 `json:"index"`
	Offset uint64 `json:"offset"`
}

// Cfg is the builder configuration of one case.
type Cfg struct {
	Banks     int    `json:"banks"`
	Width     int    `json:"width"`
	Depth     int    `json:"depth"`
	Cps       int    `json:"cps"`
	TopCap    int    `json:"topcap"`
	PostCap   int    `json:"postcap"`
	Log2Ilv   uint64 `json:"log2ilv"`
	RowLog2   uint64 `json:"rowlog2"`
	MissDelay int    `json:"missdelay"`
	Capacity  uint64 `json:"capacity"`
	AConv     *Ilv   `json:"aconv,omitempty"`
	BConv     *Ilv   `json:"bconv,omitempty"`
	// how the builder is used (not part of the Coq configuration): a second
	// component built from the same builder value / an explicit WithStorage
	Twin       bool `json:"twin,omitempty"`
	OwnStorage bool `json:"ownstorage,omitempty"`
}

// StorEntry is a range read back directly from the storage object.
type StorEntry struct {
	Addr uint64 `json:"addr"`
	Data []int  `json:"data"`
}

// Event is one environment action in canonical (replayable) form.
type Event struct {
	E   string  `json:"e"` // d tick r | tw (write through the twin component) | st (read the storage back)
	Msg *vh.Msg `json:"msg,omitempty"`
	// for st: the ranges to read (input) and what the storage holds (observation)
	Stor []StorEntry `json:"stor,omitempty"`
	// observation
	Acc      *bool   `json:"acc,omitempty"`
	Progress *bool   `json:"progress,omitempty"`
	Got      *vh.Msg `json:"got,omitempty"`
	None     bool    `json:"none,omitempty"`
	Crash    bool    `json:"crash,omitempty"`
}

type Case struct {
	Cfg     Cfg     `json:"cfg"`
	Hostile bool    `json:"hostile"`
	Events  []Event `json:"events"`
	Coq     string  `json:"coq"`
}

type runner struct {
	comp    *simplebankedmemory.Comp
	top     sim.Port
	canon   *vh.Canon
	twin    *simplebankedmemory.Comp
	twinTop sim.Port
	storage *mem.Storage // the storage object the component is expected to use
}

func conv(i *Ilv) mem.AddressConverter {
	return &mem.InterleavingConverter{
		InterleavingSize:    i.Size,
		TotalNumOfElements:  int(i.Total),
		CurrentElementIndex: int(i.Index),
		Offset:              i.Offset,
	}
}

func newRunner(c Cfg) *runner {
	r := &runner{canon: vh.NewCanon()}
	b := simplebankedmemory.MakeBuilder().
		WithEngine(sim.NewSerialEngine()).
		WithFreq(1 * sim.GHz).
		WithNumBanks(c.Banks).
		WithBankPipelineWidth(c.Width).
		WithBankPipelineDepth(c.Depth).
		WithStageLatency(c.Cps).
		WithTopPortBufferSize(c.TopCap).
		WithPostPipelineBufferSize(c.PostCap).
		WithLog2InterleaveSize(c.Log2Ilv).
		WithRowBufferSizeLog2(c.RowLog2).
		WithRowMissDelay(c.MissDelay)
	if c.OwnStorage {
		r.storage = mem.NewStorage(c.Capacity)
		b = b.WithStorage(r.storage)
	} else {
		b = b.WithNewStorage(c.Capacity)
	}
	if c.AConv != nil {
		b = b.WithAddressConverter(conv(c.AConv))
	}
	if c.BConv != nil {
		b = b.WithBankAddressConverter(conv(c.BConv))
	}
	r.comp = b.Build("DRAM")
	r.top = r.comp.GetPortByName("Top")
	(&vh.StubConn{}).PlugIn(r.top)
	if r.storage == nil {
		r.storage = r.comp.Storage
	}
	if c.Twin && !c.OwnStorage {
		// a second memory from the very same builder value must be independent
		r.twin = b.Build("DRAM2")
		r.twinTop = r.twin.GetPortByName("Top")
		(&vh.StubConn{}).PlugIn(r.twinTop)
	}
	r.canon.SetPort(r.top.AsRemote(), pTop)
	r.canon.SetPort("", 0)
	for i := 10; i < 40; i++ {
		r.canon.SetPort(agent(uint64(i)), uint64(i))
	}
	return r
}

func agent(n uint64) sim.RemotePort {
	switch n {
	case 0:
		return ""
	case pTop:
		return "DRAM.TopPort"
	}
	return sim.RemotePort(fmt.Sprintf("Agent%d", n))
}

func (r *runner) toSim(m *vh.Msg) sim.Msg {
	switch m.Kind {
	case "KRead":
		q := mem.ReadReqBuilder{}.WithSrc(agent(m.Src)).WithDst(r.top.AsRemote()).
			WithAddress(m.Addr).WithByteSize(m.Size).Build()
		r.canon.SetID(q.ID, m.ID)
		return q
	case "KWrite":
		var mask []bool // the model reads an empty mask as "no mask" (nil)
		if len(m.Mask) > 0 {
			mask = m.Mask
		}
		q := mem.WriteReqBuilder{}.WithSrc(agent(m.Src)).WithDst(r.top.AsRemote()).
			WithAddress(m.Addr).WithData(m.Data).WithDirtyMask(mask).Build()
		r.canon.SetID(q.ID, m.ID)
		return q
	default: // anything that is not a mem.AccessReq
		q := mem.ControlMsgBuilder{}.WithSrc(agent(m.Src)).WithDst(r.top.AsRemote()).Build()
		r.canon.SetID(q.ID, m.ID)
		return q
	}
}

func bp(b bool) *bool { return &b }

func (r *runner) apply(e *Event) (crashed bool) {
	defer func() {
		if x := recover(); x != nil {
			e.Crash = true
			crashed = true
		}
	}()
	switch e.E {
	case "d":
		e.Acc = bp(r.top.Deliver(r.toSim(e.Msg)) == nil)
	case "tick":
		e.Progress = bp(r.comp.Tick())
	case "r":
		m := r.top.RetrieveOutgoing()
		if m == nil {
			e.None = true
		} else {
			g := r.canon.FromSim(m, 0)
			e.Got = &g
		}
	case "tw":
		// a write performed completely on the twin component (never on the one under test)
		if r.twin != nil {
			q := mem.WriteReqBuilder{}.WithSrc(agent(e.Msg.Src)).WithDst(r.twinTop.AsRemote()).
				WithAddress(e.Msg.Addr).WithData(e.Msg.Data).Build()
			ok := r.twinTop.Deliver(q) == nil
			for k := 0; ok && k < 2000; k++ {
				r.twin.Tick()
				if r.twinTop.RetrieveOutgoing() != nil {
					break
				}
			}
		}
	case "st":
		for i := range e.Stor {
			n := len(e.Stor[i].Data)
			data, err := r.storage.Read(e.Stor[i].Addr, uint64(n))
			if err != nil {
				panic(err)
			}
			e.Stor[i].Data = make([]int, n)
			for j, b := range data {
				e.Stor[i].Data[j] = int(b)
			}
		}
	}
	return false
}

// ------------------------------------------------------------ generation

func pickI(rng *vh.Rng, xs ...int) int { return xs[rng.Intn(len(xs))] }

func genCfg(rng *vh.Rng, hostile bool) Cfg {
	c := Cfg{
		Banks:     pickI(rng, 1, 1, 2, 2, 16, 32, 3, 5, 6, 7, 12, 24, 31, 1+rng.Intn(32), 1+rng.Intn(32), 1+rng.Intn(32)),
		Width:     pickI(rng, 1, 1, 2),
		Depth:     pickI(rng, 1, 1, 5, 2),
		Cps:       pickI(rng, 1, 1, 2, 3),
		TopCap:    pickI(rng, 1, 2, 4, 16),
		PostCap:   pickI(rng, 1, 1, 2, 128),
		Log2Ilv:   uint64(pickI(rng, 6, 6, 4, 8)),
		RowLog2:   uint64(pickI(rng, 0, 7, 8, 8, 11)),
		MissDelay: pickI(rng, 0, 5, 5, 52, 2),
		Capacity:  1 << 32,
	}
	if hostile {
		switch rng.Intn(4) {
		case 0:
			c.Capacity = 8192
		case 1:
			c.BConv = &Ilv{Size: 4096, Total: 2, Index: uint64(rng.Intn(2))}
		case 2:
			c.AConv = &Ilv{Size: 256, Total: 2, Index: uint64(rng.Intn(2)), Offset: uint64(rng.Intn(2)) * 64}
		}
	} else if rng.Intn(6) == 0 {
		// the shape the MI300A platform uses: a bank-selection converter only
		c.BConv = &Ilv{Size: 4096, Total: 4, Index: uint64(rng.Intn(4))}
	} else if rng.Intn(7) == 0 {
		// private storage addressed locally: a storage address converter (the
		// traffic stays inside the element it belongs to)
		c.AConv = &Ilv{Size: 4096, Total: uint64(2 + 2*rng.Intn(2)), Index: 0}
		c.AConv.Index = uint64(rng.Intn(int(c.AConv.Total)))
	} else if rng.Intn(2) == 0 {
		// capacities that are not a multiple of the stripe (banks << log2ilv), of
		// the row, or of the 4 KiB storage unit; the traffic then also goes to the
		// last bytes of the configured capacity
		c.Capacity = uint64(pickI(rng, 1<<20, 1<<20, 1<<16, 1<<20+64, 1<<20+4096+192, 3<<18, 100000, 65536+192,
			1<<20-37, 1<<17+1, 70000+rng.Intn(200000)))
	}
	if !hostile {
		switch rng.Intn(5) {
		case 0:
			c.Twin = true
		case 1:
			c.OwnStorage = true
		}
	}
	return c
}

// generate produces and runs one random history.
func generate(rng *vh.Rng, hostile bool) Case {
	c := Case{Cfg: genCfg(rng, hostile), Hostile: hostile}
	r := newRunner(c.Cfg)
	// a small pool of hot addresses so that requests conflict; spread so that
	// several rows of one bank and several banks are touched
	elem := c.Cfg.BConv
	if elem == nil {
		elem = c.Cfg.AConv
	}
	npool := 2 + rng.Intn(5)
	pool := make([]uint64, npool)
	for i := range pool {
		switch rng.Intn(4) {
		case 0:
			pool[i] = uint64(rng.Intn(4)) * 64
		case 1:
			pool[i] = uint64(rng.Intn(64)) * 256
		case 2:
			pool[i] = uint64(rng.Intn(8))*2048 + uint64(rng.Intn(2))*64
		default:
			pool[i] = uint64(rng.Intn(1 << 14))
		}
		if elem != nil && !hostile {
			// stay inside the element the converter belongs to
			b := elem
			pool[i] = (pool[i]/b.Size*b.Total+b.Index)*b.Size + pool[i]%b.Size
		}
	}
	// the top of the configured capacity: last byte, last 64-byte line, last
	// interleave unit, around the last stripe boundary, around the last 4 KiB unit
	topClass := !hostile && elem == nil && c.Cfg.Capacity < 1<<32
	var top []uint64
	if topClass {
		capa := c.Cfg.Capacity
		ilv := uint64(1) << c.Cfg.Log2Ilv
		stripe := ilv * uint64(c.Cfg.Banks)
		lastStripe := capa / stripe * stripe
		top = []uint64{capa - 1, capa - 4, capa - 64, capa - ilv, capa - ilv - 3, lastStripe, lastStripe - 8, lastStripe + ilv - 2,
			capa / 64 * 64, capa / 4096 * 4096, capa/4096*4096 - 5, capa - uint64(1+rng.Intn(200))}
		for i := range pool {
			if rng.Intn(2) == 0 {
				pool[i] = top[rng.Intn(len(top))]
			}
		}
	}
	n := 30 + rng.Intn(120)
	wD := 20 + rng.Intn(40)
	wT := 15 + rng.Intn(40)
	wR := rng.Intn(25)
	if rng.Intn(4) == 0 {
		wR = 0 // back-pressure: nobody retrieves until the final drain
	}
	next := uint64(1)
	burst := 0
	mkReq := func() *vh.Msg {
		addr := pool[rng.Intn(len(pool))]
		switch rng.Intn(4) {
		case 0:
			addr += uint64(rng.Intn(8))
		case 1:
			if addr >= 40 {
				addr -= uint64(rng.Intn(40)) // may straddle the interleave boundary below
			}
		}
		if elem != nil && !hostile {
			b := elem
			if (addr/b.Size)%b.Total != b.Index {
				addr = pool[0]
			}
		}
		m := &vh.Msg{ID: next, Src: uint64(10 + rng.Intn(3)), Dst: pTop, Addr: addr}
		next++
		if rng.Intn(2) == 0 {
			m.Kind = "KRead"
			m.Size = uint64(pickI(rng, 1, 4, 4, 8, 64, 64, 1+rng.Intn(64)))
		} else {
			m.Kind = "KWrite"
			sz := pickI(rng, 1, 4, 4, 8, 64, 1+rng.Intn(64))
			m.Data = make([]byte, sz)
			for j := range m.Data {
				m.Data[j] = byte(rng.U64())
			}
			if rng.Intn(3) == 0 {
				m.Mask = make([]bool, sz+rng.Intn(2)*rng.Intn(3))
				for j := range m.Mask {
					m.Mask[j] = rng.Bool()
				}
			}
		}
		if !hostile {
			// protocol-respecting traffic stays inside the configured capacity
			capa := c.Cfg.Capacity
			if m.Addr >= capa {
				m.Addr = capa - 1
			}
			room := capa - m.Addr
			if m.Kind == "KRead" && m.Size > room {
				m.Size = room
			}
			if m.Kind == "KWrite" && uint64(len(m.Data)) > room {
				m.Data = m.Data[:room]
				if len(m.Mask) > 0 {
					m.Mask = m.Mask[:room]
				}
			}
		}
		if hostile && rng.Intn(50) == 0 {
			switch rng.Intn(6) {
			case 0:
				m.Kind = "KCtrl"
				m.Size, m.Data, m.Mask, m.Addr = 0, nil, nil, 0
			case 1:
				if m.Kind == "KWrite" && len(m.Data) > 1 {
					m.Mask = make([]bool, 1+rng.Intn(len(m.Data)-1)) // shorter than the data
				}
			case 2:
				m.Addr = c.Cfg.Capacity - uint64(rng.Intn(80)) + uint64(rng.Intn(5000))
			case 3:
				m.Src = uint64(rng.Intn(2)) // empty source or the DRAM's own port
			case 4:
				m.Addr += uint64(rng.Intn(3)) * 4096
			case 5:
				m.Size = 0
				m.Data = nil
				m.Mask = nil
			}
		}
		m.Fix()
		return m
	}
	// a request with an explicit range, clipped to the configured capacity
	direct := func(kind string, addr, n uint64, masked bool, src uint64) *vh.Msg {
		capa := c.Cfg.Capacity
		if addr >= capa {
			addr = capa - 1
		}
		if n == 0 {
			n = 1
		}
		if addr+n > capa {
			n = capa - addr
		}
		m := &vh.Msg{ID: next, Src: src, Dst: pTop, Addr: addr, Kind: kind}
		next++
		if kind == "KRead" {
			m.Size = n
		} else {
			m.Data = make([]byte, n)
			for j := range m.Data {
				m.Data[j] = byte(rng.U64()) | 1
			}
			if masked {
				m.Mask = make([]bool, n)
				for j := range m.Mask {
					m.Mask[j] = rng.Intn(3) > 0
				}
				m.Mask[n-1] = true // the far end of a straddling write is enabled
			}
		}
		m.Fix()
		return m
	}
	// a second request to the same bank but another row: the two row misses
	// expire together (or the second expires while the first occupies stage 0)
	rowPartner := func(m *vh.Msg) *vh.Msg {
		stride := uint64(1) << c.Cfg.Log2Ilv
		if r := uint64(1) << c.Cfg.RowLog2; r > stride {
			stride = r
		}
		stride *= uint64(c.Cfg.Banks)
		if elem != nil {
			stride *= elem.Total * elem.Size // stays in the same element
		}
		d := stride * uint64(1+rng.Intn(3))
		pa := m.Addr + d
		if pa+4 > c.Cfg.Capacity { // stay inside the capacity: go down instead of up, or stay
			switch {
			case m.Addr >= d:
				pa = m.Addr - d
			case m.Addr >= stride:
				pa = m.Addr - stride
			case m.Addr+4 <= c.Cfg.Capacity:
				pa = m.Addr
			default:
				pa = 0
			}
		}
		p := &vh.Msg{ID: next, Src: m.Src, Dst: pTop, Addr: pa, Kind: "KRead", Size: 4}
		next++
		p.Fix()
		return p
	}
	var written [][2]uint64 // ranges written through the component under test or the twin
	crashed := false
	accepted, retrieved := 0, 0
	step := func(e Event) bool {
		crashed = r.apply(&e)
		c.Events = append(c.Events, e)
		if e.E == "d" && e.Acc != nil && *e.Acc {
			accepted++
			if e.Msg.Kind == "KWrite" {
				written = append(written, [2]uint64{e.Msg.Addr, uint64(len(e.Msg.Data))})
			}
		}
		if e.E == "r" && e.Got != nil {
			retrieved++
		}
		return !crashed
	}
	for i := 0; i < n && !crashed; i++ {
		if burst > 0 {
			burst--
			step(Event{E: "d", Msg: mkReq()})
			continue
		}
		switch rng.Pick(wD, wT, wR, 2, 3, 2, 4, 4, 3) {
		case 7:
			// same-cycle burst on a hot block: ranges that overlap partially from
			// either side, the same range read again around writes, several sources
			if !hostile && elem == nil {
				if rng.Bool() {
					step(Event{E: "tick"}) // empty the port first so that the burst arrives in one cycle
				}
				base := pool[rng.Intn(len(pool))]
				if base < 16 {
					base = 16
				}
				lo := base + uint64(rng.Intn(12))
				n := uint64(pickI(rng, 4, 8, 8, 16, 1+rng.Intn(24)))
				src := uint64(10 + rng.Intn(3))
				pickSrc := func() uint64 {
					if rng.Intn(3) == 0 {
						return uint64(10 + rng.Intn(3))
					}
					return src
				}
				if !crashed {
					step(Event{E: "d", Msg: direct("KRead", lo, n, false, pickSrc())})
				}
				for k := 1 + rng.Intn(4); k > 0 && !crashed; k-- {
					switch rng.Intn(7) {
					case 0, 1: // write starting below the range and reaching into it
						d := uint64(1 + rng.Intn(12))
						step(Event{E: "d", Msg: direct("KWrite", lo-d, d+1+uint64(rng.Intn(int(n))), rng.Intn(4) == 0, pickSrc())})
					case 2: // write starting inside, ending inside or beyond
						o := uint64(rng.Intn(int(n)))
						step(Event{E: "d", Msg: direct("KWrite", lo+o, 1+uint64(rng.Intn(int(n)+8)), rng.Intn(4) == 0, pickSrc())})
					case 3: // write covering the range on both sides
						d := uint64(rng.Intn(8))
						step(Event{E: "d", Msg: direct("KWrite", lo-d, d+n+uint64(rng.Intn(8)), rng.Intn(4) == 0, pickSrc())})
					case 4: // write just above / just below (no overlap)
						if rng.Bool() {
							step(Event{E: "d", Msg: direct("KWrite", lo+n, 1+uint64(rng.Intn(8)), false, pickSrc())})
						} else {
							step(Event{E: "d", Msg: direct("KWrite", lo-8, uint64(1+rng.Intn(8)), false, pickSrc())})
						}
					case 5: // the same range again
						step(Event{E: "d", Msg: direct("KRead", lo, n, false, pickSrc())})
					default: // an overlapping but different range
						step(Event{E: "d", Msg: direct("KRead", lo-uint64(rng.Intn(6)), n+uint64(rng.Intn(6)), false, pickSrc())})
					}
				}
				if !crashed {
					step(Event{E: "d", Msg: direct("KRead", lo, n, false, pickSrc())})
				}
			}
		case 8:
			// an access straddling a 4 KiB storage-unit boundary, then reads wholly
			// below, wholly above and across it
			if !hostile && elem == nil && c.Cfg.Capacity >= 1<<16 {
				bd := uint64(4096 * (1 + rng.Intn(15)))
				below := uint64(1 + rng.Intn(63))
				above := uint64(1 + rng.Intn(64-int(below)+1))
				step(Event{E: "d", Msg: direct("KWrite", bd-below, below+above, rng.Intn(2) == 0, uint64(10+rng.Intn(3)))})
				for k := rng.Intn(4); k > 0 && !crashed; k-- {
					step(Event{E: "tick"})
				}
				order := []int{0, 1, 2}
				if rng.Bool() {
					order = []int{1, 2, 0}
				}
				for _, w := range order {
					if crashed {
						break
					}
					switch w {
					case 0: // wholly in the upper unit
						step(Event{E: "d", Msg: direct("KRead", bd+uint64(rng.Intn(int(above))), uint64(1+rng.Intn(16)), false, 10)})
					case 1: // wholly in the lower unit
						step(Event{E: "d", Msg: direct("KRead", bd-below, below, false, 11)})
					default: // across
						step(Event{E: "d", Msg: direct("KRead", bd-uint64(1+rng.Intn(int(below))), below+above, false, 12)})
					}
				}
			}
		case 6:
			// a run of ticks with nothing in between (what the engine does while the
			// component reports progress; a quiet tick must then stay quiet)
			for k := 2 + rng.Intn(12); k > 0 && !crashed; k-- {
				step(Event{E: "tick"})
			}
		case 4:
			if !hostile {
				m := mkReq()
				step(Event{E: "d", Msg: m})
				if !crashed {
					step(Event{E: "d", Msg: rowPartner(m)})
				}
			}
		case 5:
			if r.twin != nil {
				m := mkReq()
				m.Kind, m.Size, m.Mask = "KWrite", 0, nil
				if len(m.Data) == 0 {
					m.Data = []byte{byte(rng.U64()) | 1, 0xa5, 0x5a, 0xff}
				}
				for j := range m.Data {
					m.Data[j] |= 1 // never zero: leaks into an untouched location are visible
				}
				m.Fix()
				written = append(written, [2]uint64{m.Addr, uint64(len(m.Data))})
				step(Event{E: "tw", Msg: m})
			}
		case 0:
			step(Event{E: "d", Msg: mkReq()})
		case 1:
			step(Event{E: "tick"})
		case 2:
			step(Event{E: "r"})
		case 3:
			burst = 2 + rng.Intn(2*c.Cfg.TopCap+4)
		}
	}
	// final drain: tick and retrieve until the component is quiet
	quiet := 0
	for k := 0; k < 700 && !crashed && quiet < 2; k++ {
		if !step(Event{E: "tick"}) {
			break
		}
		idle := !*c.Events[len(c.Events)-1].Progress
		if idle && rng.Bool() {
			if !step(Event{E: "tick"}) {
				break
			}
			idle = !*c.Events[len(c.Events)-1].Progress
		}
		if rng.Intn(3) > 0 || idle {
			if !step(Event{E: "r"}) {
				break
			}
			idle = idle && c.Events[len(c.Events)-1].None
		} else {
			idle = false
		}
		if idle {
			quiet++
		} else {
			quiet = 0
		}
	}
	// fair tail: rounds of (retrieve everything, tick). By dram_every_request_answered
	// inflight * (missdelay + cps*depth + 4) such rounds answer every request; stop
	// as soon as all are answered, give up (rule not applicable) beyond 600 rounds
	if !crashed && !hostile {
		per := c.Cfg.MissDelay + c.Cfg.Cps*c.Cfg.Depth + 4
		rounds := (accepted - retrieved) * per
		if rounds > 600 {
			rounds = 600
		}
		retrAll := func() bool {
			for {
				if !step(Event{E: "r"}) {
					return false
				}
				if c.Events[len(c.Events)-1].None {
					return true
				}
			}
		}
		for k := 0; k < rounds && !crashed && retrieved < accepted; k++ {
			if !retrAll() || !step(Event{E: "tick"}) {
				break
			}
		}
		if !crashed {
			retrAll()
		}
		// what the storage object holds where somebody wrote (directly observable state)
		if !crashed && c.Cfg.AConv == nil && len(written) > 0 {
			e := Event{E: "st"}
			for _, w := range written {
				e.Stor = append(e.Stor, StorEntry{Addr: w[0], Data: make([]int, w[1])})
			}
			step(e)
		}
	}
	c.Coq = caseCoq(&c)
	return c
}

// replay runs stored events (observations are recomputed).
func replay(c Case) Case {
	r := newRunner(c.Cfg)
	out := Case{Cfg: c.Cfg, Hostile: c.Hostile}
	for _, e := range c.Events {
		ne := Event{E: e.E, Msg: e.Msg}
		for _, se := range e.Stor {
			ne.Stor = append(ne.Stor, StorEntry{Addr: se.Addr, Data: make([]int, len(se.Data))})
		}
		if ne.Msg != nil {
			ne.Msg.Data = make([]byte, len(ne.Msg.DataI))
			for i, x := range ne.Msg.DataI {
				ne.Msg.Data[i] = byte(x)
			}
			ne.Msg.Fix()
		}
		crashed := r.apply(&ne)
		out.Events = append(out.Events, ne)
		if crashed {
			break
		}
	}
	out.Coq = caseCoq(&out)
	return out
}

func evCoq(e *Event) string {
	var ev, ob string
	switch e.E {
	case "d":
		ev = "EDeliver " + e.Msg.Coq()
	case "tick":
		ev = "ETick"
	case "r":
		ev = "ERetr"
	}
	switch {
	case e.Crash:
		ob = "OCrash"
	case e.Acc != nil:
		ob = "OAcc " + vh.CoqBool(*e.Acc)
	case e.Progress != nil:
		ob = "OTick " + vh.CoqBool(*e.Progress)
	case e.None:
		ob = "OMsg None"
	case e.Got != nil:
		ob = "OMsg (Some " + e.Got.Coq() + ")"
	}
	return "(" + ev + ", " + ob + ")"
}

func ilvCoq(i *Ilv) string {
	if i == nil {
		return "None"
	}
	return fmt.Sprintf("(Some (mkIlv %d %d %d %d))", i.Size, i.Total, i.Index, i.Offset)
}

func cfgCoq(c *Cfg) string {
	return fmt.Sprintf("(mkCfg true %s %s %s %s %s %s %d %d %s %d %s %s)",
		vh.CoqNat(c.Banks), vh.CoqNat(c.Width), vh.CoqNat(c.Depth), vh.CoqNat(c.Cps),
		vh.CoqNat(c.TopCap), vh.CoqNat(c.PostCap), c.Log2Ilv, c.RowLog2, vh.CoqNat(c.MissDelay),
		c.Capacity, ilvCoq(c.AConv), ilvCoq(c.BConv))
}

func caseCoq(c *Case) string {
	items := make([]string, 0, len(c.Events))
	for i := range c.Events {
		if c.Events[i].E == "tw" || c.Events[i].E == "st" {
			continue // builder-usage probes: not events of the modelled component
		}
		items = append(items, evCoq(&c.Events[i]))
	}
	return fmt.Sprintf("mkCase %s %s", cfgCoq(&c.Cfg), "["+strings.Join(items, ";\n  ")+"]")
}

func main() {
	seed := flag.Uint64("seed", 1, "seed")
	n := flag.Int("n", 100, "number of histories")
	hostileEvery := flag.Int("hostile-every", 5, "every k-th history uses the hostile stream")
	out := flag.String("out", "", "output JSON file")
	rep := flag.String("replay", "", "JSON file with cases to replay")
	flag.Parse()

	var cases []Case
	if *rep != "" {
		data, err := os.ReadFile(*rep)
		if err != nil {
			panic(err)
		}
		var in []Case
		if err := json.Unmarshal(data, &in); err != nil {
			panic(err)
		}
		for _, c := range in {
			cases = append(cases, replay(c))
		}
	} else {
		rng := vh.NewRng(*seed)
		for i := 0; i < *n; i++ {
			cases = append(cases, generate(rng.Fork(), *hostileEvery > 0 && i%*hostileEvery == *hostileEvery-1))
		}
	}
	data, _ := json.Marshal(cases)
	if *out == "" {
		os.Stdout.Write(data)
	} else if err := os.WriteFile(*out, data, 0o644); err != nil {
		panic(err)
	}
}
