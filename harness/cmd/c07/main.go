// Command c07 drives the real register stores of both execution modes — the
// emulator's emu.Wavefront and the timing model's wavefront.Wavefront on top of
// cu.CURegFileAccessor + cu.SimpleRegisterFile — with generated (or replayed)
// histories of operand reads and writes issued by three co-resident
// wavefronts, and records what it observes (returned bytes / values, panics,
// and every storage cell that differs from the initial fill at the end).
package main

import (
	"encoding/binary"
	"io"
	"log"
	"encoding/json"
	"flag"
	"fmt"
	"os"
	"sort"
	"strings"

	"github.com/sarchlab/akita/v4/mem/mem"
	"github.com/sarchlab/akita/v4/mem/vm"
	"github.com/sarchlab/akita/v4/sim"
	"github.com/sarchlab/mgpusim/v4/amd/emu"
	"github.com/sarchlab/mgpusim/v4/amd/insts"
	"github.com/sarchlab/mgpusim/v4/amd/kernels"
	"github.com/sarchlab/mgpusim/v4/amd/protocol"
	"github.com/sarchlab/mgpusim/v4/amd/timing/cu"
	"github.com/sarchlab/mgpusim/v4/amd/timing/wavefront"

	"verifharness/vh"
)

const (
	sFileBytes = 3200 * 4  // default CU builder: 3200 SGPRs
	vFileBytes = 16384 * 4 // default CU builder: 16384 VGPRs per SIMD
	laneBytes  = 1024      // equipRegisterFiles: ByteSizePerLane of the vector files
	numSIMD    = 4         // default CU builder: four SIMD units (wavefronts are placed on the first two)
	dumpCap    = 2048      // at most this many differing cells / bytes are listed per file (the total is always reported)
)

type Wave struct {
	SOff  int `json:"soff"`
	VOff  int `json:"voff"`
	SIMD  int `json:"simd"`
	NSgpr int `json:"nsgpr"`
	NVgpr int `json:"nvgpr"`
}

type Obs struct {
	Panic bool    `json:"panic,omitempty"`
	Bytes []int   `json:"bytes,omitempty"` // content of the returned slice at the END of the history
	Val   *uint64 `json:"val,omitempty"`
	// the returned slice changed after it was handed out (it aliases storage or another answer)
	Mutated bool  `json:"mutated,omitempty"`
	First   []int `json:"first,omitempty"` // what it held when it was returned, if different
}

type Acc struct {
	W    int    `json:"w"`
	Side string `json:"side"` // both | emu | timing
	API  string `json:"api"`  // rb wb ru wu reset
	Reg  string `json:"reg"`  // s v vcc vcclo vcchi exec execlo exechi scc m0 | any other register name
	Idx  int    `json:"idx"`
	Cnt  int    `json:"cnt"`
	Lane int    `json:"lane"`
	BC   int    `json:"bc,omitempty"`
	Data []int  `json:"data,omitempty"`
	Val  uint64 `json:"val,omitempty"`
	Lanes []int `json:"lanes,omitempty"` // vload: the lanes that receive Cnt dwords each (Data back to back)
	Fresh *Fresh `json:"fresh,omitempty"` // newgen: the newly dispatched wavefronts before anybody touched them
	Emu  *Obs   `json:"emu,omitempty"`
	Tim  *Obs   `json:"tim,omitempty"`
}

type EmuDump struct {
	S    [][2]uint64 `json:"s"` // (index, dword) where different from the initial fill
	V    [][3]uint64 `json:"v"` // (lane, index, dword)
	NS   int         `json:"ns"` // number of differing cells (the lists are capped at dumpCap)
	NV   int         `json:"nv"`
	Vcc  uint64      `json:"vcc"`
	Exec uint64      `json:"exec"`
	Scc  uint64      `json:"scc"`
	M0   uint64      `json:"m0"`
}

type TimDump struct {
	S    [][2]uint64 `json:"s"` // (byte address, byte) of the shared scalar file
	V    [][3]uint64 `json:"v"` // (simd, byte address, byte)
	NS   int         `json:"ns"` // number of differing bytes (the lists are capped at dumpCap)
	NV   int         `json:"nv"`
	Vcc  []uint64    `json:"vcc"`
	Exec []uint64    `json:"exec"`
	Scc  []uint64    `json:"scc"`
	M0   []uint64    `json:"m0"`
}

// FreshDump is what a newly dispatched wavefront looks like before anybody touched it.
type FreshDump struct {
	Vcc  uint64      `json:"vcc"`
	Exec uint64      `json:"exec"`
	Scc  uint64      `json:"scc"`
	M0   uint64      `json:"m0"`
	S    [][2]uint64 `json:"s"` // non-zero scalar registers (index, dword), capped
	V    [][3]uint64 `json:"v"` // non-zero vector registers other than the dispatcher's v0 = work-item id (lane, index, dword), capped
	V0OK bool        `json:"v0ok"` // v0 of lane l holds the work-item id 64*w + l
	NS   int         `json:"ns"`
	NV   int         `json:"nv"`
}

type Fresh struct {
	Emu []FreshDump `json:"emu"`
	Tim []FreshDump `json:"tim"`
}

type Case struct {
	Waves   []Wave    `json:"waves"`
	Hostile bool      `json:"hostile"`
	Accs    []Acc     `json:"accs"`
	Fresh0  *Fresh    `json:"fresh0,omitempty"` // the wavefronts of the first work-group right after dispatch
	EmuEnd  []EmuDump `json:"emu_end,omitempty"`
	TimEnd  *TimDump  `json:"tim_end,omitempty"`
	Coq     []string  `json:"coq,omitempty"` // one term per wavefront generation
	DecoderCountDrift []string `json:"decoder_count_drift,omitempty"` // decoder operands whose RegCount is not what the instruction's width says
}

// ---------------------------------------------------------------- initial fill

func pat(salt, a int) byte { return byte((a*37 + salt*101 + 11) % 251) }

func vcc0(w int) uint64  { return 0x1111111122222222 + uint64(w) }
func exec0(w int) uint64 { return 0x3333333344444444 + uint64(w) }
func scc0(w int) byte    { return byte(w & 1) }
func m00(w int) uint32   { return 0x55555555 + uint32(w) }

func sInit(waves []Wave, a int) byte {
	for w, wv := range waves {
		if a >= wv.SOff && a < wv.SOff+4*wv.NSgpr {
			return pat(w+1, a-wv.SOff)
		}
	}
	return pat(50, a)
}

func vInit(waves []Wave, simd, a int) byte {
	lane, r := a/laneBytes, a%laneBytes
	for w, wv := range waves {
		if wv.SIMD == simd && r >= wv.VOff && r < wv.VOff+4*wv.NVgpr {
			return pat(w+11, lane*laneBytes+r-wv.VOff)
		}
	}
	return pat(60+simd, a)
}

// ---------------------------------------------------------------- the two implementations

// hookALU is the ALU of the real emulation compute unit: instead of executing
// the instruction it hands the wavefront object the compute unit created to the harness.
type hookALU struct {
	lds []byte
	run func(wf *emu.Wavefront)
}

func (a *hookALU) Run(state emu.InstEmuState) { a.run(state.(*emu.Wavefront)) }
func (a *hookALU) SetLDS(lds []byte)          { a.lds = lds }
func (a *hookALU) LDS() []byte                { return a.lds }
func (a *hookALU) ArchName() string           { return "GCN3" }

// progMem serves the machine code every wavefront runs:
//   s_nop 0; s_barrier; s_nop 0; s_endpgm
// (at the first s_nop each wavefront object is captured; at the second s_nop
// of the first wavefront all objects of the work-group are known and the
// harness runs its accesses on them.)
type progMem struct{}

const progBase = 0x1000

var progWords = []uint32{0xBF800000, 0xBF8A0000, 0xBF800000, 0xBF810000}

func (progMem) Read(_ vm.PID, vAddr, n uint64) []byte {
	out := make([]byte, n)
	for i := range out {
		k := int(vAddr-progBase) + i
		if k >= 0 && k < 4*len(progWords) {
			out[i] = byte(progWords[k/4] >> (8 * (k % 4)))
		}
	}
	return out
}
func (progMem) Write(vm.PID, uint64, []byte) {}

type world struct {
	waves  []Wave
	engine sim.Engine
	ecu    *emu.ComputeUnit
	alu    *hookALU
	ewf    []*emu.Wavefront
	cu     *cu.ComputeUnit
	twf    []*wavefront.Wavefront
	gen    int
}

func newWorld(waves []Wave) *world {
	x := &world{waves: waves, engine: sim.NewSerialEngine()}
	// the real emulation compute unit with the real disassembler; wavefront objects come from its initWfs
	x.alu = &hookALU{}
	x.ecu = emu.NewComputeUnit("EmuCU", x.engine, insts.NewDisassembler(), x.alu, progMem{})
	conn := &vh.StubConn{}
	conn.PlugIn(x.ecu.ToDispatcher)
	// a real timing compute unit from the public builder (3200 SGPRs, 4 x 16384 VGPRs), ports on a stub connection
	x.cu = cu.MakeBuilder().WithEngine(sim.NewSerialEngine()).Build("CU")
	for _, p := range []sim.Port{x.cu.ToACE, x.cu.ToCP, x.cu.ToInstMem, x.cu.ToScalarMem, x.cu.ToVectorMem} {
		conn.PlugIn(p)
	}
	if len(x.cu.VRegFile) != numSIMD {
		panic("the CU builder no longer makes four SIMD register files")
	}
	return x
}

// newWG makes the work-group (one wavefront per co-resident wavefront of the
// layout) that both compute units receive for one generation.
func (x *world) newWG() *kernels.WorkGroup {
	nw := len(x.waves)
	pkt := &kernels.HsaKernelDispatchPacket{WorkgroupSizeX: uint16(64 * nw), WorkgroupSizeY: 1, WorkgroupSizeZ: 1,
		GridSizeX: uint32(64 * nw), GridSizeY: 1, GridSizeZ: 1, KernelObject: progBase}
	wg := kernels.NewWorkGroup()
	wg.Packet = pkt
	wg.SizeX, wg.SizeY, wg.SizeZ = 64*nw, 1, 1
	wg.CurrSizeX, wg.CurrSizeY, wg.CurrSizeZ = 64*nw, 1, 1
	for w, wv := range x.waves {
		raw := kernels.NewWavefront()
		raw.CodeObject = &insts.KernelCodeObject{Version: insts.CodeObjectV3, KernelCodeObjectMeta: &insts.KernelCodeObjectMeta{
			WFSgprCount: uint16(wv.NSgpr), WIVgprCount: uint16(wv.NVgpr)}}
		raw.Packet = pkt
		raw.FirstWiFlatID = 64 * w
		raw.WG = wg
		raw.InitExecMask = ^uint64(0)
		wg.Wavefronts = append(wg.Wavefronts, raw)
	}
	wg.CodeObject = wg.Wavefronts[0].CodeObject
	return wg
}

// generation dispatches a new work-group to both compute units — the way the
// command processor does: emulation through MapWGReq (the compute unit builds
// its wavefront objects in initWfs), timing through a release of the previous
// occupants followed by WfDispatcher.DispatchWf on new wavefront objects at
// the same register-file offsets — and calls body while the wavefronts live.
func (x *world) generation(body func()) {
	wg := x.newWG()
	b := protocol.MapWGReqBuilder{}.WithSrc(sim.RemotePort("Dispatcher")).WithDst(x.ecu.ToDispatcher.AsRemote()).
		WithWG(wg).WithPID(1)
	for w, wv := range x.waves {
		b = b.AddWf(protocol.WfDispatchLocation{Wavefront: wg.Wavefronts[w], SIMDID: wv.SIMD, VGPROffset: wv.VOff, SGPROffset: wv.SOff})
	}
	req := b.Build()
	twg := wavefront.NewWorkGroup(wg, req)
	// timing side
	for _, old := range x.twf {
		cu.VerifResetRegisterValue(x.cu, old) // register release at the end of the previous occupant
	}
	x.twf = nil
	for w, wv := range x.waves {
		t := wavefront.NewWavefront(wg.Wavefronts[w])
		t.WG = twg
		twg.Wfs = append(twg.Wfs, t)
		t.RegAccessor = &cu.CURegFileAccessor{CU: x.cu, WF: t}
		x.cu.WfDispatcher.DispatchWf(t, protocol.WfDispatchLocation{
			Wavefront: wg.Wavefronts[w], SIMDID: wv.SIMD, VGPROffset: wv.VOff, SGPROffset: wv.SOff})
		x.twf = append(x.twf, t)
	}
	// emulation side
	x.ewf = nil
	ran := false
	x.alu.run = func(wf *emu.Wavefront) {
		if len(x.ewf) < len(x.waves) {
			x.ewf = append(x.ewf, wf) // first s_nop of each wavefront, in work-group order
			return
		}
		if !ran {
			ran = true
			body()
		}
	}
	if err := x.ecu.ToDispatcher.Deliver(req); err != nil {
		panic("emu CU did not accept the MapWGReq")
	}
	x.ecu.Tick()
	if err := x.engine.Run(); err != nil {
		panic(err)
	}
	for x.ecu.ToDispatcher.RetrieveOutgoing() != nil { // the completion message: the work-group is gone
	}
	if !ran {
		panic("the emulation compute unit did not run the work-group")
	}
	x.gen++
}

func le32(b []byte) uint32 { return binary.LittleEndian.Uint32(b) }

// fresh records what the newly dispatched wavefronts look like.
func (x *world) fresh() *Fresh {
	f := &Fresh{}
	for w, e := range x.ewf {
		d := FreshDump{Vcc: e.VCC(), Exec: e.EXEC(), Scc: uint64(e.SCC()), M0: uint64(e.M0), S: [][2]uint64{}, V: [][3]uint64{}, V0OK: true}
		for i := 0; i < 102; i++ {
			if v := e.SRegValue(i); v != 0 {
				if d.NS++; d.NS <= 64 {
					d.S = append(d.S, [2]uint64{uint64(i), uint64(v)})
				}
			}
		}
		for l := 0; l < 64; l++ {
			if e.VRegValue(l, 0) != uint32(64*w+l) {
				d.V0OK = false
			}
			for i := 1; i < 256; i++ {
				if v := e.VRegValue(l, i); v != 0 {
					if d.NV++; d.NV <= 64 {
						d.V = append(d.V, [3]uint64{uint64(l), uint64(i), uint64(v)})
					}
				}
			}
		}
		f.Emu = append(f.Emu, d)
	}
	for w, t := range x.twf {
		wv := x.waves[w]
		d := FreshDump{Vcc: t.VCC(), Exec: t.EXEC(), Scc: uint64(t.SCC()), M0: uint64(t.M0), S: [][2]uint64{}, V: [][3]uint64{}, V0OK: true}
		sb := make([]byte, 4*wv.NSgpr)
		x.cu.SRegFile.Read(cu.RegisterAccess{Reg: insts.SReg(0), RegCount: wv.NSgpr, WaveOffset: wv.SOff, Data: sb})
		for i := 0; i < wv.NSgpr; i++ {
			if v := le32(sb[4*i:]); v != 0 {
				if d.NS++; d.NS <= 64 {
					d.S = append(d.S, [2]uint64{uint64(i), uint64(v)})
				}
			}
		}
		vb := make([]byte, 4*wv.NVgpr)
		for l := 0; l < 64; l++ {
			x.cu.VRegFile[wv.SIMD].Read(cu.RegisterAccess{Reg: insts.VReg(0), RegCount: wv.NVgpr, LaneID: l, WaveOffset: wv.VOff, Data: vb})
			if le32(vb) != uint32(64*w+l) {
				d.V0OK = false
			}
			for i := 1; i < wv.NVgpr; i++ {
				if v := le32(vb[4*i:]); v != 0 {
					if d.NV++; d.NV <= 64 {
						d.V = append(d.V, [3]uint64{uint64(l), uint64(i), uint64(v)})
					}
				}
			}
		}
		f.Tim = append(f.Tim, d)
	}
	return f
}

// fill overwrites every register of both sides with the position-dependent
// pattern: the histories start from arbitrary contents.
func (x *world) fill() {
	waves := x.waves
	for w, e := range x.ewf {
		for a := range e.SRegFile {
			e.SRegFile[a] = pat(w+1, a)
		}
		for a := range e.VRegFile {
			e.VRegFile[a] = pat(w+11, a)
		}
		e.SetVCC(vcc0(w))
		e.SetEXEC(exec0(w))
		e.SetSCC(scc0(w))
		e.M0 = m00(w)
	}
	buf := make([]byte, sFileBytes)
	for a := range buf {
		buf[a] = sInit(waves, a)
	}
	fillFile(x.cu.SRegFile, insts.SReg(0), buf)
	for s := 0; s < numSIMD; s++ {
		vb := make([]byte, vFileBytes)
		for a := range vb {
			vb[a] = vInit(waves, s, a)
		}
		fillFile(x.cu.VRegFile[s], insts.VReg(0), vb)
	}
	for w, t := range x.twf {
		t.SetVCC(vcc0(w))
		t.SetEXEC(exec0(w))
		t.SetSCC(scc0(w))
		t.M0 = m00(w)
	}
}

// fillFile / readFile move a whole register file through the RegisterFile API:
// everything but the last dword in one access, the last dword — an access that
// ends exactly at the end of the file — in a second one.
func fillFile(f cu.RegisterFile, r0 *insts.Reg, data []byte) {
	n := len(data)
	f.Write(cu.RegisterAccess{Reg: r0, RegCount: n/4 - 1, Data: data[: n-4 : n-4]})
	f.Write(cu.RegisterAccess{Reg: r0, RegCount: 1, WaveOffset: n - 4, Data: data[n-4:]})
}

func readFile(f cu.RegisterFile, r0 *insts.Reg, n int) []byte {
	data := make([]byte, n)
	f.Read(cu.RegisterAccess{Reg: r0, RegCount: n/4 - 1, Data: data[: n-4 : n-4]})
	f.Read(cu.RegisterAccess{Reg: r0, RegCount: 1, WaveOffset: n - 4, Data: data[n-4:]})
	return data
}

var specialRegs = map[string]insts.RegType{
	"vcc": insts.VCC, "vcclo": insts.VCCLO, "vcchi": insts.VCCHI,
	"exec": insts.EXEC, "execlo": insts.EXECLO, "exechi": insts.EXECHI,
	"scc": insts.SCC, "m0": insts.M0,
}

func operand(a *Acc) *insts.Operand {
	switch a.Reg {
	case "s":
		return insts.NewSRegOperand(0, a.Idx, a.Cnt)
	case "v":
		return insts.NewVRegOperand(0, a.Idx, a.Cnt)
	}
	if t, ok := specialRegs[a.Reg]; ok {
		return insts.NewRegOperand(0, t, a.Cnt)
	}
	for t, r := range insts.Regs {
		if r.Name == a.Reg {
			return insts.NewRegOperand(0, t, a.Cnt)
		}
	}
	panic("unknown register " + a.Reg)
}

// ---------------------------------------------------------------- operands from the real decoder

var disasm = insts.NewDisassembler()

// kept alive like the instruction caches of the compute units keep decoded instructions
var decodedInsts []*insts.Inst

func decodeWords(words ...uint32) *insts.Inst {
	buf := make([]byte, 16)
	for i, w := range words {
		binary.LittleEndian.PutUint32(buf[4*i:], w)
	}
	inst, err := func() (i *insts.Inst, e error) {
		defer func() {
			if r := recover(); r != nil {
				i, e = nil, fmt.Errorf("panic")
			}
		}()
		return disasm.Decode(buf)
	}()
	if err != nil || inst == nil {
		return nil
	}
	if len(decodedInsts) < 4096 {
		decodedInsts = append(decodedInsts, inst)
	}
	return inst
}

// decodePrologue decodes what every kernel starts with before any 32-bit half
// of vcc/exec is named: 64-bit uses of the pairs.
func decodePrologue() {
	decodeWords(0xBE80010A | 106<<16)          // s_mov_b64 vcc, s[10:11]
	decodeWords(0xBE80010A | 126<<16)          // s_mov_b64 exec, s[10:11]
	decodeWords(0x86800000 | 106<<16 | 106<<8 | 126) // s_and_b64 vcc, exec, vcc
	decodeWords(0xBE802000 | 12<<16 | 106)     // s_and_saveexec_b64 s[12:13], vcc
	decodeWords(0xD1000005, 0x01A90300|0x6a<<18&0x07fc0000) // v_cndmask_b32_e64 v5, v0, v1, vcc
}

var specialCode = map[string]uint32{"vcclo": 106, "vcchi": 107, "m0": 124, "execlo": 126, "exechi": 127, "scc": 253}

// decoded returns the operand the real disassembler produces for an instruction
// that names the register of access a with the width a.Cnt stands for, or nil
// if no instruction of the ISA subset does.  The operand is used as it comes
// out of the decoder; if its RegCount is not the one the instruction's width
// implies this is recorded (and the access shows what the simulator would do).
func decoded(a *Acc, c *Case) *insts.Operand {
	var inst *insts.Inst
	var pick func(*insts.Inst) *insts.Operand
	dst := func(i *insts.Inst) *insts.Operand { return i.Dst }
	code, special := specialCode[a.Reg]
	switch {
	case a.Reg == "s" && a.Idx >= 0 && a.Idx <= 101:
		code = uint32(a.Idx)
	case special:
	case a.Reg == "v" && a.Idx >= 0 && a.Idx <= 255:
		switch a.Cnt {
		case 0:
			inst, pick = decodeWords(0x7E000300|uint32(a.Idx)<<17), dst // v_mov_b32 vN, v0
		case 1:
			inst, pick = decodeWords(0xD8000000|54<<17, uint32(a.Idx)<<24|0x01), dst // ds_read_b32 vN, v1
		case 2, 3, 4:
			inst, pick = decodeWords(0xDC000000|uint32(19+a.Cnt)<<18, uint32(a.Idx)<<24|0x02), dst // flat_load_dwordx2/3/4 v[N..], v[2:3]
		}
	default:
		return nil
	}
	if inst == nil && pick == nil {
		switch a.Cnt {
		case 0:
			if a.Reg == "scc" {
				inst, pick = decodeWords(0xBE800000|253), func(i *insts.Inst) *insts.Operand { return i.Src0 } // s_mov_b32 s0, scc
			} else {
				inst, pick = decodeWords(0xBE800000|code<<16|0x80), dst // s_mov_b32 <reg>, 0
			}
		case 2:
			inst, pick = decodeWords(0xBE800100|code<<16|0x80), dst // s_mov_b64 <reg pair>, 0
		case 1, 4, 8, 16:
			if a.Reg == "scc" {
				return nil
			}
			op := map[int]uint32{1: 0, 4: 2, 8: 3, 16: 4}[a.Cnt]
			inst, pick = decodeWords(0xC0020000|op<<18|code<<6, 0), func(i *insts.Inst) *insts.Operand { return i.Data } // s_load_dword{,x4,x8,x16} <reg>, s[0:1], 0x0
		}
	}
	if inst == nil || pick == nil {
		return nil
	}
	op := pick(inst)
	if op == nil || op.OperandType != insts.RegOperand || op.Register == nil {
		return nil
	}
	want := operand(a)
	if op.Register != want.Register {
		return nil // the word does not name this register (encoding not available): construct the operand instead
	}
	if op.RegCount != a.Cnt && !(op.RegCount <= 1 && a.Cnt <= 1) {
		if c != nil && len(c.DecoderCountDrift) < 8 {
			c.DecoderCountDrift = append(c.DecoderCountDrift, fmt.Sprintf("%s: operand %s has RegCount %d, the instruction's width says %d",
				inst.InstName, op.Register.Name, op.RegCount, a.Cnt))
		}
	}
	return op
}

type regState interface {
	ReadOperand(operand *insts.Operand, laneID int) uint64
	WriteOperand(operand *insts.Operand, laneID int, value uint64)
	ReadOperandBytes(operand *insts.Operand, laneID int, byteCount int) []byte
	WriteOperandBytes(operand *insts.Operand, laneID int, data []byte)
}

func toBytes(xs []int) []byte {
	b := make([]byte, len(xs))
	for i, x := range xs {
		b[i] = byte(x)
	}
	return b
}

func toInts(b []byte) []int {
	xs := make([]int, len(b))
	for i, x := range b {
		xs[i] = int(x)
	}
	return xs
}

func do(st regState, a *Acc, c *Case) (o *Obs, raw []byte) {
	o = &Obs{}
	defer func() {
		if r := recover(); r != nil {
			*o = Obs{Panic: true}
			raw = nil
		}
	}()
	if a.API == "sload" { // emulation counterpart of a scalar-load reply: the ALU writes the operand bytes
		st.WriteOperandBytes(insts.NewSRegOperand(0, a.Idx, len(a.Data)/4), 0, toBytes(a.Data))
		return o, nil
	}
	if a.API == "vload" {
		for k, lane := range a.Lanes {
			st.WriteOperandBytes(insts.NewVRegOperand(0, a.Idx, a.Cnt), lane, toBytes(a.Data[4*a.Cnt*k:4*a.Cnt*(k+1)]))
		}
		return o, nil
	}
	op := decoded(a, c) // the operand object the real disassembler attaches to an instruction naming this register
	if op == nil {
		op = operand(a) // shapes the decoder never produces (vcc/exec as register types, 3/8/16 dwords of VGPRs ...)
	}
	switch a.API {
	case "rb":
		raw = st.ReadOperandBytes(op, a.Lane, a.BC) // kept by the caller until the end of the history
		o.Bytes = toInts(raw)
		if o.Bytes == nil {
			o.Bytes = []int{}
		}
	case "wb":
		st.WriteOperandBytes(op, a.Lane, toBytes(a.Data))
	case "ru":
		v := st.ReadOperand(op, a.Lane)
		o.Val = &v
	case "wu":
		st.WriteOperand(op, a.Lane, a.Val)
	default:
		panic("bad api " + a.API)
	}
	return o, raw
}

// foreign runs the writers that reach the timing register files without the
// wavefront's accessor: the compute unit's real load-reply handlers.
func (x *world) foreign(a *Acc) (o *Obs) {
	o = &Obs{}
	defer func() {
		if r := recover(); r != nil {
			*o = Obs{Panic: true}
		}
	}()
	wf := x.twf[a.W]
	switch a.API {
	case "sload":
		req := mem.ReadReqBuilder{}.WithSrc(x.cu.ToScalarMem.AsRemote()).WithDst(sim.RemotePort("ScalarMem")).
			WithByteSize(uint64(len(a.Data))).Build()
		x.cu.InFlightScalarMemAccess = append(x.cu.InFlightScalarMemAccess, &cu.ScalarMemAccessInfo{
			Req: req, Wavefront: wf, DstSGPR: insts.SReg(a.Idx),
			Inst: wavefront.NewInst(&insts.Inst{Format: insts.FormatTable[insts.SMEM], InstType: &insts.InstType{InstName: "s_load_dword"}})})
		wf.OutstandingScalarMemAccess++
		rsp := mem.DataReadyRspBuilder{}.WithSrc(sim.RemotePort("ScalarMem")).WithDst(x.cu.ToScalarMem.AsRemote()).
			WithRspTo(req.ID).WithData(toBytes(a.Data)).Build()
		cu.VerifScalarLoadReturn(x.cu, rsp)
	case "vload":
		cu.VerifVectorLoadWriteBack(x.cu, wf, insts.VReg(a.Idx), a.Cnt, a.Lanes, toBytes(a.Data))
	}
	return o
}

func (x *world) reset(a *Acc) (o *Obs) {
	o = &Obs{}
	defer func() {
		if r := recover(); r != nil {
			*o = Obs{Panic: true}
		}
	}()
	cu.VerifResetRegisterValue(x.cu, x.twf[a.W])
	return o
}

func settle(o *Obs, raw []byte) {
	if o == nil || o.Panic || raw == nil {
		return
	}
	final := toInts(raw)
	same := len(final) == len(o.Bytes)
	for k := 0; same && k < len(final); k++ {
		same = final[k] == o.Bytes[k]
	}
	if !same {
		o.Mutated, o.First, o.Bytes = true, o.Bytes, final
	}
}

func (x *world) run(c *Case) {
	heldE := make([][]byte, len(c.Accs))
	heldT := make([][]byte, len(c.Accs))
	var segs [][2]int // index ranges of the wavefront generations; a "newgen" access sits between two of them
	start := 0
	for i := range c.Accs {
		if c.Accs[i].API == "newgen" {
			segs = append(segs, [2]int{start, i})
			start = i + 1
		}
	}
	segs = append(segs, [2]int{start, len(c.Accs)})
	for g, seg := range segs {
		g, seg := g, seg
		x.generation(func() {
			f := x.fresh()
			if g == 0 {
				c.Fresh0 = f
			} else {
				na := &c.Accs[seg[0]-1]
				na.Fresh, na.Emu, na.Tim, na.Side = f, &Obs{}, &Obs{}, "both"
			}
			x.fill()
			for i := seg[0]; i < seg[1]; i++ {
				a := &c.Accs[i]
				a.Emu, a.Tim = nil, nil
				if a.API == "reset" {
					a.Side = "timing"
					a.Tim = x.reset(a)
					continue
				}
				if a.Side != "timing" {
					a.Emu, heldE[i] = do(x.ewf[a.W], a, c)
				}
				if a.Side != "emu" {
					if a.API == "sload" || a.API == "vload" {
						a.Tim = x.foreign(a)
					} else {
						a.Tim, heldT[i] = do(x.twf[a.W], a, c)
					}
				}
			}
			// every answer is held by the caller until the wavefronts end: it must still be what was returned
			for i := seg[0]; i < seg[1]; i++ {
				settle(c.Accs[i].Emu, heldE[i])
				settle(c.Accs[i].Tim, heldT[i])
			}
			if g == len(segs)-1 {
				x.dump(c)
			}
		})
	}
}

func (x *world) dump(c *Case) {
	c.EmuEnd = nil
	for w, e := range x.ewf {
		d := EmuDump{S: [][2]uint64{}, V: [][3]uint64{}, Vcc: e.VCC(), Exec: e.EXEC(), Scc: uint64(e.SCC()), M0: uint64(e.M0)}
		for i := 0; i < 102; i++ {
			init := uint32(pat(w+1, 4*i)) | uint32(pat(w+1, 4*i+1))<<8 | uint32(pat(w+1, 4*i+2))<<16 | uint32(pat(w+1, 4*i+3))<<24
			if v := e.SRegValue(i); v != init {
				if d.NS++; d.NS <= dumpCap {
					d.S = append(d.S, [2]uint64{uint64(i), uint64(v)})
				}
			}
		}
		for l := 0; l < 64; l++ {
			for i := 0; i < 256; i++ {
				a := l*1024 + 4*i
				init := uint32(pat(w+11, a)) | uint32(pat(w+11, a+1))<<8 | uint32(pat(w+11, a+2))<<16 | uint32(pat(w+11, a+3))<<24
				if v := e.VRegValue(l, i); v != init {
					if d.NV++; d.NV <= dumpCap {
						d.V = append(d.V, [3]uint64{uint64(l), uint64(i), uint64(v)})
					}
				}
			}
		}
		c.EmuEnd = append(c.EmuEnd, d)
	}
	td := &TimDump{S: [][2]uint64{}, V: [][3]uint64{}}
	sb := readFile(x.cu.SRegFile, insts.SReg(0), sFileBytes)
	for a, b := range sb {
		if b != sInit(x.waves, a) {
			if td.NS++; td.NS <= dumpCap {
				td.S = append(td.S, [2]uint64{uint64(a), uint64(b)})
			}
		}
	}
	for s := 0; s < numSIMD; s++ {
		vb := readFile(x.cu.VRegFile[s], insts.VReg(0), vFileBytes)
		for a, b := range vb {
			if b != vInit(x.waves, s, a) {
				if td.NV++; td.NV <= dumpCap {
					td.V = append(td.V, [3]uint64{uint64(s), uint64(a), uint64(b)})
				}
			}
		}
	}
	for _, t := range x.twf {
		td.Vcc = append(td.Vcc, t.VCC())
		td.Exec = append(td.Exec, t.EXEC())
		td.Scc = append(td.Scc, uint64(t.SCC()))
		td.M0 = append(td.M0, uint64(t.M0))
	}
	c.TimEnd = td
}

// ---------------------------------------------------------------- Coq term

var coqReg = map[string]string{"vcc": "RVcc", "vcclo": "RVccLo", "vcchi": "RVccHi", "exec": "RExec",
	"execlo": "RExecLo", "exechi": "RExecHi", "scc": "RScc", "m0": "RM0"}

func coqRegOf(a *Acc) string {
	switch a.Reg {
	case "s":
		return fmt.Sprintf("(RS %d)", a.Idx)
	case "v":
		return fmt.Sprintf("(RV %d)", a.Idx)
	}
	if s, ok := coqReg[a.Reg]; ok {
		return s
	}
	return "ROther"
}

func coqObs(o *Obs) string {
	switch {
	case o == nil:
		return "ONone"
	case o.Panic:
		return "OPanic"
	case o.Val != nil:
		return fmt.Sprintf("(OVal %d)", *o.Val)
	case o.Bytes != nil:
		return "(OBytes " + vh.CoqBytes(toBytes(o.Bytes)) + ")"
	}
	return "ODone"
}

// coq emits one term per wavefront generation: every generation starts from the
// initial fill, so for the models it is a history of its own; only the last one
// carries the final storage dump.
func (c *Case) coq() []string {
	var out []string
	start := 0
	for i := 0; i <= len(c.Accs); i++ {
		if i == len(c.Accs) || c.Accs[i].API == "newgen" {
			out = append(out, c.coqGen(start, i, i == len(c.Accs)))
			start = i + 1
		}
	}
	return out
}

func (c *Case) coqGen(from, to int, last bool) string {
	var ws, as, es, ts []string
	for _, w := range c.Waves {
		ws = append(ws, fmt.Sprintf("mkWave %d %d %d %d %d", w.SOff, w.VOff, w.SIMD, w.NSgpr, w.NVgpr))
	}
	for i := from; i < to; i++ {
		a := &c.Accs[i]
		var api string
		switch a.API {
		case "rb":
			api = fmt.Sprintf("(ARead %d)", a.BC)
		case "wb":
			api = "(AWrite " + vh.CoqBytes(toBytes(a.Data)) + ")"
		case "ru":
			api = "AReadU"
		case "wu":
			api = fmt.Sprintf("(AWriteU %d)", a.Val)
		case "reset":
			api = "AReset"
		case "sload": // the reply handler calls SimpleRegisterFile.Write with RegCount = len(data)/4
			as = append(as, fmt.Sprintf("(mkAcc %d (AWrite %s) (RS %d) %d 0, %s, %s)", a.W, vh.CoqBytes(toBytes(a.Data)),
				a.Idx, len(a.Data)/4, coqObs(a.Emu), coqObs(a.Tim)))
			continue
		case "vload": // one register-file write per lane
			for k, lane := range a.Lanes {
				as = append(as, fmt.Sprintf("(mkAcc %d (AWrite %s) (RV %d) %d %d, %s, %s)", a.W,
					vh.CoqBytes(toBytes(a.Data[4*a.Cnt*k:4*a.Cnt*(k+1)])), a.Idx, a.Cnt, lane, coqObs(a.Emu), coqObs(a.Tim)))
			}
			continue
		}
		as = append(as, fmt.Sprintf("(mkAcc %d %s %s %d %d, %s, %s)", a.W, api, coqRegOf(a), a.Cnt, a.Lane, coqObs(a.Emu), coqObs(a.Tim)))
	}
	if !last {
		return fmt.Sprintf("mkCase %s %s [] ([], [], [])", vh.CoqList(ws), vh.CoqList(as))
	}
	for _, d := range c.EmuEnd {
		var ss, vs []string
		for _, p := range d.S {
			ss = append(ss, fmt.Sprintf("(%d,%d)", p[0], p[1]))
		}
		for _, p := range d.V {
			vs = append(vs, fmt.Sprintf("(%d,%d,%d)", p[0], p[1], p[2]))
		}
		es = append(es, fmt.Sprintf("(%s, %s, [%d; %d; %d; %d])", vh.CoqList(ss), vh.CoqList(vs), d.Vcc, d.Exec, d.Scc, d.M0))
	}
	var ss, vs []string
	for _, p := range c.TimEnd.S {
		ss = append(ss, fmt.Sprintf("(%d,%d)", p[0], p[1]))
	}
	for _, p := range c.TimEnd.V {
		vs = append(vs, fmt.Sprintf("(%d,%d,%d)", p[0], p[1], p[2]))
	}
	for w := range c.Waves {
		ts = append(ts, fmt.Sprintf("[%d; %d; %d; %d]", c.TimEnd.Vcc[w], c.TimEnd.Exec[w], c.TimEnd.Scc[w], c.TimEnd.M0[w]))
	}
	return fmt.Sprintf("mkCase %s %s %s (%s, %s, %s)", vh.CoqList(ws), vh.CoqList(as), vh.CoqList(es),
		vh.CoqList(ss), vh.CoqList(vs), vh.CoqList(ts))
}

// ---------------------------------------------------------------- generator

// fullWaves is the fixed core layout that fills the files exactly: four
// co-resident wavefronts of a 64-VGPR kernel on one SIMD (vector offsets
// 0/256/512/768: the last one ends at the last byte of every lane, lane 63 at
// the last byte of the file), the fourth one in the last 16-SGPR slot of the
// scalar file.
func fullWaves(r *vh.Rng) []Wave {
	simd := r.Intn(2)
	ws := make([]Wave, 4)
	sCur := 64 * r.Intn(4)
	for w := range ws {
		ns := []int{16, 32, 102}[r.Intn(3)]
		ws[w] = Wave{SOff: sCur, VOff: 256 * w, SIMD: simd, NSgpr: ns, NVgpr: 64}
		sCur += (4*ns + 63) / 64 * 64
	}
	ws[3].NSgpr = 16
	ws[3].SOff = sFileBytes - 64
	return ws
}

func genWaves(r *vh.Rng, small bool) []Wave {
	ws := make([]Wave, 3)
	sCur := 64 * r.Intn(8)
	vCur := [2]int{16 * r.Intn(4), 16 * r.Intn(4)}
	for w := range ws {
		ns := []int{16, 32, 48, 64, 96, 102, 102}[r.Intn(7)]
		nv := []int{4, 8, 12, 24, 40, 64, 80}[r.Intn(7)]
		if small { // histories with a register release: keep the zeroed area (and the dump) small
			nv = []int{1, 4, 6}[r.Intn(3)]
		}
		simd := r.Intn(2)
		if vCur[simd]+4*nv > laneBytes {
			simd = 1 - simd
		}
		if vCur[simd]+4*nv > laneBytes {
			nv = (laneBytes - vCur[simd]) / 4
		}
		ws[w] = Wave{SOff: sCur, VOff: vCur[simd], SIMD: simd, NSgpr: ns, NVgpr: nv}
		sCur += 4 * ns
		if r.Intn(3) == 0 { // allocation granularity gap (16 registers)
			sCur = (sCur + 63) / 64 * 64
		}
		vCur[simd] += 4 * nv
		if r.Intn(4) == 0 {
			vCur[simd] += 16
		}
	}
	// the scheduler may hand out the last wave of the file: put one wave at the very end sometimes
	if r.Intn(4) == 0 {
		ws[2].SOff = sFileBytes - 4*ws[2].NSgpr
	}
	if !small && r.Intn(4) == 0 { // ... and one whose vector allocation ends at the last byte of every lane
		if w := r.Intn(3); ws[w].VOff+4*ws[w].NVgpr >= vCur[ws[w].SIMD] {
			ws[w].VOff = laneBytes - 4*ws[w].NVgpr
		}
	}
	return ws
}

var sCounts = []int{0, 0, 1, 2, 2, 4, 8, 16, 3}
var vCounts = []int{0, 0, 1, 2, 2, 3, 4, 4, 8, 16}

func width(c int) int {
	if c < 1 {
		return 1
	}
	return c
}

func pickIdx(r *vh.Rng, n, wd int) int {
	if n < wd {
		return 0
	}
	switch r.Intn(4) {
	case 0:
		return 0
	case 1:
		return n - wd
	}
	return r.Intn(n - wd + 1)
}

func pickLane(r *vh.Rng) int {
	switch r.Intn(5) {
	case 0:
		return 0
	case 1:
		return 63
	}
	return r.Intn(64)
}

func randData(r *vh.Rng, n int) []int {
	d := make([]int, n)
	for i := range d {
		d[i] = 1 + r.Intn(255)
		if r.Intn(16) == 0 {
			d[i] = []int{0, 255, 128}[r.Intn(3)]
		}
	}
	return d
}

// a register designator with its width in bytes
func genTarget(r *vh.Rng, c *Case, a *Acc) int {
	wv := c.Waves[a.W]
	a.Side = "both"
	switch r.Pick(30, 34, 36) {
	case 0:
		a.Reg, a.Cnt = "s", sCounts[r.Intn(len(sCounts))]
		n := wv.NSgpr
		if r.Intn(6) == 0 && n < 102 {
			n, a.Side = 102, "emu"
		}
		a.Idx = pickIdx(r, n, width(a.Cnt))
		return 4 * width(a.Cnt)
	case 1:
		a.Reg, a.Cnt = "v", vCounts[r.Intn(len(vCounts))]
		n := wv.NVgpr
		if r.Intn(6) == 0 {
			n, a.Side = 256, "emu"
		}
		if n < width(a.Cnt) {
			a.Cnt = 0
		}
		a.Idx = pickIdx(r, n, width(a.Cnt))
		a.Lane = pickLane(r)
		return 4 * width(a.Cnt)
	}
	type sp struct {
		reg string
		cnt int
		wd  int
	}
	choices := []sp{{"vcclo", 0, 4}, {"vcclo", 1, 4}, {"vcclo", 2, 8}, {"vcchi", 0, 4}, {"vcchi", 1, 4}, {"vcc", 0, 8}, {"vcc", 1, 8},
		{"execlo", 0, 4}, {"execlo", 1, 4}, {"execlo", 2, 8}, {"exechi", 0, 4}, {"exechi", 1, 4}, {"exec", 0, 8}, {"exec", 1, 8},
		{"scc", 0, 1}, {"scc", 1, 1}, {"m0", 0, 4}, {"m0", 1, 4}}
	s := choices[r.Intn(len(choices))]
	a.Reg, a.Cnt = s.reg, s.cnt
	a.Lane = pickLane(r)
	return s.wd
}

var junkRegs = []string{"flatsratchlo", "flatsratchhi", "xnackmasklo", "xnackmaskhi", "tbalo", "tbahi", "tmalo", "tmahi",
	"timp0", "timp5", "timp10", "vccz", "execz", "pc", "status", "vmcnt"}

// operands outside the supported set: unsupported registers, widths that do
// not fit the register, indices running over the end of the file
func genJunk(r *vh.Rng, c *Case, a *Acc) int {
	wv := c.Waves[a.W]
	a.Side = "both"
	a.Lane = pickLane(r)
	switch r.Intn(5) {
	case 0:
		a.Reg, a.Cnt = junkRegs[r.Intn(len(junkRegs))], []int{0, 1, 2}[r.Intn(3)]
		return 4 * width(a.Cnt)
	case 1:
		a.Reg, a.Cnt = []string{"scc", "m0", "vcchi", "exechi", "vcc", "exec", "vcclo", "execlo"}[r.Intn(8)], []int{2, 2, 4, 16}[r.Intn(4)]
		if a.Reg == "vcclo" || a.Reg == "execlo" {
			a.Cnt = []int{4, 8, 3}[r.Intn(3)]
		}
		return 4 * a.Cnt
	case 2: // scalar operand running over the end of the 102 architectural SGPRs
		a.Reg, a.Cnt, a.Side = "s", []int{2, 4, 8, 16}[r.Intn(4)], "emu"
		a.Idx = 102 - a.Cnt + 1 + r.Intn(a.Cnt-1)
		return 4 * a.Cnt
	case 3: // vector operand running over v255 into the next lane
		a.Reg, a.Cnt, a.Side = "v", []int{2, 3, 4}[r.Intn(3)], "emu"
		a.Idx = 256 - a.Cnt + 1 + r.Intn(a.Cnt-1)
		if r.Bool() {
			a.Lane = 63
		}
		return 4 * a.Cnt
	}
	// operand reaching beyond the wavefront's allocation in the shared files
	if r.Bool() {
		a.Reg, a.Cnt, a.Side = "s", []int{0, 2, 4}[r.Intn(3)], "timing"
		a.Idx = wv.NSgpr - r.Intn(width(a.Cnt))
		if a.Idx+width(a.Cnt) > 102 {
			a.Idx = 102 - width(a.Cnt)
		}
		return 4 * width(a.Cnt)
	}
	a.Reg, a.Cnt, a.Side = "v", []int{0, 2, 4}[r.Intn(3)], "timing"
	a.Idx = wv.NVgpr - r.Intn(width(a.Cnt))
	if a.Idx < 0 {
		a.Idx = 0
	}
	return 4 * width(a.Cnt)
}

func genCase(r *vh.Rng, k int) *Case {
	c := &Case{Waves: genWaves(r, k%10 == 9), Hostile: k%8 == 7}
	if k%5 == 3 {
		c.Waves = fullWaves(r)
	}
	nw := len(c.Waves)
	n := 10 + r.Intn(51)
	resetAt := r.Intn(n)
	newgenAt, newgenAt2 := 3+r.Intn(n-3), -1
	if r.Intn(3) == 0 {
		newgenAt2 = 3 + r.Intn(n-3)
	}
	var written []Acc
	for i := 0; i < n; i++ {
		if k%4 == 2 && (i == newgenAt || i == newgenAt2) && i > 0 {
			// the wavefronts end (release) and the compute units receive a new work-group at the same offsets
			c.Accs = append(c.Accs, Acc{API: "newgen", Side: "both"})
			written = nil
			continue
		}
		a := Acc{W: r.Intn(nw)}
		var wd int
		if !c.Hostile && r.Intn(100) < 9 {
			// writers that reach the timing register files behind the accessor's back:
			// scalar- and vector-load replies (the emulator writes the operand instead)
			wv := c.Waves[a.W]
			a.Side = "both"
			if r.Bool() {
				cnt := []int{1, 2, 2, 4, 8, 16}[r.Intn(6)]
				if cnt > wv.NSgpr {
					cnt = 1
				}
				a.API, a.Reg, a.Idx, a.Cnt = "sload", "s", pickIdx(r, wv.NSgpr, cnt), cnt
				a.Data = randData(r, 4*cnt)
				probe := Acc{W: a.W, Side: "both", API: []string{"ru", "rb"}[r.Intn(2)], Reg: "s", Idx: a.Idx, Cnt: cnt, BC: 4 * cnt}
				if cnt == 1 {
					probe.Cnt = r.Intn(2)
				}
				if r.Intn(4) > 0 { // the operand is read, overwritten by the reply, and read again (pointer chasing)
					c.Accs = append(c.Accs, probe)
					c.Accs = append(c.Accs, a)
					c.Accs = append(c.Accs, probe)
				} else {
					c.Accs = append(c.Accs, a)
				}
			} else {
				cnt := []int{1, 1, 2, 3, 4}[r.Intn(5)]
				if cnt > wv.NVgpr {
					cnt = 1
				}
				a.API, a.Reg, a.Idx, a.Cnt = "vload", "v", pickIdx(r, wv.NVgpr, cnt), cnt
				if r.Intn(6) == 0 {
					for l := 0; l < 64; l++ {
						a.Lanes = append(a.Lanes, l)
					}
				} else {
					seen := map[int]bool{}
					for j := 1 + r.Intn(8); j > 0; j-- {
						l := pickLane(r)
						if !seen[l] {
							seen[l] = true
							a.Lanes = append(a.Lanes, l)
						}
					}
					sort.Ints(a.Lanes)
				}
				a.Lane = a.Lanes[r.Intn(len(a.Lanes))]
				a.Data = randData(r, 4*cnt*len(a.Lanes))
				c.Accs = append(c.Accs, a)
			}
			written = append(written, Acc{W: a.W, Side: "both", Reg: a.Reg, Idx: a.Idx, Cnt: a.Cnt, Lane: a.Lane})
			continue
		}
		junk := c.Hostile && r.Intn(4) == 0
		isRead := r.Intn(100) < 55
		if !junk && isRead && len(written) > 0 && r.Intn(100) < 60 {
			// read back something that was written: same operand, a part of it,
			// a neighbour, the same designator in another lane or wavefront
			p := written[len(written)-1-r.Intn(min(len(written), 6))]
			a.W, a.Side, a.Reg, a.Idx, a.Cnt, a.Lane = p.W, p.Side, p.Reg, p.Idx, p.Cnt, p.Lane
			wd = 4 * width(a.Cnt)
			switch r.Intn(8) {
			case 0:
				if a.Reg == "s" || a.Reg == "v" {
					sub := r.Intn(width(p.Cnt))
					a.Idx, a.Cnt = p.Idx+sub, []int{0, 1}[r.Intn(2)]
					wd = 4
				}
			case 1:
				if (a.Reg == "s" || a.Reg == "v") && p.Idx > 0 {
					a.Idx, a.Cnt, wd = p.Idx-1, 2, 8
				}
			case 2:
				if a.Reg == "v" {
					a.Lane = (p.Lane + 1 + 62*r.Intn(2)) % 64
				}
			case 3:
				w2 := (p.W + 1 + r.Intn(nw-1)) % nw
				lim := c.Waves[w2].NSgpr
				if a.Reg == "v" {
					lim = c.Waves[w2].NVgpr
				}
				if (a.Reg != "s" && a.Reg != "v") || a.Idx+width(a.Cnt) <= lim || a.Side == "emu" {
					a.W = w2
				}
			case 4:
				switch a.Reg {
				case "vcclo", "vcchi", "vcc":
					a.Reg, a.Cnt, wd = []string{"vcclo", "vcchi", "vcclo", "vcc"}[r.Intn(4)], r.Intn(2), 4
				case "execlo", "exechi", "exec":
					a.Reg, a.Cnt, wd = []string{"execlo", "exechi", "execlo", "exec"}[r.Intn(4)], r.Intn(2), 4
				}
				if a.Reg == "vcc" || a.Reg == "exec" {
					wd = 8
				} else if (a.Reg == "vcclo" || a.Reg == "execlo") && r.Bool() {
					a.Cnt, wd = 2, 8
				}
			}
			if a.Reg == "scc" {
				wd = 1
			}
			if a.Reg == "vcc" || a.Reg == "exec" {
				wd = 8
			}
		} else if junk {
			wd = genJunk(r, c, &a)
		} else {
			wd = genTarget(r, c, &a)
		}
		if isRead {
			if r.Intn(100) < 35 {
				a.API = "ru"
			} else {
				a.API, a.BC = "rb", wd
				if r.Intn(10) == 0 {
					a.BC = []int{1, 2, 4, 8, 64}[r.Intn(5)]
				}
			}
		} else {
			if r.Intn(100) < 30 && wd <= 8 {
				a.API, a.Val = "wu", r.U64()
				if r.Intn(8) == 0 {
					a.Val = []uint64{0, ^uint64(0), 0xAAAAAAAA, 1 << 63}[r.Intn(4)]
				}
			} else {
				a.API, a.Data = "wb", randData(r, wd)
				if r.Intn(10) == 0 {
					// data longer than the operand: the surplus must be ignored. A 32-bit half of
					// vcc/exec handed 8 or more bytes is written as a pair by the timing store
					// (outside the theorems): only in the hostile stream.
					extra := 1 + r.Intn(8)
					half := a.Reg == "vcchi" || a.Reg == "exechi" || ((a.Reg == "vcclo" || a.Reg == "execlo") && a.Cnt <= 1)
					if half && !c.Hostile {
						extra = 1 + r.Intn(3)
					}
					a.Data = append(a.Data, randData(r, extra)...)
				}
			}
			if !junk {
				written = append(written, a)
			}
		}
		if k%10 == 9 && i == resetAt {
			// register release at wavefront end (timing only; the emulator has no counterpart)
			a = Acc{W: a.W, API: "reset", Side: "timing"}
		}
		c.Accs = append(c.Accs, a)
	}
	return c
}

// ---------------------------------------------------------------- decoder shapes

// shapes lists every (register, RegCount) pair found in instructions decoded
// by the real disassembler from words that sweep the operand fields of
// SOP1/SOP2/VOP1/VOP3a/SMEM/FLAT/DS encodings.
func shapes() [][2]string {
	d := insts.NewDisassembler()
	seen := map[string]bool{}
	add := func(o *insts.Operand) {
		if o == nil || o.OperandType != insts.RegOperand || o.Register == nil {
			return
		}
		n := o.Register.Name
		if o.Register.IsSReg() {
			n = "s"
		} else if o.Register.IsVReg() {
			n = "v"
		}
		seen[fmt.Sprintf("%s %d", n, o.RegCount)] = true
	}
	try := func(words ...uint32) {
		buf := make([]byte, 16)
		for i, w := range words {
			binary.LittleEndian.PutUint32(buf[4*i:], w)
		}
		inst, err := func() (i *insts.Inst, e error) {
			defer func() {
				if r := recover(); r != nil {
					i, e = nil, fmt.Errorf("panic")
				}
			}()
			return d.Decode(buf)
		}()
		if err != nil || inst == nil {
			return
		}
		for _, o := range []*insts.Operand{inst.Src0, inst.Src1, inst.Src2, inst.Dst, inst.SDst, inst.Addr, inst.Data, inst.Data1, inst.Base, inst.Offset} {
			add(o)
		}
	}
	for code := uint32(0); code < 256; code++ {
		for _, op := range []uint32{0, 1} { // s_mov_b32 / s_mov_b64: source and destination sweep
			try(0xBE800000 | op<<8 | code)
			try(0xBE800000 | (code&0x7f)<<16 | op<<8 | 0x80)
		}
		for _, op := range []uint32{0, 1, 12, 13} { // s_add_u32, s_sub_u32, s_and_b32, s_and_b64
			try(0x80000000 | op<<23 | code<<8 | 0x80)
		}
		for _, op := range []uint32{0, 1, 2, 3, 4} { // s_load_dword .. x16
			try(0xC0000000|op<<18|(code&0x7f)<<6|1<<17, 0)
		}
	}
	for code := uint32(0); code < 512; code++ {
		try(0x7E000200 | code)                         // v_mov_b32 v0, src
		try(0x7E000000 | 3<<9 | code)                  // v_cvt_i32_f64 v0, src (64-bit source)
		try(0x7E000200 | (code&0xff)<<17 | 0x100)      // v_mov_b32 vN, v0
		try(0xD1000000|(code&0xff), 0x01A90300|0)      // v_cndmask_b32_e64
		try(0xD1000000, code|0x100<<9|0x6a<<18)        // v_cndmask_b32_e64 src0 sweep, vcc mask
		try(0xD1000000, 0x100|0x101<<9|(code&0xff)<<18) // mask operand sweep
		try(0xD2800000|(code&0xff), 0x100|0x102<<9)    // v_add_f64-class (64-bit VOP3a) dst sweep
	}
	for _, op := range []uint32{20, 21, 22, 23, 28, 29, 30, 31} { // flat loads / stores dword .. x4
		try(0xDC000000|op<<18, 0x01000200)
	}
	for _, op := range []uint32{13, 54, 55, 77, 78, 118, 119, 254, 255, 222, 223} { // ds write/read b32..b128
		try(0xD8000000|op<<17, 0x01020304)
	}
	var out [][2]string
	for k := range seen {
		p := strings.Split(k, " ")
		out = append(out, [2]string{p[0], p[1]})
	}
	sort.Slice(out, func(i, j int) bool {
		if out[i][0] != out[j][0] {
			return out[i][0] < out[j][0]
		}
		return len(out[i][1]) < len(out[j][1]) || (len(out[i][1]) == len(out[j][1]) && out[i][1] < out[j][1])
	})
	return out
}

// aliasing decodes pairs of instructions that name the same register and
// checks that the operand objects of one instruction are its own: not the
// same object as another instruction's, and not changed by decoding (or by
// patching the RegCount of) another instruction.
func aliasing() []string {
	var out []string
	note := func(f string, a ...interface{}) {
		if len(out) < 12 {
			out = append(out, fmt.Sprintf(f, a...))
		}
	}
	ops := func(i *insts.Inst) []*insts.Operand {
		return []*insts.Operand{i.Src0, i.Src1, i.Src2, i.Dst, i.SDst, i.Addr, i.Data, i.Data1, i.Base, i.Offset}
	}
	for code := uint32(0); code < 128; code++ {
		if code > 8 && code < 100 {
			continue
		}
		a := decodeWords(0xBE800000 | code<<16 | 0x80) // s_mov_b32 <code>, 0
		if a == nil || a.Dst == nil || a.Dst.OperandType != insts.RegOperand {
			continue
		}
		name, cnt := a.Dst.Register.Name, a.Dst.RegCount
		b := decodeWords(0xBE800100 | code<<16 | 0x80) // s_mov_b64 <code>, 0   (64-bit use of the same operand code)
		c := decodeWords(0xBE800000 | code<<16 | 0x80)
		if a.Dst.RegCount != cnt {
			note("s_mov_b32 %s, 0: RegCount of its destination operand changed from %d to %d when s_mov_b64 with the same operand code was decoded", name, cnt, a.Dst.RegCount)
		}
		if c != nil && c.Dst != nil && c.Dst.RegCount != cnt {
			note("s_mov_b32 %s, 0 decoded after s_mov_b64 of the same operand code: destination RegCount %d instead of %d", name, c.Dst.RegCount, cnt)
		}
		for _, other := range []*insts.Inst{b, c} {
			if other == nil {
				continue
			}
			for _, o := range ops(other) {
				if o != nil && o == a.Dst {
					note("operand object of %s is shared between two decoded instructions", name)
				}
			}
		}
		if c != nil && c.Dst != nil && c.Dst != a.Dst {
			old := a.Dst.RegCount
			c.Dst.RegCount = 7
			if a.Dst.RegCount != old {
				note("mutating the operand %s of one instruction changes another instruction", name)
			}
			c.Dst.RegCount = old
		}
	}
	for _, code := range []uint32{106, 126, 253, 124, 4} { // as sources
		a := decodeWords(0xBE800000 | 5<<16 | code)
		b := decodeWords(0xBE800100 | 6<<16 | code)
		if a != nil && b != nil && a.Src0 != nil && a.Src0 == b.Src0 {
			note("source operand object (code %d) is shared between two decoded instructions", code)
		}
		if a != nil && a.Src0 != nil && a.Src0.OperandType == insts.RegOperand && a.Src0.RegCount > 1 {
			note("s_mov_b32 s5, <code %d>: source RegCount %d after a 64-bit use was decoded", code, a.Src0.RegCount)
		}
	}
	return out
}

// ---------------------------------------------------------------- main

func main() {
	seed := flag.Uint64("seed", 1, "seed")
	n := flag.Int("n", 100, "number of generated cases")
	out := flag.String("out", "", "output file")
	replay := flag.String("replay", "", "JSON list of cases to run instead of generating")
	doShapes := flag.Bool("shapes", false, "print the (register, RegCount) shapes the disassembler produces")
	flag.Parse()
	decodePrologue()
	log.SetOutput(io.Discard) // log.Panicf of the register stores is observed through recover

	if *doShapes {
		// table consistency the models rely on
		if insts.Regs[insts.VCCLO].Name != "vcclo" || insts.Regs[insts.VCCHI].Name != "vcchi" {
			fmt.Fprintln(os.Stderr, "register table: names of VCCLO/VCCHI changed")
			os.Exit(3)
		}
		sizes := map[string]int{}
		for _, r := range insts.Regs {
			n := r.Name
			if r.IsSReg() {
				n = "s"
			} else if r.IsVReg() {
				n = "v"
			}
			if old, ok := sizes[n]; ok && old != r.ByteSize {
				fmt.Fprintln(os.Stderr, "register table: mixed byte sizes for", n)
				os.Exit(3)
			}
			sizes[n] = r.ByteSize
		}
		sh := shapes()
		al := aliasing()
		if al == nil {
			al = []string{}
		}
		b, _ := json.Marshal(map[string]interface{}{"shapes": sh, "bytesize": sizes, "aliasing": al})
		writeOut(*out, b)
		return
	}

	var cases []*Case
	if *replay != "" {
		raw, err := os.ReadFile(*replay)
		if err != nil {
			fmt.Fprintln(os.Stderr, err)
			os.Exit(2)
		}
		if err := json.Unmarshal(raw, &cases); err != nil {
			fmt.Fprintln(os.Stderr, err)
			os.Exit(2)
		}
	} else {
		root := vh.NewRng(*seed)
		for k := 0; k < *n; k++ {
			cases = append(cases, genCase(root.Fork(), k))
		}
	}
	for _, c := range cases {
		newWorld(c.Waves).run(c)
		c.Coq = c.coq()
	}
	b, _ := json.Marshal(cases)
	writeOut(*out, b)
}

func writeOut(path string, b []byte) {
	if path == "" {
		os.Stdout.Write(b)
		return
	}
	if err := os.WriteFile(path, b, 0o644); err != nil {
		fmt.Fprintln(os.Stderr, err)
		os.Exit(2)
	}
}
