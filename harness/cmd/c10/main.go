// Command c10 drives a real, standalone driver.Driver (no simulation is run)
// with generated or replayed histories of memory-management API calls issued
// by several processes and records what the public API and the page table
// show after every call.
package main

import (
	"encoding/json"
	"flag"
	"fmt"
	"os"
	"sort"
	"strings"

	"github.com/sarchlab/akita/v4/mem/vm"
	"github.com/sarchlab/akita/v4/sim"
	"github.com/sarchlab/mgpusim/v4/amd/driver"

	"verifharness/vh"
)

const maxFreeShown = 128

// Op is one API call in replayable form plus what was observed.
type Op struct {
	Op  string `json:"op"` // init initpid unify select alloc allocu free remap dist mig rmfreed
	C   int    `json:"c"`
	N   uint64 `json:"n,omitempty"`
	A   uint64 `json:"a,omitempty"`
	D   int    `json:"d,omitempty"`
	IDs []int  `json:"ids,omitempty"`
	// observations (recomputed on replay)
	Valid bool     `json:"valid"` // the call respects the documented preconditions and device capacity
	Skip  bool     `json:"skip,omitempty"`
	Ret   []uint64 `json:"ret"`
	Crash string   `json:"crash,omitempty"`
	Snap  *Snap    `json:"snap,omitempty"`
}

type DevSnap struct {
	Base  uint64   `json:"base"`
	Size  uint64   `json:"size"`
	NFree int      `json:"nfree"`
	Free  []uint64 `json:"free"` // first maxFreeShown entries, hand-out order
}

// Snap is the page table over every (process, touched virtual page) and the
// device free lists.
type Snap struct {
	Pages [][]uint64 `json:"pages"` // pid va pa dev unified ok(valid && pagesize)
	Devs  []DevSnap  `json:"devs"`
	Bufs  [][]uint64 `json:"bufs"` // per context: ptr size freed ...
}

type Case struct {
	LPS     uint64   `json:"lps"`
	Buddy   bool     `json:"buddy"`
	GPUs    []uint64 `json:"gpus"` // pages per GPU
	Hostile bool     `json:"hostile"`
	Large   bool     `json:"large,omitempty"`
	Ops     []Op     `json:"ops"`
	Coq     string   `json:"coq"`
}

type buf struct {
	pid    uint64
	ptr    uint64
	npages uint64
	freed  bool
}

type runner struct {
	d     *driver.Driver
	pt    vm.PageTable
	ps    uint64
	buddy bool
	ctxs  []*driver.Context
	pids  []uint64
	cur   []int
	bufs  []buf
	maxVA uint64
	kinds []int // 0 cpu 1 gpu 2 unified
	memb  [][]int
}

func newRunner(lps uint64, buddy bool, gpus []uint64) *runner {
	driver.VerifResetPIDs()
	driver.VerifUseBuddyAllocator(buddy)
	r := &runner{ps: 1 << lps, buddy: buddy}
	r.pt = vm.NewPageTable(lps)
	r.d = driver.MakeBuilder().
		WithEngine(sim.NewSerialEngine()).
		WithFreq(1 * sim.GHz).
		WithPageTable(r.pt).
		WithLog2PageSize(lps).
		Build("Driver")
	r.kinds = []int{0}
	r.memb = [][]int{nil}
	for i, n := range gpus {
		port := sim.NewPort(nil, 1, 1, fmt.Sprintf("GPU%d.CP", i+1))
		r.d.RegisterGPU(port, driver.DeviceProperties{CUCount: 4, DRAMSize: n * r.ps})
		r.kinds = append(r.kinds, 1)
		r.memb = append(r.memb, nil)
	}
	driver.VerifUseBuddyAllocator(false)
	r.maxVA = 2 * r.ps
	return r
}

// freePages: number of free pages on a non-unified device.
func (r *runner) freePages(dev int) uint64 {
	return uint64(driver.VerifNumFreePages(r.d, dev))
}

func (r *runner) pagesOf(n uint64) uint64 { return (n-1)/r.ps + 1 }

// liveRange reports whether every page of [a, a+np*ps) belongs to a live
// buffer of process pid.
func (r *runner) liveRange(pid, a, np uint64) bool {
	if a%r.ps != 0 {
		return false
	}
	for i := uint64(0); i < np; i++ {
		va := a + i*r.ps
		ok := false
		for _, b := range r.bufs {
			if b.pid == pid && !b.freed && va >= b.ptr && va < b.ptr+b.npages*r.ps {
				ok = true
			}
		}
		if !ok {
			return false
		}
	}
	return true
}

func (r *runner) actualGPU(id int) bool { return id >= 0 && id < len(r.kinds) && r.kinds[id] == 1 }

// capacity: can `np` pages certainly be taken from device dev with the call
// pattern `multi` (allocateMultiplePages) or one by one?  Conservative.
func (r *runner) capacity(dev int, np uint64, multi bool) bool {
	if dev < 0 || dev >= len(r.kinds) {
		return false
	}
	need := np
	if need == 0 {
		need = 1
	}
	if r.kinds[dev] != 2 {
		return r.freePages(dev) >= need
	}
	if multi {
		for _, m := range r.memb[dev] {
			if r.freePages(m) < need {
				return false
			}
		}
		return true
	}
	var sum uint64
	for _, m := range r.memb[dev] {
		sum += r.freePages(m)
	}
	return sum >= need
}

func (r *runner) valid(o *Op) bool {
	if r.buddy {
		// the buddy allocator works in 4 KiB pages and whole blocks only
		if r.ps != 4096 {
			return false
		}
	}
	switch o.Op {
	case "init", "initpid", "rmfreed":
		return true
	case "unify":
		if len(o.IDs) == 0 {
			return false
		}
		for _, id := range o.IDs {
			if !r.actualGPU(id) {
				return false
			}
		}
		return true
	case "select":
		return o.D >= 0 && o.D < len(r.kinds)
	case "alloc":
		if r.buddy {
			return false // whether a block of the right size exists is not a question of capacity
		}
		return o.N > 0 && o.N < 1<<40 && r.capacity(r.cur[o.C], r.pagesOf(o.N), false)
	case "allocu":
		return o.N > 0 && o.N < 1<<40 && r.capacity(1, r.pagesOf(o.N), false)
	case "free":
		for _, b := range r.bufs {
			if b.pid == r.pids[o.C] && b.ptr == o.A && !b.freed {
				return true
			}
		}
		return false
	case "remap":
		if o.N == 0 || o.N >= 1<<40 || r.buddy {
			return false // buddy: whether a block of the right size exists is not a question of capacity
		}
		np := r.pagesOf(o.N)
		return r.liveRange(r.pids[o.C], o.A, np) && r.capacity(o.D, np, true)
	case "dist":
		if o.N == 0 || o.N >= 1<<40 || len(o.IDs) == 0 {
			return false
		}
		np := r.pagesOf(o.N)
		if !r.liveRange(r.pids[o.C], o.A, np) {
			return false
		}
		for _, id := range o.IDs {
			if !r.actualGPU(id) || !r.capacity(id, np, true) {
				return false
			}
		}
		return true
	case "mig":
		return r.liveRange(r.pids[o.C], o.A, 1) && o.D >= 0 && r.capacity(o.D+1, 1, false)
	}
	return false
}

func (r *runner) snapshot() *Snap {
	s := &Snap{Pages: [][]uint64{}}
	seen := map[uint64]bool{}
	var pids []uint64
	for _, p := range r.pids {
		if !seen[p] {
			seen[p] = true
			pids = append(pids, p)
		}
	}
	sort.Slice(pids, func(i, j int) bool { return pids[i] < pids[j] })
	for _, pid := range pids {
		for va := uint64(0); va <= r.maxVA; va += r.ps {
			pg, ok := r.pt.Find(vm.PID(pid), va)
			if !ok {
				continue
			}
			u, good := uint64(0), uint64(0)
			if pg.Unified {
				u = 1
			}
			if pg.Valid && pg.PageSize == r.ps && uint64(pg.PID) == pid && pg.VAddr == va {
				good = 1
			}
			s.Pages = append(s.Pages, []uint64{pid, va, pg.PAddr, pg.DeviceID, u, good})
		}
	}
	for dev := 0; dev < driver.VerifNumDevices(r.d); dev++ {
		base, size := driver.VerifDeviceRange(r.d, dev)
		l := driver.VerifFreePAddrs(r.d, dev, maxFreeShown)
		s.Devs = append(s.Devs, DevSnap{Base: base, Size: size, NFree: driver.VerifNumFree(r.d, dev), Free: l})
	}
	for _, c := range r.ctxs {
		row := []uint64{}
		for _, b := range driver.VerifC10Buffers(c) {
			f := uint64(0)
			if b.Freed {
				f = 1
			}
			row = append(row, b.Ptr, b.Size, f)
		}
		s.Bufs = append(s.Bufs, row)
	}
	return s
}

func (r *runner) touch(a, n uint64) {
	if a+n+r.ps > r.maxVA && a+n < 1<<44 {
		r.maxVA = a + n + r.ps
	}
}

// apply executes one call on the real driver; returns true if it panicked.
func (r *runner) apply(o *Op) (crashed bool) {
	o.Ret, o.Crash, o.Skip, o.Snap = []uint64{}, "", false, nil
	needCtx := o.Op != "init" && o.Op != "unify"
	if needCtx && (o.C < 0 || o.C >= len(r.ctxs)) {
		o.Skip, o.Valid = true, false
		o.Snap = r.snapshot()
		return false
	}
	o.Valid = r.valid(o)
	defer func() {
		if e := recover(); e != nil {
			o.Crash = fmt.Sprint(e)
			crashed = true
		}
		o.Snap = r.snapshot()
	}()
	switch o.Op {
	case "init":
		c := r.d.Init()
		r.ctxs = append(r.ctxs, c)
		r.pids = append(r.pids, driver.VerifC10PID(c))
		r.cur = append(r.cur, 1)
		o.Ret = []uint64{driver.VerifC10PID(c)}
	case "initpid":
		c := r.d.InitWithExistingPID(r.ctxs[o.C])
		r.ctxs = append(r.ctxs, c)
		r.pids = append(r.pids, driver.VerifC10PID(c))
		r.cur = append(r.cur, 1)
		o.Ret = []uint64{driver.VerifC10PID(c)}
	case "unify":
		id := r.d.CreateUnifiedGPU(nil, append([]int{}, o.IDs...))
		r.kinds = append(r.kinds, 2)
		r.memb = append(r.memb, append([]int{}, o.IDs...))
		o.Ret = []uint64{uint64(id)}
	case "select":
		r.d.SelectGPU(r.ctxs[o.C], o.D)
		r.cur[o.C] = o.D
	case "alloc", "allocu":
		var p driver.Ptr
		if o.Op == "alloc" {
			p = r.d.AllocateMemory(r.ctxs[o.C], o.N)
		} else {
			p = r.d.AllocateUnifiedMemory(r.ctxs[o.C], o.N)
		}
		o.Ret = []uint64{uint64(p)}
		r.bufs = append(r.bufs, buf{pid: r.pids[o.C], ptr: uint64(p), npages: r.pagesOf(o.N)})
		r.touch(uint64(p), r.pagesOf(o.N)*r.ps)
	case "free":
		r.touch(o.A, r.ps)
		_ = r.d.FreeMemory(r.ctxs[o.C], driver.Ptr(o.A))
		for i := range r.bufs {
			if r.bufs[i].pid == r.pids[o.C] && r.bufs[i].ptr == o.A && !r.bufs[i].freed {
				r.bufs[i].freed = true
				break
			}
		}
	case "remap":
		r.touch(o.A, o.N)
		r.d.Remap(r.ctxs[o.C], o.A, o.N, o.D)
	case "dist":
		r.touch(o.A, o.N)
		o.Ret = r.d.Distribute(r.ctxs[o.C], driver.Ptr(o.A), o.N, append([]int{}, o.IDs...))
	case "mig":
		r.touch(o.A, r.ps)
		n, old := driver.VerifPreparePageForMigration(r.d, r.ctxs[o.C], o.A, uint64(o.D))
		o.Ret = []uint64{n, old}
	case "rmfreed":
		driver.VerifRemoveFreedBuffers(r.ctxs[o.C])
	default:
		panic("unknown op " + o.Op)
	}
	return false
}

// ---------------------------------------------------------------- generation

func (r *runner) liveBufs(pid uint64) []buf {
	var out []buf
	for _, b := range r.bufs {
		if b.pid == pid && !b.freed {
			out = append(out, b)
		}
	}
	return out
}

func pickIDs(rng *vh.Rng, pool []int, k int) []int {
	p := append([]int{}, pool...)
	var out []int
	for i := 0; i < k && len(p) > 0; i++ {
		j := rng.Intn(len(p))
		out = append(out, p[j])
		p = append(p[:j], p[j+1:]...)
	}
	return out
}

func (r *runner) gpuIDs() []int {
	var out []int
	for i, k := range r.kinds {
		if k == 1 {
			out = append(out, i)
		}
	}
	return out
}

// size draws a request size around the boundaries that matter: multiples of
// the configured page size and multiples of 4 KiB (the granule that is
// hard-wired in the buddy allocator and easily leaks into shared code), each
// exact, one byte below, one byte above, and half a page.
func (r *runner) size(rng *vh.Rng, maxPages int) uint64 {
	np := uint64(1 + rng.Intn(maxPages))
	const granule = 4096
	var n uint64
	switch rng.Intn(10) {
	case 0:
		n = np * r.ps // whole pages
	case 1:
		n = (np-1)*r.ps + 1 // one byte into the last page
	case 2:
		n = np*r.ps - 1 // one byte short of whole pages
	case 3:
		n = (np-1)*r.ps + r.ps/2 // half a page
	case 4, 5:
		// a multiple of 4 KiB that need not be a multiple of the page size
		n = uint64(1+rng.Intn(int(np*r.ps/granule))) * granule
	case 6:
		n = uint64(1+rng.Intn(int(np*r.ps/granule)))*granule + 1
	case 7:
		n = uint64(1+rng.Intn(int(np*r.ps/granule)))*granule - 1
	default:
		n = (np-1)*r.ps + 1 + uint64(rng.Intn(int(r.ps)))
	}
	if n == 0 {
		n = 1
	}
	return n
}

// generateLarge: a short history around large buffers (2 MiB - 1 page, 2 MiB,
// 2 MiB + 1 byte, 4 MiB + delta, rarely 64 MiB) mixed with small allocations of
// the same and of another process, frees, re-allocations, remaps.
func generateLarge(rng *vh.Rng) Case {
	c := Case{Large: true}
	c.LPS = []uint64{12, 13, 14, 16, 21}[rng.Intn(5)]
	ps := uint64(1) << c.LPS
	const MiB = 1 << 20
	largeSize := func() uint64 {
		switch rng.Intn(9) {
		case 0:
			if 2*MiB > ps {
				return 2*MiB - ps
			}
			return 2 * MiB
		case 1, 2:
			return 2 * MiB
		case 3:
			return 2*MiB + 1
		case 4:
			return 2*MiB + ps
		case 5, 6:
			return 4*MiB + uint64(rng.Intn(3))*ps + uint64(rng.Intn(2))
		case 7:
			if c.LPS >= 16 {
				return 64 * MiB
			}
			return 3 * MiB
		default:
			return 2*MiB - 1
		}
	}
	sizes := []uint64{largeSize(), largeSize(), largeSize()}
	if c.LPS == 12 {
		// 4 KiB pages: two large buffers are enough (512+ pages each; the model is quadratic in the table size)
		sizes = sizes[:2]
	}
	var total uint64
	for _, n := range sizes {
		total += (n-1)/ps + 1
	}
	ng := 1 + rng.Intn(2)
	for i := 0; i < ng; i++ {
		c.GPUs = append(c.GPUs, total+80)
	}
	r := newRunner(c.LPS, false, c.GPUs)
	add := func(o Op) bool {
		crashed := r.apply(&o)
		c.Ops = append(c.Ops, o)
		return crashed
	}
	small := func(ci int) Op { return Op{Op: "alloc", C: ci, N: r.size(rng, 3)} }
	add(Op{Op: "init"})
	if rng.Bool() {
		add(Op{Op: "init"})
	} else {
		add(Op{Op: "initpid", C: 0})
	}
	type lb struct {
		c   int
		ptr uint64
		n   uint64
	}
	var bigs []lb
	script := []int{0, 1, 0, 2, 1, 0, 3, 0, 1, 4, 0, 5, 1, 0}
	si := 0
	for _, k := range script {
		ci := rng.Intn(2)
		var o Op
		switch k {
		case 0: // small allocation of either context
			o = small(ci)
		case 1: // large allocation
			if si >= len(sizes) {
				continue
			}
			o = Op{Op: "alloc", C: ci, N: sizes[si]}
			if rng.Intn(4) == 0 {
				o.Op = "allocu"
			}
			si++
		case 2, 4: // free a large buffer
			if len(bigs) == 0 {
				continue
			}
			j := rng.Intn(len(bigs))
			o = Op{Op: "free", C: bigs[j].c, A: bigs[j].ptr}
			bigs = append(bigs[:j], bigs[j+1:]...)
		case 3: // remap a few pages in the middle of a large buffer
			if len(bigs) == 0 {
				continue
			}
			b := bigs[rng.Intn(len(bigs))]
			np := (b.n-1)/ps + 1
			first := uint64(rng.Intn(int(np)))
			cnt := uint64(1 + rng.Intn(3))
			if first+cnt > np {
				cnt = np - first
			}
			o = Op{Op: "remap", C: b.c, A: b.ptr + first*ps, N: cnt * ps, D: 1 + rng.Intn(ng)}
		case 5: // distribute a large buffer over the GPUs
			if len(bigs) == 0 || ng < 2 {
				continue
			}
			b := bigs[rng.Intn(len(bigs))]
			o = Op{Op: "dist", C: b.c, A: b.ptr, N: b.n, IDs: []int{1, 2}}
		}
		if o.Op == "alloc" && !r.valid(&o) {
			continue
		}
		if add(o) {
			break
		}
		last := &c.Ops[len(c.Ops)-1]
		if k == 1 && len(last.Ret) == 1 {
			bigs = append(bigs, lb{c: ci, ptr: last.Ret[0], n: last.N})
		}
	}
	c.Coq = caseCoq(&c)
	return c
}

func generate(rng *vh.Rng, hostile bool, buddy bool) Case {
	c := Case{Hostile: hostile, Buddy: buddy}
	// page sizes 2^12 .. 2^16 and 2 MiB
	c.LPS = []uint64{12, 13, 14, 15, 16, 13, 14, 16, 21}[rng.Intn(9)]
	if buddy {
		c.LPS = 12
	}
	ng := 1 + rng.Intn(4)
	if buddy {
		ng = 1
	}
	for i := 0; i < ng; i++ {
		n := uint64(16 + rng.Intn(49))
		if rng.Intn(4) == 0 {
			n = uint64(2 + rng.Intn(7)) // tiny device: capacity edges
		}
		if buddy {
			n = 1 << uint(1+rng.Intn(5))
		}
		c.GPUs = append(c.GPUs, n)
	}
	r := newRunner(c.LPS, buddy, c.GPUs)
	nops := 20 + rng.Intn(61)
	add := func(o Op) bool {
		crashed := r.apply(&o)
		c.Ops = append(c.Ops, o)
		return crashed
	}
	add(Op{Op: "init"})
	np := rng.Intn(3)
	for i := 0; i < np; i++ {
		if rng.Intn(3) == 0 {
			add(Op{Op: "initpid", C: rng.Intn(len(r.ctxs))})
		} else {
			add(Op{Op: "init"})
		}
	}
	for len(c.Ops) < nops {
		ci := rng.Intn(len(r.ctxs))
		pid := r.pids[ci]
		live := r.liveBufs(pid)
		var o Op
		k := rng.Pick(30, 8, 22, 10, 8, 6, 8, 3, 3, 2)
		if buddy {
			// device-level histories: allocations and frees on the one GPU
			k = rng.Pick(50, 0, 38, 12)
		}
		switch k {
		case 0:
			o = Op{Op: "alloc", C: ci, N: r.size(rng, 5)}
		case 1:
			o = Op{Op: "allocu", C: ci, N: r.size(rng, 3)}
		case 2:
			if len(live) == 0 {
				continue
			}
			o = Op{Op: "free", C: ci, A: live[rng.Intn(len(live))].ptr}
		case 3, 4:
			if len(live) == 0 {
				continue
			}
			b := live[rng.Intn(len(live))]
			first := uint64(rng.Intn(int(b.npages)))
			cnt := 1 + uint64(rng.Intn(int(b.npages-first)))
			if rng.Bool() {
				first, cnt = 0, b.npages
			}
			a := b.ptr + first*r.ps
			n := cnt * r.ps
			if rng.Intn(3) == 0 {
				n -= uint64(rng.Intn(int(r.ps)))
			}
			if k == 3 {
				o = Op{Op: "remap", C: ci, A: a, N: n, D: rng.Intn(len(r.kinds))}
				if buddy {
					o.D = 1
				}
			} else {
				g := r.gpuIDs()
				o = Op{Op: "dist", C: ci, A: a, N: n, IDs: pickIDs(rng, g, 1+rng.Intn(len(g)))}
			}
		case 5:
			if len(live) == 0 {
				continue
			}
			b := live[rng.Intn(len(live))]
			g := r.gpuIDs()
			o = Op{Op: "mig", C: ci, A: b.ptr + uint64(rng.Intn(int(b.npages)))*r.ps, D: g[rng.Intn(len(g))] - 1}
		case 6:
			o = Op{Op: "select", C: ci, D: rng.Intn(len(r.kinds))}
		case 7:
			o = Op{Op: "rmfreed", C: ci}
		case 8:
			g := r.gpuIDs()
			o = Op{Op: "unify", IDs: pickIDs(rng, g, 1+rng.Intn(len(g)))}
		case 9:
			if rng.Bool() {
				o = Op{Op: "init"}
			} else {
				o = Op{Op: "initpid", C: ci}
			}
		}
		if hostile && rng.Intn(6) == 0 {
			// calls outside the contract: must never corrupt anything silently
			switch rng.Intn(6) {
			case 0:
				if len(r.bufs) > 0 {
					o = Op{Op: "free", C: ci, A: r.bufs[rng.Intn(len(r.bufs))].ptr} // maybe freed, maybe foreign
				}
			case 1:
				if len(live) > 0 {
					o = Op{Op: "free", C: ci, A: live[rng.Intn(len(live))].ptr + r.ps} // middle of a buffer
				}
			case 2:
				o = Op{Op: "alloc", C: ci, N: uint64(40+rng.Intn(40)) * r.ps} // beyond capacity of a GPU
			case 3:
				o = Op{Op: "remap", C: ci, A: r.maxVA + 4*r.ps, N: r.ps, D: 1} // unmapped range
			case 4:
				o = Op{Op: "select", C: ci, D: len(r.kinds) + rng.Intn(2)}
			case 5:
				o = Op{Op: "unify", IDs: []int{0}}
			}
		} else if !hostile && !buddy {
			// the valid stream stays inside the contract
			probe := o
			if !r.valid(&probe) {
				if rng.Intn(8) != 0 || true {
					// try something else; bounded by the loop's op budget
					nops--
					continue
				}
			}
		}
		if add(o) {
			break
		}
	}
	c.Coq = caseCoq(&c)
	return c
}

func replay(in Case) Case {
	out := Case{LPS: in.LPS, Buddy: in.Buddy, GPUs: in.GPUs, Hostile: in.Hostile, Large: in.Large}
	r := newRunner(in.LPS, in.Buddy, in.GPUs)
	for _, o := range in.Ops {
		n := Op{Op: o.Op, C: o.C, N: o.N, A: o.A, D: o.D, IDs: o.IDs}
		crashed := r.apply(&n)
		out.Ops = append(out.Ops, n)
		if crashed {
			break
		}
	}
	out.Coq = caseCoq(&out)
	return out
}

// ---------------------------------------------------------------- Coq terms

func coqInts(xs []int) string {
	u := make([]uint64, len(xs))
	for i, x := range xs {
		u[i] = uint64(x)
	}
	return vh.CoqNList(u)
}

func opCoq(o *Op) string {
	var ev string
	switch o.Op {
	case "init":
		ev = "OInit"
	case "initpid":
		ev = fmt.Sprintf("OInitPid %d", o.C)
	case "unify":
		ev = "OUnify " + coqInts(o.IDs)
	case "select":
		ev = fmt.Sprintf("OSelect %d %d", o.C, o.D)
	case "alloc":
		ev = fmt.Sprintf("OAlloc %d %d", o.C, o.N)
	case "allocu":
		ev = fmt.Sprintf("OAllocU %d %d", o.C, o.N)
	case "free":
		ev = fmt.Sprintf("OFree %d %d", o.C, o.A)
	case "remap":
		ev = fmt.Sprintf("ORemap %d %d %d %d", o.C, o.A, o.N, o.D)
	case "dist":
		ev = fmt.Sprintf("ODist %d %d %d %s", o.C, o.A, o.N, coqInts(o.IDs))
	case "mig":
		ev = fmt.Sprintf("OMig %d %d %d", o.C, o.A, o.D)
	case "rmfreed":
		ev = fmt.Sprintf("ORmFreed %d", o.C)
	}
	ob := "ORet " + vh.CoqNList(o.Ret)
	if o.Crash != "" {
		ob = "OCrash"
	}
	live := 0
	if o.Snap != nil {
		live = len(o.Snap.Pages)
	}
	return fmt.Sprintf("(%s, %s, %d)", ev, ob, live)
}

// buddyCoq: the device-level trace of a buddy-allocator history (one GPU):
// every allocation with the physical pages it produced, every free with the
// physical pages of the buffer, in order.
func buddyCoq(c *Case) string {
	ps := uint64(1) << c.LPS
	type key struct{ pid, ptr uint64 }
	sizes := map[key]uint64{}
	var pids []uint64
	var items []string
	base := uint64(0)
	pasOf := func(sn *Snap, pid, va, np uint64) []uint64 {
		var pas []uint64
		for j := uint64(0); j < np; j++ {
			for _, p := range sn.Pages {
				if p[0] == pid && p[1] == va+j*ps {
					pas = append(pas, p[2])
				}
			}
		}
		return pas
	}
	for i := range c.Ops {
		o := &c.Ops[i]
		if o.Snap != nil && len(o.Snap.Devs) > 1 {
			base = o.Snap.Devs[1].Base
		}
		if o.Crash != "" || o.Skip {
			break
		}
		switch o.Op {
		case "init", "initpid":
			pids = append(pids, o.Ret[0])
		case "alloc":
			// Allocate takes its pages one by one (Device.allocatePage)
			np := (o.N-1)/ps + 1
			for _, pa := range pasOf(o.Snap, pids[o.C], o.Ret[0], np) {
				items = append(items, fmt.Sprintf("(BAlloc 1, [%d])", pa))
			}
			sizes[key{pids[o.C], o.Ret[0]}] = np
		case "remap":
			// Remap takes them with one allocateMultiplePages call
			np := (o.N-1)/ps + 1
			items = append(items, fmt.Sprintf("(BAlloc %d, %s)", np, vh.CoqNList(pasOf(o.Snap, pids[o.C], o.A, np))))
			if i > 0 {
				// ... and then gives the previous pages of the range back, page by page
				items = append(items, fmt.Sprintf("(BFree %s, [])", vh.CoqNList(pasOf(c.Ops[i-1].Snap, pids[o.C], o.A, np))))
			}
		case "free":
			k := key{pids[o.C], o.A}
			if i > 0 {
				items = append(items, fmt.Sprintf("(BFree %s, [])", vh.CoqNList(pasOf(c.Ops[i-1].Snap, k.pid, k.ptr, sizes[k]))))
			}
			delete(sizes, k)
		}
	}
	return fmt.Sprintf("mkBCase %d %d\n [%s]", base, c.GPUs[0], strings.Join(items, ";\n  "))
}

func caseCoq(c *Case) string {
	if c.Buddy {
		return buddyCoq(c)
	}
	items := make([]string, len(c.Ops))
	for i := range c.Ops {
		items[i] = opCoq(&c.Ops[i])
	}
	pages, devs, bufs := "[]", "[]", "[]"
	if n := len(c.Ops); n > 0 && c.Ops[n-1].Snap != nil {
		s := c.Ops[n-1].Snap
		ps := make([]string, len(s.Pages))
		for i, p := range s.Pages {
			ps[i] = fmt.Sprintf("(%d, %d, %d, %d, %s)", p[0], p[1], p[2], p[3], vh.CoqBool(p[4] == 1))
		}
		pages = vh.CoqList(ps)
		ds := make([]string, len(s.Devs))
		for i, d := range s.Devs {
			ds[i] = fmt.Sprintf("(%d, %d, %d, %s)", d.Base, d.Size, d.NFree, vh.CoqNList(d.Free))
		}
		devs = vh.CoqList(ds)
		bs := make([]string, len(s.Bufs))
		for i, b := range s.Bufs {
			bs[i] = vh.CoqNList(b)
		}
		bufs = vh.CoqList(bs)
	}
	return fmt.Sprintf("mkCase %d %s %s\n [%s]\n %s\n %s\n %s", c.LPS, vh.CoqBool(c.Buddy), vh.CoqNList(c.GPUs),
		strings.Join(items, ";\n  "), pages, devs, bufs)
}

func main() {
	seed := flag.Uint64("seed", 1, "seed")
	n := flag.Int("n", 100, "number of histories")
	hostileEvery := flag.Int("hostile-every", 5, "every k-th history uses the hostile stream")
	buddyEvery := flag.Int("buddy-every", 0, "every k-th history uses the buddy allocator (0: never)")
	largeEvery := flag.Int("large-every", 0, "every k-th history is a short history around large (>= 2 MiB) buffers (0: never)")
	out := flag.String("out", "", "output JSON file")
	rep := flag.String("replay", "", "JSON file with cases to replay")
	flag.Parse()

	var cases []Case
	if *rep != "" {
		data, err := os.ReadFile(*rep)
		if err != nil {
			panic(err)
		}
		var in []Case
		if err := json.Unmarshal(data, &in); err != nil {
			panic(err)
		}
		for _, c := range in {
			cases = append(cases, replay(c))
		}
	} else {
		rng := vh.NewRng(*seed)
		for i := 0; i < *n; i++ {
			buddy := *buddyEvery > 0 && i%*buddyEvery == *buddyEvery-1
			hostile := !buddy && *hostileEvery > 0 && i%*hostileEvery == *hostileEvery-1
			if *largeEvery > 0 && i%*largeEvery == *largeEvery-2 {
				cases = append(cases, generateLarge(rng.Fork()))
				continue
			}
			cases = append(cases, generate(rng.Fork(), hostile, buddy))
		}
	}
	data, _ := json.Marshal(cases)
	if *out == "" {
		os.Stdout.Write(data)
	} else if err := os.WriteFile(*out, data, 0o644); err != nil {
		panic(err)
	}
}
